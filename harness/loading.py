"""Correspondence and oracles for `spowtd load` (C10, C11)."""

import os

from . import cli
from .common import f2h, h2f, Fraction

_N = [0]


class Triple:
    """Three source files as (epoch, value) rows (UTC epochs; rendered in `tz` when written)."""

    def __init__(self, rain, et, level, note=""):
        self.rain, self.et, self.level, self.note = rain, et, level, note

    def describe(self):
        return {"rain": self.rain, "et": self.et, "level": self.level, "note": self.note}


def gen_triple(rng, malformed=None, long=False):
    dt = rng.choice([600, 1200, 1800, 3600, 600, 1200, 1800, 3600, 300, 10800, 86400, 172800, 30, 90, 10])
    t0 = (rng.randint(631152000, 1893456000) // dt) * dt
    nr = rng.randint(3, 40) if not long else rng.randint(1200, 2500)
    outage = None
    if dt >= 10800 and not long and rng.random() < 0.8:
        # an instrument outage of more than a year in a coarse record (a funding gap, a lost logger)
        outage = rng.randint(367, 800) * 86400
        nr += outage // dt
    rain_ep = [t0 + i * dt for i in range(nr)]
    kind = rng.choice(["same", "same", "half", "double", "odd", "unaligned"])
    if kind == "same":
        dz, off = dt, 0
    elif kind == "half":
        dz, off = dt // 2, 0
    elif kind == "double":
        dz, off = dt * 2, 0
    elif kind == "odd":
        dz, off = rng.choice([700, 900, 1500, 2100, 420]), rng.choice([0, 60, 300])
    else:
        dz, off = dt, rng.choice([60, 300, dt // 2, dt - 60])
    # level record starts/ends before, at or after the rainfall record
    zs = t0 + off + rng.choice([-3, -1, 0, 0, 1, 2, 5]) * dz
    span = rng.randint(2 * dt, (nr + 3) * dt) if outage is None else (nr + 2) * dt
    nz = max(3, span // dz)
    lev_ep = [zs + i * dz for i in range(nz)]
    if outage is not None and nz > 12:
        a = rng.randint(3, 8)
        lev_ep = [e for i, e in enumerate(lev_ep) if i < a or lev_ep[i] - lev_ep[a] > outage]
        nz = len(lev_ep)
    # gaps: drop ranges of samples (possibly leaving single isolated samples)
    removed = set()
    for _ in range(rng.choice([0, 0, 1, 1, 2, 3, 5])):
        a = rng.randint(1, max(1, nz - 2))
        b = min(nz - 1, a + rng.randint(1, 4))
        removed |= set(range(a, b))
    lev_ep = [e for i, e in enumerate(lev_ep) if i not in removed]
    if rng.random() < 0.5:
        vals = [rng.randint(-4000, 2000) / 8.0 for _ in lev_ep]
    else:
        vals = [rng.uniform(-500, 100) for _ in lev_ep]
    rain = [(e, rng.choice([0.0, 0.0, 0.5, 2.0, 7.25, rng.uniform(0, 30)])) for e in rain_ep]
    et_ep = [t0 + i * dt for i in range(-2, nr + 3)]
    et = [(e, rng.choice([0.0, 0.125, rng.uniform(0, 0.6)])) for e in et_ep]
    level = list(zip(lev_ep, vals))
    note = "dt=%d level step=%d off=%d gaps=%d%s" % (dt, dz, off, len(removed), " outage=%dd" % (outage // 86400) if outage else "")
    if malformed == "nonuniform":
        # perturb one rainfall timestamp inside the water-level span, or drop one
        inside = [i for i, e in enumerate(rain_ep) if lev_ep[0] <= e <= lev_ep[-1]]
        if len(inside) >= 3:
            i = rng.choice(inside[1:-1]) if len(inside) > 2 else inside[0]
            if rng.random() < 0.5:
                rain[i] = (rain[i][0] + rng.choice([1, 60, -60, dt // 2]), rain[i][1])
            else:
                del rain[i]
            note += " malformed=nonuniform"
    elif malformed == "no_et":
        inside = [e for e in rain_ep if lev_ep[0] <= e <= lev_ep[-1]]
        if len(inside) >= 2:
            grid = inside + [inside[-1] + dt]
            g = rng.choice(grid)
            how = rng.choice(["dropped", "dropped", "restamped"])
            if how == "restamped" and g != grid[-1]:
                # the reading is there but stamped late (03:30 for 03:00): as many rows as before inside the span of
                # the grid, none of them at the grid instant
                late = g + rng.choice([dt // 2, dt // 3, 1, dt - 1])
                et = [(late, r[1]) if r[0] == g else r for r in et if r[0] != late]
            else:
                et = [r for r in et if r[0] != g]
            note += " malformed=no_et at %d (%s)" % (g, how)
    if rng.random() < 0.4:
        rng.shuffle(rain)
        rng.shuffle(et)
        rng.shuffle(level)
        note += " shuffled"
    return Triple(rain, et, level, note)


def write_triple(ctx, tr, name):
    return cli.write_dataset(ctx.tmp, name, tr.rain, tr.et, tr.level)


def run_load(ctx, tr, tz="UTC", second_load=False):
    _N[0] += 1
    name = "l%d" % _N[0]
    files = write_triple(ctx, tr, name)
    db = ctx.scratch(name + ".sqlite3")
    res = {"load": cli.load(db, files, tz)}
    if second_load:
        res["first"] = res["load"]
        before = cli.dump(db)
        import sqlite3
        con = sqlite3.connect(db)
        res["had_tables"] = bool(con.execute("SELECT count(*) FROM sqlite_master WHERE type='table'").fetchone()[0])
        con.close()
        res["load"] = cli.load(db, files, tz)
        res["unchanged_by_second_load"] = cli.dump(db) == before
    res["tables"] = cli.dump(db, ["time_grid", "grid_time", "rainfall_intensity", "evapotranspiration", "water_level"])
    for p in list(files) + [db]:
        try:
            os.remove(p)
        except OSError:
            pass
    return res


def run_load_subprocess(ctx, tr, extra_env, tz="UTC"):
    """`spowtd load` on the triple in a fresh interpreter with the given environment (e.g. PYTHONOPTIMIZE=1:
    assert statements are stripped, as with `python -O`); returns (status, number of evapotranspiration and rainfall rows)"""
    _N[0] += 1
    name = "s%d" % _N[0]
    files = write_triple(ctx, tr, name)
    db = ctx.scratch(name + ".sqlite3")
    st = cli.run_subprocess(["load", db, "-p", files[0], "-e", files[1], "-z", files[2], "--timezone", tz], extra_env)
    t = cli.dump(db, ["rainfall_intensity", "evapotranspiration"])
    for p in list(files) + [db]:
        try:
            os.remove(p)
        except OSError:
            pass
    return st, t


def impl_outcome(r):
    if r[0] == "ok":
        return "ok"
    if r[0] == "error":
        msg = r[2]
        if r[1] == "ValueError" and "already populated" in msg:
            return "populated"
        if r[1] == "ValueError" and "Nonuniform time steps" in msg:
            return "nonuniform"
        if r[1] == "ValueError" and "No ET data" in msg:
            return "no_et"
        if r[1] == "IntegrityError":
            return "duplicate"
        return "other(%s: %s)" % (r[1], msg[:80])
    return "other(%r)" % (r,)


def model_load(ctx, tr, carrier="f", populated=False):
    enc = (lambda v: f2h(v)) if carrier == "f" else (lambda v: str(Fraction(v)))
    payload = {k: [[e, enc(v)] for e, v in getattr(tr, k)] for k in ("rain", "et", "level")}
    payload["populated"] = populated
    return ctx.driver.call("load." + carrier, payload)


def compare_load(res, mf, mq):
    """Differences between the implementation's tables and the model (Float: structure and, where
    bit-equal, values; Rat: values within 1e-9)."""
    diffs = []
    io = impl_outcome(res["load"])
    if io != mf["outcome"]:
        return ["outcome impl=%s model=%s" % (io, mf["outcome"])]
    if io != "ok":
        return []
    t = res["tables"]
    if t["time_grid"][0][0] != mf["step"]:
        diffs.append("time step")
    if [list(r) for r in t["grid_time"]] != mf["grid"]:
        diffs.append("grid_time rows/labels")
    for name, key in (("rainfall_intensity", "rain"), ("evapotranspiration", "et")):
        if [[a, b, f2h(v)] for a, b, v in t[name]] != mf[key]:
            diffs.append(name)
    if [r[0] for r in t["water_level"]] != [r[0] for r in mf["level"]]:
        diffs.append("water_level instants")
    else:
        for (e, v), (_e, mv), (_e2, qv) in zip(t["water_level"], mf["level"], mq["level"]):
            q = Fraction(qv)
            if abs(Fraction(v) - q) > Fraction(1, 10**9) * max(1, abs(q)):
                diffs.append("water_level value at %d" % e)
                break
    return diffs


def oracle_c10(tr, res):
    """C10's own predicate, from the source rows with exact arithmetic (no model involved)."""
    t = res["tables"]
    name = "c10Holds"

    def bad(**w):
        return {"name": name, "result": False, "witness": w}
    zt = sorted(tr.level)
    zmin, zmax = zt[0][0], zt[-1][0]
    core = sorted(e for e, _ in tr.rain if zmin <= e <= zmax)
    grid = [r[0] for r in t["grid_time"]]
    if len(core) < 2:
        return bad(why="fewer than two rainfall timestamps inside the water-level span were accepted")
    dt = core[1] - core[0]
    if grid != core + [core[-1] + dt]:
        return bad(why="grid is not the rainfall timestamps within the water-level span plus one closing instant",
                   grid=grid[:5] + ["..."] + grid[-3:], expected_first=core[:3], expected_last=core[-1] + dt)
    if any(b - a != dt for a, b in zip(grid, grid[1:])) or t["time_grid"][0][0] != dt:
        return bad(why="grid not uniform")
    for table, src, label in ((t["rainfall_intensity"], dict(tr.rain), "rainfall"), (t["evapotranspiration"], dict(tr.et), "ET")):
        want = [[e, e + dt, src.get(e)] for e in core]
        if [list(r) for r in table] != want:
            return bad(why="%s on a grid step differs from the source value for that step" % label,
                       got=[list(r) for r in table][:6], expected=want[:6])
    steps = [b[0] - a[0] for a, b in zip(zt, zt[1:])]
    mstep = min(steps)
    gaps = [(a[0], b[0]) for a, b in zip(zt, zt[1:]) if b[0] - a[0] > mstep]
    lev = dict((e, v) for e, v in t["water_level"])
    labels = dict((e, l) for e, l in t["grid_time"])
    for g in core:
        in_gap = any(a < g < b for a, b in gaps)
        if in_gap:
            if g in lev:
                return bad(why="water level produced strictly inside a gap of the source record", instant=g)
            continue
        if g not in lev:
            return bad(why="no water level at a grid instant that is not inside a gap", instant=g)
        # bracketing adjacent source measurements
        j = max(i for i in range(len(zt)) if zt[i][0] <= g)
        if zt[j][0] == g:
            want = Fraction(zt[j][1])
        else:
            (x0, y0), (x1, y1) = zt[j], zt[j + 1]
            want = Fraction(y0) + (Fraction(y1) - Fraction(y0)) * Fraction(g - x0, x1 - x0)
        if abs(Fraction(lev[g]) - want) > Fraction(1, 10**9) * max(1, abs(want)):
            return bad(why="water level is not the linear interpolation of the two adjacent source measurements",
                       instant=g, got=lev[g], expected=float(want))
    if set(lev) - set(core):
        return bad(why="water level at an instant outside the grid", instants=sorted(set(lev) - set(core))[:3])
    have = [g for g in core if g in lev]
    for g, h in zip(have, have[1:]):
        separated = any(g <= a and b <= h for a, b in gaps)
        if labels[g] is None or labels[h] is None:
            return bad(why="instant with a level but without a label", instant=g)
        if separated and labels[g] == labels[h]:
            return bad(why="stretches separated by a gap carry the same label", instants=[g, h])
        if not separated and labels[g] != labels[h]:
            return bad(why="one gap-free stretch carries two labels", instants=[g, h])
    return {"name": name, "result": True}
