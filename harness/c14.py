"""C14 — spline specific yield interpolates its knots and integrates consistently."""
import numpy as np

from . import common, hyd
from .common import f2h, h2f

THEOREMS = [
    "Spowtd.evalExt_const_outside",
    "Spowtd.integrate_is_area",
    "Spowtd.integrate_additive",
    "Spowtd.integrate_antisymm",
    "Spowtd.integrate_nonneg",
]
TRUSTED_BASE = [
    "Lean 4.33 kernel; axioms propext, Classical.choice, Quot.sound only (audited per theorem on every run)",
    "FITPACK splrep(k=3, s=0)/splev/splint: the theorems take the evaluator `inner` and the integrator `splint` as "
    "parameters under the contract: inner continuous; splint lo hi = integral of inner for xmin <= lo <= hi <= xmax; "
    "splint lo xmax = 0 for lo >= xmax (spline taken as zero outside its knots). The contract is spot-checked each run "
    "(knot interpolation, splint against quad of splev) but not proved",
    "Lean runtime Float operations: the glue of Spline.integrate is executed on the values FITPACK returned during the "
    "real call and must reproduce the result bit for bit",
    "scipy.integrate.quad as independent integrator for the property's own clause (1e-8)",
    "translator tools/gen_formulas.py: the arithmetic of the named source functions (an expression, or a whole body of assignments, if and return) as Python's own `ast` parses it -> Lean terms over the carrier class in lean/FormulaTie/Gen*.lean; that each is the model's definition is re-checked by `rfl` / a short unfolding on every run (lean/FormulaTie/*.lean)",
]
FORMULA_TIE = ('Spline',)
ASSUMPTIONS = ["strictly increasing knots, at least 4; finite values"]
RULE = ("4-12 strictly increasing knots with random spacing and values x limit pairs from {far below, straddling the "
        "low end, inside, straddling the high end, far above, equal, reversed, on a knot}; FITPACK's returned values "
        "are recorded during specific_yield.integrate and fed to the model integrateExt at Float (bit-equality); "
        "non-trivial = limits not both inside the knot range; distinct by (knots, limits)")


_GL = np.polynomial.legendre.leggauss(6)


def area_by_pieces(sy, knots, a, b):
    """Area under the function between a and b by an integrator that owes nothing to FITPACK: between consecutive
    knots the function is a cubic (constant outside the knots), which 6-point Gauss-Legendre integrates exactly up to
    rounding; an adaptive rule across the kinks of the third derivative is only good to 1e-7."""
    if a == b:
        return 0.0
    lo, hi = min(a, b), max(a, b)
    cuts = [lo] + [float(k) for k in knots if lo < k < hi] + [hi]
    total = 0.0
    for c0, c1 in zip(cuts, cuts[1:]):
        mid, half = 0.5 * (c0 + c1), 0.5 * (c1 - c0)
        total += half * float(np.sum(_GL[1] * np.array([float(sy(mid + half * t)) for t in _GL[0]])))
    return total if a < b else -total


def run(ctx):
    common.import_spowtd()
    import scipy.integrate as si
    import spowtd.specific_yield as sym
    nsets, nlim = (25, 30) if ctx.tier == "quick" else (400, 80)
    ob_glue = "Spline.integrate glue = model integrateExt at Float on the recorded FITPACK values (bit-equal)"
    ob_contract = "FITPACK contract spot checks (knot interpolation 1e-12, splint = quad(splev) 1e-9)"
    # one-knot-at-a-time edits of a profile, all alive in one process (a user moving a knot from -2 mm to -1 mm, or a value
    # from 0.2 to 0.25, and plotting again): each must be the spline of ITS knots, whatever was built before it
    a_, b_ = float(ctx.rng.randint(-600, -300)), float(ctx.rng.randint(-250, -100))
    v_ = [round(ctx.rng.uniform(0.1, 0.2), 2), round(ctx.rng.uniform(0.2, 0.3), 2), 0.35, round(ctx.rng.uniform(0.5, 0.8), 2), 0.8]
    twins = [([a_, b_, -2.0, 100.0, 250.0], v_), ([a_, b_, -1.0, 100.0, 250.0], v_), ([a_, b_, 0.0, 100.0, 250.0], v_),
             ([a_, b_, -1.0, 100.0, 250.0], v_[:2] + [0.36] + v_[3:]), ([a_, b_, -1.0, 100.0, 256.0], v_)]
    keep_alive = []
    for i_set in range(nsets + len(twins)):
        xs, ys = twins[i_set] if i_set < len(twins) else hyd.gen_knots(ctx.rng)
        xs, ys = list(xs), list(ys)
        inp0 = {"zeta_knots_mm": xs, "sy_knots": ys}
        try:
            sy = sym.SplineSpecificYield(list(xs), list(ys))
            keep_alive.append(sy)
            float(sy(xs[0]))
        except Exception as e:  # noqa
            ctx.case(("c14", tuple(xs), tuple(ys)), True)
            ctx.violation("impl-violation", "c14Holds", {"input": inp0, "impl": repr(e)[:200], "oracle": {
                "name": "c14Holds", "result": False, "witness": {"why": "the specific yield cannot be constructed / evaluated", "exception": repr(e)[:200]}}})
            continue
        xmin, xmax = xs[0], xs[-1]
        # the property's first sentence
        vals = [float(sy(x)) for x in xs]
        knots_ok = all(abs(v - y) <= 1e-12 * max(1.0, abs(y)) for v, y in zip(vals, ys))
        flat_ok = float(sy(xmin - 123.4)) == float(sy(xmin)) and float(sy(xmax + 77.0)) == float(sy(xmax))
        ctx.obligation(ob_contract, knots_ok)
        if not (knots_ok and flat_ok):
            ctx.violation("impl-violation", "c14Holds", {"input": inp0, "impl": vals, "oracle": {
                "name": "c14Holds", "result": False,
                "witness": {"why": "does not pass through its knots" if not knots_ok else "not constant outside the knot range"}}})
            continue
        # evaluation along a record: an array of levels inside, below and above the knots, with missing samples
        # (NaN) and infinities among them; the value at a level must not depend on its neighbours in the call
        rec = [xmin - ctx.rng.uniform(0.5, 200), xmax + ctx.rng.uniform(0.5, 200)] + [ctx.rng.uniform(xmin - 20, xmax + 20) for _ in range(8)]
        for junk in ctx.rng.sample([float("nan"), float("nan"), float("inf"), float("-inf")], ctx.rng.randint(0, 3)):
            rec.insert(ctx.rng.randrange(len(rec) + 1), junk)
        for dtype in (np.float64, np.float32):
            arr = common.any_layout(ctx.rng, np.array(rec, dtype=dtype))
            before = arr.copy()
            try:
                together = [float(v) for v in np.atleast_1d(sy(arr))]
                if not np.array_equal(arr, before, equal_nan=True):
                    raise AssertionError("the caller's array of levels was modified by the evaluation (e.g. %r -> %r)" % (
                        [float(v) for v in before[:3]], [float(v) for v in arr[:3]]))
                alone = [float(sy(x)) for x in arr]
            except Exception as e:  # noqa
                together, alone = None, "%s: %s" % (type(e).__name__, e)
            ok_el = together is not None and len(together) == len(alone) and all(
                (a_ == b_) or (a_ != a_ and b_ != b_) for a_, b_ in zip(together, alone))
            ok_flat = together is not None and all(
                (t_ == float(sy(xmin)) if x < xmin else t_ == float(sy(xmax)) if x > xmax else True)
                for x, t_ in zip(rec, together) if x == x)
            ctx.case(("c14-array", tuple(xs), str(rec), dtype.__name__), True)
            ctx.obligation("values along an array of levels = values of the levels one at a time; constant outside the knots", ok_el and ok_flat)
            if not (ok_el and ok_flat):
                ctx.violation("impl-violation", "c14Holds", {"input": dict(inp0, levels=[repr(x) for x in rec], dtype=dtype.__name__),
                              "impl": {"together": together, "one_at_a_time": alone}, "oracle": {
                    "name": "c14Holds", "result": False,
                    "witness": {"why": "the value at a level depends on the other levels of the same call"
                                if not ok_el else "not constant outside the knot range"}}})
                break
        # a returned value modified in place by the caller must not change later evaluations
        try:
            for z in (xmin - 3.0, xs[len(xs) // 2], xmax + 3.0):
                r = sy(z)
                first = float(r)
                if isinstance(r, np.ndarray):
                    r *= 3.0
                ra = sy(np.array([z, z]))
                if isinstance(ra, np.ndarray):
                    ra -= 1.0
                if float(sy(z)) != first:
                    raise AssertionError("modifying a returned value in place changes later evaluations at level %r" % z)
        except Exception as e:  # noqa
            ctx.violation("impl-violation", "c14Holds", {"input": inp0, "impl": repr(e)[:200], "oracle": {
                "name": "c14Holds", "result": False, "witness": {"why": "returned values alias the function's state", "detail": repr(e)[:200]}}})
            continue
        abs_total = sum(abs(area_by_pieces(sy, xs, k0, k1)) for k0, k1 in zip(xs, xs[1:]))
        for a, b in hyd.limit_pairs(ctx.rng, xmin, xmax, xs, nlim):
            with hyd.record_fitpack() as (evals, splints):
                try:
                    got = float(sy.integrate(a, b))
                    err = None
                except Exception as e:  # noqa
                    got, err = None, "%s: %s" % (type(e).__name__, e)
            inp = dict(inp0, a=a, b=b)
            if err is None and ctx.rng.random() < 0.3:
                # the same limits as they come out of an array (0-d arrays, one-element arrays' items, numpy scalars)
                conv = ctx.rng.choice([np.array, np.float64, lambda v: np.array([v])[0:1].reshape(())])
                ac, bc = conv(a), conv(b)
                try:
                    other = float(sy.integrate(ac, bc))
                    changed = float(ac) != a or float(bc) != b
                except Exception as e:  # noqa
                    other, changed = "%s: %s" % (type(e).__name__, e), False
                ctx.obligation("integrate: limits given as numpy scalars / 0-d arrays give the same value and are left untouched",
                               other == got and not changed)
                if other != got or changed:
                    ctx.violation("impl-violation", "c14Holds", {"input": dict(inp, limits_as=type(ac).__name__ + (" 0-d" if getattr(ac, "ndim", 1) == 0 else "")),
                                  "impl": {"with_floats": got, "with_numpy_limits": other, "limits_after": [float(ac), float(bc)]}, "oracle": {
                        "name": "c14Holds", "result": False,
                        "witness": {"why": "the integral depends on the container the limits are passed in, or the limits are modified"}}})
                    continue
            inside = xmin <= a <= xmax and xmin <= b <= xmax
            ctx.case(("c14", tuple(xs), tuple(ys), a, b), not inside)
            if err is not None:
                ctx.violation("impl-violation", "c14Holds", {"input": inp, "impl": err, "oracle": {
                    "name": "c14Holds", "result": False, "witness": {"exception": err}}})
                continue
            m = ctx.driver.call("integrate.f", {
                "xmin": f2h(xmin), "xmax": f2h(xmax), "a": f2h(a), "b": f2h(b),
                "evals": [[f2h(x), f2h(v)] for x, v in evals],
                "splints": [[f2h(l), f2h(h), f2h(v)] for l, h, v in splints]})
            same = m == f2h(got)
            ctx.obligation(ob_glue, same)
            # the property's own clause: area under the same function, by an independent integrator
            area = area_by_pieces(sy, xs, a, b)
            # relative to the width of the range as well: a tiny range has a tiny, but not zero, area
            # relative 1e-8, plus the cancellation error of FITPACK's antiderivative differences (1e-11 absolute):
            # a tiny range has a tiny, but not zero, area
            # FITPACK integrates by differencing an antiderivative that starts at the lowest knot: its absolute error
            # is a few ulps of the largest partial integral (large for splines that overshoot between close knots)
            ok_area = abs(got - area) <= 1e-8 * abs(area) + 1e-11 + 64 * 2.3e-16 * abs_total
            anti = float(sy.integrate(b, a)) == -got
            for lo, hi, v in splints:
                if xmin <= lo <= hi <= xmax:
                    ref = area_by_pieces(sy, xs, lo, hi)
                    ctx.obligation(ob_contract, abs(ref - v) <= 1e-9 * max(1.0, abs(ref)))
            if len(ctx.samples) < 3 and not inside:
                ctx.sample({"knots": list(zip(xs, ys))[:4], "a": a, "b": b, "integrate": got, "quad": area,
                            "fitpack_calls": {"splev": len(evals), "splint": len(splints)}})
            if not (ok_area and anti):
                ctx.violation("impl-violation", "c14Holds", {"input": inp, "impl": got, "model": h2f(m), "oracle": {
                    "name": "c14Holds", "result": False,
                    "witness": {"why": "integrate(a, b) is not the area under the function" if not ok_area
                                else "integrate(b, a) != -integrate(a, b)", "integrate": got, "area_by_quad": area}}})
            elif not same:
                ctx.corr_break(ob_glue, {"input": inp, "impl": got, "model": h2f(m),
                                         "recorded": {"splev": evals, "splint": splints}})
        # additivity on a few triples
        for _k in range(5):
            a, b, c = (ctx.rng.uniform(xmin - 100, xmax + 100) for _ in range(3))
            lhs = float(sy.integrate(a, b)) + float(sy.integrate(b, c))
            rhs = float(sy.integrate(a, c))
            if abs(lhs - rhs) > 1e-9 * max(1.0, abs(lhs), abs(rhs)):
                ctx.violation("impl-violation", "c14Holds", {"input": dict(inp0, a=a, b=b, c=c), "impl": [lhs, rhs], "oracle": {
                    "name": "c14Holds", "result": False, "witness": {"why": "not additive over adjacent ranges", "a": a, "b": b, "c": c}}})


def replay(ctx, doc):
    common.import_spowtd()
    import scipy.integrate as si
    import spowtd.specific_yield as sym
    inp = doc["input"]
    sy = sym.SplineSpecificYield(list(inp["zeta_knots_mm"]), list(inp["sy_knots"]))
    if "a" not in inp:
        return all(abs(float(sy(x)) - y) < 1e-12 * max(1, abs(y)) for x, y in zip(inp["zeta_knots_mm"], inp["sy_knots"]))
    a, b = inp["a"], inp["b"]
    got = float(sy.integrate(a, b))
    area = area_by_pieces(sy, [float(x) for x in inp["zeta_knots_mm"]], a, b)
    print("integrate:", got, "area by pieces:", area)
    return abs(got - area) <= 1e-8 * abs(area) + 1e-11
