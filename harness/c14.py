"""C14 — spline specific yield interpolates its knots and integrates consistently."""
import numpy as np

from . import common, hyd
from .common import f2h, h2f

THEOREMS = [
    "Spowtd.evalExt_const_outside",
    "Spowtd.integrate_is_area",
    "Spowtd.integrate_additive",
    "Spowtd.integrate_antisymm",
    "Spowtd.integrate_nonneg",
]
TRUSTED_BASE = [
    "Lean 4.33 kernel; axioms propext, Classical.choice, Quot.sound only (audited per theorem on every run)",
    "FITPACK splrep(k=3, s=0)/splev/splint: the theorems take the evaluator `inner` and the integrator `splint` as "
    "parameters under the contract: inner continuous; splint lo hi = integral of inner for xmin <= lo <= hi <= xmax; "
    "splint lo xmax = 0 for lo >= xmax (spline taken as zero outside its knots). The contract is spot-checked each run "
    "(knot interpolation, splint against quad of splev) but not proved",
    "Lean runtime Float operations: the glue of Spline.integrate is executed on the values FITPACK returned during the "
    "real call and must reproduce the result bit for bit",
    "scipy.integrate.quad as independent integrator for the property's own clause (1e-8)",
]
ASSUMPTIONS = ["strictly increasing knots, at least 4; finite values"]
RULE = ("4-12 strictly increasing knots with random spacing and values x limit pairs from {far below, straddling the "
        "low end, inside, straddling the high end, far above, equal, reversed, on a knot}; FITPACK's returned values "
        "are recorded during specific_yield.integrate and fed to the model integrateExt at Float (bit-equality); "
        "non-trivial = limits not both inside the knot range; distinct by (knots, limits)")


def run(ctx):
    common.import_spowtd()
    import scipy.integrate as si
    import spowtd.specific_yield as sym
    nsets, nlim = (25, 30) if ctx.tier == "quick" else (400, 80)
    ob_glue = "Spline.integrate glue = model integrateExt at Float on the recorded FITPACK values (bit-equal)"
    ob_contract = "FITPACK contract spot checks (knot interpolation 1e-12, splint = quad(splev) 1e-9)"
    for _ in range(nsets):
        xs, ys = hyd.gen_knots(ctx.rng)
        sy = sym.SplineSpecificYield(list(xs), list(ys))
        xmin, xmax = xs[0], xs[-1]
        inp0 = {"zeta_knots_mm": xs, "sy_knots": ys}
        # the property's first sentence
        vals = [float(sy(x)) for x in xs]
        knots_ok = all(abs(v - y) <= 1e-12 * max(1.0, abs(y)) for v, y in zip(vals, ys))
        flat_ok = float(sy(xmin - 123.4)) == float(sy(xmin)) and float(sy(xmax + 77.0)) == float(sy(xmax))
        ctx.obligation(ob_contract, knots_ok)
        if not (knots_ok and flat_ok):
            ctx.violation("impl-violation", "c14Holds", {"input": inp0, "impl": vals, "oracle": {
                "name": "c14Holds", "result": False,
                "witness": {"why": "does not pass through its knots" if not knots_ok else "not constant outside the knot range"}}})
            continue
        for a, b in hyd.limit_pairs(ctx.rng, xmin, xmax, xs, nlim):
            with hyd.record_fitpack() as (evals, splints):
                try:
                    got = float(sy.integrate(a, b))
                    err = None
                except Exception as e:  # noqa
                    got, err = None, "%s: %s" % (type(e).__name__, e)
            inp = dict(inp0, a=a, b=b)
            inside = xmin <= a <= xmax and xmin <= b <= xmax
            ctx.case(("c14", tuple(xs), tuple(ys), a, b), not inside)
            if err is not None:
                ctx.violation("impl-violation", "c14Holds", {"input": inp, "impl": err, "oracle": {
                    "name": "c14Holds", "result": False, "witness": {"exception": err}}})
                continue
            m = ctx.driver.call("integrate.f", {
                "xmin": f2h(xmin), "xmax": f2h(xmax), "a": f2h(a), "b": f2h(b),
                "evals": [[f2h(x), f2h(v)] for x, v in evals],
                "splints": [[f2h(l), f2h(h), f2h(v)] for l, h, v in splints]})
            same = m == f2h(got)
            ctx.obligation(ob_glue, same)
            # the property's own clause: area under the same function, by an independent integrator
            pts = sorted({min(max(p, min(a, b)), max(a, b)) for p in (xmin, xmax)})
            area = 0.0
            if a != b:
                cuts = [min(a, b)] + [p for p in pts if min(a, b) < p < max(a, b)] + [max(a, b)]
                for c0, c1 in zip(cuts, cuts[1:]):
                    area += si.quad(lambda x: float(sy(x)), c0, c1, epsabs=1e-11, epsrel=1e-11)[0]
                if a > b:
                    area = -area
            # relative to the width of the range as well: a tiny range has a tiny, but not zero, area
            # relative 1e-8, plus the cancellation error of FITPACK's antiderivative differences (1e-11 absolute):
            # a tiny range has a tiny, but not zero, area
            ok_area = abs(got - area) <= 1e-8 * abs(area) + 1e-11
            anti = float(sy.integrate(b, a)) == -got
            for lo, hi, v in splints:
                if xmin <= lo <= hi <= xmax:
                    ref = si.quad(lambda x: float(sy(x)), lo, hi, epsabs=1e-12, epsrel=1e-12)[0]
                    ctx.obligation(ob_contract, abs(ref - v) <= 1e-9 * max(1.0, abs(ref)))
            if len(ctx.samples) < 3 and not inside:
                ctx.sample({"knots": list(zip(xs, ys))[:4], "a": a, "b": b, "integrate": got, "quad": area,
                            "fitpack_calls": {"splev": len(evals), "splint": len(splints)}})
            if not (ok_area and anti):
                ctx.violation("impl-violation", "c14Holds", {"input": inp, "impl": got, "model": h2f(m), "oracle": {
                    "name": "c14Holds", "result": False,
                    "witness": {"why": "integrate(a, b) is not the area under the function" if not ok_area
                                else "integrate(b, a) != -integrate(a, b)", "integrate": got, "area_by_quad": area}}})
            elif not same:
                ctx.corr_break(ob_glue, {"input": inp, "impl": got, "model": h2f(m),
                                         "recorded": {"splev": evals, "splint": splints}})
        # additivity on a few triples
        for _k in range(5):
            a, b, c = (ctx.rng.uniform(xmin - 100, xmax + 100) for _ in range(3))
            lhs = float(sy.integrate(a, b)) + float(sy.integrate(b, c))
            rhs = float(sy.integrate(a, c))
            if abs(lhs - rhs) > 1e-9 * max(1.0, abs(lhs), abs(rhs)):
                ctx.violation("impl-violation", "c14Holds", {"input": dict(inp0, a=a, b=b, c=c), "impl": [lhs, rhs], "oracle": {
                    "name": "c14Holds", "result": False, "witness": {"why": "not additive over adjacent ranges", "a": a, "b": b, "c": c}}})


def replay(ctx, doc):
    common.import_spowtd()
    import scipy.integrate as si
    import spowtd.specific_yield as sym
    inp = doc["input"]
    sy = sym.SplineSpecificYield(list(inp["zeta_knots_mm"]), list(inp["sy_knots"]))
    if "a" not in inp:
        return all(abs(float(sy(x)) - y) < 1e-12 * max(1, abs(y)) for x, y in zip(inp["zeta_knots_mm"], inp["sy_knots"]))
    a, b = inp["a"], inp["b"]
    got = float(sy.integrate(a, b))
    area = si.quad(lambda x: float(sy(x)), a, b, limit=200, points=[p for p in (inp["zeta_knots_mm"][0], inp["zeta_knots_mm"][-1]) if min(a, b) < p < max(a, b)] or None)[0]
    print("integrate:", got, "quad:", area)
    return abs(got - area) <= 1e-7 * max(1.0, abs(area))
