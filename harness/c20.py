"""C20 — each workflow step is all-or-nothing and independent steps commute."""
import itertools
import json
import re
import os
import shutil
import signal
import sqlite3

from . import cli
from . import pipeline as P

THEOREMS = [
    "Spowtd.Txn.atomic_exact",
    "Spowtd.Txn.atomic",
    "Spowtd.Txn.error_rolls_back",
    "Spowtd.Txn.rerunnable",
    "Spowtd.Txn.singleTxnB_iff",
    "Spowtd.Txn.commit_in_middle_not_atomic",
    "Spowtd.Txn.independent_commute",
    "Spowtd.Txn.declared_independence",
    "Spowtd.Txn.declared_dependence",
    "Spowtd.Txn.failed_attempts_invisible",
    "Spowtd.Txn.history_swap",
]
TRUSTED_BASE = [
    "Lean 4.33 kernel; axioms propext, Classical.choice, Quot.sound only (audited per theorem on every run)",
    "SQLite's rollback-journal atomic commit and hot-journal recovery; the sqlite3 module's implicit BEGIN before DML and "
    "commit/rollback of `with connection`",
    "sqlite3.Connection.set_trace_callback reports every statement the engine executes (including implicit BEGIN/COMMIT/"
    "ROLLBACK and every row of executemany); set_authorizer reports every table read or written",
    "the Python harness: fork-based fault injection (exception from the k-th execute call, SIGKILL before the k-th "
    "traced statement), logical dump of every table",
    "the model of a transaction (lean/SpowtdModel/Model/Txn.lean) is tied to the code by checking its hypothesis "
    "(singleTxnB of the real SQL trace, declared footprints) on every run",
]
SQL_TIE = ('load', 'classify', 'zeta_grid', 'rise', 'recession', 'set_curvature')
ASSUMPTIONS = [
    "power loss / torn pages are SQLite's responsibility; process death is simulated by SIGKILL (the OS keeps written pages)",
    "steps after loading: classify, set-zeta-grid, set-curvature, rise, recession",
]
RULE = ("for a small generated dataset: the SQL trace of every step must be one transaction inside the declared "
        "footprint; for every statement index of every step a forked child re-runs the step and raises from that "
        "execute call / is killed before that statement (around COMMIT included); the file is dumped and compared with "
        "the model's prediction (old content before the commit point, complete result after), and the step is run "
        "again; histories: dependency-respecting orders of the five steps with failing attempts interleaved must give "
        "identical dumps; non-trivial = fault inside a transaction that has already written; distinct by (step, index, mode)")

STEPS = ["classify", "set-zeta-grid", "set-curvature", "rise", "recession"]
NEEDS = {"rise": {"classify", "set-zeta-grid"}, "recession": {"classify", "set-zeta-grid"}}


def argv_of(step, db, tr, zstep, variant=False):
    """`variant`: the same step asked again with other parameter values (must be refused like a plain repeat)"""
    if step == "classify":
        return ["classify", db, "-s", repr(tr.s * (2 if variant else 1)), "-j", repr(tr.j * (3 if variant else 1))]
    if step == "set-zeta-grid":
        return ["set-zeta-grid", db, "-d", repr(zstep * 2.5 if variant else zstep)]
    if step == "set-curvature":
        return ["set-curvature", db, "0.75" if variant else "1.5"]
    return [step, db] + (["-r", "0"] if variant else [])


def classify_stmt(sql):
    head = sql.lstrip().split(None, 1)[0].upper() if sql.strip() else ""
    if head == "BEGIN":
        return "b"
    if head in ("COMMIT", "END"):
        return "c"
    if head == "ROLLBACK":
        return "r"
    if head in ("INSERT", "UPDATE", "DELETE", "REPLACE", "CREATE", "DROP", "ALTER"):
        return "w"
    if head == "PRAGMA" and re.search(r"journal_mode|synchronous|locking_mode|writable_schema|journal_size_limit|mmap_size",
                                      sql, re.I):
        return "p"      # changes how (or whether) the engine journals: outside the model's transaction semantics
    return None


def child_run(argv, mode, k, out_path):
    """Runs in a forked child: instrument sqlite3.connect, run the CLI, report, exit."""
    real_connect = sqlite3.connect
    state = {"stmts": [], "auth": [], "calls": 0, "traced": 0}

    def tracer(sql):
        if mode == "kill" and state["traced"] == k:
            os.kill(os.getpid(), signal.SIGKILL)
        state["traced"] += 1
        state["stmts"].append(sql[:120])

    def authorizer(action, a1, a2, dbname, source):
        state["auth"].append((action, a1, a2))
        return sqlite3.SQLITE_OK

    class Cur(sqlite3.Cursor):
        def _maybe_fail(self):
            i = state["calls"]
            state["calls"] += 1
            if mode == "error" and i == k:
                raise sqlite3.OperationalError("injected fault at execute call %d" % k)
            if mode == "locked" and i == k:
                raise sqlite3.OperationalError("database is locked")     # another process holds the file
            if mode == "interrupt" and i == k:
                raise KeyboardInterrupt()          # the user presses Ctrl-C while the command is writing

        def execute(self, *a, **kw):
            self._maybe_fail()
            return super().execute(*a, **kw)

        def executemany(self, *a, **kw):
            self._maybe_fail()
            return super().executemany(*a, **kw)

    class Con(sqlite3.Connection):
        def cursor(self, factory=Cur):
            return super().cursor(factory)

        def execute(self, *a, **kw):
            return self.cursor().execute(*a, **kw)

    def connect(path, *a, **kw):
        kw["factory"] = Con
        con = real_connect(path, *a, **kw)
        if mode == "kill":
            # a machine with little memory: SQLite then spills uncommitted pages into the file long before
            # COMMIT, which is exactly when crash safety rests on the rollback journal
            con.execute("PRAGMA cache_size = 4")
        con.set_trace_callback(tracer)
        con.set_authorizer(authorizer)
        return con

    sqlite3.connect = connect
    status = cli.run(argv)
    with open(out_path, "w") as fh:
        json.dump({"status": list(status), "stmts": state["stmts"], "auth": state["auth"], "calls": state["calls"]}, fh)
    os._exit(0)


def forked(argv, mode, k, tmp):
    out = os.path.join(tmp, "child.json")
    if os.path.exists(out):
        os.remove(out)
    pid = os.fork()
    if pid == 0:
        try:
            child_run(argv, mode, k, out)
        finally:
            os._exit(3)
    _pid, st = os.waitpid(pid, 0)
    res = {"killed": os.WIFSIGNALED(st)}
    if os.path.exists(out):
        with open(out) as fh:
            res.update(json.load(fh))
    return res


WRITE_ACTIONS = {sqlite3.SQLITE_INSERT: "w", sqlite3.SQLITE_UPDATE: "w", sqlite3.SQLITE_DELETE: "w",
                 sqlite3.SQLITE_READ: "r"}


def footprint_of(auth):
    reads, writes = set(), set()
    for action, a1, _a2 in auth:
        kind = WRITE_ACTIONS.get(action)
        if kind == "w" and a1 and not a1.startswith("sqlite_"):
            writes.add(a1)
        elif kind == "r" and a1 and not a1.startswith("sqlite_"):
            reads.add(a1)
    return reads, writes


VIEWS = {"storm_total_rain_depth", "average_recession_time", "average_rising_depth", "storm_total_rise",
         "rising_curve_line_segment"}


def copy_db(src, dst):
    for suffix in ("", "-journal", "-wal", "-shm"):
        if os.path.exists(dst + suffix):
            os.remove(dst + suffix)
    shutil.copyfile(src, dst)


def run(ctx):
    rng = ctx.rng
    ndata = 1 if ctx.tier == "quick" else 6
    fps = ctx.driver.call("txn.footprints", {})
    decl = fps["footprints"]
    done_data = 0
    for d_i in range(40):
        if done_data >= ndata:
            break
        tr = P.gen_truth(rng, n_events=3 if ctx.tier == "quick" else rng.randint(3, 6), noise=0.4).add_gap(rng)
        zstep = rng.choice([1.0, 2.0, 2.5])
        files = cli.write_dataset(ctx.tmp, "t%d" % d_i, *tr.rows())
        base = ctx.scratch("base%d.sqlite3" % d_i)
        rl = cli.load(base, files)
        if rl[0] != "ok":
            ctx.corr_break("a planted record is loaded (prerequisite of every step)", {"input": {"truth": tr.describe()}, "impl": list(rl)})
            continue
        inp0 = {"truth": tr.describe(), "zeta_step": zstep}
        # states: loaded -> classify -> grid -> curvature -> rise -> recession (canonical order)
        states = {"loaded": base}
        cur = base
        canon_ok = True
        for st in STEPS:
            nxt = ctx.scratch("state-%d-%s.sqlite3" % (d_i, st))
            copy_db(cur, nxt)
            r = cli.run(argv_of(st, nxt, tr, zstep))
            if r[0] != "ok":
                canon_ok = False
                ctx.notes.append("canonical order: %s failed: %s" % (st, r))
                break
            states[st] = nxt
            cur = nxt
        if not canon_ok:
            ctx.count("datasets_skipped_no_master_curve")
            continue
        done_data += 1
        final = cli.dump(states["recession"])
        pred = {"classify": "loaded", "set-zeta-grid": "classify", "set-curvature": "set-zeta-grid",
                "rise": "set-curvature", "recession": "rise"}
        work = ctx.scratch("work.sqlite3")
        for st in STEPS:
            before_db = states[pred[st]]
            old = cli.dump(before_db)
            new = cli.dump(states[st])
            # ---- (i) trace conformance: the theorem's hypothesis on the real code
            copy_db(before_db, work)
            t = forked(argv_of(st, work, tr, zstep), "trace", -1, ctx.tmp)
            if "stmts" not in t or t.get("status", ["x"])[0] != "ok":
                ctx.corr_break("SQL trace of each step is one transaction (singleTxnB) inside its declared footprint",
                               {"input": dict(inp0, step=st), "impl": {k_: t.get(k_) for k_ in ("killed", "status")},
                                "no_longer_checks": "the step runs to the end in a traced child process"})
                continue
            evs = [e for e in (classify_stmt(s) for s in t["stmts"]) if e]
            pragmas = [s_ for s_ in t["stmts"] if classify_stmt(s_) == "p"]
            evs = [e for e in evs if e != "p"]
            chk = ctx.driver.call("txn.check", {"events": evs})
            if pragmas:
                ctx.corr_break("SQL trace of each step is one transaction (singleTxnB) inside its declared footprint", {
                    "input": dict(inp0, step=st), "impl": {"statements": pragmas},
                    "no_longer_checks": "trusted base of Spowtd.Txn.atomic: the step changes the engine's journalling (%s)" % pragmas[0]})
            reads, writes = footprint_of([tuple(a) for a in t["auth"]])
            d = decl[st]
            fp_ok = writes <= set(d["writes"]) and (reads - VIEWS) <= set(d["reads"]) | set(d["writes"])
            ob1 = "SQL trace of each step is one transaction (singleTxnB) inside its declared footprint"
            ctx.obligation(ob1, chk["single"] and fp_ok)
            ctx.count("statements_" + st, len(t["stmts"]))
            ctx.sample({"step": st, "events": "".join(evs)[:80], "reads": sorted(reads), "writes": sorted(writes)}, limit=5)
            n_traced = len(t["stmts"])
            n_calls = t["calls"]
            if not fp_ok:
                ctx.corr_break(ob1, {"input": dict(inp0, step=st), "impl": {"reads": sorted(reads), "writes": sorted(writes)},
                                     "model": d, "no_longer_checks": "footprint conformance"})
            # ---- (ii) fault enumeration against the model's prediction
            ob2 = "file content after a fault at every statement = model crashAfter (old before the commit point, new after)"
            commit_idx = max([i for i, s in enumerate(t["stmts"]) if classify_stmt(s) == "c"] + [-1])
            faults = ([("error", k) for k in range(n_calls)] + [("kill", k) for k in range(n_traced + 1)]
                      + [("interrupt", k) for k in range(n_calls)] + [("locked", k) for k in range(n_calls)])
            if ctx.tier == "quick" and len(faults) > 140:
                keep = set(range(0, 6)) | set(range(n_traced - 6, n_traced + 1))
                faults = [f for f in faults if f[1] in keep or f[1] % max(1, len(faults) // 100) == 0]
            first_mixture = None
            for mode, k in faults:
                copy_db(before_db, work)
                r = forked(argv_of(st, work, tr, zstep), mode, k, ctx.tmp)
                if mode == "kill" and k % 2 == 1:
                    # what a user does after a killed job: run the command again, before anything else has opened the
                    # file (the first program to open it finds the hot journal and must let SQLite roll it back)
                    r2 = cli.run(argv_of(st, work, tr, zstep))
                    again = cli.dump(work)
                    ctx.case((d_i, st, "kill-then-rerun", k), True)
                    ctx.count("faults_kill_then_immediate_rerun")
                    after_commit = single_after_commit(t["stmts"], k, commit_idx)
                    good = again == new and (r2[0] == "ok" or after_commit or k == commit_idx)
                    ctx.obligation("a killed step run again at once (hot journal still on disk) ends in the complete result", good)
                    if not good:
                        ctx.violation("impl-violation", "c20Rerun", {
                            "input": dict(inp0, step=st, fault="kill, then the same command at once", index=k,
                                          statement=(t["stmts"][k] if k < n_traced else "<end>")),
                            "impl": {"status_of_rerun": list(r2), "tables_differing_from_complete_result": [n for n in again if again[n] != new[n]]},
                            "oracle": {"name": "c20Rerun", "result": False,
                                       "witness": {"why": "after a kill the step, run again before anything else opened the file, does not "
                                                          "reach its complete result", "step": st, "mode": "kill-then-rerun", "index": k,
                                                   "status": list(r2)}}})
                    continue
                got = cli.dump(work)
                wrote_before = any(classify_stmt(s) == "w" for s in t["stmts"][:k]) if mode == "kill" else k > 0
                # (error and interrupt: an exception -- ordinary or Ctrl-C -- raised at the k-th execute call)
                ctx.case((d_i, st, mode, k), wrote_before)
                ctx.count("faults_" + mode)
                if mode == "kill" and single_after_commit(t["stmts"], k, commit_idx):
                    expect = "new"
                elif mode in ("error", "interrupt", "locked"):
                    expect = "old"
                else:
                    expect = "old"
                is_old, is_new = got == old, got == new
                ok = (is_old and expect == "old") or (is_new and expect == "new")
                # a kill exactly at the COMMIT statement may land on either side
                if mode == "kill" and k == commit_idx and (is_old or is_new):
                    ok = True
                ctx.obligation(ob2, ok)
                if not (is_old or is_new):
                    if first_mixture is None:
                        first_mixture = (mode, k)
                        diff = [n for n in got if got[n] != old[n]]
                        ctx.violation("impl-violation", "c20Atomic", {
                            "input": dict(inp0, step=st, fault=mode, index=k, statement=(t["stmts"][k] if k < n_traced else "<end>")),
                            "impl": {"tables_changed": diff, "trace_events": "".join(evs)},
                            "model": {"singleTxnB": chk["single"], "durable_writes_by_crash_point": chk["durable"]},
                            "oracle": {"name": "c20Atomic", "result": False,
                                       "witness": {"why": "after the fault the file holds neither its previous content nor the complete result",
                                                   "step": st, "mode": mode, "index": k, "tables_changed": diff}}})
                    continue
                if not ok:
                    ctx.corr_break(ob2, {"input": dict(inp0, step=st, fault=mode, index=k), "impl": "old" if is_old else "new",
                                         "model": expect})
                # the step can be run again
                if is_old and (k % 7 == 0 or ctx.tier != "quick"):
                    r2 = cli.run(argv_of(st, work, tr, zstep))
                    again = cli.dump(work)
                    if r2[0] != "ok" or again != new:
                        ctx.violation("impl-violation", "c20Rerun", {
                            "input": dict(inp0, step=st, fault=mode, index=k), "impl": list(r2),
                            "oracle": {"name": "c20Rerun", "result": False,
                                       "witness": {"why": "after a failed attempt the step cannot be run again to its complete result",
                                                   "step": st, "mode": mode, "index": k, "status": list(r2)}}})
            if not chk["single"] and first_mixture is None:
                ctx.corr_break(ob1, {"input": dict(inp0, step=st), "impl": {"trace_events": "".join(evs)},
                                     "no_longer_checks": "Spowtd.Txn.atomic (hypothesis SingleTxn of the SQL trace)"})
        # ---- (iii) histories
        ob3 = "all dependency-respecting orders, with failing attempts interleaved, give the same dataset"
        orders = [p for p in itertools.permutations(STEPS)
                  if all(p.index(dep) < p.index(s) for s, deps in NEEDS.items() for dep in deps)]
        if ctx.tier == "quick":
            orders = rng.sample(orders, 6)
        for order in orders:
            copy_db(base, work)
            done = []
            hist = []
            for st in order:
                # failing attempts in between: repeat a finished step, or run a step whose prerequisites are missing
                for n_try in range(rng.choice([1, 1, 2]) if not done else rng.choice([0, 1, 1, 2])):
                    cands = [x for x in done] + [x for x in ("rise", "recession") if not NEEDS[x] <= set(done)]
                    if not cands:
                        break
                    if rng.random() < 0.35 or (not done and n_try == 0):
                        # an attempt that fails because of what was typed (a zero, denormal or not-a-number step, a reference
                        # level off the grid), at any moment of the history -- also before the step has ever succeeded
                        argv = rng.choice([["set-zeta-grid", work, "-d", "0"], ["set-zeta-grid", work, "-d", "1e-320"],
                                           ["set-zeta-grid", work, "-d", "nan"], ["set-zeta-grid", work, "-d", "0.0"]] + (
                            [["rise", work, "-r", "0.123456"], ["recession", work, "-r", "-7.654321"]] if done else []))
                        before = cli.dump(work)
                        rf = cli.run(argv)
                        ctx.count("attempts_failing_on_their_arguments" if rf[0] != "ok" else "attempts_with_odd_arguments_that_succeeded")
                        hist.append(" ".join(argv[:1] + argv[2:]) + ("(!)" if rf[0] != "ok" else ""))
                        after = cli.dump(work)
                        if rf[0] != "ok" and after != before:
                            diff = [n for n in after if after[n] != before.get(n)]
                            ctx.obligation(ob3, False)
                            ctx.violation("impl-violation", "c20Histories", {
                                "input": dict(inp0, history=hist, canonical=STEPS), "impl": {"status": list(rf), "tables_differing": diff},
                                "oracle": {"name": "c20Histories", "result": False,
                                           "witness": {"why": "an attempt that failed left the dataset changed", "history": hist,
                                                       "attempt": argv[:1] + argv[2:], "tables_differing": diff}}})
                            break
                        if rf[0] == "ok":
                            # (it was not a failing attempt after all: this history is not comparable with the canonical one)
                            hist.append("<abandoned>")
                            break
                        continue
                    f = rng.choice(cands)
                    rf = cli.run(argv_of(f, work, tr, zstep, variant=(f in done and rng.random() < 0.6)))
                    hist.append(f + "(!)" if rf[0] != "ok" else f + "(unexpectedly ok)")
                    if rf[0] == "ok":
                        ctx.count("failing_attempt_succeeded")    # (judged below: the final dataset must still be the same)
                if hist and hist[-1] == "<abandoned>":
                    break
                r = cli.run(argv_of(st, work, tr, zstep))
                hist.append(st)
                done.append(st)
            if hist and hist[-1] == "<abandoned>":
                ctx.count("histories_abandoned")
                continue
            got = cli.dump(work)
            ctx.case((d_i, "history", tuple(hist)), True)
            ctx.count("histories")
            same = got == final
            ctx.obligation(ob3, same)
            if not same:
                diff = [n for n in got if got[n] != final[n]]
                ctx.violation("impl-violation", "c20Histories", {
                    "input": dict(inp0, history=hist, canonical=STEPS), "impl": {"tables_differing": diff},
                    "oracle": {"name": "c20Histories", "result": False,
                               "witness": {"why": "two histories containing the same successful steps end in different datasets",
                                           "history": hist, "tables_differing": diff}}})
    wide_steps(ctx)
    no_dataset_guard(ctx, done_data, ndata)


def wide_steps(ctx):
    """a level grid fine enough for `rise` and `recession` to write well over ten thousand rows each (a step that
    writes a lot is where batching, intermediate commits and cache spills come in): the trace is still one transaction,
    and an error or a kill late in the step leaves the previous content"""
    rng = ctx.rng
    ob1 = "SQL trace of each step is one transaction (singleTxnB) inside its declared footprint"
    ob2 = "file content after a fault at every statement = model crashAfter (old before the commit point, new after)"
    tr = P.gen_truth(rng, n_events=rng.randint(5, 8))
    tv = sum(abs(b - a) for a, b in zip(tr.level, tr.level[1:]))
    zstep = float("%.2g" % (tv / 2.0 / rng.randint(23000, 28000)))        # about 27,000 rows for rise, 12,000 for recession
    files = cli.write_dataset(ctx.tmp, "wide", *tr.rows())
    cur = ctx.scratch("wide-base.sqlite3")
    inp0 = {"truth": tr.describe(), "zeta_step": zstep, "note": "fine level grid: more than ten thousand rows per curve"}
    rs = [cli.load(cur, files)] + [cli.run(argv_of(st, cur, tr, zstep)) for st in ("classify", "set-zeta-grid", "set-curvature")]
    if any(r[0] != "ok" for r in rs):
        ctx.corr_break(ob1, {"input": inp0, "impl": [list(r) for r in rs], "no_longer_checks": "a planted record is loaded, classified and gridded with a fine step"})
        return
    work = ctx.scratch("wide-work.sqlite3")
    for st in ("rise", "recession"):
        old = cli.dump(cur)
        copy_db(cur, work)
        t = forked(argv_of(st, work, tr, zstep), "trace", -1, ctx.tmp)
        if "stmts" not in t or t.get("status", ["x"])[0] != "ok":
            ctx.corr_break(ob1, {"input": dict(inp0, step=st), "impl": {k_: t.get(k_) for k_ in ("killed", "status")},
                                 "no_longer_checks": "the step runs to the end in a traced child process"})
            return
        new = cli.dump(work)
        evs = [e for e in (classify_stmt(s_) for s_ in t["stmts"]) if e and e != "p"]
        # (thousands of consecutive writes are one write as far as transaction structure goes; the model walks the list)
        short = [e for i_, e in enumerate(evs) if i_ == 0 or e != evs[i_ - 1] or e not in ("w", "r")]
        chk = ctx.driver.call("txn.check", {"events": short})
        n_calls, n_traced = t["calls"], len(t["stmts"])
        ctx.count("statements_of_the_wide_" + st, n_traced)
        ctx.obligation(ob1, chk["single"])
        ctx.case(("wide", st, "trace"), True)
        commit_idx = max([i for i, s_ in enumerate(t["stmts"]) if classify_stmt(s_) == "c"] + [-1])
        ks = sorted({n_calls - 1, min(n_calls - 1, 10500)})        # the last statement, and one just after the ten-thousandth row
        for mode, k in [("error", k) for k in ks] + [("kill", k) for k in ks if k < commit_idx]:
            copy_db(cur, work)
            forked(argv_of(st, work, tr, zstep), mode, k, ctx.tmp)
            got = cli.dump(work)
            ctx.case(("wide", st, mode, k), True)
            ctx.count("faults_late_in_a_wide_step")
            ok = got == old
            ctx.obligation(ob2, ok)
            if not ok:
                diff = [n for n in got if got[n] != old.get(n)]
                ctx.violation("impl-violation", "c20Atomic", {
                    "input": dict(inp0, step=st, fault=mode, index=k), "impl": {"tables_differing_from_previous_content": diff,
                                                                              "is_complete_result": got == new},
                    "oracle": {"name": "c20Atomic", "result": False,
                               "witness": {"why": "after a fault late in a step that writes more than ten thousand rows the dataset is "
                                                  "neither its previous content nor the complete result" if got != new else
                                                  "a fault before the commit point left the complete result",
                                           "step": st, "mode": mode, "index": k, "statements": n_traced}}})
                break
        if not chk["single"]:
            ctx.corr_break(ob1, {"input": dict(inp0, step=st), "impl": {"trace_events": "".join(short)[:200], "statements": n_traced},
                                 "no_longer_checks": "Spowtd.Txn.atomic (hypothesis SingleTxn of the SQL trace)"})
        r = cli.run(argv_of(st, cur, tr, zstep))
        if r[0] != "ok":
            return


def no_dataset_guard(ctx, done_data, ndata):
    if done_data < ndata:
        ctx.corr_break("at least one planted dataset goes through all five steps in the canonical order",
                       {"input": None, "notes": ctx.notes[-3:],
                        "no_longer_checks": "classify / set-zeta-grid / set-curvature / rise / recession succeed on planted records"})


def single_after_commit(stmts, k, commit_idx):
    return commit_idx >= 0 and k > commit_idx


def replay(ctx, doc):
    return None   # re-run the stream with the recorded seed (check.py does it)
