"""Generators of rainfall / evapotranspiration / water-level records.

A *record* is described on the rainfall grid (step `dt`, origin `t0`, `n` level
samples) by per-step rain intensities and per-sample levels, plus the list of
level samples removed to make gaps.  Every random choice comes from the `rng`
passed in, so (seed, index) replays a case exactly.
"""

import math

# sub-hourly loggers, hourly gauges, coarse records (3-hourly, 6-hourly, daily, two-daily totals) and fast pressure
# transducers whose step is not a whole number of minutes (1, 10, 30, 45, 90 s)
STEPS = [600, 1200, 1800, 3600, 600, 1200, 1800, 3600, 300, 10800, 21600, 86400, 172800, 30, 90, 10, 45, 1]
THRESHOLDS = [0.5, 1.0, 2.0, 4.0, 5.0, 8.0]


class Record:
    def __init__(self, dt, t0, rain, level, removed, pre, post, et=None, tz="UTC", phase=0):
        self.phase = phase        # the level logger's clock runs `phase` seconds after the rain gauge's
        self.fine = 1             # the level logger takes `fine` samples per rainfall step (values interpolated)
        self.fine_gaps = set()    # steps i whose intermediate samples are missing: an outage strictly between two
                                  #   grid instants (both instants keep their level; they are separated by a gap)
        self.dt = dt
        self.t0 = t0
        self.rain = rain          # intensities for steps -pre .. n-1+post  (list of floats)
        self.level = level        # levels for samples 0..n-1
        self.removed = removed    # set of sample indices dropped from the level file
        self.pre = pre
        self.post = post
        self.et = et
        self.tz = tz

    @property
    def n(self):
        return len(self.level)

    def rows(self):
        """(rain_rows, et_rows, level_rows) as (epoch, value)."""
        dt, t0 = self.dt, self.t0
        rain = [(t0 + (i - self.pre) * dt, v) for i, v in enumerate(self.rain)]
        nr = len(self.rain)
        if self.et is None:
            et = [(t0 + (i - self.pre) * dt, 0.125) for i in range(nr + 2)]
        else:
            et = [(t0 + (i - self.pre) * dt, self.et[i % len(self.et)]) for i in range(nr + 2)]
        level = [(t0 + i * dt + self.phase, v) for i, v in enumerate(self.level) if i not in self.removed]
        if self.fine > 1:
            k = self.fine
            extra = []
            for i in range(len(self.level) - 1):
                if i in self.removed or i + 1 in self.removed or i in self.fine_gaps:
                    continue
                a, b = self.level[i], self.level[i + 1]
                extra += [(t0 + i * dt + self.phase + q * (dt // k), a + (b - a) * q / k) for q in range(1, k)]
            level = sorted(level + extra)
        return rain, et, level

    def make_fine(self, rng):
        """a fast pressure logger next to a slow rain gauge, with brief outages between two rain readings"""
        self.fine = rng.choice([3, 4, 5])
        ok = [i for i in range(self.n - 1) if i not in self.removed and i + 1 not in self.removed]
        if len(ok) >= 3:
            self.fine_gaps = set(rng.sample(ok, rng.randint(1, min(3, len(ok) - 2))))
        return self

    def describe(self):
        return {
            "dt": self.dt, "t0": self.t0, "n": self.n, "pre": self.pre, "post": self.post,
            "rain": self.rain, "level": self.level, "removed": sorted(self.removed), "phase": self.phase,
            "fine": self.fine, "fine_gaps": sorted(self.fine_gaps),
        }


DECIMAL_THRESHOLDS = [0.3, 0.6, 1.2, 2.4, 0.7, 2.3, 4.6, 1.1, 3.0, 6.0]


def pick_thresholds(rng):
    if rng.random() < 0.15:
        # thresholds typed in decimals (0.3 mm/h ...): threshold x step is then not exact in binary, and data recorded
        # to 0.1 mm can sit one ulp above or below it (see build_record)
        return rng.choice(DECIMAL_THRESHOLDS), rng.choice(DECIMAL_THRESHOLDS)
    if rng.random() < 0.8:
        return rng.choice(THRESHOLDS), rng.choice(THRESHOLDS)
    return rng.randint(1, 64) / 8.0, rng.randint(1, 64) / 8.0


def rain_value(rng, cls, s):
    if cls == "dry":
        # no rain: zero, and now and then what weighing gauges and regridded products report for "none":
        # a negative zero, a negative trace (evaporation from the bucket, interpolation undershoot)
        return 0.0 if rng.random() < 0.9 else rng.choice([-0.0, -2.5e-9, -1e-4, -0.05])
    if cls == "light":
        return s * rng.choice([0.125, 0.25, 0.5, 0.75])
    if cls == "at":
        return s
    return s * rng.choice([1.25, 1.5, 2.0, 3.0, 5.0])


def incr_value(rng, cls, jd):
    if cls == "fall":
        return -rng.choice([0.25, 0.5, 1.0, 1.5, 3.0])
    if cls == "flat":
        return 0.0
    if cls == "slow":
        return jd * rng.choice([0.25, 0.5, 0.75])
    if cls == "at":
        return jd
    return jd * rng.choice([1.25, 1.5, 2.0, 3.0, 4.0])


def events_record(rng, s, j, dt=None, n=None, t0=None, gaps=None):
    """Structured record: dry spells, light rain, storms with lagged rises, unexplained rises,
    heavy rain without rise, multi-burst storms inside one rise and vice versa; per-step noise."""
    dt = dt or rng.choice(STEPS)
    n = n or rng.randint(2, 40)
    jd = j * (dt / 3600.0)
    rc = []   # rain class per step
    ic = []   # increment class per step (increment over the step, i.e. ending at sample i+1)
    while len(rc) < n:
        ev = rng.choices(
            ["dry", "light", "storm", "mystery", "norise", "multiburst", "multirise"],
            [4, 2, 5, 1, 1, 2, 2])[0]
        k = rng.randint(1, 4)
        if ev == "dry":
            k = rng.randint(1, 6)
            rc += ["dry"] * k
            ic += [rng.choice(["fall", "fall", "flat", "slow"]) for _ in range(k)]
        elif ev == "light":
            rc += ["light"] * k
            ic += [rng.choice(["flat", "slow", "at"]) for _ in range(k)]
        elif ev == "storm":
            lag = rng.choice([-1, 0, 0, 0, 1, 2])
            extra = rng.choice([-1, 0, 0, 1])
            r = ["heavy"] * k
            m = max(k + extra, 1)
            if lag >= 0:
                i_ = ["slow"] * lag + ["fast"] * m
                r = r + ["light"] * max(len(i_) - k, 0)
                i_ = i_ + ["slow"] * max(len(r) - len(i_), 0)
            else:
                i_ = ["fast"] * (m + 1)
                r = ["dry"] + r
                r = r + ["light"] * max(len(i_) - len(r), 0)
                i_ = i_ + ["slow"] * max(len(r) - len(i_), 0)
            rc += r
            ic += i_
            if rng.random() < 0.7:
                rc += ["light"]
                ic += ["slow"]
        elif ev == "mystery":
            rc += ["dry"] * k
            ic += ["fast"] + [rng.choice(["fall", "flat"]) for _ in range(k - 1)]
        elif ev == "norise":
            rc += ["heavy"] * k
            ic += [rng.choice(["flat", "slow", "at"]) for _ in range(k)]
        elif ev == "multiburst":   # several bursts inside one long rise
            b = rng.randint(2, 3)
            for q in range(b):
                kk = rng.randint(1, 3)
                rc += ["heavy"] * kk + ["light"] * rng.randint(1, 2)
            ic += ["fast"] * (len(rc) - len(ic))
        elif ev == "multirise":    # several rises inside one long storm
            b = rng.randint(2, 3)
            for q in range(b):
                kk = rng.randint(1, 3)
                ic += ["fast"] * kk + [rng.choice(["slow", "at", "flat"])] * rng.randint(1, 2)
            rc += ["heavy"] * (len(ic) - len(rc))
    rc, ic = rc[:n], ic[:n]
    # per-step noise
    for i in range(n):
        if rng.random() < 0.06:
            rc[i] = rng.choice(["dry", "light", "at", "heavy"])
        if rng.random() < 0.06:
            ic[i] = rng.choice(["fall", "flat", "slow", "at", "fast"])
    return build_record(rng, s, j, dt, n, rc, ic, t0=t0, gaps=gaps)


def random_record(rng, s, j, dt=None, n=None, t0=None, gaps=None):
    """Every step independently random (dense contention and boundary values)."""
    dt = dt or rng.choice(STEPS)
    n = n or rng.randint(1, 24)
    rc = [rng.choices(["dry", "light", "at", "heavy"], [3, 2, 1, 4])[0] for _ in range(n)]
    ic = [rng.choices(["fall", "flat", "slow", "at", "fast"], [2, 1, 2, 1, 4])[0] for _ in range(n)]
    return build_record(rng, s, j, dt, n, rc, ic, t0=t0, gaps=gaps)


def layout_record(rng, s, j, dt=None, t0=None, gaps=None, n=None):
    """Dense contention: disjoint heavy-rain runs and disjoint fast-rise runs laid out independently on
    the index line (lengths 1-4, separations 1-3), so that rises overlap several bursts and bursts
    several rises, with displacement chains in the arbitration."""
    dt = dt or rng.choice(STEPS)
    n = n or rng.randint(8, 36)

    def runs():
        out, i = set(), rng.randint(0, 2)
        while i < n:
            k = rng.randint(1, 4)
            out |= set(range(i, min(i + k, n)))
            i += k + rng.randint(1, 3)
        return out
    st, ri = runs(), runs()
    rc = ["heavy" if i in st else rng.choice(["light", "light", "dry"]) for i in range(n)]
    ic = ["fast" if i in ri else rng.choice(["slow", "flat", "fall"]) for i in range(n)]
    return build_record(rng, s, j, dt, n, rc, ic, t0=t0, gaps=gaps)


def huge_record(rng, s, j, dt=None):
    """Years of data: 17-21 thousand samples with storms and rises lasting hundreds to thousands of steps
    (long wet spells on a fine grid), so that sizes and positions no small record reaches are exercised."""
    dt = dt or rng.choice([600, 1800, 3600])
    n = rng.randint(17000, 21000)
    rc, ic = [], []
    while len(rc) < n:
        dry = rng.randint(100, 600)
        rc += ["dry"] * dry
        ic += [rng.choice(["fall", "fall", "flat"])] * dry
        k = rng.randint(150, 2500)
        lag = rng.randint(-3, 3)
        r = ["heavy"] * k
        i_ = ["fast"] * max(1, k + rng.randint(-2, 2))
        if lag > 0:
            i_ = ["slow"] * lag + i_
        elif lag < 0:
            r = ["light"] * (-lag) + r
        m = max(len(r), len(i_))
        r += ["light"] * (m - len(r))
        i_ += ["slow"] * (m - len(i_))
        # a few one-step interruptions inside the long event: bursts and rises of very different lengths
        for _ in range(rng.randint(0, 3)):
            q = rng.randrange(m)
            if rng.random() < 0.5:
                r[q] = "light"
            else:
                i_[q] = "slow"
        rc += r + ["light"]
        ic += i_ + ["slow"]
    rc, ic = rc[:n], ic[:n]
    removed = set()
    if rng.random() < 0.5:
        # a gap near one end: one stretch stays very long
        a = rng.choice([rng.randint(50, 600), n - rng.randint(50, 600)])
        removed = set(range(a, a + rng.randint(1, 40)))
    # whatever the seed: a storm with its rise across sample 2**14 of the long stretch (and one across 2**13), where code that
    # works through a record in blocks of a power of two would cut it
    first = (max(removed) + 1) if removed and min(removed) < 1000 else 0
    for centre in (first + 2 ** 14, first + 2 ** 13):
        half = rng.randint(60, 300)
        for q in range(max(1, centre - half), min(n - 2, centre + half)):
            rc[q], ic[q] = "heavy", "fast"
        for q in (centre - half - 1, centre + half):
            if 0 < q < n - 1:
                rc[q], ic[q] = "light", "slow"
    # small increments so that levels stay moderate over thousands of rising steps
    jd = j * (dt / 3600.0)
    t0 = (rng.randint(631152000, 1500000000) // dt) * dt
    rain = [rain_value(rng, c, s) for c in rc] + [0.0]
    level = [0.0]
    for i in range(n - 1):
        c = ic[i]
        level.append(level[-1] + (jd * 1.25 if c == "fast" else (jd * 0.5 if c == "slow" else (0.0 if c == "flat" else -jd * 0.75))))
    return Record(dt, t0, rain, level, removed, 0, 1)


def boundary_record(rng):
    """(record, s, j): a logger recording to 0.1 mm, thresholds typed in decimals, and rises made ONLY of increments equal
    to the decimal number `threshold x step` -- one ulp above or below the floating-point product the tool compares with
    (0.3 mm/h x 3 h: the product is 0.8999999999999999, the recorded increment 0.9)."""
    for _ in range(200):
        dt = rng.choice([360, 600, 1080, 1200, 1800, 3600, 7200, 10800, 21600, 86400, 90, 30])
        j = rng.choice(DECIMAL_THRESHOLDS + [0.1, 0.2, 0.9, 1.3, 9.2])
        h = dt / 3600.0
        if round(j * h, 1) != j * h and abs(round(j * h, 1) - j * h) < 1e-9 and round(j * h, 1) > 0:
            if round(j * h, 1) > j * h or rng.random() < 0.3:      # mostly: the recorded increment is the one ulp ABOVE
                break
    s = rng.choice([0.3, 0.7, 1.0, 2.0])
    n = rng.randint(8, 30)
    rc, ic = [], []
    while len(rc) < n:
        k = rng.randint(1, 3)
        if rng.random() < 0.6:
            rc += ["heavy"] * k
            ic += ["at"] * k                      # the whole rise sits on the threshold
        else:
            k = rng.randint(1, 4)
            rc += [rng.choice(["dry", "light"])] * k
            ic += [rng.choice(["fall", "flat", "slow"])] * k
    rec = build_record(rng, s, j, dt, n, rc[:n], ic[:n], gaps=rng.choice([0, 0, 1]))
    return rec, s, j


def giant_record(rng, s, j):
    """Years of 10-minute data (about 300,000 samples) with a light shower twice a day: thousands of dry stretches, a few
    real storms, and the record ends in dry weather (the logger is collected on a dry day)."""
    dt = 600
    n = rng.randint(290000, 320000)
    jd = j * (dt / 3600.0)
    t0 = (rng.randint(631152000, 1400000000) // dt) * dt
    period = rng.randint(50, 70)          # at least 4,100 dry stretches: samples x run edges above 2**31 whatever the seed
    rain, level = [], [0.0]
    for i in range(n - 1):
        ph = i % period
        if i % (period * 97) < 4 and i > period:
            rain.append(rain_value(rng, "heavy", s))
            level.append(level[-1] + jd * 1.25)
        elif ph == 0:
            rain.append(s * 0.5)                       # a shower below the storm threshold
            level.append(level[-1] + jd * 0.5)
        else:
            rain.append(0.0)
            level.append(level[-1] - jd * 0.5 / (period - 1) - (jd * 5.0 / (period * 97.0) if level[-1] > 0 else 0.0))
    rain.append(0.0)
    # ends dry: the last stretch runs to the last sample
    return Record(dt, t0, rain, level, set(), 0, 1)


def build_record(rng, s, j, dt, n, rc, ic, t0=None, gaps=None, pre=None, post=None):
    jd = j * (dt / 3600.0)
    if t0 is None:
        # origins between 1990 and 2030, multiple of the step
        t0 = (rng.randint(631152000, 1893456000) // dt) * dt
    pre = rng.choice([0, 0, 1, 3]) if pre is None else pre
    post = rng.choice([0, 0, 1, 2]) if post is None else post
    rain = [rain_value(rng, rng.choice(["dry", "light", "heavy"]), s) for _ in range(pre)]
    rain += [rain_value(rng, c, s) for c in rc]
    rain += [rain_value(rng, rng.choice(["dry", "light", "heavy"]), s) for _ in range(post)]
    level = [float(rng.randint(-1200, 400)) / 4.0]
    decimal = j in DECIMAL_THRESHOLDS or j in (0.1, 0.2, 0.9, 1.3, 9.2)
    if decimal:
        # a logger that records to 0.1 mm: every level is a one-decimal number as typed, and an increment "at" the
        # threshold is the decimal number j x step rounded to that resolution
        level = [round(level[0], 1)]
    for i in range(n - 1):
        inc = incr_value(rng, ic[i], jd)
        level.append(round(level[-1] + round(inc, 1), 1) if decimal else level[-1] + inc)
    removed = set()
    if gaps is None:
        gaps = rng.choice([0, 0, 0, 1, 1, 2, 3, 4])
    for _ in range(gaps):
        if n < 4:
            break
        a = rng.randint(1, n - 2)
        b = min(n - 1, a + rng.randint(1, 3))
        removed |= set(range(a, b))
    # the level file needs two samples at the minimum step for the gap test to be meaningful
    return Record(dt, t0, rain, level, removed, pre, post)


def exhaustive_records(n, s, j, dt, t0):
    """All rain-class x increment-class patterns of length n (thorough tier)."""
    import itertools

    rcs = ["dry", "light", "heavy"]
    ics = ["fall", "at", "fast"]

    class _R:
        def choice(self, seq):
            return seq[0]

        def random(self):
            return 1.0

        def randint(self, a, b):
            return a
    fixed = _R()
    for rc in itertools.product(rcs, repeat=n):
        for ic in itertools.product(ics, repeat=n - 1):
            r = build_record(fixed, s, j, dt, n, list(rc), list(ic) + ["flat"], t0=t0, gaps=0, pre=0, post=0)
            yield r
