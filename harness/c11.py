"""C11 — timestamps are converted exactly and bad input is refused."""
import datetime

from . import loading as L
from . import cli, common

THEOREMS = [
    "Spowtd.localize_sound",
    "Spowtd.localize_complete",
    "Spowtd.fixed_offset_unique",
    "Spowtd.zone_change_is_shift",
    "Spowtd.load_refuses_populated",
    "Spowtd.load_refuses_nonuniform",
    "Spowtd.stepOf_none_iff",
    "Spowtd.load_refuses_missing_et",
    "Spowtd.load_ok_conditions",
    "Spowtd.days_civil_roundtrip",
    "Spowtd.civil_days_roundtrip",
    "Spowtd.civilFromDays_valid",
    "Spowtd.epoch_day_zero",
    "Spowtd.parseIso_renderIso",
    "Spowtd.renderIso_injective",
]
TRUSTED_BASE = [
    "Lean 4.33 kernel; axioms propext, Classical.choice, Quot.sound only (audited per theorem on every run)",
    "Lean compiler/runtime for executing the model (Calendar, Zone, Load)",
    "the Python harness: zone-table extraction from the pytz object the tool itself uses, datetime generator, outcome mapping",
    "pytz's transition table is taken to be the declared zone (the IANA database itself is not verified)",
    "strptime/csv parsing of well-formed fields; SQLite",
    "translator tools/gen_schema.py: spowtd/schema.sql as parsed by SQLite itself (PRAGMA table_info / index_list / "
    "foreign_key_list; CHECK clauses and view bodies cut from the stored CREATE text) -> lean/SchemaTie/Generated.lean; "
    "the declarations the proofs assume are re-checked by `rfl` on every run (SchemaTie/Load.lean)",
]
SCHEMA_TIE = ('Load',)
SQL_TIE = ('load',)
ASSUMPTIONS = [
    "existing local datetimes at whole seconds (non-existent local times in a skipped hour are outside the property)",
    "for a repeated hour either of the two instants rendering to the text is accepted",
    "zone table = pytz's own _utc_transition_times/_transition_info; the system tzdata is not used as oracle because it "
    "disagrees with pytz on sub-minute LMT offsets and back-dated history",
]
RULE = ("zones: all fixed-offset Etc/GMT+-n, DST zones of both hemispheres, zones whose LMT differs from the current "
        "offset; local datetimes concentrated around every transition +-3 h plus uniform ones 1900-2037, through "
        "load.generate_timestamped_rows; malformed timestamp texts; file triples with non-uniform rainfall steps, a "
        "missing ET row at each grid position, duplicate timestamps, and second loads into a populated file; "
        "non-trivial = datetime within 3 h of a transition or a refused input; distinct by (zone, text) or input")

ZONES = (["Etc/GMT%+d" % k for k in range(-14, 13) if k] + [
    "UTC", "Africa/Lagos", "Asia/Kolkata", "Asia/Kathmandu", "Europe/Amsterdam", "America/Caracas",
    "Europe/London", "Europe/Paris", "America/New_York", "America/Los_Angeles", "America/Sao_Paulo",
    "Australia/Sydney", "Australia/Lord_Howe", "Pacific/Auckland", "Pacific/Apia", "Asia/Tehran",
    "Africa/Casablanca", "America/St_Johns", "Asia/Jakarta", "Asia/Singapore", "Asia/Pontianak",
    "Pacific/Chatham", "Europe/Moscow", "America/Santiago", "Africa/Monrovia", "Asia/Kuala_Lumpur",
    "America/Argentina/Buenos_Aires", "Europe/Dublin", "Asia/Pyongyang", "Pacific/Kiritimati"])

EPOCH0 = datetime.datetime(1970, 1, 1)


def zone_table(tz):
    """(initial offset, [(utc instant, offset)]) from the pytz object."""
    if hasattr(tz, "_utc_transition_times") and tz._utc_transition_times:
        infos = tz._transition_info
        times = tz._utc_transition_times
        initial = int(infos[0][0].total_seconds())
        tr = []
        for t, info in list(zip(times, infos))[1:]:
            tr.append([int((t - EPOCH0).total_seconds()), int(info[0].total_seconds())])
        return {"initial": initial, "transitions": tr}
    off = tz.utcoffset(None)
    return {"initial": int(off.total_seconds()) if off is not None else 0, "transitions": []}


def fmt(l):
    return (EPOCH0 + datetime.timedelta(seconds=l)).strftime("%Y-%m-%d %H:%M:%S")


def local_times(rng, table, n_uniform, per_transition):
    out = []
    lo = int((datetime.datetime(1900, 1, 1) - EPOCH0).total_seconds())
    hi = int((datetime.datetime(2037, 12, 31) - EPOCH0).total_seconds())
    for _ in range(n_uniform):
        out.append((rng.randint(lo, hi), False))
    trs = [t for t in table["transitions"] if lo < t[0] < hi]
    for t in (rng.sample(trs, min(len(trs), 25)) if trs else []):
        offs = {t[1], table["initial"]} | {x[1] for x in table["transitions"]}
        for _ in range(per_transition):
            o = rng.choice(sorted(offs))
            out.append((t[0] + o + rng.randint(-10800, 10800), True))
        # exactly at the switch, in both wall clocks
        out.append((t[0] + t[1], True))
        out.append((t[0] + t[1] - 1, True))
    # an offset that was in force for less than a month and a half (daylight saving suspended for Ramadan and resumed,
    # started and cancelled within weeks, war-time changes): instants well inside such a period, far from either switch
    short = [(a, b) for a, b in zip(table["transitions"], table["transitions"][1:]) if lo < a[0] and b[0] < hi and 0 < b[0] - a[0] < 45 * 86400]
    for a, b in (rng.sample(short, min(len(short), 40)) if short else []):
        for k in (1, 2, 3):
            out.append((a[0] + a[1] + (b[0] - a[0]) * k // 4, True))
        out.append((a[0] + a[1] + rng.randint(3 * 3600, max(3 * 3600 + 1, b[0] - a[0] - 3 * 3600)), True))
    # a logger's record running through a switch: regular sub-hourly samples for two hours either side
    for t in (rng.sample(trs, min(len(trs), 6)) if trs else []):
        step = rng.choice([300, 600, 900, 1200])
        prev = max([x for x in table["transitions"] if x[0] < t[0]], default=[0, table["initial"]])[1]
        start = ((t[0] + min(prev, t[1]) - 7200) // step) * step
        out += [(start + k * step, True) for k in range((4 * 3600 + abs(prev - t[1])) // step + 1)]
    return out


def zones_with_short_lived_offsets():
    """every zone of the installed database in which some offset was in force for less than 45 days"""
    import pytz
    out = []
    for name in pytz.all_timezones:
        tt = getattr(pytz.timezone(name), "_utc_transition_times", None) or []
        if any(a.year >= 1900 and 0 < (b - a).total_seconds() < 45 * 86400 for a, b in zip(tt, tt[1:])):
            out.append(name)
    return out


def timestamp_stream(ctx, zones, n_uniform, per_transition):
    common.import_spowtd()
    import pytz
    import spowtd.load as lm
    ob = "generate_timestamped_rows epoch in model localize(zone table, parseIso text)"
    for name in zones:
        tz = pytz.timezone(name)
        table = zone_table(tz)
        cases = local_times(ctx.rng, table, n_uniform, per_transition)
        texts = [fmt(l) for l, _ in cases]
        model = ctx.driver.call("timestamp", {"zone": table, "texts": texts})
        # the rows of one file are converted in one call, in the order of the file: oldest first, newest first
        # or unordered (the loader accepts all three); no row's instant may depend on its neighbours
        order = list(range(len(texts)))
        layout = ctx.rng.choice(["as generated", "ascending", "descending", "shuffled"])
        if layout == "ascending":
            order.sort(key=lambda i: cases[i][0])
        elif layout == "descending":
            order.sort(key=lambda i: -cases[i][0])
        elif layout == "shuffled":
            ctx.rng.shuffle(order)
        ctx.count("files_" + layout.replace(" ", "_"))
        batch_err = None
        try:
            batch = [r[0] for r in lm.generate_timestamped_rows([[texts[i], "1.0"] for i in order], tz)]
            if len(batch) != len(order):
                batch_err = "%d rows in, %d rows out" % (len(order), len(batch))
                batch = None
            else:
                batch = dict(zip(order, batch))
        except Exception as e:  # noqa
            batch, batch_err = None, "%s: %s" % (type(e).__name__, e)
        single_errors = 0
        for i, ((l, near), text, m) in enumerate(zip(cases, texts, model)):
            try:
                if batch is not None:
                    got = batch[i]
                else:
                    rows = list(lm.generate_timestamped_rows([[text, "1.0"]], tz))
                    got = rows[0][0]
                err = None
            except Exception as e:  # noqa
                got, err = None, "%s: %s" % (type(e).__name__, e)
                single_errors += 1
            ctx.case((name, text), near)
            if m is None or m["local"] != l or m["render"] != text:
                ctx.obligation("model parseIso/renderIso round trip on generated texts", False)
                ctx.corr_break("model parseIso/renderIso round trip on generated texts", {"input": {"text": text}, "model": m})
                continue
            cands = m["utc"]
            if not cands:
                ctx.count("nonexistent_local_times_skipped")
                continue
            if len(cands) > 1:
                ctx.count("ambiguous_local_times")
            ctx.count("timestamps_checked")
            ok = got in cands
            ctx.obligation(ob, ok)
            if len(ctx.samples) < 3 and near:
                ctx.sample({"zone": name, "text": text, "stored_epoch": got, "instants_rendering_to_text": cands})
            if not ok:
                inp = {"function": "load.generate_timestamped_rows", "zone": name, "text": text,
                       "rows_of_the_call": [texts[k] for k in order] if batch is not None else [text]}
                rendered = ctx.driver.call("render", {"zone": table, "utc": [got]})[0] if got is not None else None
                ctx.violation("impl-violation", "c11Holds", {
                    "input": inp, "impl": got if err is None else err, "model": cands,
                    "oracle": {"name": "c11Holds", "result": False,
                               "witness": {"zone": name, "text": text, "stored": got, "stored_renders_as": rendered}}})
        if batch_err is not None and single_errors == 0:
            # every row converts on its own, the rows of one file together do not
            ctx.violation("impl-violation", "c11Holds", {
                "input": {"function": "load.generate_timestamped_rows", "zone": name, "rows_of_the_call": [texts[k] for k in order],
                          "layout": layout},
                "impl": batch_err, "oracle": {"name": "c11Holds", "result": False,
                                              "witness": {"why": "the rows of one file converted together raise or change in number",
                                                          "zone": name, "layout": layout, "error": batch_err}}})


BAD_TEXTS = ["2013-02-30 00:00:00", "2013-13-01 00:00:00", "2013-01-01 24:00:00", "2013-01-01 00:60:00",
             "2013-01-01", "2013/01/01 00:00:00", "13-01-01 00:00:00", "2013-01-01 00:00", "2013-01-01T00:00:00",
             "", "abc", "2013-01-01 00:00:61", "2013-00-10 00:00:00", "2013-01-00 00:00:00", "2013-1-5 3:4:5",
             "2013-01-05 03:04:05", "2012-02-29 23:59:59", "1900-02-29 00:00:00", "2000-02-29 00:00:00",
             "2013-01-01 00:00:00.5", "2013-01-01 00:00:00 ", "02013-01-01 00:00:00"]


def text_stream(ctx):
    common.import_spowtd()
    import pytz
    import spowtd.load as lm
    tz = pytz.timezone("UTC")
    model = ctx.driver.call("timestamp", {"zone": {"initial": 0, "transitions": []}, "texts": BAD_TEXTS})
    ob = "timestamp text accepted/refused as by the model's parseIso; accepted value equal"
    for text, m in zip(BAD_TEXTS, model):
        try:
            got = list(lm.generate_timestamped_rows([[text, "1"]], tz))[0][0]
        except Exception:  # noqa
            got = None
        want = None if m is None else m["utc"][0]
        ctx.case(("text", text), True)
        if text != text.strip():
            continue       # strptime's whitespace tolerance is not modelled
        ok = got == want
        ctx.obligation(ob, ok)
        if not ok:
            detail = {"input": {"function": "load.generate_timestamped_rows", "zone": "UTC", "text": text},
                      "impl": got, "model": want}
            if got is not None and want is not None:
                detail["oracle"] = {"name": "c11Holds", "result": False, "witness": {"text": text, "stored": got}}
                ctx.violation("impl-violation", "c11Holds", detail)
            else:
                ctx.corr_break(ob, detail)


def refusal_stream(ctx, n):
    ob = "load outcome (ok / populated / duplicate / nonuniform / no_et) = model's"
    for i in range(n):
        mal = ["nonuniform", "no_et", "populated", "duplicate", None][i % 5]
        tr = L.gen_triple(ctx.rng, mal if mal in ("nonuniform", "no_et") else None)
        if mal == "duplicate":
            which = ctx.rng.choice(["rain", "et", "level"])
            rows = getattr(tr, which)
            rows.append((rows[ctx.rng.randrange(len(rows))][0], 1.0))
            tr.note += " malformed=duplicate in %s" % which
        res = L.run_load(ctx, tr, second_load=(mal == "populated"))
        io = L.impl_outcome(res["load"])
        # `populated` in the model = the file already holds tables (a failed first load leaves the empty schema)
        m = L.model_load(ctx, tr, "f", populated=(mal == "populated" and res["had_tables"]))
        ctx.case(("refusal", mal, tr.describe()), io != "ok")
        ctx.count("outcome_" + io)
        inp = {"files": tr.describe(), "timezone": "UTC", "second_load": mal == "populated"}
        # the property's own clause, from the source rows
        zt = sorted(e for e, _ in tr.level)
        core = sorted(e for e, _ in tr.rain if zt[0] <= e <= zt[-1])
        dup = any(len({e for e, _ in r}) != len(r) for r in (tr.rain, tr.et, tr.level))
        must_refuse = None
        if mal == "populated" and L.impl_outcome(res["first"]) == "ok":
            must_refuse = "second load into a populated dataset"
        elif not dup:
            ds = {b - a for a, b in zip(core, core[1:])}
            if len(ds) != 1:
                must_refuse = "non-uniform rainfall steps"
            else:
                dt = ds.pop()
                ets = {e for e, _ in tr.et}
                if any(g not in ets for g in core + [core[-1] + dt]):
                    must_refuse = "evapotranspiration missing for a grid step"
        if must_refuse and mal != "populated" and io != "ok" and i % 5 in (0, 1) and i < (20 if ctx.tier == "quick" else 400):
            # the same refusal when the interpreter runs optimised (`python -O`, PYTHONOPTIMIZE=1 set site-wide):
            # validation must not live in assert statements
            st, tabs = L.run_load_subprocess(ctx, tr, {"PYTHONOPTIMIZE": "1"})
            ctx.case(("refusal-O", mal, tr.describe()), True)
            ctx.count("refusals_repeated_under_python_O")
            ob_o = "malformed input is refused under `python -O` as well"
            ctx.obligation(ob_o, st[0] != "ok")
            if st[0] == "ok":
                ctx.violation("impl-violation", "c11Refuses", {
                    "input": dict(inp, environment={"PYTHONOPTIMIZE": "1"}), "impl": list(st),
                    "oracle": {"name": "c11Refuses", "result": False,
                               "witness": {"accepted": must_refuse, "interpreter": "python -O",
                                           "rows": {k: (len(v) if v is not None else None) for k, v in tabs.items()}}}})
                continue
        if must_refuse and io == "ok":
            ctx.obligation(ob, False)
            ctx.violation("impl-violation", "c11Refuses", {
                "input": inp, "impl": io, "model": m["outcome"],
                "oracle": {"name": "c11Refuses", "result": False, "witness": {"accepted": must_refuse}}})
            continue
        if mal == "populated" and not res.get("unchanged_by_second_load", True):
            ctx.obligation(ob, False)
            ctx.violation("impl-violation", "c11Refuses", {
                "input": inp, "impl": io,
                "oracle": {"name": "c11Refuses", "result": False, "witness": {"dataset_changed_by_refused_load": True}}})
            continue
        ok = io == m["outcome"]
        ctx.obligation(ob, ok)
        if not ok:
            ctx.corr_break(ob, {"input": inp, "impl": io, "model": m["outcome"]})


def broken_row_stream(ctx, n):
    """a file with one row whose timestamp is missing or unreadable, somewhere in the middle (two downloads pasted
    together in a spreadsheet, a logger's error line): the input is malformed and must be refused -- never accepted with
    the rest of the file silently dropped"""
    ob = "a file containing a row without a readable timestamp is refused"
    for i in range(n):
        tr = L.gen_triple(ctx.rng)
        which = ctx.rng.choice(["rain", "et", "level"])
        rows = sorted(getattr(tr, which))
        if len(rows) < 3:
            continue
        bad = ctx.rng.choice([None, None, "", "n/a", "2013-02-30 00:00:00", "24:00:00 2013-01-01"])
        rows.insert(ctx.rng.randint(1, len(rows) - 1), (bad, 0.5))
        setattr(tr, which, rows)
        name = "b%d" % i
        files = cli.write_dataset(ctx.tmp, name, tr.rain, tr.et, tr.level)
        db = ctx.scratch(name + ".sqlite3")
        r = cli.load(db, files, "UTC")
        d = cli.dump(db, ["rainfall_intensity_staging", "water_level_staging", "evapotranspiration_staging", "grid_time"])
        import os
        for p_ in list(files) + [db]:
            os.path.exists(p_) and os.remove(p_)
        ctx.case(("broken-row", which, repr(bad), i), True)
        ctx.obligation(ob, r[0] != "ok")
        if r[0] == "ok":
            kept = {k: (len(v) if isinstance(v, list) else v) for k, v in d.items()}
            ctx.violation("impl-violation", "c11Refuses", {
                "input": {"files": {"rain": tr.rain, "et": tr.et, "level": tr.level}, "file_with_the_row": which, "row": [bad, 0.5]},
                "impl": list(r), "oracle": {"name": "c11Refuses", "result": False,
                                            "witness": {"accepted": "a %s file with a row whose timestamp is %r" % (which, bad),
                                                        "rows_kept": kept, "rows_in_file": len(rows)}}})


def cli_zone_stream(ctx, zones):
    """whole `spowtd load --timezone Z`: staged epochs render back to the file's text in Z."""
    import pytz
    ob = "`spowtd load --timezone Z`: every stored epoch in model localize(Z, text)"
    for name in zones:
        tz = pytz.timezone(name)
        table = zone_table(tz)
        dt = 1800
        t0 = (ctx.rng.randint(631152000, 1893456000) // dt) * dt
        n = 12
        eps = [t0 + i * dt for i in range(n)]

        def local(u):
            return datetime.datetime.fromtimestamp(u, tz).strftime("%Y-%m-%d %H:%M:%S")
        texts = [local(u) for u in eps + [eps[-1] + dt, eps[-1] + 2 * dt]]
        if len(set(texts)) != len(texts):
            continue      # a repeated hour inside the window: two rows with the same text
        files = cli.write_dataset(ctx.tmp, "z", [(u, 0.5) for u in eps], [(u, 0.1) for u in eps + [eps[-1] + dt, eps[-1] + 2 * dt]],
                                  [(u, float(i)) for i, u in enumerate(eps)], fmt=local)
        db = ctx.scratch("z.sqlite3")
        r = cli.load(db, files, name)
        d = cli.dump(db, ["rainfall_intensity_staging", "water_level_staging", "evapotranspiration_staging"])
        import os
        for p in list(files) + [db]:
            os.path.exists(p) and os.remove(p)
        ctx.case(("cli-zone", name, t0), True)
        if r[0] != "ok":
            ctx.obligation(ob, False)
            ctx.corr_break(ob, {"input": {"zone": name, "texts": texts}, "impl": list(r)})
            continue
        model = ctx.driver.call("timestamp", {"zone": table, "texts": texts})
        # each of the three files is converted with the zone given on the command line
        for tab, count in (("rainfall_intensity_staging", n), ("water_level_staging", n), ("evapotranspiration_staging", n + 2)):
            stored = [row[0] for row in (d.get(tab) or [])] if not isinstance(d.get(tab), str) else []
            ok = len(stored) == count and all(m is not None and s_ in m["utc"] for s_, m in zip(stored, model[:count]))
            ctx.obligation(ob, ok)
            if not ok:
                ctx.violation("impl-violation", "c11Holds", {
                    "input": {"argv": "load DB ... --timezone %s" % name, "texts": texts[:count], "table": tab}, "impl": stored,
                    "model": [m and m["utc"] for m in model[:count]],
                    "oracle": {"name": "c11Holds", "result": False,
                               "witness": {"zone": name, "table": tab, "first_text": texts[0], "stored": stored[:1], "rows": len(stored)}}})
                break


def run(ctx):
    from .c10 import other_process_zone
    other_process_zone(ctx, 3 if ctx.tier == "quick" else 40)
    shortz = zones_with_short_lived_offsets()
    ctx.count("zones_with_an_offset_in_force_for_less_than_45_days", len(shortz))
    if ctx.tier == "quick":
        timestamp_stream(ctx, ZONES + [z for z in ctx.rng.sample(shortz, min(14, len(shortz))) if z not in ZONES], 12, 2)
        text_stream(ctx)
        refusal_stream(ctx, 150)
        broken_row_stream(ctx, 40)
        cli_zone_stream(ctx, ctx.rng.sample(ZONES, 12))
    else:
        import pytz
        allz = sorted(set(ZONES) | set(pytz.common_timezones) | set(shortz))
        timestamp_stream(ctx, allz, 40, 6)
        text_stream(ctx)
        refusal_stream(ctx, 3000)
        broken_row_stream(ctx, 600)
        cli_zone_stream(ctx, allz[::3])


def replay(ctx, doc):
    inp = doc["input"]
    if inp.get("function") == "load.generate_timestamped_rows":
        common.import_spowtd()
        import pytz
        import spowtd.load as lm
        tz = pytz.timezone(inp["zone"])
        table = zone_table(tz)
        m = ctx.driver.call("timestamp", {"zone": table, "texts": [inp["text"]]})[0]
        rows = inp.get("rows_of_the_call") or [inp["text"]]
        try:
            got = [r[0] for r in lm.generate_timestamped_rows([[x, "1"] for x in rows], tz)][rows.index(inp["text"])]
        except Exception as e:  # noqa
            got = repr(e)
        print("impl:", got, "instants rendering to the text:", m and m["utc"])
        return m is None or not m["utc"] or got in m["utc"]
    if "files" in inp:
        f = inp["files"]
        tr = L.Triple([tuple(r) for r in f["rain"]], [tuple(r) for r in f["et"]], [tuple(r) for r in f["level"]], f.get("note", ""))
        res = L.run_load(ctx, tr, second_load=inp.get("second_load", False))
        print("load outcome:", res["load"])
        return L.impl_outcome(res["load"]) != "ok"
    return None   # re-run the stream with the recorded seed (check.py does it)
