"""C01 — classification completes and pairs storms with rises one-to-one."""
from . import classify_runner as R
from .base_classify import TRUSTED, ASSUME

THEOREMS = [
    "Spowtd.classify_total",
    "Spowtd.pairing_injective",
    "Spowtd.pairing_overlaps",
    "Spowtd.GS.run_terminates",
    "Spowtd.GS.gs_matching",
    "Spowtd.load_then_classify_total",
    "Spowtd.load_then_pairing_injective",
    "Spowtd.flags_keys_distinct",
    "Spowtd.interstorm_rows_valid",
    "Spowtd.zeta_interval_keys_distinct",
    "Spowtd.interval_rows_have_levels",
]
TRUSTED_BASE = TRUSTED + [
    "translator tools/gen_schema.py: spowtd/schema.sql as parsed by SQLite itself (PRAGMA table_info / index_list / "
    "foreign_key_list; CHECK clauses and view bodies cut from the stored CREATE text) -> lean/SchemaTie/Generated.lean; "
    "the declarations the proofs assume are re-checked by `rfl` on every run (SchemaTie/Classify.lean)",
    "translator tools/gen_formulas.py: the arithmetic of the named source functions (an expression, or a whole body of assignments, if and return) as Python's own `ast` parses it -> Lean terms over the carrier class in lean/FormulaTie/Gen*.lean; that each is the model's definition is re-checked by `rfl` / a short unfolding on every run (lean/FormulaTie/*.lean)",
]
SCHEMA_TIE = ('Classify',)
SQL_TIE = ('classify',)
FORMULA_TIE = ('Classify',)
ASSUMPTIONS = ASSUME
RULE = ("records generated as sequences of events (dry spells, light rain, storms with lagged rises, unexplained "
        "rises, multi-burst storms, multi-rise storms) with per-step noise, fully random class sequences, hand-written "
        "boundary corpus, windows of the repository's field data; loaded and classified through the real CLI; a case is "
        "non-trivial when it has at least one candidate storm-rise pair or one interstorm interval; distinct by input")


def match_storms_stream(ctx, n):
    """classify.match_storms on dense layouts (no database): completes, one-to-one, overlapping, = model"""
    import numpy as np
    from . import common, gen
    from .common import f2h
    common.import_spowtd()
    import spowtd.classify as cm
    ob = "classify.match_storms = model classifyIdx pairs at Float (dense layouts, function level)"
    for _ in range(n):
        s, j = gen.pick_thresholds(ctx.rng)
        rec = gen.layout_record(ctx.rng, s, j, t0=0, gaps=0)
        rain = rec.rain[rec.pre:rec.pre + rec.n]
        level = rec.level
        jd = j * (rec.dt / 3600.0)
        inp = {"function": "classify.match_storms", "rain": rain, "head": level, "rain_threshold": s, "jump_threshold": jd}
        try:
            ri, hi = cm.match_storms(np.array(rain), np.array(level), s, jd)
            got = sorted([[int(a), int(b)], [int(c), int(d) - 1]] for (a, b), (c, d) in zip(ri, hi))
            err = None
        except Exception as e:  # noqa
            got, err = None, "%s: %s" % (type(e).__name__, e)
        m = ctx.driver.call("classifyidx.f", {"s": f2h(s), "j": f2h(j), "dt": rec.dt, "zeta": [f2h(v) for v in level],
                                              "rain": [f2h(v) for v in rain], "pick": "first"})
        model = sorted([list(p[0]), list(p[1])] for p in m["pairs"])
        ncand = sum(len(p[1]) for p in m["prefs"])
        ctx.case(("match_storms", tuple(rain), tuple(level), s, j), ncand > len(m["pstorms"]))
        wit = None
        if err is not None:
            wit = {"why": "match_storms raised", "exception": err}
        else:
            ss = [tuple(p[0]) for p in got]
            rs = [tuple(p[1]) for p in got]
            if len(set(ss)) != len(ss) or len(set(rs)) != len(rs):
                wit = {"why": "a storm or a rise appears more than once", "pairs": got}
            elif any(not (max(p[0][0], p[1][0]) < min(p[0][1], p[1][1])) for p in got):
                wit = {"why": "a recorded pair shares no time step", "pairs": got}
        same = err is None and (got == model or not m["strict"])
        ctx.obligation(ob, same and wit is None)
        if wit is not None:
            ctx.violation("impl-violation", "c01Holds", {"input": inp, "impl": got if err is None else err, "model": model,
                          "oracle": {"name": "c01Holds", "result": False, "witness": wit}})
        elif not same:
            ctx.corr_break(ob, {"input": inp, "impl": got, "model": model})


def run(ctx):
    if ctx.tier == "quick":
        match_storms_stream(ctx, 1500)
        R.run_records(ctx, "C01", 240, exhaustive_n=0, field=2)
    else:
        match_storms_stream(ctx, 40000)
        R.run_records(ctx, "C01", 1500, exhaustive_n=4, field=8)


def replay(ctx, doc):
    if doc.get("input", {}).get("function") == "classify.match_storms":
        import numpy as np
        from . import common
        common.import_spowtd()
        import spowtd.classify as cm
        i = doc["input"]
        try:
            ri, hi = cm.match_storms(np.array(i["rain"]), np.array(i["head"]), i["rain_threshold"], i["jump_threshold"])
        except Exception as e:  # noqa
            print("match_storms raised", repr(e))
            return False
        print("pairs:", list(zip(ri, hi)))
        return len(set(ri)) == len(ri) and len(set(hi)) == len(hi)
    return R.replay_record(ctx, "C01", doc)
