"""C01 — classification completes and pairs storms with rises one-to-one."""
from . import classify_runner as R
from .base_classify import TRUSTED, ASSUME

THEOREMS = [
    "Spowtd.classify_total",
    "Spowtd.pairing_injective",
    "Spowtd.pairing_overlaps",
    "Spowtd.GS.run_terminates",
    "Spowtd.GS.gs_matching",
    "Spowtd.load_then_classify_total",
    "Spowtd.load_then_pairing_injective",
]
TRUSTED_BASE = TRUSTED
ASSUMPTIONS = ASSUME
RULE = ("records generated as sequences of events (dry spells, light rain, storms with lagged rises, unexplained "
        "rises, multi-burst storms, multi-rise storms) with per-step noise, fully random class sequences, hand-written "
        "boundary corpus, windows of the repository's field data; loaded and classified through the real CLI; a case is "
        "non-trivial when it has at least one candidate storm-rise pair or one interstorm interval; distinct by input")


def run(ctx):
    if ctx.tier == "quick":
        R.run_records(ctx, "C01", 240, exhaustive_n=0, field=2)
    else:
        R.run_records(ctx, "C01", 3000, exhaustive_n=5, field=12)


def replay(ctx, doc):
    return R.replay_record(ctx, "C01", doc)
