"""C03 — storms and rises are exactly the maximal above-threshold runs; rain depth is exact."""
import itertools

import numpy as np

from . import classify_runner as R
from . import common
from .base_classify import TRUSTED, ASSUME

THEOREMS = [
    "Spowtd.trueRuns_spec",
    "Spowtd.trueRuns_sorted",
    "Spowtd.trueRuns_nodup",
    "Spowtd.trueRuns_start_inj",
    "Spowtd.storm_is_maximal_heavy_run",
    "Spowtd.rise_is_maximal_jump_run",
    "Spowtd.no_interval_crosses_gap",
    "Spowtd.rain_depth_steps",
]
TRUSTED_BASE = TRUSTED + [
    "translator tools/gen_schema.py: spowtd/schema.sql as parsed by SQLite itself (PRAGMA table_info / index_list / "
    "foreign_key_list; CHECK clauses and view bodies cut from the stored CREATE text) -> lean/SchemaTie/Generated.lean; "
    "the declarations the proofs assume are re-checked by `rfl` on every run (SchemaTie/Classify.lean)",
    "translator tools/gen_formulas.py: the arithmetic of the named source functions (an expression, or a whole body of assignments, if and return) as Python's own `ast` parses it -> Lean terms over the carrier class in lean/FormulaTie/Gen*.lean; that each is the model's definition is re-checked by `rfl` / a short unfolding on every run (lean/FormulaTie/*.lean)",
]
SCHEMA_TIE = ('Classify',)
SQL_TIE = ('classify',)
FORMULA_TIE = ('Classify',)
ASSUMPTIONS = ASSUME + ["SQLite's SUM is compared with the exact rational sum within 1e-9 relative"]
RULE = ("as C01, plus every boolean vector up to length 10 (quick) / 14 (thorough) through "
        "classify.get_true_interval_masks against the model's trueRuns; boundary stream with intensities and "
        "increments exactly at the thresholds")


def runs_stream(ctx, nmax):
    common.import_spowtd()
    import spowtd.classify as cm
    reqs, vecs = [], []
    for n in range(0, nmax + 1):
        for v in itertools.product([False, True], repeat=n):
            vecs.append(list(v))
            reqs.append(("runs", {"v": list(v)}))
    outs = ctx.driver.call_many(reqs)
    ob = "get_true_interval_masks = model trueRuns (all boolean vectors up to length %d)" % nmax
    for v, m in zip(vecs, outs):
        try:
            masks = list(cm.get_true_interval_masks(np.array(v, dtype=bool)))
            got = [[int(np.nonzero(k)[0][0]), int(np.nonzero(k)[0][-1]) + 1] for k in masks]
            err = None
        except Exception as e:  # noqa
            got, err = None, "%s: %s" % (type(e).__name__, e)
        ctx.case(("runs", tuple(v)), any(v))
        ok = got == m
        ctx.obligation(ob, ok)
        if not ok:
            # the oracle: maximal runs computed directly
            from .classification import runs_of
            want = [list(r) for r in runs_of(v)]
            detail = {"input": {"function": "classify.get_true_interval_masks", "vector": v},
                      "impl": got if err is None else err, "model": m,
                      "oracle": {"name": "maximalRuns", "result": got == want, "witness": {"vector": v}}}
            if got != want:
                ctx.violation("impl-violation", "maximalRuns", detail)
            else:
                ctx.corr_break(ob, detail)
    ctx.count("boolean_vectors", len(vecs))


def many_runs(ctx):
    """one boolean vector with more runs than fit in sixteen bits (a year of minute data with a shower every other
    minute): the masks are consumed one at a time, as the caller does"""
    common.import_spowtd()
    import spowtd.classify as cm
    n_runs = ctx.rng.randint(66000, 72000)
    v = np.zeros(2 * n_runs + 3, dtype=bool)
    v[1:2 * n_runs:2] = True
    # a few longer runs among the single-sample ones
    for q in ctx.rng.sample(range(10, 2 * n_runs - 10, 2), 50):
        v[q] = True
    want = [list(r) for r in __import__("harness.classification", fromlist=["runs_of"]).runs_of([bool(x) for x in v])]
    ob = "get_true_interval_masks on a vector with more than 65,536 runs = its maximal runs"
    inp = {"function": "classify.get_true_interval_masks", "generator": "c03.many_runs", "length": int(len(v)), "runs": len(want),
           "note": "too long to inline: regenerate with the seed (the replay re-runs the stream)"}
    ctx.case(("many-runs", len(v)), True)
    wit = None
    try:
        k = -1
        with common.time_limit(300):
            for k, mask in enumerate(cm.get_true_interval_masks(v)):
                idx = np.flatnonzero(mask)
                if k >= len(want) or [int(idx[0]), int(idx[-1]) + 1] != want[k] or len(idx) != want[k][1] - want[k][0]:
                    wit = {"why": "the k-th mask is not the k-th maximal run", "k": k, "expected": want[k] if k < len(want) else None,
                           "got": [int(idx[0]), int(idx[-1]) + 1, int(len(idx))]}
                    break
        if wit is None and k + 1 != len(want):
            wit = {"why": "number of masks differs from the number of maximal runs", "masks": k + 1, "runs": len(want)}
    except BaseException as e:  # noqa
        if isinstance(e, KeyboardInterrupt):
            raise
        wit = {"why": "get_true_interval_masks fails on a boolean vector", "exception": "%s: %s" % (type(e).__name__, str(e)[:200])}
    ctx.obligation(ob, wit is None)
    if wit is not None:
        ctx.violation("impl-violation", "maximalRuns", {"input": inp, "impl": wit.get("got") or wit.get("exception"),
                      "oracle": {"name": "maximalRuns", "result": False, "witness": wit}})


def run(ctx):
    many_runs(ctx)
    if ctx.tier == "quick":
        runs_stream(ctx, 10)
        R.run_records(ctx, "C03", 240, field=2)
    else:
        runs_stream(ctx, 14)
        R.run_records(ctx, "C03", 1500, exhaustive_n=4, field=8)


def replay(ctx, doc):
    if doc.get("input", {}).get("function"):
        common.import_spowtd()
        import spowtd.classify as cm
        from .classification import runs_of
        v = doc["input"]["vector"]
        try:
            masks = list(cm.get_true_interval_masks(np.array(v, dtype=bool)))
            got = [[int(np.nonzero(k)[0][0]), int(np.nonzero(k)[0][-1]) + 1] for k in masks]
        except Exception as e:  # noqa
            got = repr(e)
        print("impl:", got, "expected:", runs_of(v))
        return got == [list(r) for r in runs_of(v)]
    return R.replay_record(ctx, "C03", doc)
