"""C07 — results do not depend on the time origin."""
import datetime

from . import classification as C
from . import classify_runner as R
from . import cli, gen
from .base_classify import TRUSTED, ASSUME

THEOREMS = [
    "Spowtd.classify_shift",
    "Spowtd.flags_shift_invariant",
    "Spowtd.zone_change_is_shift",
]
TRUSTED_BASE = TRUSTED
ASSUMPTIONS = ASSUME + [
    "the theorem classify_shift is true of the model because the model never forms epoch/3600; the weight is on the "
    "correspondence at many origins (bit-exact flags) and on the relational oracle, which compares two runs of the "
    "implementation only",
]
RULE = ("each record is loaded and classified at 8 (quick) / 40 (thorough) origins spread over 1970-2100 (shifts by "
        "whole numbers of steps, including origins where fl(epoch/3600) changes binade) and in fixed-offset zones "
        "Etc/GMT+-n with the same wall-clock texts; steps of 10/20/30/60 min; increments exactly equal to "
        "threshold x step are planted; non-trivial = at least one at-threshold increment or candidate pair; "
        "distinct by (record, origin)")


def shift_tables(im, k):
    return {
        "flags": [[r[0] + k] + r[1:] for r in im["flags"]],
        "interstorms": [[a + k, b + k] for a, b in im["interstorms"]],
        "pairs": [[[p[0][0] + k, p[0][1] + k], [p[1][0] + k, p[1][1] + k]] for p in im["pairs"]],
    }


def at_threshold_record(rng, s, j):
    dt = rng.choice([600, 1200, 1200, 1200, 1800, 3600])
    n = rng.randint(6, 30)
    rc = [rng.choices(["dry", "light", "heavy"], [4, 2, 3])[0] for _ in range(n)]
    ic = [rng.choices(["fall", "flat", "slow", "at", "fast"], [3, 1, 2, 4, 3])[0] for _ in range(n)]
    return gen.build_record(rng, s, j, dt, n, rc, ic, t0=0, gaps=rng.choice([0, 0, 1]), pre=0, post=1)


def origins(rng, dt, k):
    out = [0, 3600 * 24 * 365 * 30 // dt * dt]
    # around binade changes of epoch/3600: epoch = 3600 * 2^m
    for m in (17, 18, 19):
        out.append((3600 * 2 ** m) // dt * dt - 3 * dt)
    while len(out) < k:
        out.append(rng.randint(0, 4102444800) // dt * dt)
    return out[:k]


def run(ctx):
    nrec, k = (30, 8) if ctx.tier == "quick" else (300, 40)
    rng = ctx.rng
    ob_corr = "flags / intervals / pairing of `spowtd classify` = model classifyAll at Float, at every origin"
    ob_rel = "two loads of the same data at two origins give tables that differ by exactly the shift"
    for i in range(nrec):
        s, j = gen.pick_thresholds(rng)
        rec = at_threshold_record(rng, s, j)
        base = None
        nat = sum(1 for a, b in zip(rec.level, rec.level[1:]) if b - a == j * (rec.dt / 3600.0))
        ctx.count("at_threshold_increments", nat)
        zones = []
        if i % 3 == 0:
            zones = ["Etc/GMT%+d" % z for z in rng.sample([-12, -7, -1, 3, 5, 11], 2)]
        runs = [(t0, "UTC") for t0 in origins(rng, rec.dt, k)] + [(86400 * 20000 // rec.dt * rec.dt, z) for z in zones]
        for t0, tz in runs:
            r2 = gen.Record(rec.dt, t0, rec.rain, rec.level, rec.removed, rec.pre, rec.post)
            res = C.run_case(ctx, r2, s, j, tz="UTC" if tz == "UTC" else tz)
            inp = C.replay_input(r2, s, j, tz)
            if res["load"][0] != "ok":
                ctx.count("load_refused")
                break
            ctx.case(("c07", i, t0, tz), nat > 0 or bool(res["impl"]["pairs"]))
            if res["classify"][0] != "ok":
                ctx.count("impl_error")
                continue
            # where the data actually landed (the zone shifts the instants by its offset)
            e0 = res["loaded"]["grid_time"][0][0]
            im, m = res["impl"], res["model"]
            same = (m["outcome"] == "ok" and im["flags"] == m["flags"] and im["interstorms"] == m["interstorms"]
                    and (not m["strict"] or im["pairs"] == m["pairs"]))
            ctx.obligation(ob_corr, same)
            if base is None:
                base = (e0, im, inp)
                ctx.sample({"record": rec.describe(), "s": s, "j": j, "origins": [r[0] for r in runs][:8], "zones": zones}, limit=2)
                if not same:
                    ctx.corr_break(ob_corr, {"input": inp, "impl": im, "model": m})
                continue
            sh = shift_tables(base[1], e0 - base[0])
            strict = m["outcome"] == "ok" and m["strict"]
            rel = im["flags"] == sh["flags"] and im["interstorms"] == sh["interstorms"] and (not strict or im["pairs"] == sh["pairs"])
            ctx.obligation(ob_rel, rel)
            if not rel:
                which = [k_ for k_ in ("flags", "interstorms", "pairs") if im[k_] != sh[k_]]
                ctx.violation("impl-violation", "c07Holds", {
                    "input": {"first": base[2], "second": inp, "shift_s": e0 - base[0]},
                    "impl": {"first": base[1], "second": im},
                    "oracle": {"name": "c07Holds", "result": False,
                               "witness": {"differs_on": which, "origin_a": base[0], "origin_b": e0}}})
            elif not same:
                ctx.corr_break(ob_corr, {"input": inp, "impl": im, "model": m})


def replay(ctx, doc):
    a, b = doc["input"]["first"], doc["input"]["second"]
    out = []
    for x in (a, b):
        r = x["record"]
        rec = gen.Record(r["dt"], r["t0"], r["rain"], r["level"], set(r["removed"]), r["pre"], r["post"])
        res = C.run_case(ctx, rec, x["s"], x["j"], tz=x.get("timezone", "UTC"), want_model=False)
        out.append((res["loaded"]["grid_time"][0][0], res["impl"]))
    sh = shift_tables(out[0][1], out[1][0] - out[0][0])
    ok = all(out[1][1][k] == sh[k] for k in ("flags", "interstorms", "pairs"))
    print("tables at the two origins differ by exactly the shift:", ok)
    return ok
