"""C07 — results do not depend on the time origin."""
import datetime

from . import classification as C
from . import classify_runner as R
from . import cli, gen
from .base_classify import TRUSTED, ASSUME

THEOREMS = [
    "Spowtd.classify_shift",
    "Spowtd.flags_shift_invariant",
    "Spowtd.zone_change_is_shift",
    "Spowtd.crossings_shift_x",
    "Spowtd.rebase_shift",
    "Spowtd.alignSeries_shift",
    "Spowtd.recession_curve_shift",
    "Spowtd.rise_curve_shift",
]
TRUSTED_BASE = TRUSTED + [
    "translator tools/gen_formulas.py: the arithmetic of the named source functions (an expression, or a whole body of assignments, "
    "if and return) as Python's own `ast` parses it -> Lean terms over the carrier class in lean/FormulaTie/Gen*.lean; "
    "that each is the model's definition is re-checked by `rfl` / a short unfolding on every run (lean/FormulaTie/*.lean)",
]
SQL_TIE = ('load', 'classify')
FORMULA_TIE = ('Classify',)
ASSUMPTIONS = ASSUME + [
    "the theorem classify_shift is true of the model because the model never forms epoch/3600; the weight is on the "
    "correspondence at many origins (bit-exact flags) and on the relational oracle, which compares two runs of the "
    "implementation only",
]
RULE = ("each record is loaded and classified at 8 (quick) / 40 (thorough) origins spread over 1970-2100 (shifts by "
        "whole numbers of steps, including origins where fl(epoch/3600) changes binade) and in fixed-offset zones "
        "Etc/GMT+-n with the same wall-clock texts; steps of 10/20/30/60 min; increments exactly equal to "
        "threshold x step are planted; non-trivial = at least one at-threshold increment or candidate pair; "
        "distinct by (record, origin)")


def shift_tables(im, k):
    return {
        "flags": [[r[0] + k] + r[1:] for r in im["flags"]],
        "interstorms": [[a + k, b + k] for a, b in im["interstorms"]],
        "pairs": [[[p[0][0] + k, p[0][1] + k], [p[1][0] + k, p[1][1] + k]] for p in im["pairs"]],
    }


def at_threshold_record(rng, s, j):
    dt = rng.choice([600, 1200, 1200, 1200, 1800, 3600])
    n = rng.randint(6, 30)
    rc = [rng.choices(["dry", "light", "heavy"], [4, 2, 3])[0] for _ in range(n)]
    ic = [rng.choices(["fall", "flat", "slow", "at", "fast"], [3, 1, 2, 4, 3])[0] for _ in range(n)]
    return gen.build_record(rng, s, j, dt, n, rc, ic, t0=0, gaps=rng.choice([0, 0, 1]), pre=0, post=1)


def zone_offset_s(tz):
    """UTC = wall clock + this, for the zones this check declares"""
    if tz == "UTC":
        return 0
    assert tz.startswith("Etc/GMT"), tz
    return int(tz[len("Etc/GMT"):]) * 3600


def origins(rng, dt, k, n=8):
    out = [0, 3600 * 24 * 365 * 30 // dt * dt]
    # around binade changes of epoch/3600: epoch = 3600 * 2^m
    for m in (17, 18, 19):
        out.append((3600 * 2 ** m) // dt * dt - 3 * dt)
    # records that straddle an instant where epoch/step, epoch/60 or the epoch itself changes binade
    for unit in (dt, dt, 60, 1):
        m = rng.randint(18, 24) if unit == dt else (rng.randint(23, 26) if unit == 60 else rng.randint(29, 31))
        out.append((unit * 2 ** m) // dt * dt - rng.randint(1, max(1, n - 2)) * dt)
    # records from before 1970 (long-term sites go back to the 1950s): negative epochs, and one straddling 1970
    out.append(-(rng.randint(10**7, 6 * 10**8) // dt * dt))
    if rng.random() < 0.5:
        out.append(-rng.randint(1, max(1, n - 2)) * dt)
    while len(out) < k:
        out.append(rng.randint(-631152000, 4102444800) // dt * dt)
    return out[:k]


def run(ctx):
    nrec, k = (30, 12) if ctx.tier == "quick" else (300, 40)
    rng = ctx.rng
    curves_across_origins(ctx, 4 if ctx.tier == "quick" else 60, 3 if ctx.tier == "quick" else 8)
    ob_corr = "flags / intervals / pairing of `spowtd classify` = model classifyAll at Float, at every origin"
    ob_rel = "two loads of the same data at two origins give tables that differ by exactly the shift"
    for i in range(nrec):
        s, j = gen.pick_thresholds(rng)
        rec = at_threshold_record(rng, s, j)
        base = None
        nat = sum(1 for a, b in zip(rec.level, rec.level[1:]) if b - a == j * (rec.dt / 3600.0))
        ctx.count("at_threshold_increments", nat)
        zones = []
        if i % 3 == 0:
            zones = ["Etc/GMT%+d" % z for z in rng.sample([-12, -7, -1, 3, 5, 11], 2)]
        if i % 2:
            # the level logger's clock is minutes off the rain gauge's (levels are interpolated onto the grid)
            rec.phase = rng.choice([60, 120, 420, 140, 300, 1000, 1740]) % rec.dt
        runs = [(t0, "UTC") for t0 in origins(rng, rec.dt, k, rec.n)] + [(86400 * 20000 // rec.dt * rec.dt, z) for z in zones]
        first_failure = None
        for t0, tz in runs:
            r2 = gen.Record(rec.dt, t0, rec.rain, rec.level, rec.removed, rec.pre, rec.post, phase=rec.phase)
            res = C.run_case(ctx, r2, s, j, tz="UTC" if tz == "UTC" else tz)
            inp = C.replay_input(r2, s, j, tz)
            failed = "load" if res["load"][0] != "ok" else ("classify" if res["classify"][0] != "ok" else None)
            if failed and base is None:
                # remember: if the same data goes through at a later origin, this failure was a dependence on the origin
                if first_failure is None:
                    first_failure = (t0, tz, failed, list(res[failed]), inp)
                ctx.count("load_refused" if failed == "load" else "impl_error")
                continue
            if not failed and first_failure is not None:
                f0, ftz, fwhat, fstatus, finp = first_failure
                first_failure = None
                ctx.case(("c07", i, f0, ftz), True)
                ctx.obligation(ob_rel, False)
                ctx.violation("impl-violation", "c07Holds", {
                    "input": {"first": inp, "second": finp, "shift_s": None},
                    "impl": {"first": "ok", "second": fstatus},
                    "oracle": {"name": "c07Holds", "result": False,
                               "witness": {"differs_on": ["`%s` fails at this origin and succeeds at the other" % fwhat],
                                           "origin_a": t0, "origin_b": f0, "zone_b": ftz, "status": fstatus}}})
            if failed and base is not None:
                # the same data was processed at another origin: failing here is a dependence on the origin
                ctx.case(("c07", i, t0, tz), True)
                ctx.obligation(ob_rel, False)
                ctx.violation("impl-violation", "c07Holds", {
                    "input": {"first": base[2], "second": inp, "shift_s": None},
                    "impl": {"first": "ok", "second": list(res[failed])},
                    "oracle": {"name": "c07Holds", "result": False,
                               "witness": {"differs_on": ["`%s` fails at this origin and succeeds at the other" % failed],
                                           "origin_a": base[0], "origin_b": t0, "zone_b": tz, "status": list(res[failed])}}})
                continue
            if res["load"][0] != "ok":
                ctx.count("load_refused")
                break
            ctx.case(("c07", i, t0, tz), nat > 0 or bool(res["impl"]["pairs"]))
            if res["classify"][0] != "ok":
                ctx.count("impl_error")
                continue
            # where the data actually landed (the zone shifts the instants by its offset)
            e0 = res["loaded"]["grid_time"][0][0]
            im, m = res["impl"], res["model"]
            same = (m["outcome"] == "ok" and im["flags"] == m["flags"] and im["interstorms"] == m["interstorms"]
                    and (not m["strict"] or im["pairs"] == m["pairs"]))
            ctx.obligation(ob_corr, same)
            if base is None:
                base = (e0, im, inp, t0 + zone_offset_s(tz))
                # origins that put the first instant of an interstorm interval, of a storm and of a rise at epoch 0 exactly
                # (1970-01-01 00:00:00 UTC: the one instant whose number is falsy)
                firsts = [iv[0] for iv in (im["interstorms"][:1] + [p_[0] for p_ in im["pairs"][:1]] + [p_[1] for p_ in im["pairs"][:1]])]
                for e_first in firsts:
                    if (t0 - e_first) % rec.dt == 0 and all(r_[0] != t0 - e_first for r_ in runs):
                        runs.append((t0 - e_first, "UTC"))
                        ctx.count("origins_putting_an_interval_boundary_at_epoch_zero")
                ctx.sample({"record": rec.describe(), "s": s, "j": j, "origins": [r[0] for r in runs][:8], "zones": zones}, limit=2)
                if not same:
                    ctx.corr_break(ob_corr, {"input": inp, "impl": im, "model": m})
                continue
            # "by exactly that amount": the instants land where the typed wall-clock times and the declared zone put them
            # (POSIX sign: `Etc/GMT+5` is five hours BEHIND UTC, so its wall clock is UTC - 5 h and UTC = wall clock + 5 h)
            amount = (t0 + zone_offset_s(tz)) - base[3]
            if e0 - base[0] != amount:
                ctx.obligation(ob_rel, False)
                ctx.violation("impl-violation", "c07Holds", {
                    "input": {"first": base[2], "second": inp, "shift_s": amount},
                    "impl": {"first_instant_of_first": base[0], "first_instant_of_second": e0},
                    "oracle": {"name": "c07Holds", "result": False,
                               "witness": {"differs_on": ["the record is not shifted by the difference of the typed times and of the zone offsets"],
                                           "origin_a": base[0], "origin_b": e0, "zone_b": tz, "expected_shift_s": amount,
                                           "observed_shift_s": e0 - base[0]}}})
                continue
            sh = shift_tables(base[1], e0 - base[0])
            strict = m["outcome"] == "ok" and m["strict"]
            rel = im["flags"] == sh["flags"] and im["interstorms"] == sh["interstorms"] and (not strict or im["pairs"] == sh["pairs"])
            ctx.obligation(ob_rel, rel)
            if not rel:
                which = [k_ for k_ in ("flags", "interstorms", "pairs") if im[k_] != sh[k_]]
                ctx.violation("impl-violation", "c07Holds", {
                    "input": {"first": base[2], "second": inp, "shift_s": e0 - base[0]},
                    "impl": {"first": base[1], "second": im},
                    "oracle": {"name": "c07Holds", "result": False,
                               "witness": {"differs_on": which, "origin_a": base[0], "origin_b": e0}}})
            elif not same:
                ctx.corr_break(ob_corr, {"input": inp, "impl": im, "model": m})
        if base is None:
            all_origins_failed(ctx, first_failure, ob_corr)


def all_origins_failed(ctx, first_failure, ob):
    """nothing went through at any origin: not an origin dependence, but the generated records are valid"""
    if first_failure is not None:
        _t0, _tz, what, status, inp = first_failure
        ctx.corr_break(ob, {"input": inp, "impl": status,
                            "no_longer_checks": "`%s` succeeds on a generated record (it fails at every origin tried)" % what})


def curves_across_origins(ctx, n, k):
    """both master curves (and the offsets of their intervals) at several origins and in a fixed-offset zone"""
    from . import pipeline as P
    ob = "both master curves unchanged when the record is moved to another origin / fixed-offset zone"
    rng = ctx.rng
    for i in range(n):
        tr = P.gen_truth(rng, noise=rng.choice([0.0, 0.4]), dt=rng.choice([600, 1200, 1200, 1800]))
        zstep = rng.choice([1.0, 0.5, 2.0])
        base = None
        first_fail = None
        runs = [(t0, "UTC") for t0 in [0] + rng.sample(origins(rng, tr.dt, 12)[1:], k)] + [(86400 * 15000 // tr.dt * tr.dt, "Etc/GMT%+d" % rng.choice([-11, -3, 4, 9]))]
        for t0, tz in runs:
            tr.t0 = t0
            w = P.run_workflow(ctx, tr.rows(), tr.s, tr.j, zstep, tz=tz)
            st, t = w["status"], w["tables"]
            if st.get("rise", ("x",))[0] != "ok" or st.get("recession", ("x",))[0] != "ok":
                if base is not None:
                    ctx.case(("c07-curves", i, t0, tz), True)
                    ctx.obligation(ob, False)
                    ctx.violation("impl-violation", "c07Holds", {
                        "input": {"truth": tr.describe(), "zeta_step": zstep, "first": {"t0": base[0], "timezone": base[1]},
                                  "second": {"t0": t0, "timezone": tz}},
                        "impl": {"first": "ok", "second": {k_: list(v) for k_, v in st.items()}},
                        "oracle": {"name": "c07Holds", "result": False,
                                   "witness": {"differs_on": ["the workflow fails at this origin and succeeds at the other"],
                                               "origin_a": base[0], "origin_b": t0, "zone_b": tz,
                                               "status": {k_: list(v) for k_, v in st.items()}}}})
                    break
                ctx.count("curves_not_assembled")
                if first_fail is None:
                    first_fail = (t0, tz, {k_: list(v) for k_, v in st.items()})
                continue
            e0 = t["grid_time"][0][0]
            cur = {"rise": t["average_rising_depth"], "recession": t["average_recession_time"],
                   "rising_interval": [[int(a) - e0, b] for a, b in t["rising_interval"]],
                   "recession_interval": [[int(a) - e0, b] for a, b in t["recession_interval"]]}
            ctx.case(("c07-curves", i, t0, tz), True)
            if base is None:
                base = (t0, tz, cur)
                if first_fail is not None:
                    ctx.obligation(ob, False)
                    ctx.violation("impl-violation", "c07Holds", {
                        "input": {"truth": tr.describe(), "zeta_step": zstep, "first": {"t0": t0, "timezone": tz},
                                  "second": {"t0": first_fail[0], "timezone": first_fail[1]}},
                        "impl": {"first": "ok", "second": first_fail[2]},
                        "oracle": {"name": "c07Holds", "result": False,
                                   "witness": {"differs_on": ["the workflow fails at this origin and succeeds at the other"],
                                               "origin_a": t0, "origin_b": first_fail[0], "zone_b": first_fail[1], "status": first_fail[2]}}})
                    break
                continue

            def close(x, y):
                return len(x) == len(y) and all(a[0] == b[0] and abs(a[1] - b[1]) <= 1e-9 * max(1.0, abs(b[1])) for a, b in zip(x, y))
            bad = [name for name in cur if not close(cur[name], base[2][name])]
            ctx.obligation(ob, not bad)
            if bad:
                ctx.violation("impl-violation", "c07Holds", {
                    "input": {"truth": tr.describe(), "zeta_step": zstep, "first": {"t0": base[0], "timezone": base[1]},
                              "second": {"t0": t0, "timezone": tz}},
                    "impl": {"first": {k_: base[2][k_][:4] for k_ in bad}, "second": {k_: cur[k_][:4] for k_ in bad}},
                    "oracle": {"name": "c07Holds", "result": False,
                               "witness": {"differs_on": bad, "origin_a": base[0], "origin_b": t0, "zone_b": tz}}})
                break


def replay(ctx, doc):
    if "truth" in doc.get("input", {}):
        return None   # re-run the stream with the recorded seed (check.py does it)
    a, b = doc["input"]["first"], doc["input"]["second"]
    out = []
    for x in (a, b):
        r = x["record"]
        rec = gen.Record(r["dt"], r["t0"], r["rain"], r["level"], set(r["removed"]), r["pre"], r["post"], phase=r.get("phase", 0))
        res = C.run_case(ctx, rec, x["s"], x["j"], tz=x.get("timezone", "UTC"), want_model=False)
        out.append((res["loaded"]["grid_time"][0][0], res["impl"]))
    sh = shift_tables(out[0][1], out[1][0] - out[0][0])
    ok = all(out[1][1][k] == sh[k] for k in ("flags", "interstorms", "pairs"))
    print("tables at the two origins differ by exactly the shift:", ok)
    return ok
