"""Run the real spowtd code: through `user_interface.main` on scratch SQLite files."""

import datetime
import os
import sqlite3

from . import common

os.environ.setdefault("MPLBACKEND", "Agg")

_UI = None


def ui():
    global _UI
    if _UI is None:
        common.import_spowtd()
        import spowtd.user_interface as m

        _UI = m
    return _UI


def run(argv):
    """Call spowtd's CLI in-process. Returns ("ok",) or ("exit", code) or ("error", cls, msg)."""
    import logging

    try:
        rv = ui().main([str(a) for a in argv])
        if rv not in (None, 0):
            # what the launcher hands to sys.exit(): a failure as the shell sees it, even without an exception
            return ("exit", rv)
        return ("ok",)
    except SystemExit as e:  # argparse
        return ("exit", e.code)
    except BaseException as e:  # noqa
        if isinstance(e, KeyboardInterrupt):
            raise
        return ("error", type(e).__name__, str(e)[:300])
    finally:
        # every command is its own process for a user: do not let the logging configuration of one call (e.g.
        # a -vvv run) leak into the next call or into function-level streams
        for h in logging.root.handlers[:]:
            logging.root.removeHandler(h)
            try:
                h.flush()
            except Exception:  # noqa
                pass
        logging.root.setLevel(logging.WARNING)


def fmt_time(epoch):
    """UTC epoch seconds -> 'YYYY-MM-DD HH:MM:SS' (UTC)."""
    return (datetime.datetime(1970, 1, 1) + datetime.timedelta(seconds=int(epoch))).strftime("%Y-%m-%d %H:%M:%S")


FORCE_DIALECT = [None]  # set while replaying a recorded case
DIALECT_RNG = [None]    # set by the Context: a PRNG (derived from the seed) that picks the text dialect of each dataset


def pick_dialect():
    """How the same data may legitimately be spelled in a text file: a byte-order mark (spreadsheet "CSV UTF-8"),
    CRLF line ends, hours / months / days without the leading zero (cell format yyyy-m-d h:mm:ss), more than one
    blank between date and time.  All of them are read identically by the loader."""
    if FORCE_DIALECT[0] is not None:
        d = FORCE_DIALECT[0]
        return {"bom": tuple(d["bom"]), "crlf": d["crlf"], "time": d["time"], "quote": d.get("quote", "none")}
    r = DIALECT_RNG[0]
    if r is None or r.random() < 0.7:
        return {"bom": (False, False, False), "crlf": False, "time": "padded", "quote": "none"}
    return {"bom": tuple(r.random() < 0.4 for _ in range(3)), "crlf": r.random() < 0.4,
            "time": r.choice(["padded", "padded", "hour", "all", "blanks"]),
            # RFC 4180 quoting as R's write.csv and spreadsheets produce it: text fields, or every field
            "quote": r.choice(["none", "none", "text", "all"])}


def restyle(text, style):
    import re
    if style == "hour":
        return re.sub(r" 0(\d):", r" \1:", text)
    if style == "all":
        text = re.sub(r" 0(\d):", r" \1:", text)
        return re.sub(r"-0(\d)", r"-\1", text)
    if style == "blanks":
        return text.replace(" ", "  ", 1)
    return text


def write_csv(path, header, rows, fmt=fmt_time, bom=False, crlf=False, time_style="padded", quote="none"):
    """rows: list of (epoch_utc, value_text)."""
    def qt(x):         # a text field
        return '"%s"' % x if quote in ("text", "all") else x

    def qn(x):         # a numeric field
        return '"%s"' % x if quote == "all" else x
    with open(path, "w", encoding="utf-8-sig" if bom else "utf-8", newline="\r\n" if crlf else "\n") as fh:
        fh.write("%s,%s\n" % (qt("datetime"), qt(header)))
        for t, v in rows:
            # (a row given as (None, value) or (text, value) is written as it is: rows without / with a malformed timestamp)
            fh.write("%s,%s\n" % (qt("" if t is None else (t if isinstance(t, str) else restyle(fmt(t), time_style))), qn(v)))


def write_dataset(ctx_dir, name, rain, et, level, fmt=fmt_time):
    """Write three text files; returns their paths. Values are given as text or floats (repr'd)."""
    def txt(v):
        return v if isinstance(v, str) else repr(float(v))
    p = os.path.join(ctx_dir, name + "_p.txt")
    e = os.path.join(ctx_dir, name + "_e.txt")
    z = os.path.join(ctx_dir, name + "_z.txt")
    d = pick_dialect()
    LAST_DIALECT[0] = d
    write_csv(p, "precipitation rate (mm/h)", [(t, txt(v)) for t, v in rain], fmt, d["bom"][0], d["crlf"], d["time"], d.get("quote", "none"))
    write_csv(e, "evapotranspiration (mm/h)", [(t, txt(v)) for t, v in et], fmt, d["bom"][1], d["crlf"], d["time"], d.get("quote", "none"))
    write_csv(z, "wtd (mm)", [(t, txt(v)) for t, v in level], fmt, d["bom"][2], d["crlf"], d["time"], d.get("quote", "none"))
    return p, e, z


LAST_DIALECT = [None]


VERBOSITY = [0]     # set by the streams: number of -v flags to add to every command (with a scratch --logfile)


def verbose_args(db):
    if not VERBOSITY[0]:
        return []
    return ["-" + "v" * VERBOSITY[0], "--logfile", db + ".log"]


def load(db, files, tz="UTC"):
    p, e, z = files
    return run(["load", db, "-p", p, "-e", e, "-z", z, "--timezone", tz] + verbose_args(db))


def classify(db, s, j):
    return run(["classify", db, "-s", repr(float(s)), "-j", repr(float(j))] + verbose_args(db))


TABLES = {
    "time_grid": "SELECT time_step_s, source_time_zone FROM time_grid",
    "grid_time": "SELECT epoch, data_interval FROM grid_time ORDER BY epoch",
    "rainfall_intensity": "SELECT from_epoch, thru_epoch, rainfall_intensity_mm_h FROM rainfall_intensity ORDER BY from_epoch",
    "evapotranspiration": "SELECT from_epoch, thru_epoch, evapotranspiration_mm_h FROM evapotranspiration ORDER BY from_epoch",
    "water_level": "SELECT epoch, zeta_mm FROM water_level ORDER BY epoch",
    "thresholds": "SELECT storm_rain_threshold_mm_h, rising_jump_threshold_mm_h FROM thresholds",
    "grid_time_flags": "SELECT start_epoch, is_jump, is_mystery_jump, is_interstorm FROM grid_time_flags ORDER BY start_epoch",
    "storm": "SELECT start_epoch, thru_epoch FROM storm ORDER BY start_epoch",
    "zeta_interval": "SELECT start_epoch, interval_type, thru_epoch FROM zeta_interval ORDER BY start_epoch",
    "zeta_interval_storm": "SELECT interval_start_epoch, interval_type, storm_start_epoch FROM zeta_interval_storm ORDER BY interval_start_epoch",
    "zeta_grid": "SELECT grid_interval_mm FROM zeta_grid",
    "discrete_zeta": "SELECT zeta_number FROM discrete_zeta ORDER BY zeta_number",
    "rising_interval": "SELECT start_epoch, rain_depth_offset_mm FROM rising_interval ORDER BY start_epoch",
    "recession_interval": "SELECT start_epoch, time_offset_s FROM recession_interval ORDER BY start_epoch",
    "rising_interval_zeta": "SELECT start_epoch, zeta_number, mean_crossing_depth_mm FROM rising_interval_zeta ORDER BY start_epoch, zeta_number",
    "recession_interval_zeta": "SELECT start_epoch, zeta_number, mean_crossing_time FROM recession_interval_zeta ORDER BY start_epoch, zeta_number",
    "curvature": "SELECT curvature_m_km2 FROM curvature",
    "storm_total_rain_depth": "SELECT storm_start_epoch, total_depth_mm FROM storm_total_rain_depth ORDER BY storm_start_epoch",
    "average_rising_depth": "SELECT zeta_mm, mean_crossing_depth_mm FROM average_rising_depth ORDER BY zeta_mm",
    "average_recession_time": "SELECT zeta_mm, elapsed_time_s FROM average_recession_time ORDER BY zeta_mm",
    "rising_curve_line_segment": "SELECT interval_start_epoch, rain_depth_offset_mm, rain_total_depth_mm, initial_zeta_mm, final_zeta_mm FROM rising_curve_line_segment ORDER BY interval_start_epoch",
    "rainfall_intensity_staging": "SELECT epoch, rainfall_intensity_mm_h FROM rainfall_intensity_staging ORDER BY epoch",
    "evapotranspiration_staging": "SELECT epoch, evapotranspiration_mm_h FROM evapotranspiration_staging ORDER BY epoch",
    "water_level_staging": "SELECT epoch, zeta_mm FROM water_level_staging ORDER BY epoch",
}


def dump(db, tables=None):
    """Logical dump: every table/view sorted by key. Missing tables -> None."""
    out = {}
    con = sqlite3.connect(db)
    try:
        for name in (tables or TABLES):
            try:
                out[name] = [list(r) for r in con.execute(TABLES[name]).fetchall()]
            except sqlite3.OperationalError:
                out[name] = None
            except sqlite3.DatabaseError as e:
                # "database disk image is malformed", "file is not a database": the file itself is damaged; a marker
                # that compares unequal to every healthy dump
                out[name] = "__corrupt__: %s" % str(e)[:80]
    finally:
        con.close()
    return out


def run_subprocess(argv, extra_env=None):
    """The command as a user runs it: a fresh interpreter per command (bin/spowtd)."""
    import subprocess
    import sys
    env = dict(os.environ, PYTHONPATH=common.REPO, MPLBACKEND="Agg")
    env.update(extra_env or {})
    p = subprocess.run([sys.executable, os.path.join(common.REPO, "bin", "spowtd")] + [str(a) for a in argv],
                       capture_output=True, text=True, env=env, timeout=600)
    return ("ok",) if p.returncode == 0 else ("error", "exit %d" % p.returncode, p.stderr[-300:])
