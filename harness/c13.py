"""C13 — every master-curve row traces back to a classified interval and its own data."""
import math

from . import classification as C
from . import gen
from . import pipeline as P
from .common import Fraction, f2h

THEOREMS = [
    "Spowtd.rising_rows_keyed_by_matched_rise",
    "Spowtd.recession_rows_keyed_by_interstorm",
    "Spowtd.crossing_values_are_own_means",
    "Spowtd.zetaGrid_mem",
    "Spowtd.grid_covers_range",
    "Spowtd.levels_in_grid",
    "Spowtd.grid_tight",
    "Spowtd.meanCrossings_spec",
]
TRUSTED_BASE = [
    "Lean 4.33 kernel; axioms propext, Classical.choice, Quot.sound only (audited per theorem on every run)",
    "Lean runtime (Rat and Float instances) for executing the model",
    "SQLite joins/views, brentq, numpy mean: values compared with exact rationals within 1e-9 relative",
    "the Python harness: generators, table dump, the oracle c13Holds (independent Fraction recomputation of every "
    "crossing value from the interval's own rows)",
    "translator tools/gen_schema.py: spowtd/schema.sql as parsed by SQLite itself (PRAGMA table_info / index_list / "
    "foreign_key_list; CHECK clauses and view bodies cut from the stored CREATE text) -> lean/SchemaTie/Generated.lean; "
    "the declarations the proofs assume are re-checked by `rfl` on every run (SchemaTie/Curves.lean)",
    "translator tools/gen_formulas.py: the arithmetic of the named source functions (an expression, or a whole body of assignments, if and return) as Python's own `ast` parses it -> Lean terms over the carrier class in lean/FormulaTie/Gen*.lean; that each is the model's definition is re-checked by `rfl` / a short unfolding on every run (lean/FormulaTie/*.lean)",
]
SCHEMA_TIE = ('Curves',)
SQL_TIE = ('zeta_grid', 'rise', 'recession')
FORMULA_TIE = ('Grid', 'Regrid')
ASSUMPTIONS = [
    "grid coverage is decided in floating point by the tool (floor(min/step), ceil(max/step)); the oracle skips levels "
    "whose k*step lies within 1e-9 of min or max",
    "only levels crossed by at least two kept intervals are stored (single-interval levels carry no information)",
]
RULE = ("planted-truth records and random event records (non-monotone recessions, repeated crossings) through the whole "
        "CLI with grid steps 1, .5, 2, 2.5, .1, .3 mm, including steps dividing the extreme levels exactly; every row "
        "of the four interval tables and the line-segment view checked against its own interval; non-trivial = both "
        "curves assembled; distinct by input")


def own_crossings(pts, step):
    """mean crossing position per level of a piecewise-linear series, exactly (property C12's rule)"""
    S = Fraction(step)
    x0 = min(Fraction(p[0]) for p in pts)
    out = {}
    for (xa, ya), (xb, yb) in zip(pts, pts[1:]):
        # y/step as the tool forms it (one IEEE division): a sample typed as a decimal multiple of a decimal
        # step is then exactly on its level, which is the reading of the person who typed it
        A, B = Fraction(float(ya) / float(step)), Fraction(float(yb) / float(step))
        lo, hi = min(A, B), max(A, B)
        for k in range(math.ceil(lo), math.ceil(hi)):
            x = (Fraction(xa) - x0) + (k - A) * (Fraction(xb) - Fraction(xa)) / (B - A)
            out.setdefault(k, []).append(x)
    return {k: sum(v) / len(v) for k, v in out.items()}


def oracle_c13(t):
    name = "c13Holds"

    def bad(**w):
        return {"name": name, "result": False, "witness": w}
    zstep = t["zeta_grid"][0][0]
    grid = {r[0] for r in t["discrete_zeta"]}
    lev = dict(t["water_level"])
    im = C.impl_tables(t)
    rises = {p[1][0]: p for p in im["pairs"]}
    inters = {a: b for a, b in im["interstorms"]}
    rain = t["rainfall_intensity"]
    import bisect
    wl = t["water_level"]
    wl_ep = [e for e, _z in wl]
    own_cache = {}
    for kind, keyset in (("rising", rises), ("recession", inters)):
        iv = {int(r[0]) for r in t["%s_interval" % kind]}
        for e in iv:
            if e not in keyset:
                return bad(why="%s_interval row is not a classified interval of the right kind" % kind, start_epoch=e)
        for start, k, v in t["%s_interval_zeta" % kind]:
            start = int(start)
            if start not in iv:
                return bad(why="crossing row without its interval", table=kind, start_epoch=start)
            if k not in grid:
                return bad(why="curve level outside the water-level grid", level=k)
            if (kind, start) not in own_cache:
                if kind == "rising":
                    (sa, sb), (ra, rb) = rises[start]
                    depth = sum(Fraction(x[2]) * Fraction(x[1] - x[0], 3600) for x in rain if sa <= x[0] and x[1] <= sb)
                    pts = [(0, lev[ra]), (depth, lev[rb])]
                else:
                    pts = wl[bisect.bisect_left(wl_ep, start):bisect.bisect_right(wl_ep, inters[start])]
                Yvals = [Fraction(p[1]) / Fraction(zstep) for p in pts]
                own_cache[kind, start] = (own_crossings(pts, zstep),
                                          any(abs(Y - round(Y)) < Fraction(1, 10**9) and Y != round(Y) for Y in Yvals))
            own, near = own_cache[kind, start]
            if k not in own:
                if near:
                    continue
                return bad(why="stored level is not crossed by the interval's own samples", table=kind, start_epoch=start, level=k)
            if abs(own[k] - Fraction(v)) > Fraction(1, 10**9) * max(1, abs(own[k])) + Fraction(1, 10**7):
                return bad(why="crossing value is not the mean crossing position of the interval's own samples",
                           table=kind, start_epoch=start, level=k, stored=v, own=float(own[k]))
    # the line-segment view
    for start, off, depth, z0, z1 in t["rising_curve_line_segment"] or []:
        (sa, sb), (ra, rb) = rises[int(start)]
        d = sum(Fraction(x[2]) * Fraction(x[1] - x[0], 3600) for x in rain if sa <= x[0] and x[1] <= sb)
        if z0 != lev[ra] or z1 != lev[rb] or abs(Fraction(depth) - d) > Fraction(1, 10**9) * max(1, d):
            return bad(why="line segment of a rise does not use its own storm depth and end levels", start_epoch=int(start))
    # coverage of the observed range
    zs = [v for _e, v in t["water_level"]]
    zmin, zmax = Fraction(min(zs)), Fraction(max(zs))
    S = Fraction(zstep)
    tol = Fraction(1, 10**9)
    k = math.ceil(zmin / S)
    while k * S < zmax:
        if k not in grid and abs(k * S - zmin) > tol and abs(k * S - zmax) > tol:
            return bad(why="a multiple of the step inside the observed range is not a grid level", level=k)
        k += 1
    kf = math.floor(zmin / S)
    if zmin < zmax and kf not in grid and abs(kf * S - zmin) > tol and abs((kf + 1) * S - zmin) > tol:
        return bad(why="the level at or just below the lowest observed level is not a grid level", level=kf)
    return {"name": name, "result": True}


def one(ctx, rows, s, j, zstep, desc):
    w = P.run_workflow(ctx, rows, s, j, zstep, keep_db=True)
    st, t = w["status"], w["tables"]
    # whatever a later command does to the dataset, the rows it holds must still trace back: ask for another
    # grid step on the finished dataset (refused today; if accepted the tables must be consistent with it)
    from . import cli
    other = zstep * 2.5
    r2 = cli.run(["set-zeta-grid", w["db"], "-d", repr(other)])
    t2 = cli.dump(w["db"])
    P.cleanup(w)
    if st.get("rise", ("x",))[0] == "ok" and st.get("recession", ("x",))[0] == "ok" and t2 != t:
        o2 = oracle_c13(t2)
        ctx.count("second_set_zeta_grid_changed_the_dataset")
        if not o2["result"]:
            ctx.violation("impl-violation", "c13Holds", {
                "input": dict(desc, zeta_step=zstep, s=s, j=j, then="set-zeta-grid -d %r" % other),
                "impl": {"second_set_zeta_grid": list(r2), "zeta_grid": t2["zeta_grid"]}, "oracle": o2})
            return
    inp = dict(desc, zeta_step=zstep, s=s, j=j)
    if any(st.get(k, ("x",))[0] != "ok" for k in ("load", "classify", "grid")):
        ctx.count("early_step_failed")
        failed = next(k for k in ("load", "classify", "grid") if st.get(k, ("x",))[0] != "ok")
        ctx.case(("c13-early", str(rows)[:2000], zstep, s, j), True)
        if failed == "grid":
            # every generated record has water levels: the grid command has no reason to refuse this step
            ctx.violation("impl-violation", "c13Holds", {"input": inp, "impl": {k: list(v) for k, v in st.items()}, "oracle": {
                "name": "c13Holds", "result": False,
                "witness": {"why": "`set-zeta-grid` fails: no level of the curves can belong to the grid", "status": list(st["grid"])}}})
        else:
            ctx.corr_break("generated record is loaded and classified (prerequisite of the curves)",
                           {"input": inp, "impl": {k: list(v) for k, v in st.items()}})
        return
    m = P.model_pipeline(ctx, t, zstep)
    ok_both = True
    for kind, cmd in (("rising", "rise"), ("recession", "recession")):
        fail = P.curve_failure(st[cmd], m[cmd + "_components"])
        if fail is not None:
            ok_both = False
            ctx.count("curve_not_assembled_" + fail["kind"])
            if fail["kind"] == "other":
                # not one of the refusals the model predicts (no body of overlapping intervals): the curve tables
                # are empty and every clause about their rows would pass vacuously
                ctx.violation("impl-violation", "c13Holds", {"input": inp, "impl": list(st[cmd]), "oracle": {
                    "name": "c13Holds", "result": False,
                    "witness": dict(fail, why="`spowtd %s` fails although the model assembles the curve" % cmd)}})
            continue
        if P.in_guard_band(t):
            ctx.count("boundary_skipped")
            continue
        diffs = P.compare_curve(kind, t, m[cmd])
        ob = "%s_interval / %s_interval_zeta / master view rows = model Pipeline over Rat" % (kind, kind)
        ctx.obligation(ob, not diffs)
        if diffs:
            ctx.corr_break(ob, {"input": inp, "differs_on": diffs, "model": m[cmd]})
    zs = [v for _e, v in t["water_level"]]
    mg = ctx.driver.call("zetagrid.f", {"step": f2h(zstep), "zmin": f2h(min(zs)), "zmax": f2h(max(zs))})
    same_grid = [r[0] for r in t["discrete_zeta"]] == mg
    ctx.obligation("discrete_zeta = model zetaGrid at Float (floor/ceil of the float quotients)", same_grid)
    ctx.case(("c13", str(rows)[:4000], zstep, s, j), ok_both)
    ctx.count("crossing_rows", len(t["rising_interval_zeta"] or []) + len(t["recession_interval_zeta"] or []))
    o = oracle_c13(t)
    if ok_both:
        ctx.sample({"zeta_step": zstep, "rising_interval": t["rising_interval"][:3],
                    "rising_interval_zeta": t["rising_interval_zeta"][:3], "discrete_zeta": [r[0] for r in t["discrete_zeta"]][:6]}, limit=2)
    if not o["result"]:
        ctx.violation("impl-violation", "c13Holds", {"input": inp, "impl": {k: t[k] for k in (
            "rising_interval", "recession_interval", "discrete_zeta")}, "oracle": o})
    elif not same_grid:
        ctx.corr_break("discrete_zeta = model zetaGrid at Float (floor/ceil of the float quotients)",
                       {"input": inp, "impl": [r[0] for r in t["discrete_zeta"]], "model": mg})


def many_intervals(ctx, n_spells):
    """A multi-year logger record in a wet climate: thousands of short dry spells separated by single drizzle
    steps (each spell is an interstorm interval of its own) and a few real storms.  The curves then hold thousands
    of intervals; every row must still trace back to its own interval (oracle only: the exact model of the
    least-squares step is not run at this size)."""
    rng = ctx.rng
    rows, s, j, level = P.many_spells_rows(rng, n_spells)
    zstep = 1.0
    w = P.run_workflow(ctx, rows, s, j, zstep, keep_db=True)
    st, t = w["status"], w["tables"]
    P.cleanup(w)
    inp = {"record": {"kind": "many short dry spells", "n_spells": n_spells, "seed": ctx.seed, "samples": len(level)},
           "zeta_step": zstep, "s": s, "j": j}
    ctx.case(("c13-many", n_spells, len(level)), True)
    if any(st.get(k, ("x",))[0] != "ok" for k in ("load", "classify", "grid", "recession")):
        ctx.violation("impl-violation", "c13Holds", {"input": inp, "impl": {k: list(v) for k, v in st.items()}, "oracle": {
            "name": "c13Holds", "result": False, "witness": {"why": "the workflow failed on a long record", "status": {k: list(v) for k, v in st.items()}}}})
        return
    ctx.count("many_intervals_recession_intervals", len(t["recession_interval"]))
    ctx.count("many_intervals_rising_intervals", len(t["rising_interval"] or []))
    o = oracle_c13(t)
    ctx.obligation("rows of a dataset with thousands of intervals trace back to their own intervals (oracle c13Holds)", o["result"])
    if not o["result"]:
        ctx.violation("impl-violation", "c13Holds", {"input": inp, "impl": {"recession_interval": t["recession_interval"][:5]}, "oracle": o})


def grid_stream(ctx, n):
    """`load` + `set-zeta-grid` alone on short records whose levels are typed in decimals (a 0.1 mm logger) with decimal
    steps: the grid must be the model's zetaGrid on the float quotients, bit for bit, and cover the observed range"""
    from . import cli
    import os
    rng = ctx.rng
    ob = "discrete_zeta = model zetaGrid at Float (floor/ceil of the float quotients)"
    for i in range(n):
        step_s = rng.choice(["0.1", "0.2", "0.3", "0.7", "0.5", "1", "2.5", "0.25", "0.05"])
        step = float(step_s)
        q = rng.choice([0.1, 0.1, 0.05, 0.25, 1.0])
        base = rng.randint(-3000, 500)
        vals = [round((base + rng.randint(0, 60)) * q, 2) for _ in range(rng.randint(2, 6))]
        if rng.random() < 0.6:
            # the extremes exactly on multiples of the step, as typed
            k_hi = int(round(max(vals) / step))
            vals[rng.randrange(len(vals))] = float(repr(round(k_hi * step, 6)))
            vals = [min(v, max(vals)) for v in vals]
        dt = 3600
        t0 = 1500000000 // dt * dt
        rows = ([(t0 + k * dt, 0.0) for k in range(len(vals))], [(t0 + k * dt, 0.1) for k in range(len(vals) + 2)],
                [(t0 + k * dt, v) for k, v in enumerate(vals)])
        files = cli.write_dataset(ctx.tmp, "g%d" % i, *rows)
        db = ctx.scratch("g%d.sqlite3" % i)
        r1 = cli.load(db, files)
        r2 = cli.run(["set-zeta-grid", db, "-d", step_s])
        d = cli.dump(db, ["discrete_zeta", "zeta_grid", "water_level"])
        for p_ in list(files) + [db]:
            os.path.exists(p_) and os.remove(p_)
        inp = {"levels_mm": vals, "zeta_step": step_s, "argv": ["load", "set-zeta-grid -d " + step_s]}
        ctx.case(("c13-grid", tuple(vals), step_s), True)
        if r1[0] != "ok" or r2[0] != "ok" or not isinstance(d.get("discrete_zeta"), list):
            ctx.obligation(ob, False)
            ctx.violation("impl-violation", "c13Holds", {"input": inp, "impl": [list(r1), list(r2)], "oracle": {
                "name": "c13Holds", "result": False, "witness": {"why": "`load` / `set-zeta-grid` fail on a short decimal record"}}})
            continue
        zs = [v for _e, v in d["water_level"]]
        got = [r[0] for r in d["discrete_zeta"]]
        mg = ctx.driver.call("zetagrid.f", {"step": f2h(step), "zmin": f2h(min(zs)), "zmax": f2h(max(zs))})
        same = got == mg
        # the property's clause, on the quotients the tool itself forms (one IEEE division each)
        lo_q, hi_q = min(zs) / step, max(zs) / step
        need = list(range(math.floor(lo_q), math.ceil(hi_q)))
        covers = all(k in set(got) for k in need)
        ctx.obligation(ob, same and covers)
        if not covers:
            ctx.violation("impl-violation", "c13Holds", {"input": inp, "impl": got, "model": mg, "oracle": {
                "name": "c13Holds", "result": False,
                "witness": {"why": "the grid does not cover the observed range: a level that a crossing of this record can carry is missing",
                            "missing": [k for k in need if k not in set(got)][:4], "lowest_and_highest_quotient": [lo_q, hi_q]}}})
        elif not same:
            ctx.corr_break(ob, {"input": inp, "impl": got, "model": mg})


def run(ctx):
    grid_stream(ctx, 120 if ctx.tier == "quick" else 3000)
    for _ in range(1 if ctx.tier == "quick" else 3):
        many_intervals(ctx, ctx.rng.randint(4700, 5200) if ctx.tier == "quick" else ctx.rng.randint(5000, 7000))
    n = 24 if ctx.tier == "quick" else 600
    rng = ctx.rng
    steps = [1.0, 0.5, 2.0, 2.5, 0.1, 0.3, 0.25, 5.0]
    for i in range(n):
        if i % 4 != 3:
            tr = P.gen_truth(rng, noise=rng.choice([0.0, 0.4, 1.0]))
            one(ctx, tr.rows(), tr.s, tr.j, P.fit_step(tr.level, rng.choice(steps)), {"truth": tr.describe()})
        else:
            s, j = gen.pick_thresholds(rng)
            rec = gen.events_record(rng, s, j, n=rng.randint(30, 80), gaps=rng.choice([0, 0, 1]))
            one(ctx, rec.rows(), s, j, P.fit_step(rec.level, rng.choice(steps)), {"record": rec.describe()})


def replay(ctx, doc):
    inp = doc["input"]
    if "truth" in inp:
        d = inp["truth"]
        rows = P.Truth.from_description(d).rows()
    else:
        r = inp["record"]
        rows = gen.Record(r["dt"], r["t0"], r["rain"], r["level"], set(r["removed"]), r["pre"], r["post"], phase=r.get("phase", 0)).rows()
    w = P.run_workflow(ctx, rows, inp["s"], inp["j"], inp["zeta_step"])
    o = oracle_c13(w["tables"])
    print("oracle:", o)
    return bool(o["result"])
