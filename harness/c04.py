"""C04 — interstorm intervals are clean, maximal, rain-free recessions; flags agree."""
import itertools

import numpy as np

from . import classify_runner as R
from . import common
from .base_classify import TRUSTED, ASSUME

THEOREMS = [
    "Spowtd.mystery_spec",
    "Spowtd.mysteryMask_length",
    "Spowtd.interstorm_flag_spec",
    "Spowtd.interstorms_spec",
    "Spowtd.interstorms_once",
    "Spowtd.mystery_asserts",
    "Spowtd.flags_agree",
]
TRUSTED_BASE = TRUSTED + [
    "translator tools/gen_schema.py: spowtd/schema.sql as parsed by SQLite itself (PRAGMA table_info / index_list / "
    "foreign_key_list; CHECK clauses and view bodies cut from the stored CREATE text) -> lean/SchemaTie/Generated.lean; "
    "the declarations the proofs assume are re-checked by `rfl` on every run (SchemaTie/Classify.lean)",
    "translator tools/gen_formulas.py: the arithmetic of the named source functions (an expression, or a whole body of assignments, if and return) as Python's own `ast` parses it -> Lean terms over the carrier class in lean/FormulaTie/Gen*.lean; that each is the model's definition is re-checked by `rfl` / a short unfolding on every run (lean/FormulaTie/*.lean)",
]
SCHEMA_TIE = ('Classify',)
SQL_TIE = ('classify',)
FORMULA_TIE = ('Classify',)
ASSUMPTIONS = ASSUME
RULE = ("as C01 (tables grid_time_flags and zeta_interval of type interstorm), plus every pair of boolean vectors "
        "(rise flag, rain flag) up to length 6 (quick) / 8 (thorough) through classify.get_mystery_jump_mask against "
        "the model's mysteryMask")


def spec_mask(J, W):
    out = []
    for k in range(len(J)):
        ok = False
        for m in range(k + 1):
            if W[m] and all(W[i] or not J[i] for i in range(m + 1, k + 1)):
                ok = True
        out.append(not ok)
    return out


def mystery_stream(ctx, nmax):
    common.import_spowtd()
    import spowtd.classify as cm
    reqs, cases = [], []
    for n in range(0, nmax + 1):
        for J in itertools.product([False, True], repeat=n):
            for W in itertools.product([False, True], repeat=n):
                cases.append((list(J), list(W)))
                reqs.append(("mystery", {"j": list(J), "w": list(W)}))
    outs = ctx.driver.call_many(reqs)
    ob = "get_mystery_jump_mask = model mysteryMask (all pairs of boolean vectors up to length %d)" % nmax
    for (J, W), m in zip(cases, outs):
        try:
            got = [bool(b) for b in cm.get_mystery_jump_mask(np.array(J, dtype=bool), np.array(W, dtype=bool))]
        except Exception as e:  # noqa
            got = "%s: %s" % (type(e).__name__, e)
        ctx.case(("mystery", tuple(J), tuple(W)), any(W) and any(J))
        ok = got == m["mystery"]
        ctx.obligation(ob, ok)
        if not ok:
            want = spec_mask(J, W)
            detail = {"input": {"function": "classify.get_mystery_jump_mask", "is_jump": J, "is_raining": W},
                      "impl": got, "model": m["mystery"],
                      "oracle": {"name": "mysterySpec", "result": got == want, "witness": {"is_jump": J, "is_raining": W}}}
            if got != want:
                ctx.violation("impl-violation", "mysterySpec", detail)
            else:
                ctx.corr_break(ob, detail)
    ctx.count("vector_pairs", len(cases))


def run(ctx):
    from .c03 import many_runs
    many_runs(ctx)         # (get_true_interval_masks also yields the interstorm runs: more of them than sixteen bits count)
    if ctx.tier == "quick":
        mystery_stream(ctx, 6)
        R.run_records(ctx, "C04", 240, field=2)
    else:
        mystery_stream(ctx, 8)
        R.run_records(ctx, "C04", 1500, exhaustive_n=4, field=8)


def replay(ctx, doc):
    if doc.get("input", {}).get("function"):
        common.import_spowtd()
        import spowtd.classify as cm
        J, W = doc["input"]["is_jump"], doc["input"]["is_raining"]
        try:
            got = [bool(b) for b in cm.get_mystery_jump_mask(np.array(J, dtype=bool), np.array(W, dtype=bool))]
        except Exception as e:  # noqa
            got = repr(e)
        print("impl:", got, "expected:", spec_mask(J, W))
        return got == spec_mask(J, W)
    return R.replay_record(ctx, "C04", doc)
