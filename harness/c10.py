"""C10 — loaded series reproduce the source data on one uniform time grid."""
from . import loading as L
from . import common

THEOREMS = [
    "Spowtd.grid_uniform",
    "Spowtd.grid_members",
    "Spowtd.rain_et_copied",
    "Spowtd.level_is_bracket_interpolation",
    "Spowtd.no_level_in_gap",
    "Spowtd.labels_across_gap",
    "Spowtd.row_order_irrelevant",
    "Spowtd.load_establishes_wf",
]
TRUSTED_BASE = [
    "Lean 4.33 kernel; axioms propext, Classical.choice, Quot.sound only (audited per theorem on every run)",
    "Lean compiler/runtime and IEEE-754 Float operations for executing the model",
    "the Python harness: generator of file triples, table dump, the oracle c10Holds (exact Fraction arithmetic on the source rows)",
    "csv module, SQLite engine (primary-key order of staging tables, joins), numpy.interp's bracketing formula",
    "hand-written model lean/SpowtdModel/Model/Load.lean tied to load.py through the correspondence check only",
]
ASSUMPTIONS = [
    "input values are finite doubles written with repr (round-trip exact); timestamps at whole seconds",
    "the water-level span holds at least two rainfall timestamps (otherwise load refuses)",
    "a gap is a pair of consecutive source measurements further apart than the smallest sampling step of the water-level file",
]
RULE = ("file triples with independent start/end offsets, water level sampled on the same step, half, double, an "
        "incommensurate step or unaligned, 0-5 removed ranges (gaps, isolated samples), shuffled rows; loaded through "
        "the real CLI; all five gridded tables compared with the model at Float (structure, bit-equal values) and Rat "
        "(values within 1e-9); non-trivial = load accepted and at least one gap or unaligned sampling; distinct by input")


def one(ctx, tr, label):
    res = L.run_load(ctx, tr)
    mf = L.model_load(ctx, tr, "f")
    mq = L.model_load(ctx, tr, "q") if mf["outcome"] == "ok" else mf
    io = L.impl_outcome(res["load"])
    diffs = L.compare_load(res, mf, mq)
    ob = "five gridded tables of `spowtd load` = model load (Float structure/bits, Rat values)"
    ctx.case(("load", tr.describe()), io == "ok" and ("gaps=0" not in tr.note or "off=0" not in tr.note))
    ctx.count("outcome_" + io)
    ctx.obligation(ob, not diffs)
    inp = {"files": tr.describe(), "timezone": "UTC"}
    if io == "ok":
        t = res["tables"]
        ctx.count("grid_instants", len(t["grid_time"]))
        ctx.count("levels", len(t["water_level"]))
        ctx.count("labels", len({l for _e, l in t["grid_time"] if l is not None}))
        if mf["outcome"] == "ok":
            bit = all(common.f2h(v) == mv for (e, v), (_e, mv) in zip(t["water_level"], mf["level"]))
            ctx.count("levels_bit_equal_cases" if bit else "levels_within_tolerance_cases")
            if t["water_level"]:
                ctx.obligation("loaded dataset satisfies wellFormedLoadedB", mf["wf"])
                if not mf["wf"]:
                    ctx.corr_break("loaded dataset satisfies wellFormedLoadedB", {"input": inp})
        o = L.oracle_c10(tr, res)
        ctx.sample({"note": tr.note, "grid": t["grid_time"][:4], "levels": t["water_level"][:3]}, limit=3)
        if not o["result"]:
            ctx.violation("impl-violation", "c10Holds", {"input": inp, "impl": t, "model": mf, "oracle": o})
            return
    if diffs:
        ctx.corr_break(ob, {"input": inp, "differs_on": diffs, "impl": {"outcome": io, "tables": res["tables"]}, "model": mf})


def run(ctx):
    n = 300 if ctx.tier == "quick" else 6000
    for i in range(n):
        one(ctx, L.gen_triple(ctx.rng), "random")


def replay(ctx, doc):
    f = doc["input"]["files"]
    tr = L.Triple([tuple(r) for r in f["rain"]], [tuple(r) for r in f["et"]], [tuple(r) for r in f["level"]], f.get("note", ""))
    res = L.run_load(ctx, tr)
    if L.impl_outcome(res["load"]) != "ok":
        print("load outcome:", res["load"])
        return True
    o = L.oracle_c10(tr, res)
    print("oracle:", o)
    return bool(o["result"])
