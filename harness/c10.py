"""C10 — loaded series reproduce the source data on one uniform time grid."""
from . import loading as L
from . import common

THEOREMS = [
    "Spowtd.grid_uniform",
    "Spowtd.grid_members",
    "Spowtd.rain_et_copied",
    "Spowtd.level_is_bracket_interpolation",
    "Spowtd.no_level_in_gap",
    "Spowtd.labels_across_gap",
    "Spowtd.row_order_irrelevant",
    "Spowtd.load_establishes_wf",
]
TRUSTED_BASE = [
    "Lean 4.33 kernel; axioms propext, Classical.choice, Quot.sound only (audited per theorem on every run)",
    "Lean compiler/runtime and IEEE-754 Float operations for executing the model",
    "the Python harness: generator of file triples, table dump, the oracle c10Holds (exact Fraction arithmetic on the source rows)",
    "csv module, SQLite engine (primary-key order of staging tables, joins), numpy.interp's bracketing formula",
    "hand-written model lean/SpowtdModel/Model/Load.lean tied to load.py through the correspondence check only",
    "translator tools/gen_schema.py: spowtd/schema.sql as parsed by SQLite itself (PRAGMA table_info / index_list / "
    "foreign_key_list; CHECK clauses and view bodies cut from the stored CREATE text) -> lean/SchemaTie/Generated.lean; "
    "the declarations the proofs assume are re-checked by `rfl` on every run (SchemaTie/Load.lean)",
]
SCHEMA_TIE = ('Load',)
SQL_TIE = ('load',)
ASSUMPTIONS = [
    "input values are finite doubles written with repr (round-trip exact); timestamps at whole seconds",
    "the water-level span holds at least two rainfall timestamps (otherwise load refuses)",
    "a gap is a pair of consecutive source measurements further apart than the smallest sampling step of the water-level file",
]
RULE = ("file triples with independent start/end offsets, water level sampled on the same step, half, double, an "
        "incommensurate step or unaligned, 0-5 removed ranges (gaps, isolated samples), shuffled rows; loaded through "
        "the real CLI; all five gridded tables compared with the model at Float (structure, bit-equal values) and Rat "
        "(values within 1e-9); non-trivial = load accepted and at least one gap or unaligned sampling; distinct by input")


def one(ctx, tr, label):
    res = L.run_load(ctx, tr)
    mf = L.model_load(ctx, tr, "f")
    mq = L.model_load(ctx, tr, "q") if mf["outcome"] == "ok" else mf
    io = L.impl_outcome(res["load"])
    diffs = L.compare_load(res, mf, mq)
    ob = "five gridded tables of `spowtd load` = model load (Float structure/bits, Rat values)"
    ctx.case(("load", tr.describe()), io == "ok" and ("gaps=0" not in tr.note or "off=0" not in tr.note))
    ctx.count("outcome_" + io)
    ctx.obligation(ob, not diffs)
    inp = {"files": tr.describe(), "timezone": "UTC"}
    if io == "ok":
        t = res["tables"]
        ctx.count("grid_instants", len(t["grid_time"]))
        ctx.count("levels", len(t["water_level"]))
        ctx.count("labels", len({l for _e, l in t["grid_time"] if l is not None}))
        if mf["outcome"] == "ok":
            bit = all(common.f2h(v) == mv for (e, v), (_e, mv) in zip(t["water_level"], mf["level"]))
            ctx.count("levels_bit_equal_cases" if bit else "levels_within_tolerance_cases")
            if t["water_level"]:
                ctx.obligation("loaded dataset satisfies wellFormedLoadedB", mf["wf"])
                if not mf["wf"]:
                    ctx.corr_break("loaded dataset satisfies wellFormedLoadedB", {"input": inp})
        o = L.oracle_c10(tr, res)
        ctx.sample({"note": tr.note, "grid": t["grid_time"][:4], "levels": t["water_level"][:3]}, limit=3)
        if not o["result"]:
            ctx.violation("impl-violation", "c10Holds", {"input": inp, "impl": t, "model": mf, "oracle": o})
            return
    if io != "ok" and mf["outcome"] == "ok":
        # files that meet every condition for loading (theorem load_ok_conditions) and are refused: nothing of what the
        # property promises "after loading" holds for them
        from . import cli as _cli
        ctx.violation("impl-violation", "c10Holds", {"input": inp, "impl": list(res["load"]), "model": {"outcome": "ok"}, "oracle": {
            "name": "c10Holds", "result": False,
            "witness": {"why": "`spowtd load` fails on files that satisfy every condition for loading",
                        "status": list(res["load"]), "how_the_files_were_written": _cli.LAST_DIALECT[0]}}})
        return
    if diffs:
        ctx.corr_break(ob, {"input": inp, "differs_on": diffs, "impl": {"outcome": io, "tables": res["tables"]}, "model": mf})


def other_process_zone(ctx, n):
    """The machine's own time zone is not an input: the same files loaded by a process whose local zone is
    not UTC (TZ environment variable) must give the same dataset."""
    import os
    from . import cli
    ob = "load in a process with another local time zone (TZ) = load here, table by table"
    for _ in range(n):
        tr = L.gen_triple(ctx.rng)
        zone = ctx.rng.choice(["Asia/Jakarta", "America/New_York", "Australia/Lord_Howe", "Europe/London", "Pacific/Apia"])
        data_tz = ctx.rng.choice(["UTC", "Africa/Lagos", "Etc/GMT-7"])
        files = L.write_triple(ctx, tr, "tz")
        db1, db2 = ctx.scratch("tz1.sqlite3"), ctx.scratch("tz2.sqlite3")
        r1 = cli.load(db1, files, data_tz)
        r2 = cli.run_subprocess(["load", db2, "-p", files[0], "-e", files[1], "-z", files[2], "--timezone", data_tz],
                                extra_env={"TZ": zone})
        d1, d2 = cli.dump(db1), cli.dump(db2)
        for p_ in list(files) + [db1, db2]:
            os.path.exists(p_) and os.remove(p_)
        ctx.case(("tz", zone, data_tz, tr.describe()), r1[0] == "ok")
        same = (r1[0] == "ok") == (r2[0] == "ok") and d1 == d2
        ctx.obligation(ob, same)
        if not same:
            diff = [k for k in d1 if d1[k] != d2[k]]
            first = None
            if d1.get("grid_time") and d2.get("grid_time"):
                first = [d1["grid_time"][0], d2["grid_time"][0]]
            ctx.violation("impl-violation", "c%sHolds" % ctx.prop[1:], {
                "input": {"files": tr.describe(), "timezone": data_tz, "process_TZ": zone},
                "impl": {"status": [list(r1), list(r2)], "first_grid_rows": first},
                "oracle": {"name": "c%sHolds" % ctx.prop[1:], "result": False,
                           "witness": {"why": "the loaded dataset depends on the local time zone of the machine",
                                       "process_TZ": zone, "tables_differing": diff}}})


def run(ctx):
    n = 300 if ctx.tier == "quick" else 6000
    for i in range(n):
        one(ctx, L.gen_triple(ctx.rng), "random")
    for i in range(1 if ctx.tier == "quick" else 20):
        one(ctx, L.gen_triple(ctx.rng, long=True), "long")       # thousands of rows, dozens of gaps
    other_process_zone(ctx, 4 if ctx.tier == "quick" else 60)


def replay(ctx, doc):
    f = doc["input"]["files"]
    tr = L.Triple([tuple(r) for r in f["rain"]], [tuple(r) for r in f["et"]], [tuple(r) for r in f["level"]], f.get("note", ""))
    res = L.run_load(ctx, tr)
    if L.impl_outcome(res["load"]) != "ok":
        print("load outcome:", res["load"])
        return True
    o = L.oracle_c10(tr, res)
    print("oracle:", o)
    return bool(o["result"])
