"""C16 — PEATCLSM functions follow the published formulation."""
import warnings

import numpy as np

from . import common
from .common import f2h, h2f

THEOREMS = [
    "Spowtd.pwl_at_knots",
    "Spowtd.pwl_linear_between",
    "Spowtd.pwl_const_outside",
    "Spowtd.knots_are_midpoints",
    "Spowtd.tPeatclsm_refuses_iff",
    "Spowtd.tPeatclsm_value",
    "Spowtd.py_vs_R_difference",
    "Spowtd.campbell_bounds",
]
TRUSTED_BASE = [
    "Lean 4.33 kernel; axioms propext, Classical.choice, Quot.sound only (audited per theorem on every run)",
    "the model (Model/Hydraulic.lean: campbell, sySoil, peatclsmKnots, tPeatclsm) is a transliteration of the "
    "Dettmann-Bechtold discretisation as coded in specific_yield.py and in the R reference; it is executed at Float "
    "with the C library's pow, in the same order of operations",
    "scipy.stats.norm.cdf values are supplied by the harness to both sides (the distribution function itself is not "
    "verified); FITPACK order-1 spline = piecewise-linear interpolation (1e-10)",
    "the R reference cannot be run here (no Rscript): its algorithm (200 cells) is the model with ncell = 200",
    "translator tools/gen_formulas.py: the arithmetic of the named source functions (an expression, or a whole body of assignments, if and return) as Python's own `ast` parses it -> Lean terms over the carrier class in lean/FormulaTie/Gen*.lean; that each is the model's definition is re-checked by `rfl` / a short unfolding on every run (lean/FormulaTie/*.lean)",
]
FORMULA_TIE = ('Peatclsm',)
ASSUMPTIONS = ["parameters within the calibration bounds of the generated control file: sd in (0, 2], theta_s in "
               "[0.01, 1], b in [0.01, 20], psi_s in [-1, -0.01]; alpha > 1"]
RULE = ("parameter sets drawn from the calibration bounds (plus the published set); the 201 knot values and values at "
        "random and extreme levels compared with the model at Float (1e-10 relative); transmissivity value and refusal "
        "at levels around zeta_max; the published set against the R algorithm (200 cells) with numpy.allclose; "
        "non-trivial = every parameter set; distinct by parameter set")

PUBLISHED = {"sd": 0.162, "theta_s": 0.88, "b": 7.4, "psi_s": -0.024}


def model_sy(ctx, p, cdf, xs, ncell=201):
    r = ctx.driver.call("peatclsm.sy.f", {"cdf": [f2h(v) for v in cdf], "theta_s": f2h(p["theta_s"]),
                                          "psi_s": f2h(p["psi_s"]), "b": f2h(p["b"]), "ncell": ncell,
                                          "xs": [f2h(x) for x in xs]})
    return [(h2f(a), h2f(b)) for a, b in r["knots"]], [h2f(v) for v in r["values"]]


def run(ctx):
    common.import_spowtd()
    import scipy.stats
    import spowtd.specific_yield as sym
    import spowtd.transmissivity as tm
    warnings.simplefilter("ignore")
    n = 6 if ctx.tier == "quick" else 60
    rng = ctx.rng
    ob_sy = "PeatclsmSpecificYield knots and values = model peatclsmKnots/pwl at Float (1e-10)"
    ob_t = "PeatclsmTransmissivity value and refusal = model tPeatclsm at Float"
    ob_r = "published parameter set: implementation allclose to the R algorithm (200 cells)"
    sets = [dict(PUBLISHED)] + [
        {"sd": rng.uniform(0.02, 2.0), "theta_s": rng.uniform(0.01, 1.0), "b": rng.uniform(0.3, 20.0),
         "psi_s": rng.uniform(-1.0, -0.01)} for _ in range(n)]
    # one-at-a-time sweeps, as in a sensitivity study: every other parameter bit-identical to an earlier set
    for base in [dict(PUBLISHED)] + [dict(x) for x in sets[1:3]]:
        for key, lo, hi in (("sd", 0.02, 2.0), ("theta_s", 0.01, 1.0), ("b", 0.3, 20.0), ("psi_s", -1.0, -0.01)):
            v = dict(base)
            v[key] = rng.uniform(lo, hi)
            sets.append(v)
    # values at the calibration bounds, typed the way the control file and a hand-written parameter file type them:
    # whole numbers without a decimal point (`theta_s: 1`, `b: 20`, `sd: 2`, `psi_s: -1` are ints after yaml.safe_load)
    sets.append({"sd": 2, "theta_s": 1, "b": 20, "psi_s": -1})
    sets.append(dict(PUBLISHED, theta_s=1))
    sets.append(dict(PUBLISHED, b=rng.randint(1, 20), sd=rng.choice([1, 2])))
    sets.append({"sd": rng.uniform(0.02, 2.0), "theta_s": 1, "b": rng.uniform(0.3, 20.0), "psi_s": rng.choice([-1, rng.uniform(-1.0, -0.01)])})
    ctx.count("parameter_sets_with_whole_numbers_typed_as_ints", 4)
    zm = 0.5 * (np.linspace(-0.99, 1.01, 201) + np.linspace(-1, 1, 201))
    for p in sets:
        cdf = [float(v) for v in scipy.stats.norm.cdf(zm, loc=0, scale=p["sd"])]
        xs = [-2000.0, -995.0, -994.999, 0.0, 3.3, 1005.0, 1500.0] + [rng.uniform(-1100, 1100) for _ in range(20)]
        ctx.case(("c16-sy", tuple(sorted(p.items()))), True)
        try:
            sy = sym.PeatclsmSpecificYield(**p)
            got_knots = list(zip([float(v) for v in sy.zeta_knots_mm], [float(v) for v in sy.sy_knots]))
            got_vals = [float(sy(x)) for x in xs]
            err = None
        except Exception as e:  # noqa
            err = "%s: %s" % (type(e).__name__, e)
        if err is not None:
            ctx.violation("impl-violation", "c16Holds", {"input": {"specific_yield": p}, "impl": err, "oracle": {
                "name": "c16Holds", "result": False, "witness": {"exception": err}}})
            continue
        mk, mv = model_sy(ctx, p, cdf, xs)
        rel = lambda a, b: abs(a - b) <= 1e-10 * max(1.0, abs(b))  # noqa
        if len(got_knots) != 201 or len(got_vals) != len(xs):
            ctx.violation("impl-violation", "c16Holds", {"input": {"specific_yield": p}, "impl": [len(got_knots), len(got_vals)], "oracle": {
                "name": "c16Holds", "result": False,
                "witness": {"why": "the profile is not tabulated on the 201 levels -995 ... 1005 mm (or values are missing)",
                            "knots": len(got_knots), "values": len(got_vals), "levels_asked": len(xs)}}})
            continue
        ok_k = len(mk) == 201 and all(rel(a[0], b[0]) and rel(a[1], b[1]) for a, b in zip(got_knots, mk))
        ok_v = len(got_vals) == len(mv) and all(rel(a, b) for a, b in zip(got_vals, mv))
        mid = all(abs(k[0] - (-995.0 + 10 * i)) < 1e-9 for i, k in enumerate(got_knots))
        flat = got_vals[0] == got_knots[0][1] and got_vals[6] == got_knots[-1][1]
        ctx.obligation(ob_sy, ok_k and ok_v)
        if len(ctx.samples) < 2:
            ctx.sample({"parameters": p, "knots": got_knots[:3], "values": list(zip(xs, got_vals))[:4]})
        if not (mid and flat):
            ctx.violation("impl-violation", "c16Holds", {"input": {"specific_yield": p}, "impl": got_knots[:3], "oracle": {
                "name": "c16Holds", "result": False,
                "witness": {"why": "tabulated levels are not -995, -985, ..., 1005 mm" if not mid else "not constant beyond the table"}}})
        elif not (ok_k and ok_v):
            # the model IS the published discretisation: a mismatch of the tabulated values is the property failing
            bad = [i for i, (a, b) in enumerate(zip(got_knots, mk)) if not (rel(a[0], b[0]) and rel(a[1], b[1]))][:3]
            ctx.violation("impl-violation", "c16Holds", {"input": {"specific_yield": p}, "impl": [got_knots[i] for i in bad],
                          "model": [mk[i] for i in bad], "oracle": {
                "name": "c16Holds", "result": False,
                "witness": {"why": "specific yield differs from the discretised Dettmann-Bechtold profile",
                            "knot_indices": bad, "values": [v for v, m in zip(got_vals, mv) if not rel(v, m)][:3]}}})
        if p == PUBLISHED:
            rk, _ = model_sy(ctx, p, cdf, [], ncell=200)
            ok = np.allclose([k[1] for k in got_knots], [k[1] for k in rk])
            ctx.obligation(ob_r, bool(ok))
            if not ok:
                ctx.violation("impl-violation", "c16Holds", {"input": {"specific_yield": p}, "impl": got_knots[:5], "model": rk[:5],
                              "oracle": {"name": "c16Holds", "result": False,
                                         "witness": {"why": "published parameter set does not reproduce the reference R algorithm"}}})
    tsets = [{"Ksmacz0": 7.3, "alpha": 3.0, "zeta_max_cm": 1.0},
             # the ceiling at the surface itself, as a float and as the integer a parameter file holds after `zeta_max_cm: 0`
             {"Ksmacz0": 10 ** rng.uniform(-2, 2), "alpha": rng.uniform(1.05, 20.0), "zeta_max_cm": 0.0},
             {"Ksmacz0": 10 ** rng.uniform(-2, 2), "alpha": rng.choice([2, 3, 5]), "zeta_max_cm": 0}] + [
        # alpha close to its lower bound 1 (where a calibration run drives it): still "alpha > 1"
        {"Ksmacz0": 10 ** rng.uniform(-2, 2), "alpha": 1.0 + 10 ** rng.uniform(-12, -3), "zeta_max_cm": rng.choice([1.0, 5.0])}
        for _ in range(4)] + [
        {"Ksmacz0": 10 ** rng.uniform(-4, 5), "alpha": rng.uniform(1.05, 20.0), "zeta_max_cm": rng.choice([1.0, 0.0, 5.0, rng.uniform(-5, 20)])}
        for _ in range(n * 3)]
    live = None
    for k_p, p in enumerate(tsets):
        try:
            if live is not None and k_p % 3 == 2:
                # a sensitivity sweep on a live object: the parameters are public attributes; after reassigning them the
                # object must be the function of its stated parameters, as a freshly constructed one is
                T = live
                for name, v in p.items():
                    setattr(T, name, v)
                ctx.count("transmissivity_objects_reused_with_reassigned_parameters")
            else:
                T = tm.PeatclsmTransmissivity(**p)
                live = T
        except Exception as e:  # noqa
            ctx.violation("impl-violation", "c16Holds", {"input": {"transmissivity": p}, "impl": repr(e)[:200], "oracle": {
                "name": "c16Holds", "result": False, "witness": {"why": "the transmissivity cannot be constructed", "exception": repr(e)[:200]}}})
            continue
        zmax_mm = p["zeta_max_cm"] * 10
        zs = [zmax_mm - 1500.0, zmax_mm - 10.0, zmax_mm - 1e-6, zmax_mm, float(np.nextafter(zmax_mm, np.inf)), zmax_mm + 0.5,
              zmax_mm + 1000.0] + [rng.uniform(zmax_mm - 1500, zmax_mm + 50) for _ in range(8)]
        got = []
        for z in zs:
            try:
                got.append(float(T(z)))
            except ValueError:
                got.append("refused")
            except Exception as e:  # noqa
                got.append("other %r" % e)
        m = ctx.driver.call("peatclsm.t.f", dict({k: f2h(v) for k, v in p.items()}, zs=[f2h(z) for z in zs]))
        m = [v if v == "refused" else h2f(v) for v in m]
        ctx.case(("c16-t", tuple(sorted(p.items()))), True)
        wit = None
        for z, g, mv in zip(zs, got, m):
            want_refused = z / 10 > p["zeta_max_cm"]
            if (g == "refused") != want_refused:
                wit = {"why": "refusal does not coincide with level above zeta_max", "level_mm": z, "got": g}
            elif g != "refused":
                formula = float(p["Ksmacz0"] * np.power(np.float64(p["zeta_max_cm"] - z / 10), 1 - p["alpha"]) / (100 * (p["alpha"] - 1)))
                if not (abs(g - formula) <= 1e-12 * abs(formula) or (np.isinf(g) and np.isinf(formula))):
                    wit = {"why": "value differs from Ksmacz0 (zeta_max - zeta)^(1 - alpha) / (100 (alpha - 1))",
                           "level_mm": z, "got": g, "formula": formula}
            if wit:
                break
        if wit is None:
            # the same levels passed as arrays, the way the simulation passes its grid: one level above zeta_max
            # anywhere in the array refuses the call; otherwise each element is the scalar value
            for _v in range(4):
                sub = rng.sample(list(range(len(zs))), rng.randint(2, len(zs)))
                if _v == 0:
                    sub = [i_ for i_ in sub if zs[i_] / 10 <= p["zeta_max_cm"]] or [0]
                arr = [zs[i_] for i_ in sub]
                try:
                    ga = [float(v) for v in np.atleast_1d(T(np.array(arr)))]
                except ValueError:
                    ga = "refused"
                except Exception as e:  # noqa
                    ga = "other %r" % e
                ctx.count("transmissivity_array_calls")
                want_refused = any(z / 10 > p["zeta_max_cm"] for z in arr)
                if want_refused:
                    ctx.count("transmissivity_array_calls_with_an_inadmissible_level")
                if (ga == "refused") != want_refused or (ga != "refused" and (isinstance(ga, str) or len(ga) != len(arr) or any(
                        not (a == got[i_] or (np.isnan(a) and np.isnan(got[i_])) or abs(a - got[i_]) <= 1e-12 * abs(got[i_])) for a, i_ in zip(ga, sub)))):
                    wit = {"why": "an array of levels is not treated as its elements are one by one (refused iff any level is above zeta_max)",
                           "levels_mm": arr, "got": ga if isinstance(ga, str) else ga[:8], "one_by_one": [got[i_] for i_ in sub][:8]}
                    break
        same = all((g == mv) or (g != "refused" and mv != "refused" and (abs(g - mv) <= 1e-12 * abs(mv) or g == mv or (np.isinf(g) and np.isinf(mv))))
                   for g, mv in zip(got, m))
        ctx.obligation(ob_t, wit is None and same)
        if wit is not None:
            ctx.violation("impl-violation", "c16Holds", {"input": {"transmissivity": p, "levels": zs}, "impl": got, "model": m,
                          "oracle": {"name": "c16Holds", "result": False, "witness": wit}})
        elif not same:
            ctx.corr_break(ob_t, {"input": {"transmissivity": p, "levels": zs}, "impl": got, "model": m})


def replay(ctx, doc):
    return None   # re-run the stream with the recorded seed (check.py does it)
