"""Shared runner of the classification checks C01–C04: streams of records, comparison of the
implementation's tables with the model's on the tables relevant to the property in focus, and
the property's own oracle on every case."""

import itertools
import os
import random

from . import classification as C
from . import cli, common, gen

FIELD = os.path.join(common.REPO, "spowtd", "test", "sample_data")


def corpus_records():
    """Hand-written boundary cases; every one of them crashed or misbehaved on the original tree."""
    dt = 1800
    t0 = 1500000000 // dt * dt
    R = gen.Record
    out = []
    # record starting in heavy rain and in a rise
    out.append(("starts-in-storm", R(dt, t0, [9.0, 9, 0.5, 0, 0, 0], [0.0, 10, 20, 20, 19, 18], set(), 0, 0), 4.0, 5.0))
    # all heavy / all rising
    out.append(("all-heavy", R(dt, t0, [9.0] * 5, [0.0, 10, 20, 30, 40], set(), 0, 0), 4.0, 5.0))
    # storm through the last sample of a stretch (before a gap and at the end of the record)
    out.append(("storm-to-end", R(dt, t0, [0.0, 0, 9, 9, 9, 0, 0, 0, 9, 9], [0.0, 0, 0, 10, 20, 0, 0, 0, 0, 10],
                                  {5, 6}, 0, 0), 4.0, 5.0))
    # one-sample stretch between two gaps
    out.append(("one-sample-stretch", R(dt, t0, [0.0, 9, 9, 0, 0, 0, 0, 0, 0, 0, 1, 0],
                                        [0.0, 1, 20, 40, 0, 39, 0, 0, 38, 37, 36, 35], {4, 6, 7}, 0, 0), 4.0, 5.0))
    # only the closing instant after a gap
    out.append(("closing-only-stretch", R(dt, t0, [0.0, 9, 9, 0, 0, 0, 0, 0, 0],
                                          [0.0, 1, 20, 40, 39, 38, 0, 0, 0, 37], {6, 7, 8}, 0, 0), 4.0, 5.0))
    # two storms contending for one rise; the loser has another candidate (rejection + re-queue)
    out.append(("contention-requeue", R(dt, t0, [9.0, 0.5, 9, 9, 0.5, 0.5, 0, 0, 0],
                                        [0.0, 10, 20, 30, 40, 41, 51, 51, 50], set(), 0, 0), 4.0, 5.0))
    # displaced storm without candidate left
    out.append(("displaced-no-candidate", R(dt, t0, [0.5, 9, 0.5, 9, 9, 0.5, 0, 0],
                                            [0.0, 1, 11, 21, 31, 41, 41, 40], set(), 0, 0), 4.0, 5.0))
    # 3-step storm between a 2-step and a 3-step rise (duration off-by-one)
    out.append(("duration-off-by-one", R(dt, t0, [0.0, 0, 0, 0, 0, 0, 9, 9, 9, 0.5, 0, 0],
                                         [0.0, 0, 0, 0, 10, 20, 30, 31, 41, 51, 51, 50], set(), 0, 0), 4.0, 5.0))
    # values exactly at the thresholds (20-minute grid)
    jd = 5.0 * (1200 / 3600.0)
    out.append(("at-threshold", R(1200, t0 // 1200 * 1200, [4.0, 4.0, 8.0, 4.0, 0.5, 0, 0, 0],
                                  [0.0, jd, 2 * jd, 2 * jd + 5, 2 * jd + 5 + jd, 20, 19, 18], set(), 0, 0), 4.0, 5.0))
    # no rain at all / rain everywhere
    out.append(("no-rain", R(dt, t0, [0.0] * 6, [5.0, 4, 3, 30, 29, 28], set(), 0, 0), 4.0, 5.0))
    out.append(("all-light-rain", R(dt, t0, [0.5] * 6, [5.0, 4, 3, 30, 29, 28], set(), 0, 0), 4.0, 5.0))
    return out


def field_windows(rng, n_windows, length):
    """Windows of the two field datasets shipped with the repository (as Records on the rainfall grid
    would lose the 20-minute level sampling, the raw rows are used)."""
    out = []
    for sample in (1, 2):
        def rd(kind):
            with open(os.path.join(FIELD, "%s_%d.txt" % (kind, sample))) as fh:
                return fh.read().split("\n")
        out.append((sample, rd("precipitation"), rd("evapotranspiration"), rd("water_level")))
    wins = []
    for _ in range(n_windows):
        sample, p, e, z = rng.choice(out)
        i0 = rng.randint(1, len(z) - length - 2)
        zrows = z[i0:i0 + length]
        lo, hi = zrows[0][:19], zrows[-1][:19]
        prow = [r for r in p[1:] if r and lo[:10] <= r[:10] <= hi[:10]]
        erow = [r for r in e[1:] if r and lo[:10] <= r[:10]]
        erow = erow[: len(prow) + 200]
        wins.append((sample, [p[0]] + prow, [e[0]] + erow, [z[0]] + zrows))
    return wins


class RawRecord:
    """A record given directly as file lines (field data)."""

    def __init__(self, name, p, e, z):
        self.name, self.p, self.e, self.z = name, p, e, z

    def rows(self):
        raise NotImplementedError

    def describe(self):
        return {"field_window": self.name, "precipitation": self.p[:3] + ["..."], "n_level": len(self.z)}


def run_raw(ctx, raw, s, j, tz="Africa/Lagos"):
    C._CASE[0] += 1
    name = "f%d" % C._CASE[0]
    paths = []
    for suffix, lines in (("p", raw.p), ("e", raw.e), ("z", raw.z)):
        path = os.path.join(ctx.tmp, "%s_%s.txt" % (name, suffix))
        with open(path, "w") as fh:
            fh.write("\n".join(lines) + "\n")
        paths.append(path)
    db = ctx.scratch(name + ".sqlite3")
    res = {"s": s, "j": j}
    res["load"] = cli.load(db, paths, tz)
    if res["load"][0] == "ok":
        loaded = cli.dump(db, ["time_grid", "grid_time", "rainfall_intensity", "evapotranspiration", "water_level"])
        res["loaded"] = loaded
        res["classify"] = cli.classify(db, s, j)
        d = cli.dump(db, ["grid_time_flags", "storm", "zeta_interval", "zeta_interval_storm", "storm_total_rain_depth"])
        res["impl"] = C.impl_tables(d)
        m = ctx.driver.call("classify.f", {"db": C.db_payload(loaded), "s": common.f2h(s), "j": common.f2h(j), "pick": "first"})
        if m["outcome"] == "ok":
            m["pairs"], m["interstorms"], m["flags"] = sorted(m["pairs"]), sorted(m["interstorms"]), sorted(m["flags"])
        res["model"] = m
    C._rm(paths, db)
    return res


def compare(focus, res):
    """List of names of the focus-relevant tables on which implementation and model differ."""
    im, m = res["impl"], res["model"]
    diffs = []
    impl_ok = res["classify"][0] == "ok"
    if impl_ok != (m["outcome"] == "ok"):
        return ["outcome"]
    if not impl_ok:
        return []
    strict = m["strict"]
    if focus in ("C01", "C02"):
        if strict and im["pairs"] != m["pairs"]:
            diffs.append("pairs")
    if focus == "C03":
        if strict:
            if im["storms"] != sorted(p[0] for p in m["pairs"]):
                diffs.append("storm rows")
            if im["rises"] != sorted(p[1] for p in m["pairs"]):
                diffs.append("rise rows")
            md = {a: common.h2f(v) for a, v in m["depths"]}
            for a, v in im["depths"].items():
                if a not in md or abs(md[a] - v) > 1e-9 * max(1.0, abs(v)):
                    diffs.append("rain depth")
                    break
    if focus == "C04":
        if im["flags"] != m["flags"]:
            diffs.append("flags")
        if im["interstorms"] != m["interstorms"]:
            diffs.append("interstorm rows")
    return diffs


def oracle(ctx, focus, res):
    if focus == "C01":
        return C.oracle_c01(res)
    if focus == "C02":
        if res["classify"][0] != "ok":
            return {"name": "c02Holds", "result": True, "note": "classification failed (C01)"}
        return C.oracle_c02(ctx, res)
    if focus == "C03":
        if res["classify"][0] != "ok":
            return {"name": "c03Holds", "result": True, "note": "classification failed (C01)"}
        return C.oracle_c03(res)
    if focus == "C04":
        if res["classify"][0] != "ok":
            return {"name": "c04Holds", "result": True, "note": "classification failed (C01)"}
        return C.oracle_c04(res)
    raise ValueError(focus)


def judge(ctx, focus, res, inp, label):
    """Common verdict logic for one classified case."""
    if res["load"][0] != "ok":
        ctx.count("load_refused")
        # refused by `load`: outside the properties of classification, unless the model of `load` accepts the files
        try:
            from . import loading as L
            rec_ = inp.get("files")
            if rec_:
                import datetime as _dt

                def ep(txt):
                    return int((_dt.datetime.strptime(txt, "%Y-%m-%d %H:%M:%S") - _dt.datetime(1970, 1, 1)).total_seconds())
                tr = L.Triple([(ep(a), float(b)) for a, b in rec_["precipitation"]], [(ep(a), float(b)) for a, b in rec_["evapotranspiration"]],
                              [(ep(a), float(b)) for a, b in rec_["water_level"]])
                if inp.get("timezone", "UTC") == "UTC" and L.model_load(ctx, tr, "f")["outcome"] == "ok":
                    ctx.corr_break("`spowtd load` accepts the generated record (model load = ok)",
                                   {"input": inp, "impl": list(res["load"])})
            else:
                # windows of the repository's own sample data and the very long records carry no file texts here;
                # they are built to load
                ctx.corr_break("`spowtd load` accepts the record (sample data window / long record)",
                               {"input": {k: v for k, v in inp.items() if k != "files"}, "impl": list(res["load"]), "label": label})
        except common.DriverError as e:
            ctx.notes.append("load model unavailable while judging a refused load: %r" % (e,))
        return
    im = res["impl"]
    pr = C.index_problem(res)
    ncand = sum(len(p["cands"]) for p in pr)
    nstorm = sum(len({c[0] for c in p["cands"]}) for p in pr)
    nrise = sum(len({c[2] for c in p["cands"]}) for p in pr)
    nontrivial = bool(ncand or im["interstorms"])
    ctx.case((label, inp.get("record", inp), res["s"], res["j"]), nontrivial)
    ctx.count("stretches", len(pr))
    ctx.count("candidate_pairs", ncand)
    ctx.count("recorded_pairs", len(im["pairs"]))
    ctx.count("interstorm_intervals", len(im["interstorms"]))
    if ncand > nstorm or ncand > nrise:
        ctx.count("cases_with_contention")
    if res["classify"][0] != "ok":
        ctx.count("impl_error_" + str(res["classify"][1]))
    if res["model"]["outcome"] == "ok" and not res["model"]["strict"]:
        ctx.count("cases_with_rise_ties")
    if focus == "C01":
        wf = ctx.driver.call("wf.f", {"db": C.db_payload(res["loaded"])})
        ctx.obligation("load output satisfies wellFormedLoadedB (hypothesis of classify_total)", wf)
        if not wf:
            ctx.corr_break("load output satisfies wellFormedLoadedB (hypothesis of classify_total)", {"input": inp})
    o = oracle(ctx, focus, res)
    diffs = compare(focus, res)
    ob = "%s tables of `spowtd classify` = model classifyAll at Float" % focus
    ctx.obligation(ob, not diffs)
    ctx.sample({"label": label, "s": res["s"], "j": res["j"], "record": inp.get("record", inp),
                "recorded_pairs": im["pairs"], "interstorms": im["interstorms"][:4]})
    if not o["result"]:
        ctx.violation("impl-violation", o["name"], {
            "input": inp, "impl": {"outcome": list(res["classify"]), "tables": im},
            "model": res["model"], "oracle": o})
    elif diffs:
        ctx.corr_break(ob, {"input": inp, "differs_on": diffs,
                            "impl": {"outcome": list(res["classify"]), "tables": im}, "model": res["model"]})


def run_records(ctx, focus, n_random, exhaustive_n=0, field=0):
    rng = ctx.rng
    for name, rec, s, j in corpus_records():
        res = C.run_case(ctx, rec, s, j)
        judge(ctx, focus, res, C.replay_input(rec, s, j), "corpus:" + name)
    for i in range(n_random):
        s, j = gen.pick_thresholds(rng)
        kind = i % 4
        if kind == 0:
            rec = gen.events_record(rng, s, j)
        elif kind == 1:
            rec = gen.random_record(rng, s, j)
        elif kind == 2:
            rec = gen.random_record(rng, s, j, n=rng.randint(6, 30), gaps=rng.choice([0, 0, 1]))
        else:
            rec = gen.layout_record(rng, s, j, gaps=rng.choice([0, 0, 1]))
        if i % 7 == 3:
            rec.make_fine(rng)
            ctx.count("records_with_a_fast_logger_and_outages_between_grid_instants")
        res = C.run_case(ctx, rec, s, j)
        judge(ctx, focus, res, C.replay_input(rec, s, j), ["events", "random", "dense", "layout"][kind])
    if focus == "C03":
        # "all threshold pairs": a jump threshold of zero or below (level and slowly falling steps then count as rising;
        # the tool accepts it and the definition of a run is the same)
        for k in range(16 if n_random <= 400 else 120):
            s, j = gen.pick_thresholds(rng)
            rec = gen.random_record(rng, s, j) if k % 2 else gen.events_record(rng, s, j)
            j_used = [0.0, -0.25 * j, -j, -0.001][k % 4]
            ctx.count("records_classified_with_a_jump_threshold_of_zero_or_below")
            res = C.run_case(ctx, rec, s, j_used)
            judge(ctx, focus, res, C.replay_input(rec, s, j_used), "nonpositive-jump-threshold")
    # rises sitting exactly on a decimal threshold (rounding boundary of threshold x step)
    for k in range(120 if n_random <= 400 else 800):
        rec, s, j = gen.boundary_record(rng)
        res = C.run_case(ctx, rec, s, j)
        judge(ctx, focus, res, C.replay_input(rec, s, j), "boundary")
    # long records: hundreds of samples, tens of storms and rises (size-dependent behaviour: hash order of the
    # storm pool, numpy reductions, SQL over many rows)
    for k in range(3 if n_random <= 400 else 20):
        s, j = gen.pick_thresholds(rng)
        rec = gen.layout_record(rng, s, j, n=rng.randint(300, 900), gaps=rng.choice([0, 2, 5]))
        res = C.run_case(ctx, rec, s, j)
        judge(ctx, focus, res, C.replay_input(rec, s, j), "long")
    # one record of about twenty thousand samples with events hundreds of steps long (twenty in the thorough tier)
    for k in range(2 if n_random <= 400 else 20):
        s, j = gen.pick_thresholds(rng)
        rec = gen.huge_record(rng, s, j)
        res = C.run_case(ctx, rec, s, j, want_model="by-stretch")
        inp = {"record": {"generator": "gen.huge_record", "seed": ctx.seed, "index": k, "dt": rec.dt, "t0": rec.t0, "n": rec.n,
                          "removed": sorted(rec.removed)[:3]}, "s": s, "j": j,
               "note": "too long to inline: regenerate with the seed (the replay re-runs the stream)"}
        judge(ctx, focus, res, inp, "huge")
    if n_random > 400 or focus == "C04":
        # (about 40 s; thorough tier, and the quick tier of C04): one record of 300,000 samples with thousands of dry stretches
        s, j = gen.pick_thresholds(rng)
        rec = gen.giant_record(rng, s, j)
        res = C.run_case(ctx, rec, s, j, want_model="by-stretch")
        inp = {"record": {"generator": "gen.giant_record", "seed": ctx.seed, "dt": rec.dt, "t0": rec.t0, "n": rec.n}, "s": s, "j": j,
               "note": "too long to inline: regenerate with the seed (the replay re-runs the stream)"}
        judge(ctx, focus, res, inp, "giant")
    if exhaustive_n:
        t0 = 1500000000 // 1800 * 1800
        for n in range(1, exhaustive_n + 1):
            for rec in gen.exhaustive_records(n, 4.0, 5.0, 1800, t0):
                res = C.run_case(ctx, rec, 4.0, 5.0)
                judge(ctx, focus, res, C.replay_input(rec, 4.0, 5.0), "exhaustive-%d" % n)
        ctx.notes.append("exhaustive: all 3^n x 3^(n-1) rain/increment class patterns for n <= %d" % exhaustive_n)
    if field:
        frng = random.Random(ctx.seed * 7919 + 13)
        pairs = [(8.0, 5.0), (4.0, 5.0), (8.0, 0.5), (4.0, 8.0), (2.0, 2.0), (1.0, 1.0)]
        for k, (sample, p, e, z) in enumerate(field_windows(frng, field, 1500)):
            s, j = pairs[k % len(pairs)]
            raw = RawRecord("sample %d rows from %s" % (sample, z[1][:19]), p, e, z)
            res = run_raw(ctx, raw, s, j)
            inp = {"record": raw.describe(), "s": s, "j": j, "timezone": "Africa/Lagos",
                   "note": "window of the repository's own sample data"}
            judge(ctx, focus, res, inp, "field")


def replay_record(ctx, focus, doc):
    """Re-run a stored replay on the current tree; True iff the property's oracle passes."""
    inp = doc["input"]
    if "field_window" in inp.get("record", {}):
        return None   # field windows are re-generated from the seed (check.py re-runs the stream)
    r = inp["record"]
    if "generator" in r:
        return None
    rec = gen.Record(r["dt"], r["t0"], r["rain"], r["level"], set(r["removed"]), r["pre"], r["post"], phase=r.get("phase", 0))
    rec.fine, rec.fine_gaps = r.get("fine", 1), set(r.get("fine_gaps", []))
    res = C.run_case(ctx, rec, inp["s"], inp["j"], tz=inp.get("timezone", "UTC"))
    if res["load"][0] != "ok":
        print("load refused:", res["load"])
        return True
    o = oracle(ctx, focus, res)
    print("oracle:", o)
    print("differs from model on:", compare(focus, res))
    return bool(o["result"])
