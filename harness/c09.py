"""C09 — the reference water level is the origin of the master curve."""
import os
import shutil
from decimal import Decimal

from . import cli
from . import pipeline as P
from .common import Fraction

THEOREMS = [
    "Spowtd.master_zero_at_reference",
    "Spowtd.master_zero_at_top_without_reference",
    "Spowtd.reorigin_common_shift",
    "Spowtd.refIndex_accepts_multiples",
    "Spowtd.refIndex_rejects_others",
    "Spowtd.assemble_refuses_offgrid",
]
TRUSTED_BASE = [
    "Lean 4.33 kernel; axioms propext, Classical.choice, Quot.sound only (audited per theorem on every run)",
    "Lean runtime (Rat instance): refIndex evaluated on the exact decimal values the user typed",
    "argparse float conversion of the -r option; SQLite views",
    "the Python harness: decimal sweep generator, database copies, tolerance 1e-6 relative for 'zero'",
    "translator tools/gen_schema.py: spowtd/schema.sql as parsed by SQLite itself (PRAGMA table_info / index_list / "
    "foreign_key_list; CHECK clauses and view bodies cut from the stored CREATE text) -> lean/SchemaTie/Generated.lean; "
    "the declarations the proofs assume are re-checked by `rfl` on every run (SchemaTie/Curves.lean)",
]
SCHEMA_TIE = ('Curves',)
SQL_TIE = ('rise', 'recession')
ASSUMPTIONS = [
    "the decision is made by the tool in floating point on what the user typed in decimal: references are swept as "
    "decimal strings k*step (exact in Decimal), the model receives the same decimals as rationals",
    "off-grid references are at least 1e-6 of a step away from any multiple; references outside the assembled curve "
    "are outside the property",
]
RULE = ("grid steps 1, .5, .1, .2, .3, 2.5, 5, .25, .7 mm x every integer k (sub-sampled) such that k*step is a level of "
        "the assembled curve, passed as the decimal string of k*step to `spowtd rise -r` and `spowtd recession -r` on "
        "copies of a classified dataset; off-grid stream (k+1/2)*step, (k+1/3)*step rounded to 6 decimals; no reference; "
        "non-trivial = reference different from the default origin; distinct by (dataset, step, reference)")

STEPS = ["1", "0.5", "0.1", "0.2", "0.3", "2.5", "5", "0.25", "0.7"]


def levels_of(db, view):
    d = cli.dump(db, [view, "zeta_grid"])
    return d[view]


def run_ref(ctx, src_db, cmd, ref):
    db = ctx.scratch("ref.sqlite3")
    shutil.copyfile(src_db, db)
    r = cli.run([cmd, db] + ([] if ref is None else ["-r", ref]))
    view = "average_rising_depth" if cmd == "rise" else "average_recession_time"
    rows = cli.dump(db, [view])[view] if r[0] == "ok" else None
    os.remove(db)
    return r, rows


def run(ctx):
    ndata, per = (4, 5) if ctx.tier == "quick" else (12, 40)
    rng = ctx.rng
    ob = "accepted/refused and the level at which the curve is zero = model refIndex on the typed decimals"
    for d_i in range(ndata):
        # water levels near the datum, or metres below / above it (well head far from the peat surface)
        tr = P.gen_truth(rng, noise=rng.choice([0.0, 0.4]),
                         datum=(0.0 if d_i % 4 == 0 else
                                (-1.0 if d_i % 4 == 2 else 1.0) * float(int(10 ** rng.uniform(3.0, 5.3)))))   # 1 m ... 200 m
        long_dry = d_i == 1
        if long_dry:
            # a long dry season: recession curve of 1e7 s (the storms must rise more than 2 mm/h per step)
            tr = P.gen_long_truth(rng)
            ctx.count("datasets_with_month_long_dry_spells")
        for step_s in ((STEPS if ctx.tier != "quick" else rng.sample(STEPS, 5) + ["0.1"]) if not long_dry else rng.sample(["1", "0.5", "2.5", "5"], 2)):
            step = float(step_s)
            w = P.run_workflow(ctx, tr.rows(), tr.s, tr.j, step, keep_db=True, steps=("load", "classify", "grid"))
            if any(w["status"].get(k, ("x",))[0] != "ok" for k in ("load", "classify", "grid")):
                ctx.corr_break(ob, {"input": {"truth": tr.describe(), "zeta_step": step_s}, "impl": {k: list(v) for k, v in w["status"].items()},
                                    "no_longer_checks": "a planted record is loaded, classified and gridded with step %s" % step_s})
                P.cleanup(w)
                continue
            src = w["db"]
            for cmd in ("rise", "recession"):
                r0, rows0 = run_ref(ctx, src, cmd, None)
                inp0 = {"truth": tr.describe(), "zeta_step": step_s, "command": cmd}
                if r0[0] != "ok":
                    ctx.count("curve_not_assembled")
                    bad = P.judged_failure(ctx, w["tables"], step, cmd, r0)
                    if bad is not None:
                        ctx.corr_break(ob, {"input": dict(inp0, reference=None), "impl": list(r0), "model": bad,
                                            "no_longer_checks": "`spowtd %s` fails on a dataset for which the model assembles the curve" % cmd})
                    continue
                if not rows0 or any(v is None for _z, v in rows0):
                    ctx.violation("impl-violation", "c09Holds", {"input": dict(inp0, reference=None), "impl": rows0, "oracle": {
                        "name": "c09Holds", "result": False,
                        "witness": {"why": "`spowtd %s` reports success and leaves no master curve" % cmd}}})
                    continue
                scale = max(abs(v) for _z, v in rows0) + 1.0
                # no reference: highest level is the origin
                top = max(rows0)
                ctx.case((d_i, step_s, cmd, None), True)
                if abs(top[1]) > 1e-6 * scale:
                    ctx.violation("impl-violation", "c09Holds", {"input": dict(inp0, reference=None), "impl": rows0[-3:], "oracle": {
                        "name": "c09Holds", "result": False,
                        "witness": {"why": "without a reference the highest level is not the origin", "top": list(top)}}})
                ks = sorted({int(round(z / step)) for z, _v in rows0})
                chosen = rng.sample(ks, min(per, len(ks)))
                if long_dry:
                    chosen = sorted(set(chosen) | set(ks[:4]) | set(ks[len(ks) // 4::max(1, len(ks) // 6)][:4]))   # and deep references
                for k in chosen:
                    ref = format(Decimal(k) * Decimal(step_s), "f")
                    r, rows = run_ref(ctx, src, cmd, ref)
                    m = ctx.driver.call("refindex.q", {"ref": str(Fraction(ref)), "step": str(Fraction(step_s))})
                    ctx.case((d_i, step_s, cmd, ref), True)
                    ctx.count("on_grid_references")
                    inp = dict(inp0, reference=ref, k=k)
                    wit = None
                    if r[0] != "ok":
                        wit = {"why": "a multiple of the grid step was refused", "step": step_s, "k": k, "reference": ref, "status": list(r)}
                    else:
                        zero = [z for z, v in rows if abs(v) <= 1e-6 * scale]
                        target = [z for z, _v in rows if int(round(z / step)) == k]
                        if not target or not any(abs(z - target[0]) < 1e-9 for z in zero):
                            wit = {"why": "the master curve is not zero at the reference level", "step": step_s, "k": k,
                                   "reference": ref, "zero_at_mm": zero[:3]}
                        else:
                            # choosing the origin moves the whole curve by one constant (theorem reorigin_common_shift)
                            d = [v - v0 for (_z, v), (_z0, v0) in zip(rows, rows0)]
                            if len(rows) != len(rows0) or [z for z, _v in rows] != [z for z, _v in rows0] or max(d) - min(d) > 1e-6 * scale:
                                wit = {"why": "with a reference level the curve is not the curve without one moved by a constant",
                                       "step": step_s, "k": k, "reference": ref, "rows": len(rows), "rows_without_reference": len(rows0),
                                       "spread_of_differences": (max(d) - min(d)) if d else None}
                    ok_model = m["outcome"] == "ok" and m["index"] == k
                    ctx.obligation(ob, wit is None and ok_model)
                    if wit is not None:
                        ctx.violation("impl-violation", "c09Holds", {"input": inp, "impl": list(r), "model": m,
                                      "oracle": {"name": "c09Holds", "result": False, "witness": wit}})
                    elif not ok_model:
                        ctx.corr_break(ob, {"input": inp, "model": m})
                    if len(ctx.samples) < 3 and step_s in ("0.1", "0.3"):
                        ctx.sample({"step": step_s, "reference": ref, "k": k, "status": r[0]})
                for k in rng.sample(ks, min(max(2, per // 3), len(ks))):
                    for frac in ("0.5", "0.333333"):
                        ref = format((Decimal(k) + Decimal(frac)) * Decimal(step_s), ".6f")
                        q = Fraction(ref) / Fraction(step_s)
                        if abs(q - round(q)) < Fraction(1, 10**5):
                            continue
                        r, _rows = run_ref(ctx, src, cmd, ref)
                        m = ctx.driver.call("refindex.q", {"ref": str(Fraction(ref)), "step": str(Fraction(step_s))})
                        ctx.case((d_i, step_s, cmd, ref), True)
                        ctx.count("off_grid_references")
                        refused = r[0] == "error" and r[1] == "ValueError" and "not evenly divisible" in r[2]
                        ctx.obligation(ob, refused and m["outcome"] == "off_grid")
                        if not refused:
                            ctx.violation("impl-violation", "c09Holds", {
                                "input": dict(inp0, reference=ref), "impl": list(r), "model": m, "oracle": {
                                    "name": "c09Holds", "result": False,
                                    "witness": {"why": "a level that is not a multiple of the step was not rejected",
                                                "step": step_s, "reference": ref, "status": list(r)}}})
            P.cleanup(w)


def replay(ctx, doc):
    inp = doc["input"]
    d = inp["truth"]
    tr = P.Truth.from_description(d)
    w = P.run_workflow(ctx, tr.rows(), tr.s, tr.j, float(inp["zeta_step"]), keep_db=True, steps=("load", "classify", "grid"))
    r, rows = run_ref(ctx, w["db"], inp["command"], inp.get("reference"))
    P.cleanup(w)
    print("status:", r)
    if inp.get("reference") is None or r[0] != "ok":
        return r[0] == "ok" if "k" in inp else True
    k, step = inp["k"], float(inp["zeta_step"])
    scale = max(abs(v) for _z, v in rows) + 1.0
    zero = [z for z, v in rows if abs(v) <= 1e-6 * scale]
    print("zero at", zero, "reference", inp["reference"])
    return any(int(round(z / step)) == k for z in zero)
