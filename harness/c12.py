"""C12 — level-crossing positions are exact for the piecewise-linear record."""
import math

import numpy as np

from . import common
from .common import Fraction, f2h, h2f, q2s

THEOREMS = [
    "Spowtd.crossing_reported_iff",
    "Spowtd.crossing_once",
    "Spowtd.crossing_on_chord",
    "Spowtd.crossing_between",
    "Spowtd.crossing_order",
    "Spowtd.crossings_mem",
    "Spowtd.crossings_shift_x",
    "Spowtd.meanCrossings_spec",
    "Spowtd.meanCrossings_levels_nodup",
]
TRUSTED_BASE = [
    "Lean 4.33 kernel; axioms propext, Classical.choice, Quot.sound only (audited per theorem on every run)",
    "Lean runtime (Rat and Float instances) for executing the model",
    "scipy.optimize.brentq / interp1d(kind='linear'): the root of the linear interpolant is returned within 2e-12 + 4 eps |x|",
    "the Python harness: series generator, exact Fraction transport, guard band, oracle c12Holds",
    "translator tools/gen_formulas.py: the arithmetic of the named source functions (an expression, or a whole body of assignments, if and return) as Python's own `ast` parses it -> Lean terms over the carrier class in lean/FormulaTie/Gen*.lean; that each is the model's definition is re-checked by `rfl` / a short unfolding on every run (lean/FormulaTie/*.lean)",
]
FORMULA_TIE = ('Regrid',)
ASSUMPTIONS = [
    "theorems are over Rat (exact arithmetic on the rational values of the float inputs); the set of reported levels "
    "is compared bit-exactly with the model at Float, and with the model at Rat whenever no sample's y/step lies within "
    "1e-12 of an integer without being one (guard band: there float division legitimately rounds)",
    "abscissae strictly monotone (increasing, or decreasing for a series listed newest first), ordinates finite, step positive",
]
RULE = ("series of 1-12 samples: rising, falling, non-monotone, flat segments, samples exactly on a grid level and one "
        "ulp beside it, abscissae re-based or at UNIX-epoch magnitude; steps 1, .5, .25, 2, 2.5, 5 (exact) and .1, .2, .3, "
        ".7; through regrid.regrid and fit_offsets.build_head_mapping; non-trivial = at least one crossing; distinct by input")

EXACT_STEPS = [1.0, 0.5, 0.25, 2.0, 2.5, 5.0]
DEC_STEPS = [0.1, 0.2, 0.3, 0.7]


def gen_series(rng):
    n = rng.randint(1, 12) if rng.random() > 0.03 else rng.randint(200, 800)
    step = rng.choice(EXACT_STEPS if rng.random() < 0.6 else DEC_STEPS)
    if rng.random() < 0.5:
        x0, dx = 0.0, rng.choice([1.0, 600.0, 1800.0, 0.75])
    else:
        x0, dx = float(rng.randint(10**9, 2 * 10**9)), rng.choice([600.0, 1200.0, 1800.0])
    xs = [x0 + i * dx for i in range(n)]
    shape = rng.choice(["rise", "fall", "mixed", "flat"])
    y = rng.randint(-60, 60) * step * rng.choice([1, 1, 0.5])
    ys = []
    for i in range(n):
        r = rng.random()
        if r < 0.12 and ys:
            # a repeat of the previous reading up to round-off (compensated or averaged logger data), on or beside the
            # level the previous reading sits on: -7.6 then -7.60000000000002
            k = round(ys[-1] / step)
            base = k * step if rng.random() < 0.7 else ys[-1]
            y = base + rng.choice([-1, 1, 0]) * abs(base if base else step) * rng.choice([2.3e-16, 1e-15, 3e-14, 1e-12, 4e-11])
        elif r < 0.25:
            y = (round(y / step) + rng.randint(-3, 3)) * step   # exactly on a level (as computed in floating point)
        elif r < 0.35:
            y = math.nextafter((round(y / step) + rng.randint(-3, 3)) * step, rng.choice([-math.inf, math.inf]))
        else:
            d = rng.uniform(0, 4) * step
            if shape == "rise":
                y += d
            elif shape == "fall":
                y -= d
            elif shape == "mixed":
                y += rng.choice([-1, 1]) * d
        ys.append(float(y))
    if rng.random() < 0.12 and n > 1:
        # the series listed newest first (abscissae strictly decreasing): the crossings are those of the same polyline
        xs, ys = xs[::-1], ys
    return step, xs, ys


def expected_levels(step, ys):
    """levels per pair by the property's own rule, exactly: lower value included, upper excluded"""
    S = Fraction(step)
    out = []
    for a, b in zip(ys, ys[1:]):
        A, B = Fraction(a) / S, Fraction(b) / S
        lo, hi = min(A, B), max(A, B)
        ks = list(range(math.ceil(lo), math.ceil(hi)))
        out.append(ks if A <= B else ks[::-1])
    return out


def in_guard_band(step, ys):
    S = Fraction(step)
    for y in ys:
        Y = Fraction(y) / S
        d = abs(Y - round(Y))
        if d != 0 and d < Fraction(1, 10**12):
            return True
    return False


def run_regrid(ctx, n):
    common.import_spowtd()
    import spowtd.regrid as rg
    ob_f = "regrid.regrid levels = model crossings at Float (bit-exact division and ceil)"
    ob_q = "regrid.regrid levels and positions = model crossings at Rat (outside the guard band)"
    for _ in range(n):
        step, xs, ys = gen_series(ctx.rng)
        inp = {"function": "regrid.regrid", "x": xs, "y": ys, "step": step}
        try:
            ax, ay = common.any_layout(ctx.rng, np.array(xs), 0.2), common.any_layout(ctx.rng, np.array(ys), 0.2)
            snap_x, snap_y = common.snapshot(ax), common.snapshot(ay)
            with common.session_logging(ctx.rng, 0.15):
                got = [(int(k), float(x)) for k, x in rg.regrid(ax, ay, step)]
            err = None
            if not (common.same_as_snapshot(ax, snap_x) and common.same_as_snapshot(ay, snap_y)):
                err = "the caller's arrays were modified by regrid"
        except Exception as e:  # noqa
            got, err = None, "%s: %s" % (type(e).__name__, e)
        guard = in_guard_band(step, ys)
        ctx.case(("regrid", step, tuple(xs), tuple(ys)), bool(got))
        ctx.count("guard_band_cases" if guard else "exact_cases")
        if err is not None:
            ctx.obligation(ob_f, False)
            ctx.violation("impl-violation", "c12Holds", {"input": inp, "impl": err,
                          "oracle": {"name": "c12Holds", "result": False, "witness": {"exception": err}}})
            continue
        ctx.count("crossings", len(got))
        mf = ctx.driver.call("regrid.f", {"step": f2h(step), "pts": [[f2h(x), f2h(y)] for x, y in zip(xs, ys)]})
        same_f = [k for k, _ in got] == [c[0] for c in mf["crossings"]]
        ctx.obligation(ob_f, same_f)
        # oracle: the property's rule with exact arithmetic
        ok, why = True, None
        if not guard:
            exp = expected_levels(step, ys)
            flat = [k for ks in exp for k in ks]
            if [k for k, _ in got] != flat:
                ok, why = False, {"why": "reported levels differ from the multiples of the step between consecutive samples",
                                  "got": [k for k, _ in got][:20], "expected": flat[:20]}
            else:
                i = 0
                for p, ks in enumerate(exp):
                    for k in ks:
                        x = got[i][1]
                        i += 1
                        x0, x1, y0, y1 = xs[p], xs[p + 1], ys[p], ys[p + 1]
                        tol = 1e-9 * abs(x1 - x0) + 4 * 2.3e-16 * abs(x) + 4e-12
                        if not (min(x0, x1) - tol <= x <= max(x0, x1) + tol):
                            ok, why = False, {"why": "position outside its bracketing samples", "pair": p, "level": k, "x": x}
                            break
                        val = Fraction(y0) + (Fraction(y1) - Fraction(y0)) * (Fraction(x) - Fraction(x0)) / (Fraction(x1) - Fraction(x0))
                        slope = abs(Fraction(y1) - Fraction(y0)) / abs(Fraction(x1) - Fraction(x0))
                        if abs(val - k * Fraction(step)) > slope * Fraction(tol) + Fraction(1, 10**9) * Fraction(step):
                            ok, why = False, {"why": "interpolant at the reported position is not the level", "pair": p,
                                              "level": k, "x": x, "interpolant": float(val)}
                            break
                    if not ok:
                        break
        if guard:
            # a reading within 1e-12 of a level without being on it: which side the quotient y/step falls on is a matter of
            # one IEEE division, so the rule is applied to the quotients the tool itself forms (one division each, as typed)
            flat_f = []
            for ya, yb in zip(ys, ys[1:]):
                ca, cb = math.ceil(ya / step), math.ceil(yb / step)
                flat_f += list(range(ca, cb)) if cb > ca else list(range(cb, ca))[::-1]
            if [k for k, _ in got] != flat_f:
                ok, why = False, {"why": "reported levels differ from the multiples of the step between consecutive samples (decided on the "
                                         "float quotients y/step, one division each)", "got": [k for k, _ in got][:20], "expected": flat_f[:20]}
        if not ok:
            ctx.obligation(ob_q, False)
            ctx.violation("impl-violation", "c12Holds", {"input": inp, "impl": got, "model": mf["crossings"],
                          "oracle": {"name": "c12Holds", "result": False, "witness": why}})
            continue
        if not guard:
            mq = ctx.driver.call("regrid.q", {"step": q2s(Fraction(step)),
                                              "pts": [[q2s(Fraction(x)), q2s(Fraction(y))] for x, y in zip(xs, ys)]})
            # position tolerance: 1e-9 of the span, the root finder's resolution at the magnitude of x, and the
            # conditioning of the interpolation itself -- between two readings that differ by dy the computed
            # position moves by about eps * |y| / |dy| of the sampling interval (readings 1e-10 apart: 1e-5 of it)
            cond = {}
            for (xa, ya), (xb, yb) in zip(zip(xs, ys), zip(xs[1:], ys[1:])):
                if ya != yb:
                    lo_k, hi_k = sorted((ya / step, yb / step))
                    for k in range(math.ceil(lo_k), math.ceil(hi_k) + 1):
                        cond[k] = max(cond.get(k, 0.0), 16 * 2.3e-16 * max(abs(ya), abs(yb), step) / abs(yb - ya) * abs(xb - xa))
            same_q = [k for k, _ in got] == [c[0] for c in mq["crossings"]] and all(
                abs(Fraction(x) - Fraction(c[1])) <= Fraction(1e-9 * max(1.0, abs(xs[-1] - xs[0])) + 1e-15 * abs(x) + 4e-12 + cond.get(k, 0.0))
                for (k, x), c in zip(got, mq["crossings"]))
            ctx.obligation(ob_q, same_q)
            if not same_q:
                ctx.corr_break(ob_q, {"input": inp, "impl": got, "model": mq["crossings"]})
        if not same_f:
            ctx.corr_break(ob_f, {"input": inp, "impl": got, "model": [[c[0], h2f(c[1])] for c in mf["crossings"]]})
        if got and len(ctx.samples) < 3:
            ctx.sample({"input": inp, "crossings": got[:6]})


def run_interleaved(ctx, n):
    """two records regridded side by side (`zip(regrid(a), regrid(b))`: two wells on one logger clock compared level by
    level): `regrid` is a generator, and what it yields must not depend on another one being consumed in between"""
    common.import_spowtd()
    import itertools
    import spowtd.regrid as rg
    ob = "regrid consumed in step with another regrid = regrid consumed alone"
    for _ in range(n):
        step, xa, ya = gen_series(ctx.rng)
        _s, xb, yb = gen_series(ctx.rng)
        try:
            alone_a = [(int(k), float(x)) for k, x in rg.regrid(np.array(xa), np.array(ya), step)]
            alone_b = [(int(k), float(x)) for k, x in rg.regrid(np.array(xb), np.array(yb), step)]
        except Exception:  # noqa  (judged by run_regrid)
            continue
        ga, gb = rg.regrid(np.array(xa), np.array(ya), step), rg.regrid(np.array(xb), np.array(yb), step)
        ta, tb, err = [], [], None
        try:
            for pa, pb in itertools.zip_longest(ga, gb):
                if pa is not None:
                    ta.append((int(pa[0]), float(pa[1])))
                if pb is not None:
                    tb.append((int(pb[0]), float(pb[1])))
        except Exception as e:  # noqa
            err = "%s: %s" % (type(e).__name__, e)
        ctx.case(("interleaved", step, tuple(xa), tuple(ya), tuple(xb), tuple(yb)), bool(alone_a and alone_b))
        ok = err is None and ta == alone_a and tb == alone_b
        ctx.obligation(ob, ok)
        if not ok:
            ctx.violation("impl-violation", "c12Holds", {
                "input": {"function": "regrid.regrid, two generators consumed alternately", "step": step,
                          "a": {"x": xa, "y": ya}, "b": {"x": xb, "y": yb}},
                "impl": err or {"a": ta[:6], "b": tb[:6]}, "oracle": {"name": "c12Holds", "result": False, "witness": {
                    "why": "the crossings reported for a series change when another series is regridded at the same time",
                    "alone": {"a": alone_a[:6], "b": alone_b[:6]}}}})


def run_headmap(ctx, n):
    """build_head_mapping: mean of repeated crossings of one level within a series"""
    common.import_spowtd()
    import spowtd.fit_offsets as fo
    ob = "build_head_mapping = model headMapping at Rat (means of own crossings)"
    for _ in range(n):
        step = ctx.rng.choice(EXACT_STEPS)
        series = []
        for _s in range(ctx.rng.randint(1, 4)):
            _st, xs, ys = gen_series(ctx.rng)
            ys = [round(y / step * 4) / 4 * step for y in ys]
            series.append((xs, ys))
        try:
            hm = fo.build_head_mapping([(np.array(x), np.array(y)) for x, y in series], step)
            got = sorted((int(k), sorted((int(s), float(t)) for s, t in v)) for k, v in hm.items())
        except Exception as e:  # noqa
            ctx.violation("impl-violation", "c12Holds", {"input": {"function": "build_head_mapping", "series": series, "step": step},
                          "impl": repr(e), "oracle": {"name": "c12Holds", "result": False, "witness": {"exception": repr(e)}}})
            continue
        m = ctx.driver.call("headmap.q", {"step": q2s(Fraction(step)), "series": [
            [[q2s(Fraction(x)), q2s(Fraction(y))] for x, y in zip(xs, ys)] for xs, ys in series]})
        want = sorted((k, sorted((s, Fraction(t)) for s, t in v)) for k, v in m["mapping"])
        ctx.case(("headmap", step, str(series)), bool(got))
        # positions: relative to the span of the series (not to the magnitude of the epoch), plus the root finder's
        # own resolution at that magnitude (brentq: 2e-12 + 4 eps |x|) and the rounding of a mean
        span = {i_: max(1.0, abs(xs_[-1] - xs_[0])) for i_, (xs_, _ys) in enumerate(series)}
        ok = [(k, [s for s, _ in v]) for k, v in got] == [(k, [s for s, _ in v]) for k, v in want] and all(
            abs(Fraction(t) - tq) <= Fraction(1e-9 * span[s] + 16 * 2.3e-16 * abs(t) + 4e-12)
            for (k, v), (_k, vq) in zip(got, want) for (s, t), (_s, tq) in zip(v, vq))
        ctx.obligation(ob, ok)
        if not ok:
            ctx.corr_break(ob, {"input": {"function": "build_head_mapping", "series": series, "step": step},
                                "impl": got, "model": m["mapping"]})
            continue
        # the same crossings as the curve fit sees them: get_series_time_offsets (times relative to the start of each
        # series, series numbered as passed in); which levels it keeps is C08's subject, what it reports for a kept level is ours
        try:
            _ids, _offs, out = fo.get_series_time_offsets([(np.array(x), np.array(y)) for x, y in series], step)
        except Exception:  # noqa  (nothing to align, disconnected sets: C05/C08)
            ctx.count("headmap_sets_not_aligned")
            continue
        ctx.count("headmap_sets_through_get_series_time_offsets")
        wantd = {k: dict(v) for k, v in want}
        t0 = {i_: min(xs_) for i_, (xs_, _ys) in enumerate(series)}
        wit = None
        for k, v in sorted(out.items()):
            if int(k) not in wantd or sorted(int(s) for s, _t in v) != sorted(wantd[int(k)]):
                wit = {"why": "a crossing is reported for a level or series that does not cross it", "level_id": int(k),
                       "level": int(k) * step, "reported_series": sorted(int(s) for s, _t in v),
                       "series_crossing_it": sorted(wantd.get(int(k), {}))}
                break
            for s_, t_ in v:
                tq = wantd[int(k)][int(s_)] - Fraction(t0[int(s_)])
                if abs(Fraction(float(t_)) - tq) > Fraction(1e-9 * span[int(s_)] + 16 * 2.3e-16 * (abs(float(t_)) + abs(t0[int(s_)])) + 4e-12):
                    wit = {"why": "the reported crossing is not where the line between the bracketing samples reaches the level",
                           "level_id": int(k), "level": int(k) * step, "series": int(s_), "reported": float(t_), "expected": float(tq)}
                    break
            if wit:
                break
        ctx.obligation(ob, wit is None)
        if wit:
            ctx.violation("impl-violation", "c12Holds", {"input": {"function": "get_series_time_offsets", "series": series, "step": step},
                          "impl": sorted((int(k), sorted((int(s), float(t)) for s, t in v)) for k, v in out.items())[:6],
                          "oracle": {"name": "c12Holds", "result": False, "witness": wit}})


def run(ctx):
    if ctx.tier == "quick":
        run_regrid(ctx, 1500)
        run_headmap(ctx, 200)
        run_interleaved(ctx, 60)
    else:
        run_regrid(ctx, 40000)
        run_headmap(ctx, 4000)
        run_interleaved(ctx, 1500)


def replay(ctx, doc):
    common.import_spowtd()
    import spowtd.regrid as rg
    inp = doc["input"]
    if inp.get("function") != "regrid.regrid":
        return None   # re-run the stream with the recorded seed (check.py does it)
    got = [(int(k), float(x)) for k, x in rg.regrid(np.array(inp["x"]), np.array(inp["y"]), inp["step"])]
    exp = [k for ks in expected_levels(inp["step"], inp["y"]) for k in ks]
    print("impl levels:", [k for k, _ in got], "expected:", exp)
    return [k for k, _ in got] == exp
