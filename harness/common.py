"""Shared plumbing for the spowtd verification checks.

Everything here is used by ``check.py`` and the per-property modules:
locating the repository, the Lean driver client, float/rational transport,
the proof audit, evidence and replay files, known findings.
"""

import contextlib
import fractions
import hashlib
import json
import os
import random
import re
import shutil
import struct
import subprocess
import sys
import tempfile
import time

VERIF = os.path.dirname(os.path.dirname(os.path.abspath(__file__)))
REPO = os.environ.get("SPOWTD_REPO", "/repo")
LEAN_DIR = os.path.join(VERIF, "lean")
# runs against a scratch worktree (seeded-change experiments) must not overwrite the evidence of /repo itself
_SCRATCH = os.path.abspath(REPO) != "/repo"
EVIDENCE_DIR = os.path.join(VERIF, "evidence") if not _SCRATCH else os.path.join(tempfile.gettempdir(), "spowtd-verif-evidence-scratch")
REPLAY_DIR = os.path.join(VERIF, "replays")
ALLOWED_AXIOMS = {"propext", "Classical.choice", "Quot.sound"}
FORBIDDEN = re.compile(
    r"\b(sorry|admit|native_decide|bv_decide|implemented_by)\b|^\s*axiom\s|unsafe\s|maxHeartbeats\s+0\b"
)

Fraction = fractions.Fraction


def import_spowtd():
    """Import spowtd from /repo's working tree (never from site-packages)."""
    if REPO not in sys.path:
        sys.path.insert(0, REPO)
    os.environ.setdefault("SPOWTD_VERIF", "1")
    import spowtd  # noqa

    assert os.path.abspath(spowtd.__file__).startswith(os.path.abspath(REPO)), spowtd.__file__
    return spowtd


# ---------------------------------------------------------------- transport


def f2h(x):
    """float -> 16 hex digits of its IEEE-754 bit pattern"""
    return "%016x" % struct.unpack("<Q", struct.pack("<d", float(x)))[0]


def h2f(s):
    return struct.unpack("<d", struct.pack("<Q", int(s, 16)))[0]


def q2s(q):
    q = Fraction(q)
    return "%d" % q.numerator if q.denominator == 1 else "%d/%d" % (q.numerator, q.denominator)


def s2q(s):
    return Fraction(s)


def ulps(a, b):
    """distance in units in the last place between two finite doubles"""
    ia = struct.unpack("<q", struct.pack("<d", a))[0]
    ib = struct.unpack("<q", struct.pack("<d", b))[0]
    if ia < 0:
        ia = -(ia & 0x7FFFFFFFFFFFFFFF)
    if ib < 0:
        ib = -(ib & 0x7FFFFFFFFFFFFFFF)
    return abs(ia - ib)


# ------------------------------------------------------------------- driver


class DriverError(Exception):
    pass


class Driver:
    """Line-protocol client for the Lean model (compiled driver, interpreted fallback)."""

    def __init__(self):
        exe = os.path.join(LEAN_DIR, ".lake", "build", "bin", "driver")
        if os.path.exists(exe):
            cmd = [exe]
            self.mode = "native"
        else:
            cmd = ["lake", "env", "lean", "--run", "Main.lean"]
            self.mode = "interpreted"
        self.proc = subprocess.Popen(
            cmd, cwd=LEAN_DIR, stdin=subprocess.PIPE, stdout=subprocess.PIPE, text=True, bufsize=1
        )
        self.calls = 0
        self.slow = []

    def call(self, cmd, payload):
        line = cmd + " " + json.dumps(payload, separators=(",", ":"))
        t0 = time.time()
        self.proc.stdin.write(line + "\n")
        self.proc.stdin.flush()
        out = self.proc.stdout.readline()
        self.calls += 1
        if time.time() - t0 > 20.0:
            self.slow.append((cmd, round(time.time() - t0, 1), len(line)))
            sys.stderr.write("slow model call: %s %.0fs, request of %d bytes\n" % (cmd, time.time() - t0, len(line)))
            if os.environ.get("VERIF_KEEP_SLOW"):
                with open(os.path.join(os.environ["VERIF_KEEP_SLOW"], "slow-%s-%d.txt" % (cmd, self.calls)), "w") as fh:
                    fh.write(line + "\n")
        if not out:
            raise DriverError("driver died on %s" % cmd)
        if out.startswith("ok "):
            return json.loads(out[3:])
        raise DriverError("driver: %s (request %s %s)" % (out.strip(), cmd, line[:300]))

    def call_many(self, reqs):
        """reqs: list of (cmd, payload); pipelined through a writer thread."""
        import threading

        lines = [c + " " + json.dumps(p, separators=(",", ":")) + "\n" for c, p in reqs]

        def feed():
            for ln in lines:
                self.proc.stdin.write(ln)
            self.proc.stdin.flush()

        th = threading.Thread(target=feed)
        th.start()
        outs = []
        for (c, _p) in reqs:
            out = self.proc.stdout.readline()
            self.calls += 1
            if not out.startswith("ok "):
                th.join()
                raise DriverError("driver: %s (request %s)" % (out.strip(), c))
            outs.append(json.loads(out[3:]))
        th.join()
        return outs

    def close(self):
        try:
            self.proc.stdin.close()
            self.proc.wait(timeout=10)
        except Exception:
            self.proc.kill()


# -------------------------------------------------------------------- audit


def _lean_tree_hash():
    """hash of the library as built (work in progress outside the root import cannot affect any audited theorem)"""
    h = hashlib.sha256()
    lib = _library_modules() | {os.path.join(LEAN_DIR, "lakefile.toml")}
    for p in sorted(lib):
        if os.path.exists(p):
            h.update(p.encode())
            with open(p, "rb") as fh:
                h.update(fh.read())
    return h.hexdigest()


def strip_comments(text):
    text = re.sub(r"/-.*?-/", lambda m: "\n" * m.group(0).count("\n"), text, flags=re.S)
    text = re.sub(r"--.*", "", text)
    return text


def _library_modules():
    """files of the library as built: everything imported by the root file, plus the driver and the audit"""
    root = os.path.join(LEAN_DIR, "SpowtdModel.lean")
    out = {root, os.path.join(LEAN_DIR, "Main.lean"), os.path.join(LEAN_DIR, "SpowtdModel", "Audit.lean"),
           os.path.join(LEAN_DIR, "SchemaTie.lean"), os.path.join(LEAN_DIR, "SqlTie.lean")}
    for tie in (os.path.join(LEAN_DIR, "SchemaTie"), os.path.join(LEAN_DIR, "SqlTie")):
        if os.path.isdir(tie):
            out |= {os.path.join(tie, f) for f in os.listdir(tie) if f.endswith(".lean")}
    with open(root) as fh:
        for line in fh:
            m = re.match(r"import\s+(SpowtdModel\.[\w.]+)", line)
            if m:
                out.add(os.path.join(LEAN_DIR, *m.group(1).split(".")) + ".lean")
    return out


def grep_forbidden():
    hits = []
    lib = _library_modules()
    for root, dirs, files in os.walk(LEAN_DIR):
        dirs[:] = [d for d in dirs if d != ".lake"]
        for f in files:
            if f.endswith(".lean"):
                p = os.path.join(root, f)
                if p not in lib:
                    continue        # work in progress not yet part of the library: cannot affect any theorem
                with open(p) as fh:
                    src = strip_comments(fh.read())
                for n, line in enumerate(src.split("\n"), 1):
                    if FORBIDDEN.search(line):
                        hits.append("%s:%d: %s" % (os.path.relpath(p, VERIF), n, line.strip()))
    return hits


def parse_axioms(text):
    """Parse the output of `#print axioms` into {theorem: set(axioms)}."""
    res = {}
    for m in re.finditer(r"'(\S+)' depends on axioms: \[([^\]]*)\]", text, flags=re.S):
        res[m.group(1)] = {a.strip() for a in m.group(2).replace("\n", " ").split(",") if a.strip()}
    for m in re.finditer(r"'(\S+)' does not depend on any axioms", text):
        res[m.group(1)] = set()
    return res


def schema_tie(groups, timeout=600):
    """Translator tie: regenerate lean/SchemaTie/Generated.lean from <repo>/spowtd/schema.sql and re-check the
    `rfl` statements of the given groups (what the model and its proofs assume about those tables/views).
    Returns a list of problems (empty when every statement still checks)."""
    problems = []
    if not groups:
        return problems
    p = subprocess.run([sys.executable, os.path.join(VERIF, "tools", "gen_schema.py"), REPO],
                       capture_output=True, text=True, timeout=timeout)
    if p.returncode != 0:
        return ["schema translator failed on %s/spowtd/schema.sql: %s" % (REPO, (p.stdout + p.stderr)[-400:])]
    for g in ["Names"] + list(groups):
        p = subprocess.run(["lake", "build", "SchemaTie." + g], cwd=LEAN_DIR, capture_output=True, text=True, timeout=timeout)
        if p.returncode != 0:
            lines = [ln for ln in (p.stdout + p.stderr).split("\n") if "error" in ln.lower()][:4]
            names = []
            try:
                with open(os.path.join(LEAN_DIR, "SchemaTie", g + ".lean")) as fh:
                    src = fh.read().split("\n")
                for ln in lines:
                    m = re.search(r"SchemaTie/%s\.lean:(\d+):" % g, ln)
                    if m:
                        above = [x for x in src[:int(m.group(1))] if x.startswith("theorem ")]
                        if above and above[-1].split()[1] not in names:
                            names.append(above[-1].split()[1])
            except OSError:
                pass
            problems.append("schema tie: theorem(s) %s of SchemaTie/%s.lean no longer check against spowtd/schema.sql: %s" % (
                ", ".join("Spowtd.SchemaTie." + n for n in names) or "?", g, " | ".join(lines)[:500]))
    if not problems:
        problems += tie_axioms("SchemaTie", ["Names"] + list(groups), timeout)
    return problems


def sql_tie(modules, timeout=600):
    """Translator tie for the embedded SQL: regenerate lean/SqlTie/Generated.lean from <repo>/spowtd/*.py and
    re-check the pinned statement lists of the given modules (lean/SqlTie/<Module>.lean, closed by `rfl`)."""
    problems = []
    if not modules:
        return problems
    tool = os.path.join(VERIF, "tools", "gen_sql.py")
    p = subprocess.run([sys.executable, tool, REPO], capture_output=True, text=True, timeout=timeout)
    if p.returncode != 0:
        return ["SQL translator failed on %s/spowtd: %s" % (REPO, (p.stdout + p.stderr)[-400:])]
    for m in modules:
        name = "".join(w.capitalize() for w in m.split("_"))
        p = subprocess.run(["lake", "build", "SqlTie." + name], cwd=LEAN_DIR, capture_output=True, text=True, timeout=timeout)
        if p.returncode != 0:
            d = subprocess.run([sys.executable, tool, "--diff", REPO], capture_output=True, text=True, timeout=timeout)
            what = [ln for ln in d.stdout.split("\n") if ln.startswith(m + ".py")][:4]
            problems.append("SQL tie: theorem Spowtd.SqlTie.%s_sql_decl no longer checks: the statements executed by spowtd/%s.py "
                            "are not those the model was derived from: %s" % (m, m, " | ".join(what)[:700] or "(see lake build SqlTie.%s)" % name))
    if not problems:
        problems += tie_axioms("SqlTie", ["".join(w.capitalize() for w in m.split("_")) for m in modules], timeout)
    return problems


def formula_tie(groups, timeout=600):
    """Translator tie for arithmetic: regenerate lean/FormulaTie/Gen<Group>.lean from <repo>/spowtd/*.py (tools/gen_formulas.py:
    selected expressions and function bodies -> Lean terms over the model's carrier class) and re-check that each generated
    definition is the model's (lean/FormulaTie/<Group>.lean, closed by `rfl` or a short unfolding)."""
    problems = []
    if not groups:
        return problems
    tool = os.path.join(VERIF, "tools", "gen_formulas.py")
    p = subprocess.run([sys.executable, tool, REPO], capture_output=True, text=True, timeout=timeout)
    try:
        report = json.loads(p.stdout.strip().split("\n")[-1]) if p.returncode == 0 else None
    except ValueError:
        report = None
    if report is None:
        return ["formula translator failed on %s/spowtd: %s" % (REPO, (p.stdout + p.stderr)[-400:])]
    for g in groups:
        p = subprocess.run(["lake", "build", "FormulaTie." + g], cwd=LEAN_DIR, capture_output=True, text=True, timeout=timeout)
        if p.returncode != 0 or report.get(g):
            lines = [ln for ln in (p.stdout + p.stderr).split("\n") if "error" in ln.lower()][:3]
            names = []
            try:
                with open(os.path.join(LEAN_DIR, "FormulaTie", g + ".lean")) as fh:
                    src = fh.read().split("\n")
                for ln in lines:
                    m = re.search(r"FormulaTie/%s\.lean:(\d+):" % g, ln)
                    if m:
                        above = [x for x in src[:int(m.group(1))] if x.startswith("theorem ")]
                        if above and above[-1].split()[1] not in names:
                            names.append(above[-1].split()[1])
            except OSError:
                pass
            problems.append("formula tie: theorem(s) %s of FormulaTie/%s.lean no longer check: the arithmetic translated from the source "
                            "is not the model's: %s" % (", ".join("Spowtd.FormulaTie." + n for n in names) or "?", g,
                                                        " | ".join(report.get(g, []) + lines)[:700]))
    if not problems:
        problems += tie_axioms("FormulaTie", groups, timeout)
    return problems


def tie_axioms(lib, groups, timeout=600):
    """the theorems of the tie files depend on the three standard axioms at most"""
    names = []
    for g in groups:
        try:
            with open(os.path.join(LEAN_DIR, lib, g + ".lean")) as fh:
                names += re.findall(r"^theorem\s+([\w'.]+)", strip_comments(fh.read()), flags=re.M)
        except OSError:
            return ["tie audit: %s/%s.lean cannot be read" % (lib, g)]
    if not names:
        return ["tie audit: no theorem found in %s/{%s}.lean" % (lib, ",".join(groups))]
    fd, path = tempfile.mkstemp(suffix=".lean", prefix="tieaudit")
    try:
        with os.fdopen(fd, "w") as fh:
            fh.write("".join("import %s.%s\n" % (lib, g) for g in groups))
            fh.write("".join("#print axioms Spowtd.%s.%s\n" % (lib, n) for n in names))
        p = subprocess.run(["lake", "env", "lean", path], cwd=LEAN_DIR, capture_output=True, text=True, timeout=timeout)
    finally:
        os.remove(path)
    out = p.stdout + p.stderr
    bad = []
    seen = 0
    for m in re.finditer(r"'Spowtd\.%s\.([\w'.]+)' (does not depend on any axioms|depends on axioms: \[([^\]]*)\])" % lib, out):
        seen += 1
        extra = [a.strip() for a in (m.group(3) or "").split(",") if a.strip() and a.strip() not in ALLOWED_AXIOMS]
        if extra:
            bad.append("%s uses %s" % (m.group(1), ", ".join(extra)))
    if p.returncode != 0 or seen != len(names) or "sorry" in out:
        bad.append("axiom audit of the tie theorems did not complete: %s" % out[-300:])
    return ["tie audit (%s): %s" % (lib, "; ".join(bad))] if bad else []


MISSING_DECLS = []


def modules_of(theorems):
    """the library modules that declare the given property theorems, with everything of the library they import"""
    decl = {}
    props = os.path.join(LEAN_DIR, "SpowtdModel", "Props")
    for f in sorted(os.listdir(props)):
        if f.endswith(".lean"):
            with open(os.path.join(props, f)) as fh:
                src = strip_comments(fh.read())
            ns = []
            for line in src.split("\n"):
                m = re.match(r"namespace\s+([\w'.]+)", line)
                if m:
                    ns.append(m.group(1))
                    continue
                m = re.match(r"end\s+([\w'.]+)\s*$", line)
                if m and ns and ns[-1] == m.group(1):
                    ns.pop()
                    continue
                m = re.match(r"(?:protected\s+|private\s+)?theorem\s+([\w'.]+)", line)
                if m:
                    decl.setdefault(".".join(ns + [m.group(1)]), "SpowtdModel.Props." + f[:-5])
    MISSING_DECLS[:] = [t for t in theorems if t not in decl]
    todo = sorted({decl[t] for t in theorems if t in decl})
    seen = []
    while todo:
        mod = todo.pop()
        if mod in seen:
            continue
        seen.append(mod)
        path = os.path.join(LEAN_DIR, *mod.split(".")) + ".lean"
        if os.path.exists(path):
            with open(path) as fh:
                for line in fh:
                    m = re.match(r"import\s+(SpowtdModel\.[\w.]+)", line)
                    if m:
                        todo.append(m.group(1))
    return sorted(seen)


def leanchecker(theorems, timeout=3000):
    """thorough tier: replay the compiled declarations of the property's modules through Lean's independent
    re-checker (`leanchecker`, a separate kernel pass over the .olean files)"""
    mods = modules_of(theorems)
    if not mods or MISSING_DECLS:
        return ["leanchecker: the module declaring %s was not found among lean/SpowtdModel/Props/*.lean" % ", ".join(MISSING_DECLS[:4] or ["the property's theorems"])]
    try:
        p = subprocess.run(["lake", "env", "leanchecker"] + mods, cwd=LEAN_DIR, capture_output=True, text=True, timeout=timeout)
    except FileNotFoundError:
        return []
    if p.returncode != 0:
        return ["leanchecker rejects %s: %s" % (" ".join(mods)[:200], (p.stdout + p.stderr)[-500:])]
    return []


def audit(theorems, timeout=3000, schema_groups=(), sql_modules=(), tier="quick", formula_groups=()):
    """Build the Lean project, grep for escape hatches, check axioms of `theorems`.

    Returns a dict: ok, build_ok, problems [...], axioms {thm: [..]}, cmd.
    Cached by the hash of the Lean sources.
    """
    out = _audit(theorems, timeout)
    if os.environ.get("VERIF_NO_TIE"):
        # used only by tools/matrix.sh, which runs many scratch worktrees in parallel against one lean/ directory and
        # wants to know what the behavioural streams detect on their own
        return out
    if out["build_ok"]:
        tie = schema_tie(schema_groups)
        out["schema_tie"] = {"groups": list(schema_groups), "ok": not tie}
        if tie:
            out["ok"] = False
            out["problems"] += tie
        tie2 = sql_tie(sql_modules)
        out["sql_tie"] = {"modules": list(sql_modules), "ok": not tie2}
        if tie2:
            out["ok"] = False
            out["problems"] += tie2
        tie3 = formula_tie(formula_groups)
        out["formula_tie"] = {"groups": list(formula_groups), "ok": not tie3}
        if tie3:
            out["ok"] = False
            out["problems"] += tie3
        if tier == "thorough":
            lc = leanchecker(theorems)
            out["leanchecker"] = {"modules": modules_of(theorems), "ok": not lc}
            if lc:
                out["ok"] = False
                out["problems"] += lc
    return out


def _audit(theorems, timeout=3000):
    t0 = time.time()
    cmd = "cd lean && lake build SpowtdModel driver && lake env lean SpowtdModel/Audit.lean"
    out = {"ok": True, "build_ok": True, "problems": [], "axioms": {}, "cmd": cmd}
    p = subprocess.run(
        ["lake", "build", "SpowtdModel", "driver"], cwd=LEAN_DIR, capture_output=True, text=True, timeout=timeout
    )
    if p.returncode != 0:
        out["ok"] = False
        out["build_ok"] = False
        tail = (p.stdout + p.stderr).strip().split("\n")
        out["problems"].append("lake build failed: " + " | ".join(tail[-15:]))
        out["wall_s"] = time.time() - t0
        return out
    hits = grep_forbidden()
    if hits:
        out["ok"] = False
        out["problems"] += ["forbidden construct: " + h for h in hits]
    key = _lean_tree_hash()
    cache = os.path.join(LEAN_DIR, ".lake", "audit-cache.json")
    axioms = None
    if os.path.exists(cache):
        try:
            with open(cache) as fh:
                c = json.load(fh)
            if c.get("key") == key:
                axioms = {k: set(v) for k, v in c["axioms"].items()}
        except Exception:
            axioms = None
    if axioms is None:
        p = subprocess.run(
            ["lake", "env", "lean", "SpowtdModel/Audit.lean"],
            cwd=LEAN_DIR, capture_output=True, text=True, timeout=timeout,
        )
        axioms = parse_axioms(p.stdout)
        if p.returncode != 0 and not axioms:
            out["ok"] = False
            out["problems"].append("Audit.lean failed: " + (p.stdout + p.stderr)[-800:])
        else:
            with open(cache, "w") as fh:
                json.dump({"key": key, "axioms": {k: sorted(v) for k, v in axioms.items()}}, fh)
    for t in theorems:
        if t not in axioms:
            out["ok"] = False
            out["problems"].append("theorem %s not found by the axiom audit" % t)
        else:
            extra = axioms[t] - ALLOWED_AXIOMS
            out["axioms"][t] = sorted(axioms[t])
            if extra:
                out["ok"] = False
                out["problems"].append("theorem %s depends on %s" % (t, sorted(extra)))
    out["wall_s"] = time.time() - t0
    return out


# ------------------------------------------------------------------ context


class Violation:
    def __init__(self, kind, obligation, detail, found_failing_input, replay):
        self.kind = kind
        self.obligation = obligation
        self.detail = detail
        self.found = found_failing_input
        self.replay = replay


class Context:
    """State of one check run: seed, tier, counters, samples, violations."""

    def __init__(self, prop, tier, seed):
        self.prop = prop
        self.tier = tier
        self.seed = seed
        self.rng = random.Random((seed, prop).__repr__())
        try:
            from . import cli as _cli
            _cli.DIALECT_RNG[0] = random.Random((seed, prop, "dialect").__repr__())
        except Exception:  # noqa
            pass
        self.t0 = time.time()
        self.counters = {}
        self.samples = []
        self.violations = []
        self.known_hits = []
        self.distinct = set()
        self.evaluations = 0
        self.corr_obligations = {}   # name -> [checked, failed]
        self.notes = []
        self.breaks = []
        self._driver = None
        self._tmp_root = tempfile.mkdtemp(prefix="spowtd-verif-%s-" % prop)
        # data files live where users keep them: folders with blanks, '#', '?', percent signs and accents in their names
        # (a path is not a URI and must not be read as one)
        self.tmp = os.path.join(self._tmp_root, "Plot #2 (50%ab full?) \u00e9t\u00e9")
        os.makedirs(self.tmp, exist_ok=True)

    # -- resources
    @property
    def driver(self):
        if self._driver is None:
            self._driver = Driver()
        return self._driver

    def cleanup(self):
        if self._driver is not None:
            self._driver.close()
        shutil.rmtree(self._tmp_root, ignore_errors=True)

    def scratch(self, name):
        return os.path.join(self.tmp, name)

    # -- bookkeeping
    def count(self, key, n=1):
        self.counters[key] = self.counters.get(key, 0) + n

    def case(self, signature, nontrivial=True):
        """Register one explored case; `signature` identifies it for distinctness."""
        self.evaluations += 1
        if nontrivial:
            self.distinct.add(hashlib.md5(repr(signature).encode()).hexdigest())

    def sample(self, obj, limit=4):
        if len(self.samples) < limit:
            self.samples.append(obj)

    def obligation(self, name, ok=True):
        c = self.corr_obligations.setdefault(name, [0, 0])
        c[0] += 1
        if not ok:
            c[1] += 1

    # -- reporting
    def corr_break(self, obligation, detail):
        """Model and implementation disagree on a case whose oracle passed: not a violation by
        itself; kept so that `finalize` can report it if no failing input is found at all."""
        self.obligation(obligation, ok=False)
        self.count("correspondence_breaks")
        if len(self.breaks) < 3:
            self.breaks.append((obligation, detail))

    def finalize(self, aud):
        """Turn unexplained correspondence / proof breaks into `no-failing-input-found` reports."""
        found = [v for v in self.violations if v is not None and v.found]
        if found:
            return        # (a listed known finding explains nothing else: it does not silence an unrelated break)
        if self.breaks:
            ob, detail = self.breaks[0]
            d = dict(detail)
            d["no_longer_checks"] = "correspondence: " + ob
            d["all_broken_obligations"] = sorted({b[0] for b in self.breaks})
            self.violation("correspondence-break", ob, d, found_failing_input=False)
        elif not aud["ok"]:
            self.violation("proof-break", "lean audit", {"no_longer_checks": aud["problems"][:10]},
                           found_failing_input=False)
        else:
            # an obligation that failed without any report of its own must not leave the check green
            failed = sorted(name for name, (_n, bad) in self.corr_obligations.items() if bad)
            if failed and not [v for v in self.violations if v is not None]:
                self.violation("correspondence-break", failed[0], {
                    "input": None, "no_longer_checks": "correspondence: " + failed[0],
                    "all_broken_obligations": failed,
                    "failures": {name: self.corr_obligations[name][1] for name in failed}}, found_failing_input=False)

    def violation(self, kind, obligation, detail, found_failing_input=True):
        """Record a violation unless it matches a known finding."""
        kf = match_known_finding(self.prop, obligation, detail)
        if kf is not None:
            if kf["what"] not in [k["what"] for k in self.known_hits]:
                self.known_hits.append(kf)
            return None
        n = len(self.violations)
        if n >= 5:
            self.count("violations_not_written")
            self.violations.append(None)
            return None
        os.makedirs(REPLAY_DIR, exist_ok=True)
        path = os.path.join(REPLAY_DIR, "%s-%s-seed%d-%d.json" % (self.prop, self.tier, self.seed, n))
        doc = {
            "property": self.prop, "kind": kind, "obligation": obligation,
            "seed": self.seed, "tier": self.tier, "found_failing_input": found_failing_input,
        }
        doc.update(detail)
        try:
            from . import cli as _cli
            if _cli.LAST_DIALECT[0] is not None:
                doc["file_dialect_of_the_last_dataset_written"] = _cli.LAST_DIALECT[0]
        except Exception:  # noqa
            pass
        with open(path, "w") as fh:
            json.dump(doc, fh, indent=1, default=str)
        v = Violation(kind, obligation, detail, found_failing_input, path)
        self.violations.append(v)
        return v


# ----------------------------------------------------------- known findings


def load_known_findings():
    p = os.path.join(VERIF, "known_findings.json")
    if not os.path.exists(p):
        return []
    with open(p) as fh:
        return json.load(fh).get("findings", [])


def match_known_finding(prop, obligation, detail):
    """A violation is attributed to a `known` entry only when property, oracle name and
    every key of the entry's signature match the violation's witness."""
    for f in load_known_findings():
        if f.get("status") != "known" or f.get("property") != prop:
            continue
        sig = f.get("signature", {})
        if sig.get("oracle") and sig["oracle"] != detail.get("oracle", {}).get("name"):
            continue
        wit = detail.get("oracle", {}).get("witness", {})
        if all(wit.get(k) == v for k, v in sig.get("witness", {}).items()):
            return f
    return None


# ----------------------------------------------------------------- evidence


def write_evidence(ctx, aud, theorems, trusted_base, assumptions, rule, extra=None):
    os.makedirs(EVIDENCE_DIR, exist_ok=True)
    corr = ctx.corr_obligations
    n_thm = len(theorems)
    thm_ok = sum(1 for t in theorems if t in aud["axioms"] and set(aud["axioms"][t]) <= ALLOWED_AXIOMS) if aud["build_ok"] else 0
    obligations = n_thm + len(corr)
    discharged = thm_ok + sum(1 for c in corr.values() if c[1] == 0 and c[0] > 0)
    cov = {
        "obligations": obligations,
        "discharged": discharged,
        "checker_cmd": aud["cmd"],
        "trusted_base": trusted_base,
        "theorems": {t: aud["axioms"].get(t) for t in theorems},
        "correspondence": {k: {"cases": v[0], "failed": v[1]} for k, v in corr.items()},
        "evaluations": max(ctx.evaluations, 1),
        "distinct_nontrivial": len(ctx.distinct),
        "rule": rule,
        "samples": ctx.samples if ctx.samples else ["(no case generated)"],
        "counters": ctx.counters,
        "driver_mode": ctx._driver.mode if ctx._driver else "unused",
        "driver_calls": ctx._driver.calls if ctx._driver else 0,
        "audit_problems": aud["problems"],
        "translator_ties": {"schema": aud.get("schema_tie"), "sql": aud.get("sql_tie"), "formulas": aud.get("formula_tie")},
        "leanchecker": aud.get("leanchecker"),
        "notes": ctx.notes,
    }
    if extra:
        cov.update(extra)
    doc = {
        "property_id": ctx.prop,
        "tier": ctx.tier,
        "seed": ctx.seed,
        "level": "proof",
        "coverage": cov,
        "assumptions": assumptions,
        "wall_s": round(time.time() - ctx.t0, 2),
        "violations": len(ctx.violations),
        "known_findings_hit": [k["what"] for k in ctx.known_hits],
    }
    with open(os.path.join(EVIDENCE_DIR, "%s.json" % ctx.prop), "w") as fh:
        json.dump(doc, fh, indent=1, default=str)
    return doc


import contextlib as _contextlib


@_contextlib.contextmanager
def session_logging(rng, p=0.25):
    """The library as used from a process that logs (what `-vv`/`-vvv` configure, or a notebook with
    logging.basicConfig(level=DEBUG)): for a fraction `p` of the cases the root logger is at INFO or DEBUG
    while the real code runs.  Results must not depend on it."""
    import logging
    level = None
    if rng.random() < p:
        level = rng.choice([logging.INFO, logging.DEBUG])
        logging.disable(logging.NOTSET)
        if not logging.root.handlers:
            logging.root.addHandler(logging.NullHandler())
        logging.root.setLevel(level)
    try:
        yield level
    finally:
        if level is not None:
            logging.root.setLevel(logging.WARNING)


class CallTimeout(Exception):
    pass


@contextlib.contextmanager
def time_limit(seconds):
    """abandon a call into the implementation that does not return (SIGALRM; main thread only)"""
    import signal

    def on_alarm(_sig, _frm):
        raise CallTimeout("no result after %d s" % seconds)
    old = signal.signal(signal.SIGALRM, on_alarm)
    signal.alarm(int(seconds))
    try:
        yield
    finally:
        signal.alarm(0)
        signal.signal(signal.SIGALRM, old)


def snapshot(obj):
    """deep copy of an argument (numpy arrays, lists, tuples, dicts, scalars) taken before a call"""
    import copy
    return copy.deepcopy(obj)


def same_as_snapshot(obj, snap):
    """whether a call left its argument as it was (numpy arrays compared elementwise, NaN equal to NaN)"""
    import numpy as np
    if isinstance(obj, np.ndarray) or isinstance(snap, np.ndarray):
        return (isinstance(obj, np.ndarray) and isinstance(snap, np.ndarray) and obj.shape == snap.shape
                and obj.dtype == snap.dtype and bool(np.array_equal(obj, snap, equal_nan=(obj.dtype.kind == "f"))))
    if isinstance(obj, dict):
        return isinstance(snap, dict) and list(obj.keys()) == list(snap.keys()) and all(same_as_snapshot(obj[k], snap[k]) for k in obj)
    if isinstance(obj, (list, tuple)):
        return type(obj) is type(snap) and len(obj) == len(snap) and all(same_as_snapshot(a, b) for a, b in zip(obj, snap))
    return obj == snap or (obj != obj and snap != snap)


def any_layout(rng, arr, p=0.4):
    """the same values in another memory layout (what slicing a table or subsampling gives): a strided view, a column of a
    2-D array, or a reversed view of a reversed copy; contiguous with probability 1 - p"""
    import numpy as np
    arr = np.asarray(arr)
    if arr.ndim == 1 and arr.size and arr.dtype.kind == "f" and bool(np.all(arr == np.round(arr))) and bool(np.all(np.abs(arr) < 2 ** 31)) \
            and rng.random() < 0.5:
        # whole numbers (levels in whole millimetres, `np.arange(-300, 200, 10)`, a column read with dtype=int) arrive as an
        # integer array as often as not
        arr = arr.astype(rng.choice(["int64", "int32"]))
    if arr.ndim != 1 or arr.size == 0 or rng.random() >= p:
        return arr
    kind = rng.choice(["strided", "column", "reversed"])
    if kind == "strided":
        return np.repeat(arr, 2)[::2]
    if kind == "column":
        junk = np.full(arr.shape, 12345.678 if arr.dtype.kind == "f" else 7, dtype=arr.dtype)
        return np.stack([arr, junk], axis=1)[:, 0]
    return arr[::-1].copy()[::-1]
