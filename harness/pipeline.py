"""Whole-workflow runs (load -> classify -> set-zeta-grid -> rise -> recession) on synthetic
records with a planted ground truth, and the comparison of the six master-curve tables with the
model `Pipeline` evaluated exactly over Rat.  Used by C05, C06, C08, C09, C13 (and C17-C19)."""

import os

from . import cli
from . import classification as C
from .common import Fraction, q2s

_N = [0]


class Truth:
    """A record generated from a planted recession curve Z(n) (level after n steps of recession
    from the top, strictly decreasing, values on a 0.25 mm lattice) and a constant specific yield."""

    def __init__(self, dt, t0, sy, Z, rain, level, et, events, s, j):
        self.dt, self.t0, self.sy, self.Z = dt, t0, sy, Z
        self.rain, self.level, self.et, self.events = rain, level, et, events
        self.s, self.j = s, j
        self.removed = set()
        self.fine = 1                 # the level logger samples `fine` times per rain step (on the chords of the truth)
        self.removed_fine = set()     # with fine > 1: dropped samples, numbered in logger steps

    @classmethod
    def from_description(cls, d):
        tr = cls(d["dt"], d["t0"], d["sy"], d["Z"], d["rain"], d["level"], d["et"], d["events"], d["s"], d["j"])
        tr.removed = set(d.get("removed", []))
        tr.fine = int(d.get("fine", 1))
        tr.removed_fine = set(d.get("removed_fine", []))
        return tr

    def rows(self):
        dt, t0 = self.dt, self.t0
        n = len(self.level)
        rain = [(t0 + i * dt, v) for i, v in enumerate(self.rain)]
        et = [(t0 + i * dt, self.et[i % len(self.et)]) for i in range(n + 2)]
        if self.fine > 1:
            f = self.fine
            level = []
            for m in range((n - 1) * f + 1):
                i, k = divmod(m, f)
                if m in self.removed_fine or i in self.removed:
                    continue
                v = self.level[i] if k == 0 else self.level[i] + (self.level[i + 1] - self.level[i]) * k / f
                level.append((t0 + m * dt // f, v))
            return rain, et, level
        level = [(t0 + i * dt, v) for i, v in enumerate(self.level) if i not in self.removed]
        return rain, et, level

    def add_stray(self, rng, et_value=0.6):
        """append a storm lifting the level far above everything else, one light-rain step and a short dry
        spell: an interstorm interval sharing no level with the others (left out of the recession curve),
        with its own evapotranspiration"""
        n0 = len(self.level)
        et_full = [self.et[i % len(self.et)] for i in range(n0 + 2)]
        lift = 150.0 + float(rng.randint(0, 40))
        base = max(self.level) + lift
        self.rain[n0 - 1] = self.sy * (base - self.level[-1]) * 3600.0 / self.dt
        self.level.append(base)
        self.rain.append(0.25)
        k = rng.randint(4, 8)
        for i in range(k):
            self.level.append(base - 1.0 - i)
            self.rain.append(0.0)
        self.rain = self.rain[:len(self.level)]
        while len(self.rain) < len(self.level):
            self.rain.append(0.0)
        self.et = et_full[:n0] + [et_value] * (len(self.level) + 2 - n0)
        self.events.append(("stray", k, None))
        return self

    def add_gap(self, rng):
        """drop two consecutive level samples inside a dry spell: two gap-free stretches"""
        n = len(self.level)
        dry = [i for i in range(3, n - 4) if self.rain[i - 1] == 0.0 and self.rain[i] == 0.0 and self.rain[i + 1] == 0.0
               and self.rain[i + 2] == 0.0]
        if dry:
            i = rng.choice(dry)
            self.removed = {i, i + 1}
        return self

    def add_fine_gap(self, rng):
        """the level logger samples two or three times per rain step, and its outage begins and ends BETWEEN rain
        instants: the last sample before the hole and the first after it are off the rain lattice"""
        n = len(self.level)
        f = rng.choice([2, 3]) if self.dt % 6 == 0 else 2
        if self.dt % f:
            return self
        dry = [i for i in range(3, n - 5) if all(self.rain[q] == 0.0 for q in range(i - 1, i + 4))]
        if dry:
            i = rng.choice(dry)
            self.fine = f
            # keep sample i*f + 1 (off the lattice), drop through the lattice instants i+1 and i+2, resume at (i+2)*f + f - 1
            self.removed_fine = set(range(i * f + 2, (i + 2) * f + f - 1))
        return self

    def describe(self):
        return {"removed": sorted(self.removed), "fine": self.fine, "removed_fine": sorted(self.removed_fine), "dt": self.dt, "t0": self.t0, "sy": self.sy, "Z": self.Z[:60], "rain": self.rain, "level": self.level,
                "et": self.et, "events": self.events, "s": self.s, "j": self.j}

    def T(self, z):
        """planted elapsed time (s) at level z, linear between lattice points; None outside"""
        Z = self.Z
        for n in range(len(Z) - 1):
            if Z[n + 1] <= z <= Z[n]:
                return Fraction(self.dt) * (n + Fraction(Fraction(Z[n]) - Fraction(z)) / (Fraction(Z[n]) - Fraction(Z[n + 1])))
        return None


def gen_truth(rng, n_events=None, dt=None, noise=0.0, datum=0.0, isolated=0):
    """`isolated`: the record starts with that many short dry spells low on the curve, each lifted clear of the
    one before by a large storm, so that these recession pieces share no level with one another or with the
    main body that follows (they are left out of the recession curve; the storms still overlap)."""
    dt = dt or rng.choice([600, 1200, 1800, 3600, 600, 1200, 1800, 3600, 10800, 86400])
    t0 = (rng.randint(631152000, 1893456000) // dt) * dt
    sy = rng.choice([0.125, 0.25, 0.5])
    NZ = (160 if (n_events or 0) <= 9 else 40 * (n_events + 2)) + 12 * isolated
    top = float(rng.randint(-40, 120)) / 4 + datum
    Z = [top]
    # three records in ten fall by decimal amounts (0.3, 0.7, ... mm per step): levels and crossing positions are then
    # not binary fractions and every sum and mean rounds, as with field data
    drops = [0.5, 0.75, 1.0, 1.25, 1.5, 2.0, 3.0] if rng.random() < 0.7 else [0.3, 0.7, 1.1, 1.3, 1.9, 2.3, 0.9]
    for _ in range(NZ):
        Z.append(Z[-1] - rng.choice(drops))
    # thresholds are intensities (mm/h): for steps longer than an hour they are scaled so that the same depths per
    # step separate light rain from storms and drift from rises
    h = 3600.0 / dt if dt > 3600 else 1.0
    s, j = 0.25 * h, (2.0 * h if not noise else 3600.0 / dt)
    n_events = n_events or rng.randint(3, 9)
    NZ0 = NZ - 12 * isolated
    pos = rng.randint(10, 40) if NZ0 == 160 else rng.randint(NZ0 // 3, NZ0 // 2)          # index into Z
    pos += 10 * isolated
    level = [Z[pos]]
    rain = []
    events = []
    # leading dry spell cannot be an interstorm (no rain yet): start with a storm
    for ev in range(n_events + isolated):
        # storm: climb from Z[pos] to Z[m], m < pos
        q = rng.randint(1, 3)
        m = max(0, pos - (rng.randint(6, 25) if ev >= isolated else rng.randint(12, 14)))
        rise = Z[m] - Z[pos]
        per = [rise / q] * q
        # keep every step's rise a multiple of 1/8 mm and well above the jump threshold
        per = [round(p * 8) / 8 for p in per]
        per[-1] = rise - sum(per[:-1])
        if min(per) <= 2.5:
            q, per = 1, [rise]
        for p in per:
            rain.append(sy * p * 3600.0 / dt)
            level.append(level[-1] + p)
        pos = m
        events.append(("storm", q, m))
        # one light-rain step, level already receding
        rain.append(0.25 * h)
        pos += 1
        level.append(Z[pos])
        # dry recession
        L = rng.randint(3, 14) if ev >= isolated else rng.randint(2, 3)
        L = min(L, NZ - pos - 1)
        for _ in range(L):
            rain.append(0.0)
            pos += 1
            level.append(Z[pos])
        events.append(("dry", L, pos))
        if pos > NZ - 30:
            break
    rain.append(0.0)
    # level has one more sample than rain steps? keep n samples, n rain steps
    rain = rain[:len(level)]
    while len(rain) < len(level):
        rain.append(0.0)
    if noise:
        # perturbed pieces: non-monotone recessions and repeated crossings, same classification
        level = [z + round(rng.uniform(-noise, noise) * 8) / 8 for z in level]
    et = [rng.choice([0.05, 0.1, 0.15, 0.2, 0.25]) for _ in range(7)]
    return Truth(dt, t0, sy, Z, rain, level, et, events, s, j)


def gen_long_truth(rng, n_events=None):
    """A site with a long dry season: hourly record, a few storms separated by dry spells of one to three months
    with the level falling a fraction of a millimetre per hour, so that the master recession curve is tens of
    millions of seconds long (elapsed times of 1e7 s, offsets of the same size)."""
    dt = 3600
    t0 = (rng.randint(631152000, 1893456000) // dt) * dt
    sy = rng.choice([0.125, 0.25, 0.5])
    n_events = n_events or rng.randint(6, 8)
    NZ = 2700 * (n_events + 1)
    top = float(rng.randint(-40, 120)) / 4
    Z = [top]
    for _ in range(NZ):
        Z.append(Z[-1] - rng.choice([0.15, 0.1, 0.3, 0.125]))      # (decimal rates: crossing times are not binary fractions)
    pos = rng.randint(200, 600)
    level, rain, events = [Z[pos]], [], []
    for ev in range(n_events):
        m = max(0, pos - rng.randint(300, 1100))
        rise = Z[m] - Z[pos]
        qn = rng.randint(2, 4)
        per = [round(rise / qn * 8) / 8] * (qn - 1)
        per.append(rise - sum(per))
        for p_ in per:
            rain.append(sy * p_ * 3600.0 / dt)
            level.append(level[-1] + p_)
        pos = m
        events.append(("storm", qn, m))
        rain.append(0.25)
        pos += 1
        level.append(Z[pos])
        L = min(rng.randint(1300, 2500), NZ - pos - 1)
        for _ in range(L):
            rain.append(0.0)
            pos += 1
            level.append(Z[pos])
        events.append(("dry", L, pos))
    rain = (rain + [0.0] * len(level))[:len(level)]
    et = [rng.choice([0.05, 0.1, 0.15, 0.2, 0.25]) for _ in range(7)]
    return Truth(dt, t0, sy, Z, rain, level, et, events, 0.25, 2.0)


def many_spells_rows(rng, n_spells):
    """(rows, s, j, level): a multi-year hourly record of `n_spells` short dry spells separated by single drizzle
    steps (each spell is an interstorm interval of its own), with a real storm every 700 spells."""
    dt, s, j = 3600, 1.0, 8.0
    rain, level = [], [0.0]
    for i in range(n_spells):
        L = rng.randint(2, 6)
        fall = rng.choice([0.7, 0.9, 1.1, 1.3])
        for _ in range(L):
            rain.append(0.0)
            level.append(level[-1] - fall)
        if i % 700 == 350:
            # a real storm: two heavy steps lifting the level well above the rise threshold
            up = float(L) + 24.0
            rain += [6.0, 6.0]
            level += [level[-1] + up / 2, level[-1] + up]
            rain.append(0.5)
            level.append(level[-1] - 1.0)
            for _ in range(24):
                rain.append(0.0)
                level.append(level[-1] - 1.0)
        else:
            rain.append(0.5)                     # drizzle: below the storm threshold, level back up below the rise threshold
            level.append(level[-1] + L * fall - rng.choice([-0.2, 0.0, 0.25, 0.4]) if abs(level[-1]) < 40 else
                         level[-1] + L * fall - (0.5 if level[-1] > 0 else -0.5))
    rain = (rain + [0.0] * len(level))[:len(level)]
    t0 = 1262304000
    rows = ([(t0 + i * dt, v) for i, v in enumerate(rain)], [(t0 + i * dt, 0.1) for i in range(len(level) + 2)],
            [(t0 + i * dt, v) for i, v in enumerate(level)])
    return rows, s, j, level


def q(v):
    return q2s(Fraction(v))


def run_workflow(ctx, rec_rows, s, j, zstep, rise_ref=None, recession_ref=None, keep_db=False, tz="UTC",
                 steps=("load", "classify", "grid", "rise", "recession")):
    """rec_rows = (rain, et, level) rows.  Returns outcomes and the dump of every table."""
    _N[0] += 1
    name = "w%d" % _N[0]
    files = cli.write_dataset(ctx.tmp, name, *rec_rows)
    db = ctx.scratch(name + ".sqlite3")
    out = {"db": db, "files": files, "status": {}}
    verbosity = ctx.rng.choice([0, 1, 2, 3, 4]) if _N[0] % 2 == 0 else 0
    vargs = ["-" + "v" * verbosity, "--logfile", db + ".log"] if verbosity else []
    for st in steps:
        cli.VERBOSITY[0] = verbosity
        if st == "load":
            r = cli.load(db, files, tz)
        elif st == "classify":
            r = cli.classify(db, s, j)
        elif st == "grid":
            r = cli.run(["set-zeta-grid", db, "-d", repr(float(zstep))] + vargs)
        elif st == "rise":
            r = cli.run(["rise", db] + (["-r", rise_ref] if rise_ref is not None else []) + vargs)
        elif st == "recession":
            r = cli.run(["recession", db] + (["-r", recession_ref] if recession_ref is not None else []) + vargs)
        out["status"][st] = r
        if r[0] != "ok" and st in ("load", "classify", "grid"):
            break
    cli.VERBOSITY[0] = 0
    out["tables"] = cli.dump(db)
    if not keep_db:
        cleanup(out)
    return out


def cleanup(out):
    for p in list(out["files"]) + [out["db"], out["db"] + ".log"]:
        try:
            os.remove(p)
        except OSError:
            pass


def fit_step(levels, step, limit=6000):
    """the level step, made ten times coarser until the record crosses at most `limit` levels in all: the exact model
    sums one rational per crossing and its cost grows with the square of that number (a two-day logger whose rises
    are metres high crosses tens of thousands of 0.3 mm levels)"""
    lv = [v for v in levels if v is not None]
    tv = sum(abs(b - a) for a, b in zip(lv, lv[1:]))
    while tv / step > limit:
        step *= 10
    return step


def db_payload_q(t):
    return {
        "step": t["time_grid"][0][0],
        "grid": [[e, l] for e, l in t["grid_time"]],
        "rain": [[a, b, q(v)] for a, b, v in t["rainfall_intensity"]],
        "et": [[a, b, q(v)] for a, b, v in t["evapotranspiration"]],
        "level": [[e, q(v)] for e, v in t["water_level"]],
    }


def model_pipeline(ctx, t, zstep, rise_ref=None, recession_ref=None):
    """the model's tables from the implementation's own loaded and classified tables"""
    im = C.impl_tables(t)
    payload = {
        "db": db_payload_q(t), "step": q(zstep),
        "pairs": im["pairs"], "interstorms": im["interstorms"],
        "rise_ref": None if rise_ref is None else q2s(Fraction(rise_ref)),
        "recession_ref": None if recession_ref is None else q2s(Fraction(recession_ref)),
    }
    return ctx.driver.call("pipeline.q", payload)


def close(a, b, scale, rel=1e-9):
    return abs(Fraction(a) - Fraction(b)) <= Fraction(rel) * max(Fraction(1), abs(Fraction(scale)))


def compare_curve(kind, t, m):
    """rows of <kind>_interval, <kind>_interval_zeta and the master-curve view against the model"""
    diffs = []
    iv = t["%s_interval" % kind]
    ivz = t["%s_interval_zeta" % kind]
    view = t["average_rising_depth" if kind == "rising" else "average_recession_time"]
    if m["outcome"] != "ok":
        return ["model outcome %s" % m["outcome"]]
    mi = sorted(m["intervals"])
    mz = sorted(m["crossings"])
    scale = max([abs(Fraction(r[2])) for r in mz] + [abs(Fraction(r[1])) for r in mi] + [Fraction(1)])
    if [int(r[0]) for r in iv] != [r[0] for r in mi]:
        diffs.append("%s_interval keys" % kind)
    elif not all(close(r[1], mr[1], scale) for r, mr in zip(iv, mi)):
        diffs.append("%s_interval offsets" % kind)
    if [(int(r[0]), r[1]) for r in ivz] != [(r[0], r[1]) for r in mz]:
        diffs.append("%s_interval_zeta keys" % kind)
    elif not all(close(r[2], mr[2], scale) for r, mr in zip(ivz, mz)):
        diffs.append("%s_interval_zeta values" % kind)
    zstep = t["zeta_grid"][0][0]
    mm = sorted(m["master"])
    if [round(Fraction(r[0]) / Fraction(zstep)) for r in view] != [r[0] for r in mm]:
        diffs.append("master-curve levels (%s)" % kind)
    elif not all(close(r[1], mr[1], scale) for r, mr in zip(view, mm)):
        diffs.append("master-curve values (%s)" % kind)
    return diffs


def curve_failure(status, comps):
    """Why `rise`/`recession` failed, in the property's terms.  None when it succeeded."""
    if status[0] == "ok":
        return None
    sizes = comps["sizes"]
    if status[0] == "error" and status[1] == "ValueError" and "max() iterable argument is empty" in status[2]:
        if not any(ns >= 2 for _nl, ns in sizes):
            return {"kind": "no_overlap"}          # no two intervals share a level: there is no body to assemble
        kept = None
        for nl, ns in sizes:
            if kept is None or nl > kept[0]:
                kept = (nl, ns)
        if kept[1] == 1:
            return {"kind": "main_body_dropped", "kept_component_series": 1,
                    "largest_body_series": max(ns for _nl, ns in sizes)}
    if status[0] == "error" and status[1] == "ValueError" and "empty series list" in status[2]:
        return {"kind": "no_intervals"}
    if status[0] == "error" and status[1] == "AssertionError" and not sizes:
        return {"kind": "no_overlap"}
    return {"kind": "other", "status": list(status)}


def judged_failure(ctx, t, zstep, cmd, status):
    """`rise` / `recession` failed: is that what the model predicts for this dataset (no body of overlapping intervals,
    no interval at all, or the listed known finding)?  Returns None when it is, else the `curve_failure` record."""
    try:
        m = model_pipeline(ctx, t, zstep)
        fail = curve_failure(status, m[cmd + "_components"])
    except Exception as e:  # noqa  (driver trouble: cannot judge, so do not excuse the failure)
        return {"kind": "other", "status": list(status), "model_error": repr(e)[:200]}
    if fail is None or fail["kind"] in ("no_overlap", "no_intervals", "main_body_dropped"):
        return None
    return fail


def unexpected_failure(status):
    """a `rise` / `recession` failure that is none of the refusals the tool is known to make on datasets without a
    body of overlapping intervals (those are judged against the model's components where it matters)"""
    if status[0] == "ok":
        return False
    if status[0] == "error" and status[1] == "ValueError" and ("max() iterable argument is empty" in status[2] or "empty series list" in status[2]):
        return False
    if status[0] == "error" and status[1] == "AssertionError" and not status[2]:
        return False
    return True


def spread_and_truth(kind, t, truth):
    """Planted-curve oracle on the implementation's tables alone.
    Returns (ok, witness)."""
    iv = dict((int(a), b) for a, b in t["%s_interval" % kind])
    rows = t["%s_interval_zeta" % kind]
    zstep = Fraction(t["zeta_grid"][0][0])
    by_level = {}
    for start, k, v in rows:
        by_level.setdefault(k, []).append(Fraction(iv[int(start)]) + Fraction(v))
    tol = Fraction(1, 10**6)
    consts = []
    for k, vals in sorted(by_level.items()):
        if max(vals) - min(vals) > tol * max(1, abs(vals[0])):
            return False, {"why": "aligned pieces do not coincide at a shared level", "level": k,
                           "values": [float(v) for v in vals]}
        z = k * zstep
        mean = sum(vals) / len(vals)
        if kind == "rising":
            consts.append((k, mean - Fraction(truth.sy) * z))
        else:
            T = truth.T(z)
            if T is not None:
                consts.append((k, mean - T))
    if consts:
        lo = min(c for _k, c in consts)
        hi = max(c for _k, c in consts)
        scale = max(1, max(abs(c) for _k, c in consts))
        if hi - lo > tol * scale:
            return False, {"why": "master curve differs from the planted curve by more than a constant",
                           "kind": kind, "offsets_from_truth": [(k, float(c)) for k, c in consts][:12]}
        # "all aligned pieces coincide": each piece, taken from the RAW record between the epochs it is stored under and
        # moved by the offset stored for it, lies on the master curve (the tables above could agree with one another and
        # still be attached to the wrong pieces of the record)
        c0 = sum(c for _k, c in consts) / len(consts)
        level = dict((int(e), v) for e, v in t["water_level"])
        thru = dict((int(r[0]), int(r[2])) for r in (t.get("zeta_interval") or []))
        for start, off in sorted(iv.items()):
            if start not in level or start not in thru:
                return False, {"why": "an aligned piece is stored under an epoch at which no interval of the record starts",
                               "kind": kind, "start_epoch": start}
            if kind == "rising":
                # storage gained since the start of the rise = specific yield x rise, so offset - Sy z(start) is the constant
                d = Fraction(off) - Fraction(truth.sy) * Fraction(level[start]) - c0
                if abs(d) > tol * scale:
                    return False, {"why": "a rise moved by the offset stored for it does not lie on the master curve",
                                   "start_epoch": start, "level_at_start": level[start], "offset": off, "off_by_mm": float(d)}
            else:
                for e in sorted(x for x in level if start <= x <= thru[start]):
                    T = truth.T(level[e])
                    if T is None:
                        continue
                    d = Fraction(e - start) + Fraction(off) - T - c0
                    if abs(d) > tol * scale:
                        return False, {"why": "a recession piece moved by the offset stored for it does not lie on the master curve",
                                       "start_epoch": start, "sample_epoch": e, "level": level[e], "offset": off, "off_by_s": float(d)}
    return True, None


def in_guard_band(t):
    """some gridded level z has z/step within 1e-9 of an integer without being one (exactly, on the
    rational values): float division may then legitimately round to the other side"""
    S = Fraction(t["zeta_grid"][0][0])
    for _e, v in t["water_level"]:
        Y = Fraction(v) / S
        d = abs(Y - round(Y))
        if d != 0 and d < Fraction(1, 10**9):
            return True
    return False
