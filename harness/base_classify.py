"""Text shared by the evidence of the classification checks."""

TRUSTED = [
    "Lean 4.33 kernel; axioms propext, Classical.choice, Quot.sound only (audited per theorem on every run)",
    "Lean compiler/runtime and IEEE-754 Float operations, for executing the model in the correspondence check",
    "the Python harness: generators, table dump, canonical ordering, the property oracle (harness/classification.py)",
    "SQLite engine and sqlite3 module; numpy elementwise comparison/subtraction are IEEE operations",
    "hand-written model (lean/SpowtdModel/Model/{Runs,Matching,Classify}.lean) is tied to classify.py only through "
    "the correspondence check, not by translation",
]
ASSUME = [
    "thresholds are positive finite doubles; inputs are finite doubles",
    "the order in which Python's set.pop() returns storms is modelled as an arbitrary schedule; equality with the "
    "model is required only when no rise scores two candidate storms equally (then the theorem "
    "gs_order_independent makes the result schedule-free); otherwise the implementation's pairing is checked with "
    "the stability predicate itself",
]
