"""C08 — master curves do not depend on arbitrary processing choices."""
import numpy as np

from . import common
from .common import Fraction, q2s

THEOREMS = [
    "Spowtd.objective_perm",
    "Spowtd.objective_perm_levels",
    "Spowtd.axis_shift_equivariant",
    "Spowtd.reorigin_ignores_internal_zero",
    "Spowtd.master_curve_unique",
    "Spowtd.components_partition",
    "Spowtd.components_separated",
    "Spowtd.minimiser_unique_mod_shift",
    "Spowtd.components_connected",
    "Spowtd.components_series",
    "Spowtd.mainComponent_spec",
    "Spowtd.main_body_connected",
    "Spowtd.alignSeries_total",
    "Spowtd.alignSeries_oneSeries_iff",
]
TRUSTED_BASE = [
    "Lean 4.33 kernel; axioms propext, Classical.choice, Quot.sound only (audited per theorem on every run)",
    "Lean runtime (Rat instance) for the exact model of get_series_time_offsets + re-origin",
    "LAPACK solve, brentq, numpy mean: values compared within 1e-8 relative",
    "the Python harness: series generator with planted disconnected groups, metamorphic transformations, tolerances",
]
ASSUMPTIONS = [
    "'the main body' is the group of intervals linked by shared levels that spans the most levels, as the tool defines "
    "it; generated groups have strictly different sizes, consistently in levels and in intervals (with equal sizes the "
    "main body is undefined and the kept group legitimately depends on presentation order)",
    "'up to rounding' = 1e-8 relative to the magnitude of the crossing values",
]
RULE = ("collections of 2-10 piecewise-linear series (recession-like, falling; some non-monotone) whose level ranges "
        "overlap, plus 0-3 planted groups sharing no level with the main body; each collection is presented in 6 random "
        "orders, with per-series shifts of the time axis, and with a different series holding the highest initial level "
        "(the internal zero); kept set compared exactly with the model's main component, aligned curve with the exact "
        "minimiser over Rat; non-trivial = at least three series in the main body; distinct by input")


def gen_group(rng, base, nser, t_origin):
    """nser falling series with overlapping level ranges inside [base-30, base]"""
    out = []
    top = base
    for s in range(nser):
        n = rng.randint(3, 8)
        y = top - rng.uniform(0, 3)
        ys, ts = [], []
        t = t_origin + rng.randint(0, 10**6)
        for i in range(n):
            ys.append(round(y * 4) / 4)
            ts.append(float(t))
            y -= rng.uniform(0.5, 2.5) if rng.random() > 0.12 else -rng.uniform(0.1, 0.6)
            t += 1800
        out.append((ts, ys))
        top = ys[len(ys) // 2] + rng.uniform(0, 1)       # next series starts in the middle of this one: chain
    return out


def gen_sliver(rng, step):
    """one long interval reaching down into a grid cell, shorter ones ending higher, and a second group that starts in
    that same cell just above the long interval's last sample: the level ranges overlap by a sliver, no grid level is
    shared, so the second group is NOT linked to the first"""
    c = float(rng.randint(20, 40)) * step * 2
    top = c + rng.randint(15, 40) * step
    n = rng.randint(6, 12)
    a_end = c + rng.choice([0.125, 0.25]) * step
    ys = [round((top - (top - a_end) * i / (n - 1)) * 64) / 64 for i in range(n)]
    ys[-1] = a_end
    t0 = 1.5e9 + rng.randint(0, 10**6)
    main = [([t0 + 1800.0 * i for i in range(n)], ys)]
    for _ in range(rng.randint(0, 2)):
        st = top - rng.uniform(1, 5) * step
        en = c + rng.uniform(3, 8) * step
        m = rng.randint(3, 6)
        t1 = 1.5e9 + rng.randint(0, 10**6)
        main.append(([t1 + 1800.0 * i for i in range(m)], [round((st - (st - en) * i / (m - 1)) * 64) / 64 for i in range(m)]))
    low = []
    for _ in range(rng.randint(2, 3)):
        st = c + rng.choice([0.5, 0.625, 0.75]) * step
        en = c - rng.randint(3, 8) * step - rng.choice([0.25, 0.5]) * step
        m = rng.randint(3, 6)
        t1 = 1.5e9 + rng.randint(0, 10**6)
        low.append(([t1 + 1800.0 * i for i in range(m)], [st] + [round((st - (st - en) * i / (m - 1)) * 64) / 64 for i in range(1, m)]))
    series = main + low
    member = [0] * len(main) + [1] * len(low)
    return series, member


def gen_collection(rng, step=None):
    if step is not None and rng.random() < 0.12:
        return gen_sliver(rng, step)
    nmain = rng.randint(2, 8)
    groups = [gen_group(rng, 100.0, nmain, 1.5e9)]
    # planted strays: strictly fewer series and a much shorter level range, far away in level
    for g in range(rng.choice([0, 0, 1, 2, 3])):
        k = rng.randint(1, max(1, nmain - 1)) if nmain > 1 else 1
        grp = gen_group(rng, 100.0 - 60.0 * (g + 1), min(k, 2), 1.5e9)
        grp = [(ts[:3], ys[:3]) for ts, ys in grp]
        groups.append(grp)
    if rng.random() < 0.25:
        # an exact tie: a second body that is a copy of the main one, 60 mm lower (same number of levels)
        groups = [groups[0], [(ts, [h - 60.0 for h in hs]) for ts, hs in groups[0]]]
    series, member = [], []
    for gi, grp in enumerate(groups):
        for s in grp:
            series.append(s)
            member.append(gi)
    return series, member


import random as _random
LAYOUT_RNG = _random.Random(8)


def impl_align(fo, series, step):
    """get_series_time_offsets + the re-origin of recession.py (top level), as exact-friendly dicts"""
    arg = [(common.any_layout(LAYOUT_RNG, np.array(t), 0.2), common.any_layout(LAYOUT_RNG, np.array(h), 0.2)) for t, h in series]
    snap = common.snapshot(arg)
    idx, offs, mapping = fo.get_series_time_offsets(arg, step)
    if not common.same_as_snapshot(arg, snap):
        raise AssertionError("the caller's series were modified by get_series_time_offsets")
    if len(idx) != len(offs):
        raise AssertionError("interval indices and offsets of different lengths")
    idx = [int(i) for i in idx]
    top = max(mapping)
    z = float(np.mean([offs[idx.index(s)] + tm for s, tm in mapping[top]]))
    offsets = {i: float(o) - z for i, o in zip(idx, offs)}
    master = {int(k): float(np.mean([offsets[int(s)] + tm for s, tm in v])) for k, v in mapping.items()}
    return offsets, master


def run(ctx):
    common.import_spowtd()
    import spowtd.fit_offsets as fo
    n = 60 if ctx.tier == "quick" else 1500
    rng = ctx.rng
    run_relabel(ctx, 200 if ctx.tier == "quick" else 5000)
    run_components(ctx, 300 if ctx.tier == "quick" else 10000)
    # the machine's memory is one more arbitrary circumstance: with too little of it for the dense design matrix the
    # command may refuse, it may not align the same intervals differently (stationarity checked exactly, as in C05)
    from . import c05
    c05.capped_case(ctx, "alignment stored with the address space capped below the design matrix: refused, or the same minimiser",
                    oracle="c08Holds")
    ob_model = "kept intervals and aligned curve of get_series_time_offsets = model assemble over Rat"
    ob_meta = "same master curve and relative alignment under reordering / axis shifts / change of the internal zero"
    for _ in range(n):
        step = rng.choice([1.0, 0.5, 2.0])
        series, member = gen_collection(rng, step)
        inp = {"function": "fit_offsets.get_series_time_offsets + re-origin", "series": series, "step": step}
        mod = ctx.driver.call("assemble.q", {"step": q2s(Fraction(step)), "series": [
            [[q2s(Fraction(t)), q2s(Fraction(h))] for t, h in zip(ts, hs)] for ts, hs in series]})
        hm = ctx.driver.call("headmap.q", {"step": q2s(Fraction(step)), "series": [
            [[q2s(Fraction(t - min(ts))), q2s(Fraction(h))] for t, h in zip(ts, hs)] for ts, hs in series]})
        sizes = [(len(g[0]), len(g[1])) for g in hm["components"]]
        by_levels = sorted(sizes, reverse=True)
        if len(by_levels) > 1 and (by_levels[0][0] == by_levels[1][0]):
            # two bodies spanning the same number of levels: the tool breaks the tie by the order of initial
            # levels (series are sorted by initial level first), which does not depend on presentation order
            ctx.count("ties_in_component_size")
            if len({hs[0] for _ts, hs in series}) != len(series):
                ctx.count("ties_avoided_equal_initial_levels")
                continue
        try:
            with common.session_logging(rng):
                base = impl_align(fo, series, step)
            err = None
        except Exception as e:  # noqa
            base, err = None, "%s: %s" % (type(e).__name__, e)
        nmain = sum(1 for g in member if g == 0)
        ctx.case(("c08", str(series), step), nmain >= 3)
        ctx.count("collections_with_planted_strays" if max(member) > 0 else "connected_collections")
        if err is not None:
            kept = max(sizes) if sizes else (0, 0)
            if "max() iterable argument is empty" in err and kept[1] == 1 and any(ns >= 2 for _nl, ns in sizes):
                ctx.violation("impl-violation", "mainBodyAssembled", {"input": inp, "impl": err, "oracle": {
                    "name": "mainBodyAssembled", "result": False,
                    "witness": {"kind": "main_body_dropped", "kept_component_series": 1,
                                "largest_body_series": max(ns for _nl, ns in sizes)}}})
            elif mod["outcome"] == "ok":
                ctx.obligation(ob_model, False)
                ctx.violation("impl-violation", "c08Holds", {"input": inp, "impl": err, "model": mod, "oracle": {
                    "name": "c08Holds", "result": False, "witness": {"exception": err}}})
            continue
        offsets, master = base
        scale = max(abs(h) for _t, hs in series for h in hs) * 1800 + 1.0
        tol = 1e-8 * max(scale, max([abs(v) for v in master.values()] + [1.0]))
        # model-based: kept set exactly, values within tolerance
        ok_model = mod["outcome"] == "ok" and {s for s, _ in mod["offsets"]} == set(offsets) and all(
            abs(Fraction(offsets[s]) - Fraction(o)) <= Fraction(tol) for s, o in mod["offsets"]) and \
            {k for k, _ in mod["master"]} == set(master) and all(
            abs(Fraction(master[k]) - Fraction(v)) <= Fraction(tol) for k, v in mod["master"])
        ctx.obligation(ob_model, ok_model)
        # the property's own clauses, on the implementation alone
        main = {i for i, g in enumerate(member) if g == 0}
        if mod["outcome"] == "ok" and len(by_levels) > 1 and by_levels[0][0] == by_levels[1][0]:
            kept_groups = {member[s_] for s_, _ in mod["offsets"]}
            if len(kept_groups) == 1:
                main = {i for i, g in enumerate(member) if g in kept_groups}
        stray_in = set(offsets) - main
        missing = {i for i in main if i not in offsets}
        # an interval of the main body may legitimately be absent only if it shares no level with any other
        wit = None
        if stray_in:
            wit = {"why": "an interval sharing no level with the main body was placed", "intervals": sorted(stray_in)}
        elif missing and mod["outcome"] == "ok" and not missing <= (main - {s for s, _ in mod["offsets"]}):
            wit = {"why": "an interval of the main body was left out", "intervals": sorted(missing)}
        variants = []
        if wit is None:
            order = list(range(len(series)))
            for v in range(6):
                rng.shuffle(order)
                shift = [rng.choice([0.0, 86400.0 * rng.randint(-400, 400)]) for _ in series]
                var = [([t + shift[i] for t in series[i][0]], series[i][1]) for i in order]
                try:
                    o2, m2 = impl_align(fo, var, step)
                except Exception as e:  # noqa
                    wit = {"why": "transformed collection raises", "exception": repr(e), "order": list(order)}
                    break
                back = {order[i]: o for i, o in o2.items()}
                if True:
                    if set(back) != set(offsets):
                        wit = {"why": "different intervals kept after reordering", "order": list(order),
                               "kept": sorted(back), "kept_before": sorted(offsets)}
                        break
                    d_master = max(abs(m2[k] - master[k]) for k in master) if set(m2) == set(master) else float("inf")
                    # relative alignment: each series is re-based to its own first instant before fitting, so the
                    # stored offsets (new origin of each interval on the common axis) must not move at all
                    d_off = max(abs(back[s] - offsets[s]) for s in offsets)
                    if d_master > tol or d_off > tol:
                        wit = {"why": "master curve or relative alignment changed under reordering / axis shift",
                               "order": list(order), "shifts": shift, "max_master_difference": d_master,
                               "max_alignment_difference": d_off}
                        break
                variants.append(v)
        ctx.obligation(ob_meta, wit is None)
        if len(ctx.samples) < 2 and nmain >= 3:
            ctx.sample({"series": series[:3], "step": step, "kept": sorted(offsets), "master": sorted(master.items())[:4]})
        if wit is not None:
            ctx.violation("impl-violation", "c08Holds", {"input": inp, "impl": {"offsets": offsets, "master": master},
                          "model": mod, "oracle": {"name": "c08Holds", "result": False, "witness": wit}})
        elif not ok_model:
            ctx.corr_break(ob_model, {"input": inp, "impl": {"offsets": offsets, "master": master}, "model": mod})


def run_components(ctx, n):
    """`get_connected_components` on arbitrary level -> series mappings in arbitrary dictionary order (non-monotone
    intervals make a level bridge several groups that are still separate when it is visited): the groups must be the
    connected components of the overlap graph (independent union-find) and equal the model's `components`."""
    import spowtd.fit_offsets as fo
    rng = ctx.rng
    ob = "get_connected_components = model components (as a partition of the levels), largest first"
    for _ in range(n):
        nser = rng.randint(2, 12)
        nlev = rng.randint(2, 14)
        m = {}
        for k in rng.sample(range(-20, 20), nlev):
            m[k] = set(rng.sample(range(nser), rng.randint(1, min(3, nser))))
        items = list(m.items())
        rng.shuffle(items)
        m = dict(items)
        inp = {"function": "fit_offsets.get_connected_components", "series_at_head": {str(k): sorted(v) for k, v in m.items()}}
        try:
            got = [tuple(c) for c in fo.get_connected_components({k: set(v) for k, v in m.items()})]
            err = None
        except Exception as e:  # noqa
            got, err = None, "%s: %s" % (type(e).__name__, e)
        # union-find on levels through shared series
        parent = {k: k for k in m}

        def find(x):
            while parent[x] != x:
                parent[x] = parent[parent[x]]
                x = parent[x]
            return x
        owner = {}
        for k, ser in m.items():
            for s_ in ser:
                if s_ in owner:
                    parent[find(k)] = find(owner[s_])
                else:
                    owner[s_] = k
        want = {}
        for k in m:
            want.setdefault(find(k), set()).add(k)
        want = sorted((frozenset(v) for v in want.values()), key=lambda c: sorted(c))
        ctx.case(("components", str(inp)), len(want) < len(m))
        mod = ctx.driver.call("components.q", {"mapping": [[k, [[s_, "0"] for s_ in sorted(v)]] for k, v in m.items()]})
        mod_parts = sorted((frozenset(g[0]) for g in mod["components"]), key=lambda c: sorted(c))
        ok_model = mod_parts == want
        if err is not None:
            ok = False
        else:
            parts = sorted((frozenset(c) for c in got), key=lambda c: sorted(c))
            ok = parts == want and [len(c) for c in got] == sorted((len(c) for c in got), reverse=True)
        ctx.obligation(ob, ok and ok_model)
        if not ok:
            ctx.violation("impl-violation", "mainBodyComplete", {"input": inp, "impl": err or [list(c) for c in got], "oracle": {
                "name": "mainBodyComplete", "result": False,
                "witness": {"why": "levels linked by a chain of shared intervals are not in one group (or groups not largest first)",
                            "connected_components": [sorted(c) for c in want]}}})
        elif not ok_model:
            ctx.corr_break(ob, {"input": inp, "model": mod})


def run_relabel(ctx, n):
    """find_offsets with the series ids permuted and each series' crossing values shifted by a constant: a
    different series becomes the internal zero; differences of (offset + shift) between series must not change."""
    from .c05 import gen_mapping
    import spowtd.fit_offsets as fo
    ob = "find_offsets: relative alignment independent of which series is the internal zero and of per-series axis shifts"
    for _ in range(n):
        m = gen_mapping(ctx.rng)
        ids = sorted({s for v in m.values() for s, _ in v})
        perm = ids[:]
        ctx.rng.shuffle(perm)
        pi = dict(zip(ids, perm))
        c = {s: float(ctx.rng.randint(-500, 500)) for s in ids}
        m2 = {h: [(pi[s], t + c[s]) for s, t in v] for h, v in m.items()}
        items = list(m2.items())
        ctx.rng.shuffle(items)
        inp_r = {"function": "fit_offsets.find_offsets", "head_mapping": {str(k): v for k, v in m.items()},
                 "relabelling": {str(k): v for k, v in pi.items()}, "axis_shifts": {str(k): v for k, v in c.items()}}
        try:
            i1, o1 = fo.find_offsets({k: list(v) for k, v in m.items()})
        except Exception as e:  # noqa
            # (the generated mappings are proper and connected: theorem solveOffsets_total says a minimiser exists)
            ctx.count("find_offsets_raises")
            ctx.corr_break(ob, {"input": inp_r, "impl": "%s: %s" % (type(e).__name__, e),
                                "no_longer_checks": "find_offsets returns offsets on a proper connected mapping"})
            continue
        try:
            i2, o2 = fo.find_offsets({k: list(v) for k, v in items})
        except Exception as e:  # noqa
            ctx.case(("relabel", str(m), str(perm)), True)
            ctx.obligation(ob, False)
            ctx.violation("impl-violation", "c08Holds", {"input": inp_r, "impl": "%s: %s" % (type(e).__name__, e), "oracle": {
                "name": "c08Holds", "result": False,
                "witness": {"why": "find_offsets raises once the series are relabelled / shifted / presented in another order"}}})
            continue
        if len(i1) != len(o1) or len(i2) != len(o2):
            ctx.violation("impl-violation", "c08Holds", {"input": inp_r, "impl": [len(i1), len(o1), len(i2), len(o2)], "oracle": {
                "name": "c08Holds", "result": False, "witness": {"why": "series ids and offsets returned with different lengths"}}})
            continue
        a = {int(s): float(o) for s, o in zip(i1, o1)}
        inv = {v: k for k, v in pi.items()}
        b = {inv[int(s)]: float(o) + c[inv[int(s)]] for s, o in zip(i2, o2)}
        ctx.case(("relabel", str(m), str(perm)), len(a) >= 3)
        scale = max(abs(t) for v in m.values() for _s, t in v) + 1000.0
        ok = set(a) == set(b)
        if ok:
            r = min(a)
            d = max(abs((a[s] - a[r]) - (b[s] - b[r])) for s in a)
            ok = d <= 1e-8 * scale
        ctx.obligation(ob, ok)
        if not ok:
            ctx.violation("impl-violation", "c08Holds", {
                "input": {"function": "fit_offsets.find_offsets", "head_mapping": {str(k): v for k, v in m.items()},
                          "relabelling": {str(k): v for k, v in pi.items()}, "axis_shifts": {str(k): v for k, v in c.items()}},
                "impl": {"offsets": a, "offsets_after_relabelling_mapped_back": b},
                "oracle": {"name": "c08Holds", "result": False,
                           "witness": {"why": "relative alignment changed when another series served as the internal zero"}}})


def replay(ctx, doc):
    common.import_spowtd()
    import spowtd.fit_offsets as fo
    inp = doc["input"]
    if "series" not in inp:
        return None   # re-run the stream with the recorded seed (check.py does it)
    series = [(list(t), list(h)) for t, h in inp["series"]]
    try:
        offsets, master = impl_align(fo, series, inp["step"])
    except Exception as e:  # noqa
        print("impl raises", repr(e))
        return False
    mod = ctx.driver.call("assemble.q", {"step": q2s(Fraction(inp["step"])), "series": [
        [[q2s(Fraction(t)), q2s(Fraction(h))] for t, h in zip(ts, hs)] for ts, hs in series]})
    print("kept:", sorted(offsets), "model kept:", sorted(s for s, _ in mod.get("offsets", [])))
    return mod["outcome"] == "ok" and {s for s, _ in mod["offsets"]} == set(offsets)
