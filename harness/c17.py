"""C17 — the simulated rise curve is the integral of specific yield."""
import warnings

import numpy as np
import yaml

from . import cli, common, sim
from . import pipeline as P
from .common import f2h, h2f

THEOREMS = [
    "Spowtd.curve_difference",
    "Spowtd.curve_length",
    "Spowtd.curve_mean",
    "Spowtd.curve_monotone",
    "Spowtd.curve_refinement",
    "Spowtd.integrate_additive'",
    "Spowtd.integrate_is_area",
    "Spowtd.tables_layout",
]
TRUSTED_BASE = [
    "Lean 4.33 kernel; axioms propext, Classical.choice, Quot.sound only (audited per theorem on every run)",
    "the per-cell integrals are the values specific_yield.integrate returned during the real call (C14 covers them); "
    "the cumulative sum is compared bit for bit with the model at Float, the centred curve within 64 ulp (numpy's "
    "pairwise mean)",
    "PyYAML dump/load of the output; SQLite view average_rising_depth",
    "translator tools/gen_formulas.py: the arithmetic of the named source functions (an expression, or a whole body of assignments, if and return) as Python's own `ast` parses it -> Lean terms over the carrier class in lean/FormulaTie/Gen*.lean; that each is the model's definition is re-checked by `rfl` / a short unfolding on every run (lean/FormulaTie/*.lean)",
]
SQL_TIE = ('simulate_rise',)
FORMULA_TIE = ('Simulate', 'Spline')
ASSUMPTIONS = ["increasing level grids; specific yield positive for the monotonicity clause"]
RULE = ("specific-yield parameter sets of both kinds x increasing grids inside, straddling and beyond the knot range, "
        "through simulate_rise.compute_rise_curve; `spowtd simulate rise` with and without --observations on planted "
        "datasets; non-trivial = grid of at least 3 levels; distinct by (parameters, grid)")


CURVES = [0]


def check_sy_is_the_parameter_sets(ctx, sy, params, grid, inp, oracle="c17Holds", what="the simulated storage"):
    """PEATCLSM parameter sets: the function that is integrated is the one the parameters define (model
    peatclsmKnots/pwl at Float, as in C16), whatever was constructed earlier in the process."""
    from . import c16
    import scipy.stats
    p = params["specific_yield"]
    if p.get("type") != "peatclsm":
        return True
    ob = "specific yield integrated by the simulation = model peatclsmKnots/pwl of the same parameter set (1e-9)"
    zk = 0.5 * (np.linspace(-1, 1, 201) + np.linspace(-0.99, 1.01, 201))
    cdf = [float(v) for v in scipy.stats.norm.cdf(zk, loc=0, scale=float(p["sd"]))]
    xs = [float(x) for x in list(grid)[:3] + [ctx.rng.uniform(-900.0, 900.0) for _ in range(4)] if -990.0 < x < 1000.0]
    if not xs:
        return True
    _k, ref = c16.model_sy(ctx, {k: float(v) for k, v in p.items() if k != "type"}, cdf, xs)
    got = [float(sy(x)) for x in xs]
    bad = [(x, g, r) for x, g, r in zip(xs, got, ref) if abs(g - r) > 1e-9 * max(1.0, abs(r))]
    ctx.obligation(ob, not bad)
    if bad:
        ctx.violation("impl-violation", oracle, {"input": inp, "impl": got, "model": ref, "oracle": {
            "name": oracle, "result": False,
            "witness": {"why": "%s is the integral of a specific yield other than the parameter set's" % what,
                        "level_mm": bad[0][0], "specific_yield_used": bad[0][1], "specific_yield_of_parameters": bad[0][2]}}})
    return not bad


def check_curve(ctx, sy, grid, mean, inp):
    import spowtd.simulate_rise as _sr

    class sr:   # a mean that is not given is the documented default, zero
        @staticmethod
        def compute_rise_curve(sy_, g_, mean_):
            return _sr.compute_rise_curve(sy_, g_) if mean_ is None else _sr.compute_rise_curve(sy_, g_, mean_)
    ob = "compute_rise_curve = model riseCurve at Float on the recorded integrals"
    if "parameters" in inp and not check_sy_is_the_parameter_sets(ctx, sy, inp["parameters"], grid, inp):
        return [float(v) for v in sr.compute_rise_curve(sy, np.array(grid, dtype=float), mean)]
    CURVES[0] += 1
    g = common.any_layout(ctx.rng, np.array(grid, dtype=float), p=(1.0 if CURVES[0] % 3 == 0 else 0.25))   # every third curve for sure
    if g.dtype.kind == "f" and CURVES[0] % 5 == 1:        # every fifth curve
        # levels read from a single-precision file (netCDF / HDF loggers): the curve is owed on THOSE levels, exactly
        g = g.astype(np.float32)
        grid = [float(v) for v in g]
        inp = dict(inp, grid=grid, grid_dtype="float32")
        ctx.count("grids_in_single_precision")
    snap_g = common.snapshot(g)
    try:
        with sim.record_integrate(sy) as calls:
            sim.dirty_heap(ctx.rng, len(g))
            with common.time_limit(120):
                W = [float(v) for v in sr.compute_rise_curve(sy, g, mean)]
    except Exception as e:  # noqa
        ctx.violation("impl-violation", "c17Holds", {"input": dict(inp, grid_layout={"dtype": str(g.dtype), "strides": list(g.strides)}),
                      "impl": repr(e)[:300], "oracle": {"name": "c17Holds", "result": False, "witness": {
                          "why": "compute_rise_curve raises on an increasing grid of levels", "exception": repr(e)[:300]}}})
        return [float("nan")] * len(grid)
    if mean is None:
        ctx.count("curves_with_the_default_mean")
        mean = 0.0
    elif mean == 0.0:
        ctx.count("curves_with_mean_exactly_zero")
    if not common.same_as_snapshot(g, snap_g):
        ctx.violation("impl-violation", "c17Holds", {"input": inp, "impl": [float(v) for v in g], "oracle": {
            "name": "c17Holds", "result": False, "witness": {"why": "the caller's grid of levels was modified by compute_rise_curve"}}})
        return W
    if len(W) != len(grid):
        ctx.violation("impl-violation", "c17Holds", {"input": inp, "impl": W, "oracle": {
            "name": "c17Holds", "result": False,
            "witness": {"why": "the curve does not have one value per grid level", "levels": len(grid), "values": len(W)}}})
        return W
    m = ctx.driver.call("curve.f", {"grid": [f2h(x) for x in grid], "cells": [f2h(c[2]) for c in calls], "mean": f2h(mean)})
    cum = [h2f(v) for v in m["cumulative"]]
    cur = [h2f(v) for v in m["curve"]]
    tol = 64 * 2.3e-16 * max(1.0, max(abs(v) for v in W + [mean]))
    same = len(cur) == len(W) and all(abs(a - b) <= tol for a, b in zip(W, cur))
    shifted = [w - W[0] for w in W]
    same_cum = all(abs(a - b) <= tol for a, b in zip(shifted, cum))
    ctx.obligation(ob, same and same_cum)
    # the property's clauses on the implementation alone
    wit = None
    n = len(grid)
    for _ in range(6):
        i, j = sorted(ctx.rng.sample(range(n), 2)) if n >= 2 else (0, 0)
        direct = float(sy.integrate(grid[i], grid[j]))
        if abs((W[j] - W[i]) - direct) > 1e-9 * max(1.0, abs(direct)):
            wit = {"why": "difference between two grid levels is not the integral of specific yield between them",
                   "levels": [grid[i], grid[j]], "difference": W[j] - W[i], "integral": direct}
    if wit is None and abs(float(np.mean(W)) - mean) > 1e-9 * max(1.0, abs(mean)):
        wit = {"why": "mean of the curve is not the requested mean", "mean": float(np.mean(W)), "requested": mean}
    if wit is None and any(b < a - 1e-12 for a, b in zip(W, W[1:])):
        wit = {"why": "curve decreases with level although specific yield is positive"}
    if wit is None and n >= 4:
        sub = grid[::2]
        W2 = [float(v) for v in sr.compute_rise_curve(sy, np.array(sub), mean)]
        d = [W2[k] - W[2 * k] for k in range(len(sub))]
        if max(d) - min(d) > 1e-9 * max(1.0, max(abs(v) for v in W)):
            wit = {"why": "values at shared levels change by more than a common constant when the grid is refined",
                   "differences": d[:6]}
    if wit is not None:
        ctx.violation("impl-violation", "c17Holds", {"input": inp, "impl": W, "model": cur,
                      "oracle": {"name": "c17Holds", "result": False, "witness": wit}})
    elif not (same and same_cum):
        ctx.corr_break(ob, {"input": inp, "impl": W, "model": cur})
    return W


def run(ctx):
    common.import_spowtd()
    warnings.simplefilter("ignore")
    rng = ctx.rng
    nsets, ncli = (12, 3) if ctx.tier == "quick" else (200, 40)
    sweep = None
    for k in range(nsets):
        params = sim.spline_params(rng, -300.0, 100.0) if k % 3 else sim.peatclsm_params(rng, 100.0)
        if k % 6 == 0:
            sweep = params
        elif k % 6 == 3:
            # a sensitivity sweep in one session: same soil as an earlier set, another microtopography
            params = {"specific_yield": dict(sweep["specific_yield"], sd=round(rng.uniform(0.05, 1.0), 3)),
                      "transmissivity": dict(sweep["transmissivity"])}
        sy, _T = sim.make_functions(params)
        knots = params["specific_yield"].get("zeta_knots_mm", [-995.0, 1005.0])
        lo, hi = knots[0], knots[-1]
        span = hi - lo
        for kind in ("inside", "straddle", "beyond"):
            a, b = {"inside": (lo + 0.1 * span, hi - 0.1 * span), "straddle": (lo - 0.3 * span, hi + 0.3 * span),
                    "beyond": (hi + 1.0, hi + 0.5 * span)}[kind]
            n = rng.randint(3, 25)
            grid = sorted({round(rng.uniform(a, b), 1) for _ in range(n)})
            if rng.random() < 0.3 and int(a) + 3 < int(b):
                grid = sorted({float(rng.randint(int(a) + 1, int(b) - 1)) for _ in range(n)})        # levels in whole millimetres
            # levels exactly on knots (round-number knots on a commensurate level grid): both end knots for the grids
            # that straddle the range, an interior knot for those inside it
            if kind == "straddle":
                grid = sorted(set(grid) | {float(lo), float(hi)})
            elif kind == "inside" and len(knots) > 2:
                grid = sorted(set(grid) | {float(rng.choice(list(knots)[1:-1]))})
            if len(grid) < 2:
                continue
            mean = rng.choice([rng.uniform(-50, 50), rng.uniform(-50, 50), 0.0, None, float(rng.randint(-3, 3)), 10 ** rng.uniform(-12, 3)])
            ctx.case(("c17", str(params), tuple(grid)), len(grid) >= 3)
            check_curve(ctx, sy, grid, mean, {"parameters": params, "grid": grid, "mean": mean})
    # the command
    ob_cli = "`spowtd simulate rise` rows = (level mm ascending, measured, simulated on the measured curve's levels and mean)"
    n_cli_done = 0
    for _ in range(ncli):
        tr = P.gen_truth(rng, noise=rng.choice([0.0, 0.4]))
        zstep = rng.choice([1.0, 0.5, 2.0])
        w = P.run_workflow(ctx, tr.rows(), tr.s, tr.j, zstep, keep_db=True)
        if w["status"].get("rise", ("x",))[0] != "ok":
            P.cleanup(w)
            continue
        n_cli_done += 1
        view = w["tables"]["average_rising_depth"]
        levels = [r[0] for r in view]
        measured = [r[1] for r in view]
        params = sim.spline_params(rng, min(levels), max(levels)) if rng.random() < 0.6 else sim.peatclsm_params(rng, max(levels))
        if rng.random() < 0.3:
            params = sim.mixed_params(rng, min(levels), max(levels))
        sy, _T = sim.make_functions(params)
        inp = {"truth": tr.describe(), "zeta_step": zstep, "parameters": params}
        # (a preliminary calibration against the rise curve has no transmissivity yet: the rise simulation needs only the
        # specific yield section of the file)
        file_params = params if (n_cli_done % 2 == 1) else {"specific_yield": params["specific_yield"]}   # every other case
        inp["sections_in_parameter_file"] = sorted(file_params)
        r1, text1 = sim.simulate_cli(ctx, "rise", w["db"], file_params, False)
        r2, text2 = sim.simulate_cli(ctx, "rise", w["db"], file_params, True)
        P.cleanup(w)
        ctx.case(("c17-cli", tr.describe(), str(params)), len(levels) >= 3)
        if r1[0] != "ok" or r2[0] != "ok":
            ctx.violation("impl-violation", "c17Holds", {"input": inp, "impl": [list(r1), list(r2)], "oracle": {
                "name": "c17Holds", "result": False, "witness": {"why": "simulate rise failed", "status": [list(r1), list(r2)]}}})
            continue
        table, bad1 = sim.parse_table(text1)
        vector, bad2 = sim.parse_vector(text2)
        if bad1 or bad2:
            # (the output files are written to the same paths by successive commands, as PEST's model command does)
            ctx.violation("impl-violation", "c17Holds", {"input": inp, "impl": {"table": text1[:400], "vector": text2[:200]}, "oracle": {
                "name": "c17Holds", "result": False,
                "witness": {"why": "the output of `simulate rise` is not the table / vector of the curve: " + (bad1 or bad2)}}})
            continue
        W = check_curve(ctx, sy, levels, float(np.mean(measured)), dict(inp, via="levels of the measured master curve"))
        rows = table[1:]
        wit = None
        if table[0] != ["Water level, mm", "Measured storage, mm", "Simulated storage, mm"]:
            wit = {"why": "header", "got": table[0]}
        elif [r[0] for r in rows] != levels:
            wit = {"why": "rows do not list each level of the measured master curve once, ascending, in mm",
                   "levels": [r[0] for r in rows][:5], "master_curve": levels[:5]}
        elif [r[1] for r in rows] != measured:
            wit = {"why": "measured column is not the master curve"}
        elif any(abs(a - b) > 1e-12 * max(1.0, abs(b)) for a, b in zip([r[2] for r in rows], W)):
            wit = {"why": "simulated column is not the rise curve on those levels centred on the measured mean",
                   "got": [r[2] for r in rows][:4], "expected": W[:4]}
        elif vector != [r[2] for r in rows]:
            wit = {"why": "--observations vector differs from the simulated column"}
        elif not text2.startswith("# Rise curve simulation vector\n"):
            wit = {"why": "--observations output lacks its marker line"}
        ctx.obligation(ob_cli, wit is None)
        if len(ctx.samples) < 2:
            ctx.sample({"rows": rows[:3], "vector": vector[:3]})
        if wit is not None:
            ctx.violation("impl-violation", "c17Holds", {"input": inp, "impl": rows[:5],
                          "oracle": {"name": "c17Holds", "result": False, "witness": wit}})
    if n_cli_done == 0:
        ctx.corr_break(ob_cli, {"input": None, "no_longer_checks": "no planted dataset got as far as `simulate rise` "
                                "(load / classify / set-zeta-grid / rise fail on every one)"})


def replay(ctx, doc):
    common.import_spowtd()
    inp = doc["input"]
    why = str(((doc.get("oracle") or {}).get("witness") or {}).get("why", ""))
    if "grid" in inp and "other than the parameter set's" not in why:   # (that one depends on the session's history)
        sy, _T = sim.make_functions(inp["parameters"])
        before = len(ctx.violations)
        check_curve(ctx, sy, inp["grid"], inp["mean"], inp)
        return len(ctx.violations) == before
    return None   # re-run the stream with the recorded seed (check.py does it)
