"""C05 — alignment offsets minimise the squared spread of crossing values."""
import os

import numpy as np

from . import classification as C
from . import cli
from . import common
from . import pipeline as P
from .common import Fraction, q2s

THEOREMS = [
    "Spowtd.objective_expand",
    "Spowtd.stationary_is_minimiser",
    "Spowtd.minimiser_is_stationary",
    "Spowtd.minimiser_unique_mod_shift",
    "Spowtd.solveOffsets_stationary",
    "Spowtd.singleton_levels_irrelevant",
    "Spowtd.solveOffsets_total",
    "Spowtd.minimiser_exists",
    "Spowtd.singular_only_if_disconnected",
]
TRUSTED_BASE = [
    "Lean 4.33 kernel; axioms propext, Classical.choice, Quot.sound only (audited per theorem on every run)",
    "Lean runtime (Rat instance): exact Gauss-Jordan solution, certified inside the model by the vanishing of every residual sum",
    "LAPACK solve is backward stable: offsets compared with the exact minimiser within 1e-9 relative (problems are kept "
    "well conditioned: integer-valued crossing values, at most 40 series)",
    "the Python harness: mapping generator, exact Fraction transport, tolerances",
]
ASSUMPTIONS = [
    "collections whose overlap graph is connected (after the main body has been selected)",
    "levels crossed by a single interval are dropped before fitting (theorem singleton_levels_irrelevant)",
]
RULE = ("(i) generated head mappings: 2-14 series covering contiguous level ranges chained into a connected overlap "
        "graph (chains, stars, dense), integer crossing values = planted curve + shift + noise, through "
        "fit_offsets.find_offsets; (ii) tables written by `spowtd rise`/`spowtd recession` on perturbed planted records; "
        "non-trivial = at least three series and non-zero optimum; distinct by input")


def gen_mapping(rng):
    ns = rng.randint(2, 14)
    shape = rng.choice(["chain", "star", "dense"])
    ranges = []
    lo = 0
    for s in range(ns):
        if shape == "chain":
            a = lo
            b = a + rng.randint(2, 6)
            lo = b - rng.randint(1, 2)
        elif shape == "star":
            a = rng.randint(0, 6) if s else 0
            b = a + rng.randint(2, 5) if s else 12
        else:
            a = rng.randint(0, 4)
            b = a + rng.randint(4, 10)
        ranges.append((a, b))
    T = {}
    m = {}
    noise = rng.choice([0, 0, 3, 50])
    for s, (a, b) in enumerate(ranges):
        c = rng.randint(-1000, 1000)
        for h in range(a, b + 1):
            T.setdefault(h, rng.randint(-50, 50) * 10 + 37 * h)
            m.setdefault(h, []).append((s, float(T[h] + c + (rng.randint(-noise, noise) if noise else 0))))
    # levels at which every interval has exactly the same crossing value (rises that start from one on-grid level all
    # have depth 0 there; recessions sampled on the level lattice reach a level the same time after their starts): such
    # a level says nothing about WHERE the curve is but still ties its intervals to one another
    if rng.random() < 0.35:
        shared = [h for h, v in m.items() if len(v) >= 2]
        for h in rng.sample(shared, min(len(shared), rng.randint(1, 3))):
            common_value = rng.choice([0.0, float(rng.randint(-500, 500))])
            m[h] = [(s_, common_value) for s_, _t in m[h]]
    if rng.random() < 0.5:
        ids = sorted(rng.sample(range(0, 70), ns))
        m = {h: [(ids[s_], t) for s_, t in v] for h, v in m.items()}
    # the (series, time) pairs of a level come in no promised order, nor do the levels
    if rng.random() < 0.6:
        for h in m:
            rng.shuffle(m[h])
    if rng.random() < 0.5:
        items = list(m.items())
        rng.shuffle(items)
        m = dict(items)
    return m


def run_find_offsets(ctx, n):
    common.import_spowtd()
    import spowtd.fit_offsets as fo
    ob = "fit_offsets.find_offsets = exact minimiser (model solveOffsets over Rat), same series set"
    for _ in range(n):
        m = gen_mapping(ctx.rng)
        inp = {"function": "fit_offsets.find_offsets", "head_mapping": {str(k): v for k, v in m.items()}}
        payload = [[k, [[s, q2s(Fraction(t))] for s, t in v]] for k, v in m.items()]
        try:
            arg = {k: list(v) for k, v in m.items()}
            with common.session_logging(ctx.rng, 0.15):
                ids, offs = fo.find_offsets(arg)
            got = {int(s): float(o) for s, o in zip(ids, offs)}
            err = None
            if len(ids) != len(offs):
                err = "series ids and offsets of different lengths (%d, %d)" % (len(ids), len(offs))
        except Exception as e:  # noqa
            got, err = None, "%s: %s" % (type(e).__name__, e)
        mod = ctx.driver.call("solve.q", {"mapping": payload})
        nser = len({s for v in m.values() for s, _ in v})
        if err is not None or mod["outcome"] != "ok":
            ctx.case(("map", str(m)), False)
            same = (err is not None) == (mod["outcome"] != "ok")
            ctx.obligation(ob, same)
            if not same:
                ctx.corr_break(ob, {"input": inp, "impl": err or got, "model": mod})
            continue
        exact = {s: Fraction(o) for s, o in mod["offsets"]}
        res = ctx.driver.call("residuals.q", {"mapping": payload, "offsets": [[s, q2s(Fraction(o))] for s, o in got.items()]})
        scale = max([abs(Fraction(t)) for v in m.values() for _s, t in v] + [Fraction(1)])
        worst = max([abs(Fraction(r)) for _s, r in res["residuals"]] + [Fraction(0)])
        opt = Fraction(mod["objective"])
        ctx.case(("map", str(m)), nser >= 3 and opt != 0)
        ok_oracle = worst <= Fraction(1, 10**7) * scale * len(m)
        same = set(got) == set(exact) and all(abs(Fraction(got[s]) - exact[s]) <= Fraction(1, 10**8) * scale for s in exact)
        ctx.obligation(ob, same and ok_oracle)
        if len(ctx.samples) < 2 and nser >= 3:
            ctx.sample({"head_mapping": inp["head_mapping"], "offsets": got, "objective_at_optimum": float(opt)})
        if not ok_oracle:
            ctx.violation("impl-violation", "c05Holds", {"input": inp, "impl": got, "model": mod, "oracle": {
                "name": "c05Holds", "result": False,
                "witness": {"why": "an interval's residuals against the master curve do not sum to zero",
                            "residual_sums": [[s, float(Fraction(r))] for s, r in res["residuals"]],
                            "objective_of_result": float(Fraction(res["objective"])),
                            "competing_offsets_with_smaller_objective": {s: float(o) for s, o in exact.items()},
                            "their_objective": float(opt)}}})
        elif not same:
            ctx.corr_break(ob, {"input": inp, "impl": got, "model": mod})


def tables_mapping(kind, t):
    off = {int(a): b for a, b in t["%s_interval" % kind]}
    keys = sorted(off)
    idx = {e: i for i, e in enumerate(keys)}
    m = {}
    for start, k, v in t["%s_interval_zeta" % kind]:
        m.setdefault(k, []).append([idx[int(start)], q2s(Fraction(v))])
    return [[k, v] for k, v in sorted(m.items())], [[idx[e], q2s(Fraction(off[e]))] for e in keys], keys


def run_tables(ctx, n):
    ob = "offsets stored by `spowtd rise`/`recession` = exact minimiser up to the common origin shift"
    for _ in range(n):
        tr = P.gen_truth(ctx.rng, noise=ctx.rng.choice([0.4, 1.0]))
        zstep = ctx.rng.choice([1.0, 0.5, 2.0, 2.5])
        w = P.run_workflow(ctx, tr.rows(), tr.s, tr.j, zstep)
        t, st = w["tables"], w["status"]
        inp = {"truth": tr.describe(), "zeta_step": zstep}
        if any(st.get(k, ("x",))[0] != "ok" for k in ("load", "classify", "grid")):
            ctx.corr_break(ob, {"input": inp, "impl": {k: list(v) for k, v in st.items()},
                                "no_longer_checks": "a planted record is loaded, classified and gridded (prerequisite of the curves)"})
            continue
        for kind, cmd in (("rising", "rise"), ("recession", "recession")):
            if st[cmd][0] != "ok":
                ctx.count("curve_not_assembled")
                bad = P.judged_failure(ctx, t, zstep, cmd, st[cmd])
                if bad is not None:
                    ctx.corr_break(ob, {"input": dict(inp, table=kind), "impl": list(st[cmd]), "model": bad,
                                        "no_longer_checks": "`spowtd %s` fails on a dataset for which the model assembles the curve" % cmd})
                continue
            mapping, offsets, keys = tables_mapping(kind, t)
            res = ctx.driver.call("residuals.q", {"mapping": mapping, "offsets": offsets})
            mod = ctx.driver.call("solve.q", {"mapping": mapping})
            scale = max([abs(Fraction(x[1])) for _k, v in mapping for x in v] + [Fraction(1)])
            worst = max([abs(Fraction(r)) for _s, r in res["residuals"]] + [Fraction(0)])
            ctx.case(("tables", kind, tr.describe(), zstep), len(keys) >= 3)
            ctx.count("intervals_" + kind, len(keys))
            ok_oracle = worst <= Fraction(1, 10**7) * scale * max(1, len(mapping))
            gap = Fraction(res["objective"]) - Fraction(mod["objective"]) if mod["outcome"] == "ok" else None
            same = mod["outcome"] == "ok" and gap <= Fraction(1, 10**7) * scale * scale
            ctx.obligation(ob, same and ok_oracle)
            if not ok_oracle:
                ctx.violation("impl-violation", "c05Holds", {"input": dict(inp, table=kind), "impl": {"offsets": offsets}, "oracle": {
                    "name": "c05Holds", "result": False,
                    "witness": {"why": "an interval's residuals against the master curve do not sum to zero",
                                "interval_start_epochs": keys,
                                "residual_sums": [[keys[s], float(Fraction(r))] for s, r in res["residuals"]],
                                "objective_of_result": float(Fraction(res["objective"])),
                                "competing_offsets": mod.get("offsets"), "their_objective": mod.get("objective")}}})
            elif not same:
                ctx.corr_break(ob, {"input": dict(inp, table=kind), "impl": offsets, "model": mod})


def worst_residual(t):
    """(worst |residual sum| of an interval, scale of the crossing values, keys) of the stored recession alignment, exactly"""
    mapping, offsets, keys = tables_mapping("recession", t)
    off = {s_: Fraction(o) for s_, o in offsets}
    sums = {s_: Fraction(0) for s_ in off}
    for _k, v in mapping:
        shifted = [(s_, off[s_] + Fraction(x)) for s_, x in v]
        mean = sum(y for _s, y in shifted) / len(shifted)
        for s_, y in shifted:
            sums[s_] += y - mean
    scale = max([abs(Fraction(x[1])) for _k, v in mapping for x in v] + [Fraction(1)])
    return max([abs(r) for r in sums.values()] + [Fraction(0)]), scale, len(keys)


CAPPED = r"""
import resource, sys
sys.path.insert(0, %r)
import spowtd.user_interface as ui, numpy, scipy.optimize, scipy.interpolate
# (let the BLAS library allocate its own work buffers before the cap is set)
numpy.linalg.solve(numpy.eye(64) * 2.0, numpy.ones(64)); numpy.dot(numpy.ones((300, 300)), numpy.ones((300, 300)))
vm = [int(l.split()[1]) for l in open('/proc/self/status') if l.startswith('VmSize')][0] * 1024
cap = vm + %d
resource.setrlimit(resource.RLIMIT_AS, (cap, cap))
try:
    ui.main(['recession', %r])
except MemoryError as e:
    print('MemoryError'); sys.exit(7)
"""


def capped_case(ctx, ob, oracle="c05Holds"):
    """a dataset of several hundred intervals, aligned once normally and once with the address space capped at three
    quarters of what the dense design matrix needs"""
    import shutil
    n_spells = ctx.rng.randint(600, 800)
    rows, s, j, level = P.many_spells_rows(ctx.rng, n_spells)
    w0 = P.run_workflow(ctx, rows, s, j, 0.25, steps=("load", "classify", "grid"), keep_db=True)   # (fine grid: many equations per interval)
    db2 = ctx.scratch("capped.sqlite3")
    shutil.copyfile(w0["db"], db2)
    r = cli.run(["recession", w0["db"]])
    t = cli.dump(w0["db"])
    P.cleanup(w0)
    inp = {"record": {"kind": "many short dry spells", "n_spells": n_spells, "seed": ctx.seed, "samples": len(level)}, "zeta_step": 0.25}
    try:
        if r[0] == "ok" and t.get("recession_interval"):
            mapping, _offsets, keys = tables_mapping("recession", t)
            a_bytes = sum(len(v) for _k, v in mapping if len(v) > 1) * max(1, len(keys) - 1) * 8
            capped_run(ctx, db2, inp, ob, int(0.5 * a_bytes), oracle)
    finally:
        os.path.exists(db2) and os.remove(db2)


def capped_run(ctx, db, inp, ob, margin=300 * 2**20, oracle="c05Holds"):
    """the same command on a machine with too little memory for the dense design matrix (address space capped a few
    hundred MB above what the interpreter already uses): it may refuse (MemoryError), it may not store offsets that
    do not minimise"""
    import subprocess
    import sys
    code = CAPPED % (common.REPO, margin, db)
    p = subprocess.run([sys.executable, "-c", code], capture_output=True, text=True, timeout=900,
                       env=dict(os.environ, PYTHONPATH=common.REPO, MPLBACKEND="Agg", OPENBLAS_NUM_THREADS="1", OMP_NUM_THREADS="1"))
    ctx.case(("many-capped", inp["record"]["n_spells"]), True)
    ctx.count("capped_memory_run_" + ("refused" if p.returncode else "completed"))
    if p.returncode != 0:
        return
    t = cli.dump(db)
    if not t.get("recession_interval"):
        return
    worst, scale, _n = worst_residual(t)
    ok = worst <= Fraction(1, 10**6) * scale
    ctx.obligation(ob, ok)
    if not ok:
        ctx.violation("impl-violation", oracle, {"input": dict(inp, address_space_cap="interpreter + %d bytes" % margin), "impl": "completed", "oracle": {
            "name": oracle, "result": False,
            "witness": {"why": "with too little memory for the design matrix the command completes and stores offsets whose residuals "
                               "do not sum to zero", "worst_residual_sum": float(worst), "scale_of_crossing_values": float(scale)}}})


def run_many_intervals(ctx, n_spells):
    """thousands of intervals in one curve (a least-squares problem of thousands of unknowns and a design matrix of
    hundreds of megabytes): the exact solver of the model is not run at this size; the stored offsets are certified
    by the vanishing of every interval's residual sum (theorem stationary_is_minimiser)"""
    ob = "offsets stored by `spowtd recession` on thousands of intervals have vanishing residual sums (hence minimise)"
    rows, s, j, level = P.many_spells_rows(ctx.rng, n_spells)
    w0 = P.run_workflow(ctx, rows, s, j, 1.0, steps=("load", "classify", "grid"), keep_db=True)
    import shutil
    db2 = ctx.scratch("many-capped.sqlite3")
    shutil.copyfile(w0["db"], db2)
    r_rec = cli.run(["recession", w0["db"]])
    t = cli.dump(w0["db"])
    st = dict(w0["status"], recession=r_rec)
    P.cleanup(w0)
    inp = {"record": {"kind": "many short dry spells", "n_spells": n_spells, "seed": ctx.seed, "samples": len(level)}, "zeta_step": 1.0}
    os.path.exists(db2) and os.remove(db2)
    capped_case(ctx, ob)
    ctx.case(("many", n_spells, len(level)), True)
    if any(st.get(k, ("x",))[0] != "ok" for k in ("load", "classify", "grid", "recession")):
        ctx.violation("impl-violation", "c05Holds", {"input": inp, "impl": {k: list(v) for k, v in st.items()}, "oracle": {
            "name": "c05Holds", "result": False, "witness": {"why": "the workflow failed on a long record", "status": {k: list(v) for k, v in st.items()}}}})
        return
    mapping, offsets, keys = tables_mapping("recession", t)
    ctx.count("many_intervals_unknowns", len(keys))
    ctx.count("many_intervals_crossings", sum(len(v) for _k, v in mapping))
    # residual sums exactly, in one pass over the crossings (the model's residualSum, which scans the mapping once per
    # series, is quadratic at this size)
    off = {s_: Fraction(o) for s_, o in offsets}
    sums = {s_: Fraction(0) for s_ in off}
    for _k, v in mapping:
        shifted = [(s_, off[s_] + Fraction(x)) for s_, x in v]
        mean = sum(y for _s, y in shifted) / len(shifted)
        for s_, y in shifted:
            sums[s_] += y - mean
    res = {"residuals": [[s_, r] for s_, r in sums.items()]}
    scale = max([abs(Fraction(x[1])) for _k, v in mapping for x in v] + [Fraction(1)])
    worst = max([abs(Fraction(r)) for _s, r in res["residuals"]] + [Fraction(0)])
    ctx.count("many_intervals_worst_residual_sum_over_scale_x1e12", int(worst / scale * 10**12))
    ok = worst <= Fraction(1, 10**6) * scale
    ctx.obligation(ob, ok)
    if not ok:
        bad = sorted(((abs(Fraction(r)), keys[s_]) for s_, r in res["residuals"]), reverse=True)[:3]
        ctx.violation("impl-violation", "c05Holds", {"input": inp, "impl": {"offsets": offsets[:5]}, "oracle": {
            "name": "c05Holds", "result": False,
            "witness": {"why": "an interval's residuals against the master curve do not sum to zero",
                        "worst_residual_sums": [[e, float(r)] for r, e in bad], "scale_of_crossing_values": float(scale)}}})


def run_long_chain(ctx):
    """a chain of six thousand intervals, each sharing two levels with the next -- a design matrix of
    about 1.4e8 entries (more than a gibibyte as a dense array, half a minute for the unchanged code), the size at which
    a solver might change its method.  No model here (exact elimination on six thousand unknowns is out of reach): the
    property's own statement decides -- for every interval the residuals against the master curve sum to zero."""
    import numpy as np
    common.import_spowtd()
    import spowtd.fit_offsets as fo
    rng = ctx.rng
    n = rng.randint(5900, 6300)
    ob = "alignment of a chain of six thousand intervals: residual sums vanish"
    m = {}
    c = [float(rng.randint(-1000, 1000)) for _ in range(n)]
    for i in range(n - 1):
        for h in (2 * i, 2 * i + 1):
            base = 37.0 * h + rng.randint(-50, 50) * 10
            # crossing values far from consistent with one another ("any crossing values"): the offsets then wander over a
            # range ten thousand times the size of a single value, and an iterative solver stopped early is far off
            m[h] = [(i, base + c[i] + rng.uniform(-5e4, 5e4)), (i + 1, base + c[i + 1] + rng.uniform(-5e4, 5e4))]
    inp = {"function": "fit_offsets.find_offsets", "generator": "c05.run_long_chain", "intervals": n, "levels": len(m),
           "note": "too large to inline: regenerate with the seed (the replay re-runs the stream)"}
    ctx.case(("long-chain", n), True)
    try:
        with common.time_limit(900):
            ids, offs = fo.find_offsets({k: list(v) for k, v in m.items()})
        off = {int(s): float(o) for s, o in zip(ids, offs)}
        err = None
    except BaseException as e:  # noqa
        if isinstance(e, KeyboardInterrupt):
            raise
        off, err = None, "%s: %s" % (type(e).__name__, str(e)[:200])
    wit = None
    if err is not None:
        wit = {"why": "find_offsets fails on a connected chain", "exception": err}
    elif set(off) != set(range(n)):
        wit = {"why": "not every interval of the chain got an offset", "intervals": n, "offsets": len(off)}
    else:
        sums = np.zeros(n)
        scale = 1.0
        for h, v in m.items():
            vals = [t + off[s_] for s_, t in v]
            mean = sum(vals) / len(vals)
            for (s_, _t), val in zip(v, vals):
                sums[s_] += val - mean
                scale = max(scale, abs(val))
        worst = int(np.argmax(np.abs(sums)))
        if abs(sums[worst]) > 1e-7 * scale:
            wit = {"why": "an interval's residuals against the master curve do not sum to zero", "interval": worst,
                   "residual_sum": float(sums[worst]), "scale": scale}
    ctx.obligation(ob, wit is None)
    if wit is not None:
        ctx.violation("impl-violation", "c05Holds", {"input": inp, "impl": err, "oracle": {"name": "c05Holds", "result": False, "witness": wit}})


def run(ctx):
    run_long_chain(ctx)
    run_many_intervals(ctx, ctx.rng.randint(4700, 5200) if ctx.tier == "quick" else ctx.rng.randint(5000, 7000))
    if ctx.tier == "quick":
        run_find_offsets(ctx, 300)
        run_tables(ctx, 20)
    else:
        run_find_offsets(ctx, 6000)
        run_tables(ctx, 500)


def replay(ctx, doc):
    inp = doc["input"]
    before = len(ctx.violations)
    if inp.get("function") == "fit_offsets.find_offsets":
        common.import_spowtd()
        import spowtd.fit_offsets as fo
        m = {int(k): [tuple(x) for x in v] for k, v in inp["head_mapping"].items()}
        ids, offs = fo.find_offsets({k: list(v) for k, v in m.items()})
        payload = [[k, [[s, q2s(Fraction(t))] for s, t in v]] for k, v in m.items()]
        res = ctx.driver.call("residuals.q", {"mapping": payload, "offsets": [[int(s), q2s(Fraction(float(o)))] for s, o in zip(ids, offs)]})
        worst = max(abs(Fraction(r)) for _s, r in res["residuals"])
        print("largest residual sum:", float(worst))
        return worst <= Fraction(1, 10**4)
    return None   # re-run the stream with the recorded seed (check.py does it)
