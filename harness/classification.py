"""Correspondence and oracles for the classification core (C01, C02, C03, C04, C07).

`run_case` loads and classifies one generated record with the real CLI and with
the Lean model (at Float, on the tables the real `load` produced) and returns
both results; the per-property modules decide what to compare.
"""

import os

from . import cli
from .common import f2h, h2f, Fraction

_CASE = [0]


def db_payload(d):
    return {
        "step": d["time_grid"][0][0],
        "grid": [[e, l] for e, l in d["grid_time"]],
        "rain": [[a, b, f2h(v)] for a, b, v in d["rainfall_intensity"]],
        "et": [[a, b, f2h(v)] for a, b, v in d["evapotranspiration"]],
        "level": [[e, f2h(v)] for e, v in d["water_level"]],
    }


def stretches(d):
    """label -> list of (epoch, level, rain) mirroring the three-way join (harness-side, for oracles)."""
    rain = {a: v for a, b, v in d["rainfall_intensity"]}
    lev = dict((e, v) for e, v in d["water_level"])
    out = {}
    for e, l in d["grid_time"]:
        if l is not None and e in rain and e in lev:
            out.setdefault(l, []).append((e, lev[e], rain[e]))
    return out


def impl_tables(d):
    zi = {r[0]: r for r in d["zeta_interval"] or []}
    storms = {r[0]: r[1] for r in d["storm"] or []}
    pairs = []
    for (istart, _typ, sstart) in d["zeta_interval_storm"] or []:
        pairs.append([[sstart, storms.get(sstart)], [istart, zi[istart][2] if istart in zi else None]])
    pairs.sort()
    return {
        "flags": [[r[0], bool(r[1]), bool(r[2]), bool(r[3])] for r in d["grid_time_flags"] or []],
        "interstorms": sorted([r[0], r[2]] for r in (d["zeta_interval"] or []) if r[1] == "interstorm"),
        "rises": sorted([r[0], r[2]] for r in (d["zeta_interval"] or []) if r[1] == "storm"),
        "storms": sorted([r[0], r[1]] for r in d["storm"] or []),
        "pairs": pairs,
        "depths": {r[0]: r[1] for r in d["storm_total_rain_depth"] or []},
    }


def run_case(ctx, rec, s, j, tz="UTC", fmt=cli.fmt_time, pick="first", want_model=True):
    _CASE[0] += 1
    # a legitimate option a user may add to any command: -v / -vv / -vvv (with --logfile)
    cli.VERBOSITY[0] = ctx.rng.choice([0, 0, 0, 1, 2, 3, 4]) if _CASE[0] % 3 == 0 else 0
    try:
        return _run_case(ctx, rec, s, j, tz, fmt, pick, want_model)
    finally:
        cli.VERBOSITY[0] = 0


def _run_case(ctx, rec, s, j, tz, fmt, pick, want_model):
    name = "c%d" % _CASE[0]
    files = cli.write_dataset(ctx.tmp, name, *rec.rows(), fmt=fmt)
    db = ctx.scratch(name + ".sqlite3")
    res = {"files": files, "db": db, "s": s, "j": j}
    res["load"] = cli.load(db, files, tz)
    if res["load"][0] != "ok":
        _rm(files, db)
        return res
    loaded = cli.dump(db, ["time_grid", "grid_time", "rainfall_intensity", "evapotranspiration", "water_level"])
    res["loaded"] = loaded
    res["classify"] = cli.classify(db, s, j)
    d = cli.dump(db, ["grid_time_flags", "storm", "zeta_interval", "zeta_interval_storm", "storm_total_rain_depth", "thresholds"])
    res["impl"] = impl_tables(d)
    if want_model == "by-stretch":
        res["model"] = model_by_stretch(ctx, loaded, s, j, pick)
    elif want_model:
        m = ctx.driver.call("classify.f", {"db": db_payload(loaded), "s": f2h(s), "j": f2h(j), "pick": pick})
        if m["outcome"] == "ok":
            m["pairs"] = sorted(m["pairs"])
            m["interstorms"] = sorted(m["interstorms"])
            m["flags"] = sorted(m["flags"])
        res["model"] = m
    _rm(files, db)
    return res


def model_by_stretch(ctx, loaded, s, j, pick="first"):
    """The model evaluated stretch by stretch at index level (linear in the record length): same result
    as `classify.f`, used for records of tens of thousands of samples."""
    step = loaded["time_grid"][0][0]
    st = stretches(loaded)
    out = {"outcome": "ok" if st else "no_intervals", "flags": [], "interstorms": [], "pairs": [], "strict": True, "depths": []}
    for l, rows in sorted(st.items()):
        ep = [r[0] for r in rows]
        m = ctx.driver.call("classifyidx.f", {"s": f2h(s), "j": f2h(j), "dt": step, "zeta": [f2h(r[1]) for r in rows],
                                              "rain": [f2h(r[2]) for r in rows], "pick": pick})
        out["flags"] += [[e] + f for e, f in zip(ep, m["flags"])]
        out["interstorms"] += [[ep[a], ep[b - 1]] for a, b in m["interstorms"]]
        out["pairs"] += [[[ep[p[0][0]], ep[p[0][1] - 1] + step], [ep[p[1][0]], ep[p[1][1]]]] for p in m["pairs"]]
        out["strict"] = out["strict"] and m["strict"]
    rain = loaded["rainfall_intensity"]
    for p in out["pairs"]:
        a, b = p[0]
        d = 0.0
        for x in rain:
            if a <= x[0] and x[1] <= b:
                d += x[2] * (x[1] - x[0]) / 3600.0
        out["depths"].append([a, f2h(d)])
    out["pairs"].sort()
    out["interstorms"].sort()
    out["flags"].sort()
    return out


def _rm(files, db):
    for p in list(files) + [db, db + "-journal", db + ".log"]:
        try:
            os.remove(p)
        except OSError:
            pass


def replay_input(rec, s, j, tz="UTC"):
    rain, et, level = rec.rows()
    return {
        "record": rec.describe(), "s": s, "j": j, "timezone": tz,
        "files": {
            "precipitation": [[cli.fmt_time(t), repr(v)] for t, v in rain],
            "evapotranspiration": [[cli.fmt_time(t), repr(v)] for t, v in et],
            "water_level": [[cli.fmt_time(t), repr(v)] for t, v in level],
        },
        "argv": ["load DB -p P -e E -z Z --timezone %s" % tz, "classify DB -s %r -j %r" % (s, j)],
    }


# ------------------------------------------------------------------ oracles
# Each oracle evaluates the *property's own predicate* on the implementation's tables and the
# loaded data; none of them looks at the model.


def oracle_c01(res):
    """classification completed; no storm/rise repeated; each pair shares a step."""
    if res["classify"][0] != "ok":
        if (not res["loaded"]["water_level"] and res["classify"][1] == "ValueError"
                and "No valid data intervals" in res["classify"][2]):
            # no water level fell on the grid at all: the documented refusal, outside C01's quantifier
            return {"name": "c01Holds", "result": True, "note": "dataset without any gridded water level"}
        return {"name": "c01Holds", "result": False, "witness": {"classify": list(res["classify"])}}
    im = res["impl"]
    ss = [p[0][0] for p in im["pairs"]]
    rs = [p[1][0] for p in im["pairs"]]
    if len(set(ss)) != len(ss) or len(set(rs)) != len(rs):
        return {"name": "c01Holds", "result": False, "witness": {"repeated": im["pairs"]}}
    step = res["loaded"]["time_grid"][0][0]
    for (sa, sb), (ra, rb) in im["pairs"]:
        if sb is None or rb is None:
            return {"name": "c01Holds", "result": False, "witness": {"dangling": [[sa, sb], [ra, rb]]}}
        # a step [t, t+step) inside the storm [sa, sb) and inside the rise [ra, rb]
        lo, hi = max(sa, ra), min(sb, rb)
        if not (lo + step <= hi):
            return {"name": "c01Holds", "result": False, "witness": {"no_shared_step": [[sa, sb], [ra, rb]]}}
    return {"name": "c01Holds", "result": True}


def runs_of(v):
    out, a = [], None
    for i, b in enumerate(v):
        if b and a is None:
            a = i
        if not b and a is not None:
            out.append((a, i))
            a = None
    if a is not None:
        out.append((a, len(v)))
    return out


def oracle_c03(res):
    """recorded storms/rises are maximal strict runs inside one stretch; depth = own steps."""
    im = res["impl"]
    s, j = res["s"], res["j"]
    step = res["loaded"]["time_grid"][0][0]
    jd = j * (step / 3600.0)
    st = stretches(res["loaded"])
    where = {}
    for l, rows in st.items():
        for i, (e, z, r) in enumerate(rows):
            where[e] = (l, i)
    for a, b in im["storms"]:
        if a not in where:
            return _bad("c03Holds", storm=[a, b], why="start not a sample")
        l, i0 = where[a]
        rows = st[l]
        k = (b - a) // step
        if (b - a) % step or k < 1 or i0 + k > len(rows):
            return _bad("c03Holds", storm=[a, b], why="crosses the end of its stretch")
        if not all(rows[i][2] > s for i in range(i0, i0 + k)):
            return _bad("c03Holds", storm=[a, b], why="contains a step not above the threshold")
        if i0 > 0 and rows[i0 - 1][2] > s:
            return _bad("c03Holds", storm=[a, b], why="not maximal on the left")
        if i0 + k < len(rows) and rows[i0 + k][2] > s:
            return _bad("c03Holds", storm=[a, b], why="not maximal on the right")
        depth = sum(Fraction(rows[i][2]) * Fraction(step, 3600) for i in range(i0, i0 + k))
        got = im["depths"].get(a)
        if got is None or abs(Fraction(got) - depth) > Fraction(1, 10**9) * max(1, abs(depth)):
            return _bad("c03Holds", storm=[a, b], why="rain depth", got=got, expected=float(depth))
    for a, b in im["rises"]:
        if a not in where or b not in where or where[a][0] != where[b][0]:
            return _bad("c03Holds", rise=[a, b], why="not inside one stretch")
        l, i0 = where[a]
        i1 = where[b][1]
        rows = st[l]
        if i1 <= i0:
            return _bad("c03Holds", rise=[a, b], why="empty")
        inc = lambda i: rows[i + 1][1] - rows[i][1]  # noqa
        if not all(inc(i) > jd for i in range(i0, i1)):
            return _bad("c03Holds", rise=[a, b], why="contains an increment not above threshold*step")
        if i0 > 0 and inc(i0 - 1) > jd:
            return _bad("c03Holds", rise=[a, b], why="not maximal on the left")
        if i1 + 1 < len(rows) and inc(i1) > jd:
            return _bad("c03Holds", rise=[a, b], why="not maximal on the right")
    return {"name": "c03Holds", "result": True}


def _bad(name, **w):
    return {"name": name, "result": False, "witness": w}


def oracle_c04(res):
    """flags and interstorm intervals recomputed from the definitions of the property."""
    im = res["impl"]
    j = res["j"]
    step = res["loaded"]["time_grid"][0][0]
    jd = j * (step / 3600.0)
    st = stretches(res["loaded"])
    flags = {r[0]: r[1:] for r in im["flags"]}
    want_inter = []
    for l, rows in sorted(st.items()):
        n = len(rows)
        W = [r[2] > 0 for r in rows]
        J = [False] + [rows[i][1] - rows[i - 1][1] > jd for i in range(1, n)]
        last_wet = None
        clean = False
        inter = []
        for k in range(n):
            if W[k]:
                last_wet, clean = k, True
            elif J[k]:
                clean = False
            mystery = not (last_wet is not None and clean)
            is_inter = (not mystery) and (not W[k])
            inter.append(is_inter)
            got = flags.get(rows[k][0])
            if got is None or got != [J[k], mystery, is_inter]:
                return _bad("c04Holds", epoch=rows[k][0], why="flags", got=got, expected=[J[k], mystery, is_inter])
        for a, b in runs_of(inter):
            if b - a >= 2:
                want_inter.append([rows[a][0], rows[b - 1][0]])
    if sorted(want_inter) != im["interstorms"]:
        return _bad("c04Holds", why="interstorm intervals", got=im["interstorms"], expected=sorted(want_inter))
    if len(flags) != sum(len(r) for r in st.values()):
        return _bad("c04Holds", why="flag rows", got=len(flags))
    return {"name": "c04Holds", "result": True}


def index_problem(res):
    """Per stretch: candidate relation and scores computed from the stored rain and level tables
    (true durations in steps), for the stability oracle."""
    s, j = res["s"], res["j"]
    step = res["loaded"]["time_grid"][0][0]
    jd = j * (step / 3600.0)
    out = []
    for l, rows in sorted(stretches(res["loaded"]).items()):
        heavy = [r[2] > s for r in rows]
        jump = [rows[i + 1][1] - rows[i][1] > jd for i in range(len(rows) - 1)]
        storms, rises = runs_of(heavy), runs_of(jump)
        cands = [(a, b, c, d) for (a, b) in storms for (c, d) in rises if max(a, c) < min(b, d)]
        out.append({"label": l, "epochs": [r[0] for r in rows], "storms": storms, "rises": rises, "cands": cands})
    return out


def oracle_c02(ctx, res):
    """the stored pairing is a matching inside the overlap relation with no blocking pair
    (Lean-defined `findBlocking`, evaluated on the implementation's pairing)."""
    im = res["impl"]
    step = res["loaded"]["time_grid"][0][0]
    pairs_by_start = {p[0][0]: p for p in im["pairs"]}
    seen = 0
    for pr in index_problem(res):
        ep = pr["epochs"]
        idx = {e: i for i, e in enumerate(ep)}
        M = []
        for a, b in pr["storms"]:
            p = pairs_by_start.get(ep[a])
            if p is not None:
                seen += 1
                if p[1][0] not in idx:
                    return _bad("c02Holds", why="pair leaves its stretch", pair=p)
                M.append([idx[p[1][0]], a])
        storms = sorted({a for a, b, c, d in pr["cands"]})
        rises = sorted({c for a, b, c, d in pr["cands"]})
        sigma = [[a, c, -abs((b - a) - (d - c))] for a, b, c, d in pr["cands"]]
        score = [[c, a, -abs(c - a)] for a, b, c, d in pr["cands"]]
        prefs = [[a, [c for a2, b, c, d in pr["cands"] if a2 == a]] for a in storms]
        r = ctx.driver.call("gs.check", {"storms": storms, "rises": rises, "prefs": prefs, "score": score,
                                          "sigma": sigma, "M": M})
        if not r["matching"]:
            return _bad("c02Holds", why="not a one-to-one matching inside the overlap relation", stretch=pr["label"], M=M)
        if r["blocking"] is not None:
            a, c = r["blocking"]
            return _bad("c02Holds", why="blocking pair", stretch=pr["label"],
                        storm_start=ep[a], rise_start=ep[c], M=M, cands=pr["cands"])
    if seen != len(im["pairs"]):
        return _bad("c02Holds", why="pair whose storm is not a heavy run of a stretch", pairs=im["pairs"])
    return {"name": "c02Holds", "result": True}
