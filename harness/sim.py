"""Shared helpers for the simulation checks (C17, C18, C19): parameter files and recorders."""
import contextlib
import io

import numpy as np
import yaml

from . import cli, common


def spline_params(rng, zlo, zhi, n_sy=None, n_t=None, oscillating=False):
    """a spline parameter set whose knots cover [zlo, zhi] (mm)"""
    n_sy = n_sy or rng.randint(4, 8)
    n_t = n_t or rng.randint(2, 6)
    pad = 30.0

    def knots(n, lo, hi):
        # jittered uniform spacing: neighbouring knots never closer than 40 % of the mean spacing
        h = (hi - lo) / (n - 1)
        return [round(lo + h * (i + (rng.uniform(-0.3, 0.3) if 0 < i < n - 1 else 0.0)), 2) for i in range(n)]
    zk = knots(n_sy, zlo - pad, zhi + pad * rng.choice([1, -0.3]))
    zk = sorted(set(zk))
    while len(zk) < 4:
        zk.append(zk[-1] + 10.0)
    tk = sorted(set(knots(n_t, zlo - pad * rng.choice([1, -0.2]), zhi + pad)))
    if rng.random() < 0.3 and len(tk) >= 3 and tk[0] < 0.0 < tk[-1]:
        i0 = min(range(1, len(tk) - 1), key=lambda i: abs(tk[i]))
        tk[i0] = 0.0                               # a conductivity knot at the peat surface
        tk = sorted(set(tk))
    # specific yield must stay positive between knots (a cubic through random values may overshoot)
    common.import_spowtd()
    import spowtd.specific_yield as sym
    for _try in range(50):
        base = rng.uniform(0.05, 0.3)
        vals = [round(base + 0.6 * i / len(zk) + rng.uniform(-0.03, 0.03), 4) for i in range(len(zk))]
        f = sym.SplineSpecificYield(list(zk), list(vals))
        if float(np.min(f(np.linspace(zk[0], zk[-1], 400)))) > 0.02:
            break
    if rng.random() < 0.3:
        # values as a person types them: some knots and values are whole numbers (YAML ints)
        zk = [int(round(z)) if rng.random() < 0.5 else z for z in zk]
        zk = sorted(set(zk), key=float)
        vals = (vals + [vals[-1]] * len(zk))[:len(zk)]
    if oscillating:
        # any parameter values: a cubic through alternating knots undershoots below zero between them
        # (step-like knot values: the interpolating cubic rings around each step)
        for _try in range(50):
            pat = [rng.choice([0.7, 0.7, 0.01]) for _ in zk]
            vals = [round(v + rng.uniform(0, 0.005), 4) for v in pat]
            f = sym.SplineSpecificYield(list(zk), list(vals))
            if float(np.min(f(np.linspace(zlo, zhi, 400)))) < -0.02:
                break
    return {
        "specific_yield": {"type": "spline", "zeta_knots_mm": zk,
                           "sy_knots": vals},
        "transmissivity": {"type": "spline", "zeta_knots_mm": tk,
                           "K_knots_km_d": [float("%.4g" % (10 ** rng.uniform(-3, 3))) for _ in tk],
                           "minimum_transmissivity_m2_d": (rng.randint(1, 9) if rng.random() < 0.3
                                                           else float("%.4g" % (10 ** rng.uniform(-1, 1))))},
    }


def peatclsm_params(rng, zhi):
    if rng.random() < 0.4:
        # a calibration sweep: the published soil, another microtopography
        return {
            "specific_yield": {"type": "peatclsm", "sd": round(rng.uniform(0.05, 1.0), 3), "theta_s": 0.88, "b": 7.4, "psi_s": -0.024},
            "transmissivity": {"type": "peatclsm", "Ksmacz0": 7.3, "alpha": rng.choice([3, 3.0, 2.5]),
                               "zeta_max_cm": round(max(1.0, zhi / 10 + rng.uniform(0.5, 20)), 1)},
        }
    return {
        "specific_yield": {"type": "peatclsm", "sd": round(rng.uniform(0.05, 1.0), 3), "theta_s": round(rng.uniform(0.3, 0.95), 3),
                           "b": round(rng.uniform(1.0, 12.0), 2), "psi_s": -round(rng.uniform(0.01, 0.5), 3)},
        "transmissivity": {"type": "peatclsm", "Ksmacz0": round(10 ** rng.uniform(-1, 1.5), 3),
                           "alpha": round(rng.uniform(1.5, 6.0), 2), "zeta_max_cm": round(zhi / 10 + rng.uniform(0.5, 20), 1)},
    }


def dirty_heap(rng, n):
    """What a long session leaves behind: freed arrays of the size about to be allocated, holding values of
    earlier, unrelated computations (non-finite results of rejected trials, squared epochs).  A result that
    depends on them reads memory it never wrote."""
    for size in (n, n - 1, n + 1):
        if size > 0:
            junk = np.full(size, rng.choice([np.nan, np.inf, -np.inf, 1e300, 2.5e18, -7e17]))
            del junk


def mixed_params(rng, zlo, zhi):
    """each section of a parameter file has its own `type`: spline specific yield with PEATCLSM transmissivity, or the
    reverse (e.g. a spline fitted to the well-constrained rise curve, the published transmissivity kept)"""
    a, b = spline_params(rng, zlo, zhi), peatclsm_params(rng, zhi)
    if rng.random() < 0.5:
        a, b = b, a
    return {"specific_yield": a["specific_yield"], "transmissivity": b["transmissivity"]}


def make_functions(params):
    common.import_spowtd()
    import copy
    import spowtd.specific_yield as sym
    import spowtd.transmissivity as tm
    p = copy.deepcopy(params)
    return sym.create_specific_yield_function(p["specific_yield"]), tm.create_transmissivity_function(p["transmissivity"])


@contextlib.contextmanager
def record_integrate(sy):
    calls = []
    real = sy.integrate

    def integrate(a, b):
        v = real(a, b)
        calls.append((float(a), float(b), float(v)))
        return v
    sy.integrate = integrate
    try:
        yield calls
    finally:
        del sy.integrate


@contextlib.contextmanager
def record_quad():
    """record the outermost scipy.integrate.quad calls (the per-cell integrals of the recession curve)"""
    import scipy.integrate as si
    calls = []
    depth = [0]
    real = si.quad

    def quad(f, a, b, *args, **kw):
        depth[0] += 1
        try:
            r = real(f, a, b, *args, **kw)
        finally:
            depth[0] -= 1
        if depth[0] == 0:
            calls.append((float(a), float(b), float(r[0])))
        return r
    si.quad = quad
    try:
        yield calls
    finally:
        si.quad = real


def simulate_cli(ctx, kind, db, params, observations):
    pfile = ctx.scratch("params.yml")
    with open(pfile, "w") as fh:
        yaml.safe_dump(params, fh)
    out = ctx.scratch("sim.out")
    if ctx.rng.random() < 0.25:
        # no -o: the result goes to standard output
        buf = io.StringIO()
        with contextlib.redirect_stdout(buf), common.time_limit(120):     # (seconds, normally)
            r = cli.run(["simulate", kind, db, pfile] + (["--observations"] if observations else []))
        ctx.count("simulate_to_stdout")
        return r, buf.getvalue()
    argv = ["simulate", kind, db, pfile, "-o", out] + (["--observations"] if observations else [])
    # (the simulate and pestfiles sub-commands take no -v / --logfile options)
    with common.time_limit(120):
        r = cli.run(argv)
    # argparse FileType handles are left open by the tool: the content is flushed at interpreter exit only;
    # force it by closing leaked files through garbage collection
    import gc
    gc.collect()
    text = ""
    try:
        with open(out) as fh:
            text = fh.read()
    except OSError:
        pass
    return r, text


def parse_table(text):
    """(rows, problem): the tabulated output must be a YAML list: one header row of three strings, then rows
    of three numbers; `problem` says what is wrong otherwise (never raises)."""
    try:
        doc = yaml.safe_load(text)
    except Exception as e:  # noqa
        return None, "output is not YAML: %s" % str(e)[:120]
    num = (int, float)
    if not isinstance(doc, list) or not doc:
        return None, "output is not a YAML list of rows"
    if not (isinstance(doc[0], list) and len(doc[0]) == 3 and all(isinstance(x, str) for x in doc[0])):
        return None, "first row is not a header of three strings: %r" % (doc[0],)
    for k, r in enumerate(doc[1:], 1):
        if not (isinstance(r, list) and len(r) == 3 and all(isinstance(x, num) and not isinstance(x, bool) for x in r)):
            return None, "row %d of %d is not three numbers: %r" % (k, len(doc) - 1, r)
    return doc, None


def parse_vector(text):
    """(values, problem): the --observations output must be a YAML list of numbers."""
    try:
        doc = yaml.safe_load(text)
    except Exception as e:  # noqa
        return None, "output is not YAML: %s" % str(e)[:120]
    if not isinstance(doc, list) or not all(isinstance(x, (int, float)) and not isinstance(x, bool) for x in doc):
        return None, "output is not a YAML list of numbers: %r" % (doc if not isinstance(doc, list) else doc[:3],)
    return doc, None
