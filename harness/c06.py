"""C06 — a known master curve is recovered from its shifted pieces, through the whole CLI."""
import os

from . import pipeline as P

THEOREMS = [
    "Spowtd.planted_recovered",
    "Spowtd.planted_is_stationary",
    "Spowtd.rise_crossing_depth",
    "Spowtd.crossings_shift_x",
    "Spowtd.stationary_is_minimiser",
    "Spowtd.minimiser_unique_mod_shift",
    "Spowtd.solveOffsets_stationary",
]
TRUSTED_BASE = [
    "Lean 4.33 kernel; axioms propext, Classical.choice, Quot.sound only (audited per theorem on every run)",
    "Lean runtime (Rat instance) for executing the Pipeline model exactly",
    "LAPACK solve (backward stable), brentq, numpy mean, SQLite AVG/SUM: compared with exact rational values within 1e-9 relative",
    "the Python harness: ground-truth generator (harness/pipeline.py), table dump, tolerances, planted-curve oracle",
    "translator tools/gen_formulas.py: the arithmetic of the named source functions (an expression, or a whole body of assignments, if and return) as Python's own `ast` parses it -> Lean terms over the carrier class in lean/FormulaTie/Gen*.lean; that each is the model's definition is re-checked by `rfl` / a short unfolding on every run (lean/FormulaTie/*.lean)",
]
SQL_TIE = ('load', 'classify', 'zeta_grid', 'rise', 'recession')
FORMULA_TIE = ('Classify', 'Grid', 'Regrid')
ASSUMPTIONS = [
    "records are generated from a recession curve that is piecewise linear on the sampling lattice and a constant "
    "specific yield; every storm lands on a lattice level and is followed by one light-rain step",
    "datasets in which no two intervals share a level have no master curve and are outside the property",
]
RULE = ("synthetic records from a planted pair (recession curve Z(n) on a 0.25 mm lattice, constant Sy), 3-9 storms of "
        "1-3 heavy steps, dry spells of 3-14 steps, time steps 10-60 min, grid steps 1, .5, 2, 2.5 mm; records of 20-35 "
        "events; records starting with 3-30 isolated short pieces low on the curve; the whole CLI "
        "load -> classify -> set-zeta-grid -> rise -> recession on a scratch file; tables compared with the model "
        "Pipeline over Rat and with the planted curves; non-trivial = both curves assembled from at least two "
        "intervals; distinct by input")


def one(ctx, tr, zstep):
    w = P.run_workflow(ctx, tr.rows(), tr.s, tr.j, zstep)
    inp = {"truth": tr.describe(), "zeta_step": zstep,
           "argv": ["load", "classify -s %r -j %r" % (tr.s, tr.j), "set-zeta-grid -d %r" % zstep, "rise", "recession"]}
    st = w["status"]
    t = w["tables"]
    for early in ("load", "classify", "grid"):
        if st.get(early, ("missing",))[0] != "ok":
            ctx.case(("c06", tr.describe(), zstep), False)
            ctx.violation("impl-violation", "c06Holds", {"input": inp, "impl": {k: list(v) for k, v in st.items()},
                          "oracle": {"name": "c06Holds", "result": False, "witness": {"step_failed": early, "status": list(st[early])}}})
            return
    m = P.model_pipeline(ctx, t, zstep)
    nontrivial = True
    for kind, cmd, mk in (("rising", "rise", "rise"), ("recession", "recession", "recession")):
        fail = P.curve_failure(st[cmd], m[mk + "_components"])
        ob = "%s tables of the CLI workflow = model Pipeline over Rat" % kind
        if fail is not None:
            nontrivial = False
            if fail["kind"] == "no_overlap":
                ctx.count("no_overlap_" + kind)
                continue
            name = "mainBodyAssembled" if fail["kind"] == "main_body_dropped" else "c06Holds"
            ctx.violation("impl-violation", name, {"input": inp, "impl": list(st[cmd]),
                          "oracle": {"name": name, "result": False, "witness": fail}})
            continue
        ctx.count("intervals_" + kind, len(t["%s_interval" % kind]))
        ok, wit = P.spread_and_truth(kind, t, tr)
        diffs = P.compare_curve(kind, t, m[mk])
        ctx.obligation(ob, not diffs)
        if len(t["%s_interval" % kind]) < 2:
            nontrivial = False
        if not ok:
            ctx.violation("impl-violation", "c06Holds", {"input": inp, "impl": {kind + "_interval": t["%s_interval" % kind]},
                          "oracle": {"name": "c06Holds", "result": False, "witness": wit}})
        elif diffs:
            ctx.corr_break(ob, {"input": inp, "differs_on": diffs, "model": m[mk]})
    ctx.case(("c06", tr.describe(), zstep), nontrivial)
    if nontrivial:
        ctx.sample({"dt": tr.dt, "sy": tr.sy, "events": tr.events, "zeta_step": zstep,
                    "average_recession_time": t["average_recession_time"][:4], "average_rising_depth": t["average_rising_depth"][:4]}, limit=2)


def fresh_process_workflow(ctx, tr, zstep):
    """The same workflow with one fresh interpreter per command, as a user runs it: the dataset must be
    identical to the one produced by the in-process calls (no state may leak between commands)."""
    from . import cli
    ob = "workflow run as separate processes (bin/spowtd) = workflow run in-process, table by table"
    w = P.run_workflow(ctx, tr.rows(), tr.s, tr.j, zstep)
    files = cli.write_dataset(ctx.tmp, "sub", *tr.rows())
    db = ctx.scratch("sub.sqlite3")
    cmds = [["load", db, "-p", files[0], "-e", files[1], "-z", files[2], "--timezone", "UTC"],
            ["classify", db, "-s", repr(tr.s), "-j", repr(tr.j)], ["set-zeta-grid", db, "-d", repr(zstep)],
            ["rise", db], ["recession", db]]
    status = {}
    for c in cmds:
        status[c[0]] = cli.run_subprocess(c)
    got = cli.dump(db)
    for p_ in list(files) + [db]:
        try:
            os.remove(p_)
        except OSError:
            pass
    same_status = all((status[k][0] == "ok") == (w["status"].get({"set-zeta-grid": "grid"}.get(k, k), ("x",))[0] == "ok") for k in status)
    if any(status[k][0] != "ok" for k in ("load", "classify", "set-zeta-grid")):
        same_status = False       # a planted record always gets this far: equal failures are not agreement
    diff = [name for name in got if got[name] != w["tables"][name]]
    ctx.case(("c06-subprocess", tr.describe(), zstep), True)
    ctx.obligation(ob, same_status and not diff)
    if not same_status or diff:
        ctx.violation("impl-violation", "c06Holds", {
            "input": {"truth": tr.describe(), "zeta_step": zstep},
            "impl": {"separate_processes": {k: list(v) for k, v in status.items()},
                     "in_process": {k: list(v) for k, v in w["status"].items()}},
            "oracle": {"name": "c06Holds", "result": False,
                       "witness": {"why": "the workflow gives a different dataset when each command runs in its own process",
                                   "tables_differing": diff}}})


def run(ctx):
    n = 40 if ctx.tier == "quick" else 1000
    for k_ in range(n):
        tr = P.gen_truth(ctx.rng)
        if k_ % 4 == 1:
            tr.add_gap(ctx.rng)          # a logger outage inside a dry spell: two gap-free stretches, still pieces of the truth
        elif k_ % 4 == 3:
            tr.add_fine_gap(ctx.rng)     # the same with a logger faster than the rain gauge, the outage off the rain lattice
            ctx.count("truths_with_a_fast_logger_and_an_outage_off_the_rain_lattice", 1 if tr.fine > 1 else 0)
        one(ctx, tr, ctx.rng.choice([1.0, 0.5, 2.0, 2.5]))
    for _ in range(2 if ctx.tier == "quick" else 30):
        # tens of intervals in each curve
        one(ctx, P.gen_truth(ctx.rng, n_events=ctx.rng.randint(20, 35)), ctx.rng.choice([1.0, 2.0, 2.5]))
    for k_ in range(6 if ctx.tier == "quick" else 100):
        # many pieces low on the curve that share no level with anything, then the main body; the first ones of every run
        # have a main body of two or three pieces numbered 7, 8(, 9) / 15, 16(, 17): ids that a hash set does not hand back
        # in ascending order
        n_ev, n_iso = ((2, 7), (3, 7), (2, 15), (3, 23))[k_] if k_ < 4 else (ctx.rng.randint(2, 7), ctx.rng.randint(3, 30))
        one(ctx, P.gen_truth(ctx.rng, n_events=n_ev, isolated=n_iso), ctx.rng.choice([1.0, 0.5, 2.0]))
    for _ in range(2 if ctx.tier == "quick" else 20):
        fresh_process_workflow(ctx, P.gen_truth(ctx.rng, noise=ctx.rng.choice([0.0, 0.4])), ctx.rng.choice([1.0, 0.5, 2.0]))


def replay(ctx, doc):
    d = doc["input"]["truth"]
    tr = P.Truth.from_description(d)
    before = len(ctx.violations) + len(ctx.known_hits)
    one(ctx, tr, doc["input"]["zeta_step"])
    return len(ctx.violations) + len(ctx.known_hits) == before
