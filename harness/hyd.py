"""Generators and recorders for the hydraulic-function checks (C14-C19)."""
import contextlib

import numpy as np

from . import common


def gen_knots(rng, nmin=4, nmax=12, positive=False, lo=-600.0, hi=300.0):
    n = rng.randint(nmin, nmax)
    xs = sorted(set(round(rng.uniform(lo, hi), rng.choice([0, 1, 2])) for _ in range(n + 3)))[:n]
    while len(xs) < nmin:
        xs.append(xs[-1] + rng.uniform(1, 50))
    if rng.random() < 0.25:
        xs = sorted({float(int(round(x))) for x in xs})
        while len(xs) < nmin:
            xs.append(xs[-1] + float(rng.randint(1, 50)))
        xs = [int(x) if rng.random() < 0.5 else x for x in xs]       # whole numbers, some as Python ints
    if rng.random() < 0.4 and len(xs) >= 3 and float(xs[0]) < 0.0 < float(xs[-1]):
        # a knot at the peat surface, the datum: exactly 0 (often the only knot below the water levels of interest)
        inner = [i for i in range(1, len(xs) - 1)]
        i0 = min(inner, key=lambda i: abs(float(xs[i])))
        xs[i0] = 0.0 if rng.random() < 0.7 else 0
        if rng.random() < 0.5:
            xs = [x for i, x in enumerate(xs) if i in (0, i0) or float(x) > 0.0]      # ... the only interior knot below them
        xs = sorted(set(xs), key=float)
        while len(xs) < nmin:
            xs.append(float(xs[-1]) + rng.uniform(1, 50))
    if positive:
        ys = [10 ** rng.uniform(-6, 6) for _ in xs]
    else:
        ys = [round(rng.uniform(0.02, 0.95), 4) for _ in xs]
    return xs, ys


def limit_pairs(rng, xmin, xmax, knots, n):
    span = xmax - xmin
    pool = [xmin - 3 * span, xmin - 1.0, xmin, xmin + 0.25 * span, 0.5 * (xmin + xmax), xmax - 0.1 * span, xmax,
            xmax + 1.0, xmax + 2 * span] + list(knots)
    out = []
    for _ in range(n):
        a = rng.choice(pool) if rng.random() < 0.7 else rng.uniform(xmin - span, xmax + span)
        b = rng.choice(pool) if rng.random() < 0.7 else rng.uniform(xmin - span, xmax + span)
        out.append((float(a), float(b)))
    out += [(xmin, xmin), (xmax + 5, xmax + 5), (xmax + 10, xmin - 10), (xmin - 10, xmax + 10)]
    # distinct limits very close to each other (fine grids at large levels): relative gaps 1e-12 .. 1e-4
    for _ in range(max(4, n // 5)):
        a = float(rng.choice(pool)) if rng.random() < 0.5 else rng.uniform(xmin - span, xmax + span)
        gap = abs(a if a else 1.0) * 10 ** rng.uniform(-12, -4) + 10 ** rng.uniform(-9, -5)
        out.append((a, a + gap) if rng.random() < 0.5 else (a + gap, a))
    return out


@contextlib.contextmanager
def record_fitpack():
    """Wrap the FITPACK entry points as seen by spowtd.spline; yields the two call logs."""
    common.import_spowtd()
    import spowtd.spline as sp
    evals, splints = [], []
    if not (hasattr(sp, "splev") and hasattr(sp, "splint")):
        # the module no longer goes through FITPACK's splev / splint: nothing can be recorded, so the comparison with the
        # model (which replays the recorded values) will report itself broken -- the property's own clauses are still decided
        yield evals, splints
        return
    real_splev, real_splint = sp.splev, sp.splint

    def splev(x, tck, der=0):
        v = real_splev(x, tck, der=der)
        if np.ndim(x) == 0 and der == 0:
            evals.append((float(x), float(v)))
        return v

    def splint(a, b, tck):
        v = real_splint(a, b, tck)
        splints.append((float(a), float(b), float(v)))
        return v
    sp.splev, sp.splint = splev, splint
    try:
        yield evals, splints
    finally:
        sp.splev, sp.splint = real_splev, real_splint
