"""C02 — the storm-rise matching is stable, storm-optimal and schedule-independent."""
import copy
import itertools

from . import classify_runner as R
from . import common
from .base_classify import TRUSTED, ASSUME

THEOREMS = [
    "Spowtd.GS.run_reach",
    "Spowtd.GS.run_terminates",
    "Spowtd.GS.gs_matching",
    "Spowtd.GS.gs_stable",
    "Spowtd.GS.gs_stable_scores",
    "Spowtd.GS.gs_storm_optimal",
    "Spowtd.GS.gs_order_independent",
    "Spowtd.GS.riseStrictB_iff",
    "Spowtd.problemOf_wf",
    "Spowtd.problemOf_sorted",
    "Spowtd.candidates_iff_overlap",
]
TRUSTED_BASE = TRUSTED
ASSUMPTIONS = ASSUME
RULE = ("(i) random bipartite candidate graphs (up to 7 storms x 7 rises, integer scores with and without ties) "
        "through classify.find_stable_matching; (ii) random disjoint storm runs and rise runs on an index line through "
        "classify.disambiguate_matching; (iii) records as C01 with dense contention; a case is non-trivial when some "
        "storm or rise has two candidates; distinct by input")


def graph_case(rng):
    if rng.random() < 0.08:
        # tens of storms and rises: another regime of Python's set/dict ordering
        ns, nr = rng.randint(12, 40), rng.randint(12, 40)
        storms = rng.sample(range(0, 5000), ns)
        rises = rng.sample(range(10000, 15000), nr)
        dens = rng.choice([0.1, 0.2, 0.4])
    else:
        ns, nr = rng.randint(1, 7), rng.randint(1, 7)
        storms = rng.sample(range(0, 40), ns)
        rises = rng.sample(range(100, 140), nr)
        dens = rng.choice([0.3, 0.5, 0.8, 1.0])
    ties = rng.random() < 0.3
    cand = {s: [r for r in rises if rng.random() < dens] for s in storms}
    for s in storms:
        rng.shuffle(cand[s])           # worst -> best, as the Python code expects
    prefs = {}
    for r in rises:
        ss = [s for s in storms if r in cand[s]]
        if ss:
            vals = [-rng.randint(0, 3) for _ in ss] if ties else rng.sample(range(-200, 0), len(ss))
            prefs[r] = dict(zip(ss, vals))
    return storms, rises, cand, prefs


def graph_stream(ctx, n):
    common.import_spowtd()
    import spowtd.classify as cm
    ob = "find_stable_matching = model galeShapley (strict rise scores) / satisfies findBlocking = none (ties)"
    for _ in range(n):
        storms, rises, cand, prefs = graph_case(ctx.rng)
        try:
            got = cm.find_stable_matching(copy.deepcopy(cand), copy.deepcopy(prefs))
            M = sorted([r, s] for r, s in got.items())
            err = None
        except Exception as e:  # noqa
            M, err = None, "%s: %s" % (type(e).__name__, e)
        used_rises = sorted(prefs)
        payload = {
            "storms": sorted(storms), "rises": used_rises,
            "prefs": [[s, list(reversed(cand[s]))] for s in sorted(storms)],
            "score": [[r, s, v] for r in used_rises for s, v in prefs[r].items()],
        }
        strict = all(len(set(p.values())) == len(p) for p in prefs.values())
        contention = any(len(p) > 1 for p in prefs.values()) or any(len(c) > 1 for c in cand.values())
        ctx.case(("graph", payload["prefs"], payload["score"]), contention)
        ctx.count("graphs_strict" if strict else "graphs_with_ties")
        inp = {"function": "classify.find_stable_matching", "storm_candidates": {str(k): v for k, v in cand.items()},
               "jump_preferences": {str(r): {str(s): v for s, v in p.items()} for r, p in prefs.items()}}
        if err is not None:
            ctx.obligation(ob, False)
            ctx.violation("impl-violation", "c02Holds", {"input": inp, "impl": err,
                          "oracle": {"name": "c02Holds", "result": False, "witness": {"exception": err}}})
            continue
        # the property's predicate on the implementation's matching (storm score = position in its list)
        sigma = [[s, r, i] for s in storms for i, r in enumerate(cand[s])]
        chk = ctx.driver.call("gs.check", dict(payload, sigma=sigma, M=M))
        model = sorted(ctx.driver.call("gs", dict(payload, pick="first")))
        ok_oracle = chk["matching"] and chk["blocking"] is None
        same = (M == model) or not strict
        if strict and same:
            # "whatever order the storms are considered in": the same problem with the storms entered in
            # another order (another construction order of the pool) must give the same matching
            keys = list(cand)
            ctx.rng.shuffle(keys)
            try:
                again = cm.find_stable_matching({k: list(cand[k]) for k in keys}, copy.deepcopy(prefs))
                same = sorted([r, s2] for r, s2 in again.items()) == M
            except Exception:  # noqa
                same = False
        ctx.obligation(ob, same and ok_oracle)
        if len(ctx.samples) < 2:
            ctx.sample({"graph": inp, "matching": M})
        if not ok_oracle:
            ctx.violation("impl-violation", "c02Holds", {"input": inp, "impl": M, "model": model,
                          "oracle": {"name": "c02Holds", "result": False, "witness": chk}})
        elif not same:
            # strict preferences: the unique storm-optimal stable matching is the model's; a different stable
            # matching is a violation of the property's second sentence
            ctx.violation("impl-violation", "stormOptimal", {"input": inp, "impl": M, "model": model,
                          "oracle": {"name": "stormOptimal", "result": False,
                                     "witness": {"stable_but_not_storm_optimal": M, "storm_optimal": model}}})


def runs_case(rng):
    """disjoint storm runs and disjoint rise runs on 0..L; one side may consist of long runs (hours of
    continuous heavy rain on 1-minute data) while the other has many short ones far apart inside them"""
    shape = rng.choice(["short", "short", "short", "long-storms", "long-rises", "mixed", "mixed"])
    L = rng.randint(4, 24) if shape == "short" else rng.randint(2000, 12000)

    def runs(long):
        out, i = [], rng.randint(0, 2)
        while i < L:
            k = rng.randint(300, 4000) if long else rng.randint(1, 4)
            out.append((i, min(i + k, L)))
            i += k + (rng.randint(1, 3) if (long or shape == "short") else rng.randint(1, 1500))
        return out

    def mixed():
        # short and very long runs next to one another, a step or two apart: a shower just before days of steady rain,
        # a brief rise next to a long one (durations differing by thousands of steps, starts by a few)
        out, i = [], rng.randint(0, 5)
        while i < L:
            k = rng.randint(800, 4000) if rng.random() < 0.3 else rng.randint(1, 8)
            out.append((i, min(i + k, L)))
            i += k + rng.randint(1, 4)
        return out
    if shape == "mixed":
        return mixed(), mixed()
    return runs(shape == "long-storms"), runs(shape == "long-rises")


def cascade_case(rng):
    """a zig-zag of a thousand or more storms and rises in which every storm overlaps the rise before it and the rise
    after it, proposes to the later one first (equal durations, later listed last) and every rise prefers the later storm
    (its start is closer): the last storm, which has only the earlier rise to propose to, displaces its neighbour, which
    displaces its own neighbour, ... back to the first storm -- one displacement chain as long as the record"""
    n = rng.randint(1100, 1700)
    p = rng.choice([9, 10, 11])
    storms = [(p * k, p * k + 7) for k in range(n)]
    rises = [(p * k + 6, p * k + p + 1) for k in range(n - 1)]
    return storms, rises


def cascade_stream(ctx, n):
    """the long displacement chain through classify.disambiguate_matching, judged by a direct stability check (the
    model's quadratic list-based run of the same chain would take longer than the whole check)"""
    common.import_spowtd()
    import spowtd.classify as cm
    ob = "a displacement chain a thousand storms long is arbitrated to a stable matching"
    for _ in range(n):
        storms, rises = cascade_case(ctx.rng)
        cands = [(a, b, c, d) for (c, d) in rises for (a, b) in storms if max(a, c) < min(b, d)]
        rain_iv = [(a, b) for a, b, c, d in cands]
        jump_iv = [(c, d + 1) for a, b, c, d in cands]
        inp = {"function": "classify.disambiguate_matching", "generator": "c02.cascade_case", "storms": len(storms), "period": storms[1][0] - storms[0][0],
               "note": "storms (p k, p k + 7), rises (p k + 6, p k + p + 1), k = 0 .. n-1"}
        ctx.case(("cascade", len(storms), inp["period"]), True)
        try:
            with common.time_limit(120):
                ur, uj = cm.disambiguate_matching(list(rain_iv), list(jump_iv))
            got = [((r[0], r[1]), (j[0], j[1] - 1)) for r, j in zip(ur, uj)]
            err = None
        except BaseException as e:  # noqa  (RecursionError is not an Exception subclass problem, but be safe)
            if isinstance(e, KeyboardInterrupt):
                raise
            got, err = None, "%s: %s" % (type(e).__name__, str(e)[:200])
        wit = None
        if err is not None:
            wit = {"exception": err}
        else:
            ms = {st: ri for st, ri in got}
            mr = {ri: st for st, ri in got}
            if len(ms) != len(got) or len(mr) != len(got) or any(not (max(st[0], ri[0]) < min(st[1], ri[1] + 0) or max(st[0], ri[0]) < min(st[1], ri[1])) for st, ri in got):
                wit = {"why": "not a one-to-one matching of overlapping runs"}
            else:
                for (a, b, c, d) in cands:
                    st, ri = (a, b), (c, d)
                    if ms.get(st) == ri:
                        continue
                    s_better = st not in ms or abs((b - a) - (d - c)) < abs((b - a) - (ms[st][1] - ms[st][0]))
                    r_better = ri not in mr or abs(c - a) < abs(c - mr[ri][0])
                    if s_better and r_better:
                        wit = {"why": "blocking pair", "storm": list(st), "rise": list(ri)}
                        break
        ctx.obligation(ob, wit is None)
        if wit is not None:
            ctx.violation("impl-violation", "c02Holds", {"input": inp, "impl": err or (got[:3] if got else None),
                          "oracle": {"name": "c02Holds", "result": False, "witness": wit}})


def long_storm_case(rng):
    """one wet spell of a million steps or more (a season of one-second data, or rain that never quite stops above a low
    threshold) with short rises far apart in it: preferences are decided by durations that differ by one step while the
    positions differ by millions"""
    n = rng.randint(1_200_000, 4_000_000)
    length = rng.randint(3, 40)
    a = rng.randint(0, 1000)
    b = rng.randint(n - 50_000, n - 100)
    rises = [(a, a + length), (b, b + length - rng.choice([1, 1, 2]))]
    if rng.random() < 0.5:
        rises.insert(1, (n // 2, n // 2 + length - rng.choice([1, 3])))
    return [(0, n)], rises


def disamb_stream(ctx, n, cases=None):
    common.import_spowtd()
    import spowtd.classify as cm
    ob = "disambiguate_matching = model problemOf + galeShapley on overlapping runs"
    for storms, rises in (cases if cases is not None else (runs_case(ctx.rng) for _ in range(n))):
        # order as produced by match_storms: rises ascending; the storms of one rise come out of a Python
        # set, i.e. in arbitrary order
        cands = []
        for (c, d) in rises:
            ss = [(a, b) for (a, b) in storms if max(a, c) < min(b, d)]
            ctx.rng.shuffle(ss)
            cands += [(a, b, c, d) for (a, b) in ss]
        if not cands:
            continue
        # python's conventions: rain (start, stop); jump (start, stop) holds stop-start head values
        rain_iv = [(a, b) for a, b, c, d in cands]
        jump_iv = [(c, d + 1) for a, b, c, d in cands]
        inp = {"function": "classify.disambiguate_matching", "rain_intervals": rain_iv, "jump_intervals": jump_iv}
        try:
            ur, uj = cm.disambiguate_matching(list(rain_iv), list(jump_iv))
            got = sorted([[list(r), [j[0], j[1] - 1]] for r, j in zip(ur, uj)])
            err = None
        except Exception as e:  # noqa
            got, err = None, "%s: %s" % (type(e).__name__, e)
        m = ctx.driver.call("disamb", {"storms": [list(x) for x in storms], "rises": [list(x) for x in rises], "pick": "first"})
        model = sorted([[list(p[0]), list(p[1])] for p in m["pairs"]])
        ns = len({c[0] for c in cands})
        nr = len({c[2] for c in cands})
        ctx.case(("disamb", tuple(storms), tuple(rises)), len(cands) > min(ns, nr))
        ctx.count("disamb_strict" if m["strict"] else "disamb_with_ties")
        if err is not None:
            ctx.obligation(ob, False)
            ctx.violation("impl-violation", "c02Holds", {"input": inp, "impl": err,
                          "oracle": {"name": "c02Holds", "result": False, "witness": {"exception": err}}})
            continue
        # stability under the true durations / offsets
        S = sorted({c[0] for c in cands})
        Rr = sorted({c[2] for c in cands})
        payload = {"storms": S, "rises": Rr,
                   "prefs": [[a, [c for a2, b, c, d in cands if a2 == a]] for a in S],
                   "score": [[c, a, -abs(c - a)] for a, b, c, d in cands],
                   "sigma": [[a, c, -abs((b - a) - (d - c))] for a, b, c, d in cands],
                   "M": [[p[1][0], p[0][0]] for p in got]}
        chk = ctx.driver.call("gs.check", payload)
        ok_oracle = chk["matching"] and chk["blocking"] is None
        same = got == model or not m["strict"]
        ctx.obligation(ob, same and ok_oracle)
        if not ok_oracle:
            ctx.violation("impl-violation", "c02Holds", {"input": inp, "impl": got, "model": model,
                          "oracle": {"name": "c02Holds", "result": False, "witness": chk}})
        elif not same:
            ctx.violation("impl-violation", "stormOptimal", {"input": inp, "impl": got, "model": model,
                          "oracle": {"name": "stormOptimal", "result": False,
                                     "witness": {"stable_but_not_storm_optimal": got, "storm_optimal": model}}})


def run(ctx):
    if ctx.tier == "quick":
        graph_stream(ctx, 1500)
        disamb_stream(ctx, 1500)
        cascade_stream(ctx, 1)
        disamb_stream(ctx, 0, cases=[long_storm_case(ctx.rng) for _ in range(4)])
        R.run_records(ctx, "C02", 200, field=1)
    else:
        graph_stream(ctx, 40000)
        disamb_stream(ctx, 40000)
        cascade_stream(ctx, 5)
        disamb_stream(ctx, 0, cases=[long_storm_case(ctx.rng) for _ in range(40)])
        R.run_records(ctx, "C02", 1500, exhaustive_n=4, field=8)


def replay(ctx, doc):
    inp = doc.get("input", {})
    if inp.get("function") == "classify.find_stable_matching":
        common.import_spowtd()
        import spowtd.classify as cm
        cand = {int(k): v for k, v in inp["storm_candidates"].items()}
        prefs = {int(r): {int(s): v for s, v in p.items()} for r, p in inp["jump_preferences"].items()}
        try:
            got = cm.find_stable_matching(copy.deepcopy(cand), copy.deepcopy(prefs))
        except Exception as e:  # noqa
            print("impl raised", repr(e))
            return False
        M = sorted([r, s] for r, s in got.items())
        payload = {"storms": sorted(cand), "rises": sorted(prefs),
                   "prefs": [[s, list(reversed(cand[s]))] for s in sorted(cand)],
                   "score": [[r, s, v] for r in sorted(prefs) for s, v in prefs[r].items()],
                   "sigma": [[s, r, i] for s in cand for i, r in enumerate(cand[s])], "M": M}
        chk = ctx.driver.call("gs.check", payload)
        model = sorted(ctx.driver.call("gs", dict(payload, pick="first")))
        strict = all(len(set(p.values())) == len(p) for p in prefs.values())
        print("impl:", M, "model:", model, "check:", chk)
        return chk["matching"] and chk["blocking"] is None and (M == model or not strict)
    if inp.get("function") == "classify.disambiguate_matching":
        common.import_spowtd()
        import spowtd.classify as cm
        try:
            ur, uj = cm.disambiguate_matching([tuple(x) for x in inp["rain_intervals"]], [tuple(x) for x in inp["jump_intervals"]])
        except Exception as e:  # noqa
            print("impl raised", repr(e))
            return False
        print("impl:", list(zip(ur, uj)), "expected (model):", doc.get("model"))
        got = sorted([[list(r), [j[0], j[1] - 1]] for r, j in zip(ur, uj)])
        return got == doc.get("model")
    return R.replay_record(ctx, "C02", doc)
