"""C18 — the simulated recession curve obeys the water-balance equation."""
import warnings

import numpy as np
import yaml

from . import classification as C
from . import cli, common, sim
from . import pipeline as P
from .common import Fraction, f2h, h2f

THEOREMS = [
    "Spowtd.integrand_negative",
    "Spowtd.recession_cells_additive",
    "Spowtd.recession_cells_negative",
    "Spowtd.zero_curvature_water_balance",
    "Spowtd.curve_difference",
    "Spowtd.curve_mean",
    "Spowtd.curve_monotone",
    "Spowtd.curve_reversal",
    "Spowtd.meanET_single",
    "Spowtd.meanET_constant",
    "Spowtd.tables_layout",
]
TRUSTED_BASE = [
    "Lean 4.33 kernel; axioms propext, Classical.choice, Quot.sound only (audited per theorem on every run)",
    "QUADPACK quad: the per-cell integrals are the values quad returned during the real call; the cumulative sum is "
    "compared with the model at Float; an independent quad of the integrand (1e-6) is the oracle for the property's "
    "own clause",
    "SQLite avg over the evapotranspiration join, compared with the model meanET over Rat (1e-9)",
    "PyYAML dump/load of the output",
    "translator tools/gen_formulas.py: the arithmetic of the named source functions (an expression, or a whole body of assignments, if and return) as Python's own `ast` parses it -> Lean terms over the carrier class in lean/FormulaTie/Gen*.lean; that each is the model's definition is re-checked by `rfl` / a short unfolding on every run (lean/FormulaTie/*.lean)",
]
SQL_TIE = ('simulate_recession',)
FORMULA_TIE = ('Simulate', 'Peatclsm', 'Spline')
ASSUMPTIONS = ["ET >= 0 and curvature >= 0, not both zero; specific yield and transmissivity positive on the grid; "
               "grid below the transmissivity ceiling (highest spline knot / zeta_max)"]
RULE = ("parameter sets of both kinds x (ET, curvature) including zero ET and zero curvature x increasing grids, through "
        "simulate_recession.compute_recession_curve; `spowtd simulate recession` with and without --observations on "
        "planted datasets with time-varying ET; non-trivial = grid of at least 3 levels; distinct by input")


def t_md(params, T):
    if params["transmissivity"]["type"] == "peatclsm":
        return lambda z: T(z) * 24 * 3600
    return T


CURVES = [0]


def knots_of(sy, params):
    """levels at which the specific yield or the transmissivity has a kink"""
    out = []
    zk = getattr(sy, "zeta_knots_mm", None)
    if zk is not None:
        out += [float(v) for v in zk]
    out += [float(v) for v in params["specific_yield"].get("zeta_knots_mm", [])]
    out += [float(v) for v in params["transmissivity"].get("zeta_knots_mm", [])]
    return out


def check_curve(ctx, params, grid, mean, kappa, et, inp):
    import scipy.integrate as si
    import spowtd.simulate_recession as srm
    import spowtd.simulate_rise as sr
    sy, T = sim.make_functions(params)
    Td = t_md(params, T)
    from . import c17
    if not c17.check_sy_is_the_parameter_sets(ctx, sy, params, grid, inp, oracle="c18Holds", what="the simulated elapsed time"):
        return [float(v) for v in srm.compute_recession_curve(sy, Td, np.array(grid, dtype=float), mean, kappa, et)]
    ob = "compute_recession_curve = model riseCurve at Float on the recorded quad values"
    g = common.any_layout(ctx.rng, np.array(grid, dtype=float))
    CURVES[0] += 1
    if g.dtype.kind == "f" and CURVES[0] % 4 == 1:        # every fourth curve
        # levels read from a single-precision file (netCDF / HDF loggers): the curve is owed on THOSE levels, exactly
        g = g.astype(np.float32)
        grid = [float(v) for v in g]
        inp = dict(inp, grid=grid, grid_dtype="float32")
        ctx.count("grids_in_single_precision")
    snap_g = common.snapshot(g)
    try:
        with sim.record_quad() as calls:
            sim.dirty_heap(ctx.rng, len(g))
            with common.time_limit(120):       # (a curve takes a second or two)
                t = [float(v) for v in srm.compute_recession_curve(sy, Td, g, mean, kappa, et)]
    except Exception as e:  # noqa
        ctx.violation("impl-violation", "c18Holds", {"input": dict(inp, grid_layout={"dtype": str(g.dtype), "strides": list(g.strides)}),
                      "impl": repr(e)[:300], "oracle": {"name": "c18Holds", "result": False, "witness": {
                          "why": "compute_recession_curve raises on an increasing grid of levels below the ceiling", "exception": repr(e)[:300]}}})
        return [float("nan")] * len(grid)
    if not common.same_as_snapshot(g, snap_g) or len(t) != len(grid):
        ctx.violation("impl-violation", "c18Holds", {"input": inp, "impl": [float(v) for v in g], "oracle": {
            "name": "c18Holds", "result": False,
            "witness": {"why": "the caller's grid of levels was modified by compute_recession_curve, or the curve has another length",
                        "levels": len(grid), "values": len(t)}}})
        return t
    cells = [c for c in calls if any(c[0] == a and c[1] == b for a, b in zip(grid, grid[1:]))]
    m = ctx.driver.call("curve.f", {"grid": [f2h(x) for x in grid], "cells": [f2h(c[2]) for c in cells], "mean": f2h(mean)})
    cur = [h2f(v) for v in m["curve"]]
    tol = 64 * 2.3e-16 * max(1.0, max(abs(v) for v in t + [mean]))
    same = len(cells) == len(grid) - 1 and len(cur) == len(t) and all(abs(a - b) <= tol for a, b in zip(t, cur))
    ctx.obligation(ob, same)
    wit = None
    n = len(grid)

    # transmissivity for the oracle: NOT the implementation's object but the closed form proved in C15 (spline) or the
    # formula of C16 (PEATCLSM), so that a defect of the transmissivity shows here as a broken water balance
    trp = params["transmissivity"]
    if trp["type"] == "spline":
        from .c15 import closed_form_decimal
        zk, kk, tmin_ = [float(v) for v in trp["zeta_knots_mm"]], [float(v) for v in trp["K_knots_km_d"]], float(trp["minimum_transmissivity_m2_d"])

        def T_ref(z):
            return closed_form_decimal(zk, kk, tmin_, float(z))
    else:
        def T_ref(z):
            return float(trp["Ksmacz0"]) * (float(trp["zeta_max_cm"]) - float(z) / 10.0) ** (1.0 - float(trp["alpha"])) / (
                100.0 * (float(trp["alpha"]) - 1.0)) * 86400.0

    def f(z):
        return float(sy(z)) / (-et - kappa * T_ref(z))
    for _ in range((2 if n < 10 else 5) if n >= 2 else 0):
        i, j = sorted(ctx.rng.sample(range(n), 2))
        # the reference integral is broken at every knot of either function: across the kinks of a spline QUADPACK's
        # error estimate is not to be trusted (a first version without break points was off by 5e-6 on a PEATCLSM
        # specific yield of 201 knots, and raised an alarm on the unchanged tree in a thorough run)
        kn = sorted({float(k) for k in knots_of(sy, params) if grid[i] < float(k) < grid[j]})
        direct = si.quad(f, grid[i], grid[j], limit=max(200, 4 * len(kn) + 50), points=kn or None)[0]
        # 2e-5 relative: the tool integrates each grid cell with one adaptive QUADPACK call and no break points; over a wide
        # cell of a piecewise-linear specific yield (PEATCLSM: a kink every 10 mm) its result is good to a few 1e-6
        # (worst seen on the unchanged tree in thorough runs: 5e-6), which is the accuracy of the method, not a defect of
        # the logic; every seeded change of the recession curve so far is off by 1e-4 or more
        if abs((t[j] - t[i]) - direct) > 2e-5 * max(1e-9, abs(direct)) + 1e-12:
            wit = {"why": "elapsed-time difference is not the integral of Sy / (-ET - curvature * T)",
                   "levels": [grid[i], grid[j]], "difference": t[j] - t[i], "integral": direct}
    if wit is None and abs(float(np.mean(t)) - mean) > 1e-9 * max(1.0, abs(mean), max(abs(v) for v in t)):
        wit = {"why": "mean of the curve is not the requested mean"}
    # "time increases as the level falls" presupposes a positive specific yield: a cubic through sparse knots may dip
    # below zero between them, and then the water-balance integral (signed) is what the property states
    sy_positive = min(float(sy(z)) for z in np.linspace(min(grid), max(grid), 300)) > 0.0
    if not sy_positive:
        ctx.count("curves_with_specific_yield_dipping_below_zero")
    if wit is None and sy_positive and any(b >= a for a, b in zip(t, t[1:])):
        wit = {"why": "elapsed time does not increase as the level falls", "curve": t[:6]}
    if wit is None and n >= 2:
        with warnings.catch_warnings():
            warnings.simplefilter("ignore")
            t_rev = [float(v) for v in srm.compute_recession_curve(sy, Td, g[::-1].copy(), mean, kappa, et)][::-1]
        if max(abs(a - b) for a, b in zip(t, t_rev)) > 1e-7 * max(1.0, max(abs(v) for v in t)):
            wit = {"why": "reversing the grid changes the values at shared levels", "forward": t[:4], "reversed": t_rev[:4]}
    if wit is None and kappa == 0.0 and n >= 2:
        W = [float(v) for v in sr.compute_rise_curve(sy, g, 0.0)]
        i, j = 0, n - 1
        if abs((t[j] - t[i]) * et + (W[j] - W[i])) > 1e-6 * max(1.0, abs(W[j] - W[i])):
            wit = {"why": "with zero curvature elapsed time x ET is not the storage released",
                   "time_x_et": (t[j] - t[i]) * et, "storage": W[j] - W[i]}
    if wit is not None:
        ctx.violation("impl-violation", "c18Holds", {"input": inp, "impl": t, "model": cur,
                      "oracle": {"name": "c18Holds", "result": False, "witness": wit}})
    elif not same:
        ctx.corr_break(ob, {"input": inp, "impl": t, "model": cur, "recorded_cells": cells})
    return t


def run(ctx):
    common.import_spowtd()
    warnings.simplefilter("ignore")
    rng = ctx.rng
    nsets, ncli = (9, 10) if ctx.tier == "quick" else (150, 80)
    n_cli_done = 0
    sweep = None
    for k in range(nsets):
        params = sim.spline_params(rng, -300.0, 100.0) if k % 3 else sim.peatclsm_params(rng, 100.0)
        if k % 6 == 0:
            sweep = params
        elif k % 6 == 3 and sweep is not None:
            # a sensitivity sweep in one session: the soil of an earlier set, another microtopography
            params = {"specific_yield": dict(sweep["specific_yield"], sd=round(rng.uniform(0.05, 1.0), 3)),
                      "transmissivity": dict(sweep["transmissivity"])}
        if k % 3 == 2:
            # any parameter values: a specific yield whose cubic undershoots below zero between sparse knots
            params = sim.spline_params(rng, -300.0, 100.0, n_sy=rng.randint(6, 9), oscillating=True)
        if params["transmissivity"]["type"] == "spline":
            tk = params["transmissivity"]["zeta_knots_mm"]
            lo, hi = -330.0, min(tk[-1] - 0.5, 130.0)
        else:
            lo, hi = -330.0, params["transmissivity"]["zeta_max_cm"] * 10 - 1.0
        n = rng.randint(3, 8) if k % 3 != 2 else rng.randint(12, 20)
        grid = sorted({round(rng.uniform(lo, hi), 1) for _ in range(n)})
        if rng.random() < 0.3 and int(lo) + 3 < int(hi):
            grid = sorted({float(rng.randint(int(lo) + 1, int(hi) - 1)) for _ in range(n)})        # levels in whole millimetres
        if len(grid) < 3:
            continue
        kappa, et = rng.choice([(0.0, 3.5), (1.5e-3, 0.0), (1.5e-3, 4.0), (2e-4, 1.0)])
        if k % 6 == 4 and params["transmissivity"]["type"] == "spline" and len(params["transmissivity"]["K_knots_km_d"]) >= 3:
            # neighbouring conductivities driven together by a calibration, nearly but not exactly equal (a closed form
            # with log K differences cancels catastrophically there); the grid reaches above that layer
            kk = params["transmissivity"]["K_knots_km_d"]
            q_ = 0          # the lowest layer: every level above its upper knot inherits the error
            kk[q_ + 1] = float(kk[q_]) * (1.0 + rng.choice([3e-14, 1e-13, -5e-14]))
            ctx.count("parameter_sets_with_nearly_equal_neighbouring_conductivities")
        if k % 3 == 1 and params["transmissivity"]["type"] == "spline":
            # the grid reaches the lowest conductivity knot and below it (where transmissivity IS the stated minimum), the
            # minimum typed as a whole number (`minimum_transmissivity_m2_d: 2` is an int after yaml.safe_load), and the
            # curvature term large enough to matter
            tk0 = float(params["transmissivity"]["zeta_knots_mm"][0])
            params["transmissivity"]["minimum_transmissivity_m2_d"] = rng.randint(1, 9)
            grid = sorted(set(z for z in grid if z > tk0) | {tk0 - 25.0, tk0 - 3.0, tk0})
            kappa, et = rng.choice([(1.5e-3, 0.0), (1.5e-3, 0.5), (1.0e-2, 1.0)])
            ctx.count("grids_reaching_below_the_lowest_conductivity_knot_with_an_integer_minimum")
        mean = rng.uniform(0, 30)
        ctx.case(("c18", str(params), tuple(grid), kappa, et), True)
        check_curve(ctx, params, grid, mean, kappa, et,
                    {"parameters": params, "grid": grid, "mean": mean, "curvature_km": kappa, "et_mm_d": et})
    ob_cli = "`spowtd simulate recession`: ET = model meanET, rows highest to lowest in mm with measured and simulated time"
    for _ in range(ncli):
        tr = P.gen_truth(rng, noise=rng.choice([0.0, 0.4]))
        if rng.random() < 0.7:
            tr.add_stray(rng)       # an interstorm interval that is not part of the master curve, with other ET
        zstep = rng.choice([1.0, 0.5, 2.0])
        w = P.run_workflow(ctx, tr.rows(), tr.s, tr.j, zstep, keep_db=True)
        if w["status"].get("recession", ("x",))[0] != "ok":
            P.cleanup(w)
            continue
        curv = rng.choice([0.0, 1.5, 0.4])
        rc = cli.run(["set-curvature", w["db"], repr(curv)])
        t = cli.dump(w["db"])
        if rc[0] != "ok" or [list(r) for r in (t.get("curvature") or [])] != [[curv]]:
            ctx.corr_break(ob_cli, {"input": {"truth": tr.describe(), "zeta_step": zstep, "curvature_m_km2": curv},
                                    "impl": {"set-curvature": list(rc), "curvature": t.get("curvature")},
                                    "no_longer_checks": "`set-curvature` stores the curvature it is given"})
            P.cleanup(w)
            continue
        view = t["average_recession_time"]
        levels = [r[0] for r in view]
        # (spline transmissivity costs a nested quad per evaluation: one CLI case in three)
        params = sim.spline_params(rng, min(levels), max(levels)) if _ % 3 == 0 else sim.peatclsm_params(rng, max(levels))
        if _ % 3 == 2:
            params = sim.mixed_params(rng, min(levels), max(levels))
        inp = {"truth": tr.describe(), "zeta_step": zstep, "parameters": params, "curvature_m_km2": curv}
        # capture the ET the command actually uses
        import spowtd.simulate_recession as srm
        used = {}
        real = srm.compute_recession_curve

        def spy(**kw):
            used.update(kw)
            return real(**kw)
        srm.compute_recession_curve = spy
        try:
            r1, text1 = sim.simulate_cli(ctx, "recession", w["db"], params, False)
            r2, text2 = sim.simulate_cli(ctx, "recession", w["db"], params, True)
        finally:
            srm.compute_recession_curve = real
        P.cleanup(w)
        ctx.case(("c18-cli", tr.describe(), str(params), curv), len(levels) >= 3)
        n_cli_done += 1
        if r1[0] != "ok" or r2[0] != "ok":
            ctx.violation("impl-violation", "c18Holds", {"input": inp, "impl": [list(r1), list(r2)], "oracle": {
                "name": "c18Holds", "result": False, "witness": {"why": "simulate recession failed", "status": [list(r1), list(r2)]}}})
            continue
        # ET: time-average over all time steps of the recession intervals of the master curve
        im = C.impl_tables(t)
        inter = dict((a, b) for a, b in im["interstorms"])
        if not t["recession_interval"] or any(int(r[0]) not in inter for r in t["recession_interval"]):
            ctx.violation("impl-violation", "c18Holds", {"input": inp, "impl": t["recession_interval"][:5], "oracle": {
                "name": "c18Holds", "result": False,
                "witness": {"why": "the intervals of the recession curve are not interstorm intervals of the dataset"}}})
            continue
        ivs = [[int(r[0]), inter[int(r[0])]] for r in t["recession_interval"]]
        if len(inter) > len(ivs):
            ctx.count("datasets_with_interstorm_intervals_outside_the_master_curve")
        met = Fraction(ctx.driver.call("meanet.q", {"db": P.db_payload_q(t), "intervals": ivs}))
        vals = [Fraction(x[2]) for a, b in ivs for x in t["evapotranspiration"] if a <= x[0] < b]
        own = sum(vals) / len(vals) * 24
        et_used = used.get("et_mm_d")
        table, bad1 = sim.parse_table(text1)
        vector, bad2 = sim.parse_vector(text2)
        if bad1 or bad2:
            ctx.violation("impl-violation", "c18Holds", {"input": inp, "impl": {"table": text1[:400], "vector": text2[:200]}, "oracle": {
                "name": "c18Holds", "result": False,
                "witness": {"why": "the output of `simulate recession` is not the table / vector of the curve: " + (bad1 or bad2)}}})
            continue
        rows = table[1:]
        measured_d = [r[1] / 86400.0 for r in view]
        wit = None
        if et_used is None or abs(Fraction(et_used) - own) > Fraction(1, 10**9) * max(1, own):
            wit = {"why": "ET used is not the time-average over all time steps of the recession intervals of the master curve",
                   "used_mm_d": et_used, "average_mm_d": float(own)}
        elif table[0] != ["Water level, mm", "Measured elapsed time, d", "Simulated elapsed time, d"]:
            wit = {"why": "header", "got": table[0]}
        elif any(abs(a - b) > 1e-9 * max(1.0, abs(b)) for a, b in zip([r[0] for r in rows], levels[::-1])) or len(rows) != len(levels):
            wit = {"why": "rows do not list each level in mm from highest to lowest", "got": [r[0] for r in rows][:5],
                   "master_curve_mm": levels[::-1][:5]}
        elif any(abs(a - b) > 1e-9 * max(1.0, abs(b)) for a, b in zip([r[1] for r in rows], measured_d[::-1])):
            wit = {"why": "measured column is not the master curve in days"}
        elif vector != [r[2] for r in rows]:
            wit = {"why": "--observations vector differs from the simulated column (order highest to lowest)"}
        elif not text2.startswith("# Recession curve simulation vector\n"):
            wit = {"why": "--observations output lacks its marker line"}
        elif (len(used.get("zeta_grid_mm", [])) != len(levels)
              or any(abs(float(a) - b) > 1e-9 * max(1.0, abs(b)) for a, b in zip(used["zeta_grid_mm"], levels))
              and any(abs(float(a) - b) > 1e-9 * max(1.0, abs(b)) for a, b in zip(used["zeta_grid_mm"], levels[::-1]))):
            wit = {"why": "the grid on which the curve is computed is not the levels of the master curve in mm",
                   "grid": [float(z) for z in used.get("zeta_grid_mm", [])][:5], "master_curve_mm": levels[:5]}
        else:
            tsim = check_curve(ctx, params, [float(z) for z in used["zeta_grid_mm"]], float(used["mean_elapsed_time_d"]),
                               float(used["curvature_km"]), float(et_used), dict(inp, via="levels of the measured master curve"))
            if any(abs(a - b) > 1e-9 * max(1.0, abs(b)) for a, b in zip([r[2] for r in rows], tsim[::-1])):
                wit = {"why": "simulated column is not the recession curve on those levels"}
            elif abs(float(used["curvature_km"]) - curv * 1e-3) > 1e-15 or abs(float(used["mean_elapsed_time_d"]) - float(np.mean(measured_d))) > 1e-9:
                wit = {"why": "curvature or mean passed to the curve differ from the dataset's"}
            else:
                # the unit conversions, bit for bit against the model's (Simulate.lean: curvatureKm, levelMm, perDay — the
                # definitions lean/FormulaTie/Simulate.lean ties to the source text)
                trp = params["transmissivity"]
                peat = trp["type"] == "peatclsm"
                probe = [float(z) for z in used["zeta_grid_mm"]][:6]
                mu = ctx.driver.call("units.f", {
                    "curvature_m_km2": f2h(float(curv)), "zeta_cm": [f2h(float(z) / 10) for z in levels],
                    "Ksmacz0": f2h(float(trp["Ksmacz0"]) if peat else 1.0), "alpha": f2h(float(trp["alpha"]) if peat else 2.0),
                    "zeta_max_cm": f2h(float(trp["zeta_max_cm"]) if peat else 1e6), "zs": [f2h(z) for z in probe]})
                ctx.count("unit_conversions_compared_with_the_model")
                same_units = h2f(mu["curvature_km"]) == float(used["curvature_km"]) and \
                    [h2f(v) for v in mu["grid_mm"]] == [float(z) for z in used["zeta_grid_mm"]]
                if same_units and peat:
                    Tpd = used["transmissivity_m2_d"]
                    for z, mv in zip(probe, mu["per_day"]):
                        try:
                            g = float(Tpd(z))
                        except ValueError:
                            g = "refused"
                        if (mv == "refused") != (g == "refused") or (g != "refused" and abs(g - h2f(mv)) > 1e-12 * abs(h2f(mv))):
                            same_units = False
                if not same_units:
                    ctx.corr_break(ob_cli, {"input": inp, "impl": {"curvature_km": float(used["curvature_km"]),
                                                                    "grid_mm": [float(z) for z in used["zeta_grid_mm"]][:6]},
                                            "model": {"curvature_km": h2f(mu["curvature_km"]), "grid_mm": [h2f(v) for v in mu["grid_mm"]][:6]},
                                            "no_longer_checks": "the unit conversions of `simulate recession` are the model's (curvatureKm, levelMm, perDay)"})
        ctx.obligation(ob_cli, wit is None and abs(met - own) <= Fraction(1, 10**12) * max(1, own))
        if len(ctx.samples) < 2:
            ctx.sample({"et_used_mm_d": et_used, "rows": rows[:3]})
        if wit is not None:
            ctx.violation("impl-violation", "c18Holds", {"input": inp, "impl": rows[:5],
                          "oracle": {"name": "c18Holds", "result": False, "witness": wit}})
    if n_cli_done == 0:
        ctx.corr_break(ob_cli, {"input": None, "no_longer_checks": "no planted dataset got as far as `simulate recession` "
                                "(load / classify / set-zeta-grid / recession fail on every one)"})


def replay(ctx, doc):
    common.import_spowtd()
    inp = doc["input"]
    if "grid" in inp:
        before = len(ctx.violations)
        check_curve(ctx, inp["parameters"], inp["grid"], inp["mean"], inp["curvature_km"], inp["et_mm_d"], inp)
        return len(ctx.violations) == before
    return None   # re-run the stream with the recorded seed (check.py does it)
