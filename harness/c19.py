"""C19 — calibration files and simulation output describe the same problem."""
import re
import warnings

import yaml

from . import cli, common, sim
from . import pipeline as P

THEOREMS = [
    "Spowtd.Pest.declared_counts_match",
    "Spowtd.Pest.parameter_counts",
    "Spowtd.Pest.rise_param_names_eq_placeholders",
    "Spowtd.Pest.curves_param_names_eq_placeholders",
    "Spowtd.Pest.obs_k_aligned",
    "Spowtd.Pest.ins_reads_line_k",
    "Spowtd.Pest.ins_reads_both",
    "Spowtd.Pest.extract_lossless_iff",
    "Spowtd.Pest.fill_template",
]
TRUSTED_BASE = [
    "Lean 4.33 kernel; axioms propext, Classical.choice, Quot.sound only (audited per theorem on every run)",
    "the model of the six generated files (Model/Pest.lean) is structural: numbers enter as already formatted strings; "
    "that '{:0.17g}' and PyYAML's float representation read back as the identical double is checked by execution on "
    "every value of every run, not proved",
    "PEST's reading of instruction files (marker search, 'l1', fixed columns) as modelled by runIns; PEST's case folding of names",
    "PyYAML load of the template filled with the original values",
    "translator tools/gen_schema.py: spowtd/schema.sql as parsed by SQLite itself (PRAGMA table_info / index_list / "
    "foreign_key_list; CHECK clauses and view bodies cut from the stored CREATE text) -> lean/SchemaTie/Generated.lean; "
    "the declarations the proofs assume are re-checked by `rfl` on every run (SchemaTie/Curves.lean)",
]
SCHEMA_TIE = ('Curves',)
SQL_TIE = ('pestfiles', 'simulate_rise', 'simulate_recession')
ASSUMPTIONS = ["both functions use the same parameterisation (spline/spline or peatclsm/peatclsm), as in the shipped parameter files",
               "the curves observation file is the rise vector output followed by the recession vector output"]
RULE = ("planted datasets with varying numbers of rise and recession levels (tens to hundreds; one dataset per quick run "
        "with more than 10,000 of each) x both parameterisations x 4-8 / 2-6 knots: "
        "`spowtd pestfiles rise|curves ... tpl|ins|pst` compared line by line with the model; header counts, parameter "
        "names against placeholders, k-th observation against the measured master curve (exact read-back) and against "
        "the k-th instruction, the instruction file run (model runIns) on the real `simulate --observations` output, the "
        "template filled with the original values; non-trivial = every dataset x parameterisation; distinct by input")


def pestfile(ctx, kind, db, params, typ):
    pfile = ctx.scratch("pp.yml")
    with open(pfile, "w") as fh:
        yaml.safe_dump(params, fh)
    out = ctx.scratch("pest.out")
    if ctx.rng.random() < 0.2:
        import contextlib
        import io
        buf = io.StringIO()
        with contextlib.redirect_stdout(buf):
            r = cli.run(["pestfiles", kind, db, pfile, typ])
        ctx.count("pestfiles_to_stdout")
        return r, buf.getvalue()
    r = cli.run(["pestfiles", kind, db, pfile, typ, "-o", out])
    import gc
    gc.collect()
    try:
        with open(out) as fh:
            text = fh.read()
    except OSError:
        text = ""
    return r, text


def model_payload(params, rise_obs, rec_obs):
    syp, trp = params["specific_yield"], params["transmissivity"]
    sy = {"type": syp["type"]}
    if syp["type"] == "spline":
        sy.update(zeta_knots=[str(v) for v in syp["zeta_knots_mm"]], n=len(syp["sy_knots"]))
    tr = {"type": trp["type"]}
    if trp["type"] == "spline":
        tr.update(zeta_knots=[str(v) for v in trp["zeta_knots_mm"]], K_knots=[str(v) for v in trp["K_knots_km_d"]],
                  tmin=str(trp["minimum_transmissivity_m2_d"]))
    else:
        tr.update(Ksmacz0=str(trp["Ksmacz0"]), alpha=str(trp["alpha"]), zeta_max_cm=str(trp["zeta_max_cm"]))
    return {"sy": sy, "tr": tr, "rise_obs": rise_obs, "recession_obs": rec_obs}


def parse_pst(lines):
    sec, cur = {}, None
    for ln in lines:
        if ln.startswith("* "):
            cur = ln[2:]
            sec[cur] = []
        elif cur:
            sec[cur].append(ln)
    hdr = [int(x) for x in sec["control data"][1].split()]
    return {"npar": hdr[0], "nobs": hdr[1], "npargp": hdr[2], "nobsgp": hdr[4], "sections": sec}


def dataset_checks(ctx, tr, zstep, w, params_list, simulate=True):
    rng = ctx.rng
    ob_files = "six generated PEST files = model (Model/Pest.lean) line by line"
    ob_ins = "instruction file run on the real simulate output (model runIns) returns the simulator's own vector"
    t = w["tables"]
    rise_view = t["average_rising_depth"]
    rec_view = sorted(t["average_recession_time"], reverse=True)
    rise_vals = [r[1] for r in rise_view]
    rec_vals = [r[1] / 86400.0 for r in rec_view]
    levels = [r[0] for r in rise_view] + [r[0] for r in rec_view]
    for params in params_list:
            inp = {"truth": tr.describe(), "zeta_step": zstep, "parameters": params}
            ctx.case(("c19", tr.describe(), str(params)), True)
            files, status = {}, {}
            for kind in ("rise", "curves"):
                for typ in ("tpl", "ins", "pst"):
                    status[kind, typ], files[kind, typ] = pestfile(ctx, kind, w["db"], params, typ)
            if any(s[0] != "ok" for s in status.values()):
                ctx.violation("impl-violation", "c19Holds", {"input": inp, "impl": {"%s %s" % k: list(v) for k, v in status.items()},
                              "oracle": {"name": "c19Holds", "result": False, "witness": {"why": "pestfiles failed"}}})
                continue
            # observation values as the tool prints them
            fmt = lambda v: "{:0.17g}".format(v)  # noqa
            m = ctx.driver.call("pest", model_payload(params, [fmt(v) for v in rise_vals], [fmt(v) for v in rec_vals]))
            diffs = [k for k in files if files[k].split("\n") != m["%s_%s" % k]]
            ctx.obligation(ob_files, not diffs)
            wit = None
            # ---- the property's clauses on the files themselves
            for kind in ("rise", "curves"):
                try:
                    pst = parse_pst(files[kind, "pst"].split("\n"))
                    sec = pst["sections"]
                    names = [ln.split()[0] for ln in sec["parameter data"]]
                    obs = [ln.split() for ln in sec["observation data"]]
                    if any(len(o) != 4 for o in obs):
                        raise ValueError("an observation line does not hold name, value, weight, group: %r" % next(o for o in obs if len(o) != 4))
                    [float(o[1]) for o in obs]
                    sec["parameter groups"], sec["observation groups"]
                except (KeyError, IndexError, ValueError) as e:
                    wit = {"why": "the control file cannot be read as a PEST control file", "file": kind + " pst", "error": repr(e)[:200]}
                    break
                ph = [x.strip() for ln in files[kind, "tpl"].split("\n")[1:] for x in re.findall(r"@([^@]*)@", ln)]
                ins = re.findall(r"\[(\w+)\]3:24", files[kind, "ins"])
                want_vals = rise_vals if kind == "rise" else rise_vals + rec_vals
                if (pst["npar"], pst["nobs"], pst["npargp"], pst["nobsgp"]) != (
                        len(names), len(obs), len(sec["parameter groups"]), len(sec["observation groups"])):
                    wit = {"why": "declared counts differ from the parameter / observation lines", "file": kind + " pst"}
                elif [x.lower() for x in names] != [x.lower() for x in ph]:
                    wit = {"why": "control-file parameter names are not the template's placeholders", "file": kind,
                           "names": names, "placeholders": ph}
                elif [o[0] for o in obs] != ins:
                    wit = {"why": "k-th observation and k-th instruction have different names", "file": kind}
                elif [float(o[1]) for o in obs] != want_vals:
                    bad = [k for k, (o, v) in enumerate(zip(obs, want_vals)) if float(o[1]) != v][:3]
                    wit = {"why": "k-th observation does not read back as the measured master-curve value (levels: rise "
                                  "ascending, then recession descending)", "file": kind, "positions": bad,
                           "written": [obs[k][1] for k in bad], "measured": [want_vals[k] for k in bad]}
                if wit:
                    break
            # ---- simulate output against the instruction file
            if wit is None and simulate:
                r1, out_rise = sim.simulate_cli(ctx, "rise", w["db"], params, True)
                r2, out_rec = sim.simulate_cli(ctx, "recession", w["db"], params, True)
                r3, tab_rise = sim.simulate_cli(ctx, "rise", w["db"], params, False)
                r4, tab_rec = sim.simulate_cli(ctx, "recession", w["db"], params, False)
                if any(r[0] != "ok" for r in (r1, r2, r3, r4)):
                    ctx.count("simulate_failed")
                    ctx.corr_break(ob_ins, {"input": inp, "impl": [list(r) for r in (r1, r2, r3, r4)],
                                            "no_longer_checks": "a simulate command fails on a parameter set and dataset the pestfiles accepted"})
                elif any(b for _x, b in (sim.parse_vector(out_rise), sim.parse_vector(out_rec), sim.parse_table(tab_rise),
                                         sim.parse_table(tab_rec))):
                    bad = [b for _x, b in (sim.parse_vector(out_rise), sim.parse_vector(out_rec), sim.parse_table(tab_rise),
                                           sim.parse_table(tab_rec)) if b]
                    wit = {"why": "the output of a simulate command is not the table / vector of the curve: " + bad[0]}
                else:
                    vec = yaml.safe_load(out_rise) + yaml.safe_load(out_rec)
                    rows = yaml.safe_load(tab_rise)[1:] + yaml.safe_load(tab_rec)[1:]
                    out_lines = (out_rise + out_rec).split("\n")
                    got = ctx.driver.call("pest.runins", {"n_rise": len(rise_vals), "n_recession": len(rec_vals),
                                                          "curves": True, "out": out_lines})
                    ok_ins = True
                    if vec != [r[2] for r in rows]:
                        bad = [k for k, (a, b) in enumerate(zip(vec, [r[2] for r in rows])) if a != b][:3]
                        wit = {"why": "the k-th value of the --observations vector is not the simulated value at the k-th "
                                      "observation's water level", "positions": bad,
                               "vector": [vec[k] for k in bad], "table": [rows[k] for k in bad]}
                    elif [round(r[0], 6) for r in rows] != [round(z, 6) for z in levels]:
                        wit = {"why": "k-th simulated value and k-th observation are not at the same water level",
                               "simulated_levels": [r[0] for r in rows][:6], "observation_levels": levels[:6]}
                    elif [g[0] for g in got] != ["e%d" % (k + 1) for k in range(len(vec))]:
                        ok_ins = False
                    else:
                        for k, (g, v) in enumerate(zip(got, vec)):
                            try:
                                back = float(g[1])
                            except ValueError:
                                back = None
                            if back != v:
                                printed = out_lines_value(out_lines, k, len(rise_vals))
                                cut = printed[:22].strip() == str(g[1]).strip()
                                rec_ = ctx.violation("impl-violation", "extractLossless", {
                                    "input": dict(inp, position=k), "impl": {"printed": printed, "extracted": g[1]},
                                    "oracle": {"name": "extractLossless", "result": False,
                                               "witness": {"printed_longer_than_22_characters": len(printed) > 22 and cut,
                                                           "printed": printed, "extracted": g[1]}}})
                                if rec_ is not None:
                                    break          # (a listed known finding returns None: keep looking at the other values)
                    ctx.obligation(ob_ins, ok_ins)
                    if not ok_ins:
                        ctx.corr_break(ob_ins, {"input": inp, "model": got[:5]})
            # ---- template filled with the original values
            if wit is None:
                for kind in ("rise", "curves"):
                    text = "\n".join(files[kind, "tpl"].split("\n")[1:])
                    vals = placeholder_values(params)
                    try:
                        filled = re.sub(r"@([^@]*)@", lambda mo: repr(vals[mo.group(1).strip().lower()]), text)
                        back = yaml.safe_load(filled)
                    except (KeyError, yaml.YAMLError) as e:
                        wit = {"why": "the template cannot be filled with the original values / read back", "file": kind + " tpl",
                               "error": repr(e)[:200]}
                        break
                    if back != params:
                        wit = {"why": "template filled with the original values is not equivalent to the original parameter file",
                               "file": kind + " tpl", "filled": back}
                        break
            if len(ctx.samples) < 2:
                ctx.sample({"parameterisation": params["specific_yield"]["type"], "n_rise": len(rise_vals), "n_recession": len(rec_vals),
                            "pst_header": files["curves", "pst"].split("\n")[3], "first_observation": files["curves", "pst"].split("\n")[-8:][:1]})
            if wit is not None:
                ctx.violation("impl-violation", "c19Holds", {"input": inp, "impl": {"%s %s" % k: v.split("\n")[:6] for k, v in files.items()},
                              "oracle": {"name": "c19Holds", "result": False, "witness": wit}})
            elif diffs:
                first = diffs[0]
                a, b = files[first].split("\n"), m["%s_%s" % first]
                line = next((i for i, (x, y) in enumerate(zip(a, b)) if x != y), min(len(a), len(b)))
                ctx.corr_break(ob_files, {"input": inp, "differs_on": ["%s %s" % k for k in diffs],
                                          "first_difference": {"file": "%s %s" % first, "line": line,
                                                               "impl": a[line] if line < len(a) else None,
                                                               "model": b[line] if line < len(b) else None}})


def run(ctx):
    common.import_spowtd()
    warnings.simplefilter("ignore")
    rng = ctx.rng
    n = 5 if ctx.tier == "quick" else 40
    n_done = [0]
    for d_i in range(n):
        tr = P.gen_truth(rng, noise=rng.choice([0.0, 0.4]), n_events=rng.randint(3, 7))
        zstep = rng.choice([1.0, 2.0, 2.5])
        w = P.run_workflow(ctx, tr.rows(), tr.s, tr.j, zstep, keep_db=True)
        if w["status"].get("rise", ("x",))[0] != "ok" or w["status"].get("recession", ("x",))[0] != "ok":
            P.cleanup(w)
            continue
        n_done[0] += 1
        cli.run(["set-curvature", w["db"], "1.5"])
        rec_levels = [r[0] for r in w["tables"]["average_recession_time"]] or tr.level
        dataset_checks(ctx, tr, zstep, w, (
            sim.spline_params(rng, min(tr.level), max(tr.level)),
            # specific yield going negative inside the range of the recession curve itself
            sim.spline_params(rng, min(rec_levels), max(rec_levels) + 1.0, n_sy=rng.randint(6, 9), oscillating=True),
            sim.peatclsm_params(rng, max(tr.level)),
            # each section of the parameter file has its own type
            sim.mixed_params(rng, min(tr.level), max(tr.level))))
        # a finely resolved profile: tens to more than a hundred knots (parameter numbers of two and three digits)
        many = sim.spline_params(rng, min(tr.level), max(tr.level), n_sy=([101, 10, 1003, 37, 12][d_i % 5] if d_i < 5 else rng.choice([10, 12, 37, 101, 120])),
                                 n_t=([10, 1001, 25, 11, 101][d_i % 5] if d_i < 5 else rng.choice([10, 11, 25])))     # three- and four-digit numbers for sure
        # a file the tool accepts: one more level knot than values (knots and values are paired, the unpaired knot is ignored);
        # the number of parameters is the number of VALUES
        uneven = sim.spline_params(rng, min(tr.level), max(tr.level))
        which = rng.choice(["specific_yield", "transmissivity", "both"])
        if which in ("specific_yield", "both"):
            uneven["specific_yield"]["zeta_knots_mm"] = uneven["specific_yield"]["zeta_knots_mm"] + [float(uneven["specific_yield"]["zeta_knots_mm"][-1]) + 900.0]
        if which in ("transmissivity", "both"):
            uneven["transmissivity"]["zeta_knots_mm"] = uneven["transmissivity"]["zeta_knots_mm"] + [float(uneven["transmissivity"]["zeta_knots_mm"][-1]) + 900.0]
        dataset_checks(ctx, tr, zstep, w, (many, uneven), simulate=False)
        P.cleanup(w)
    if n_done[0] == 0:
        ctx.corr_break("six generated PEST files = model (Model/Pest.lean) line by line",
                       {"input": None, "no_longer_checks": "no planted dataset got both master curves (load / classify / set-zeta-grid / "
                                                           "rise / recession fail on every one)"})
    for _ in range(1 if ctx.tier == "quick" else 4):
        big_dataset(ctx)
    extract_stream(ctx, 2000 if ctx.tier == "quick" else 50000)
    float_roundtrip(ctx, 20000 if ctx.tier == "quick" else 200000)



def big_dataset(ctx):
    """A peat dome's record: metres of water-level range on a fine level grid, i.e. observation numbers of five
    digits in the control files (the small datasets above never get past three)."""
    rng = ctx.rng
    dt = 3600
    sy = 0.25
    Z = [float(rng.randint(0, 40))]
    for _ in range(760):
        Z.append(Z[-1] - rng.choice([1.0, 1.5, 2.0]))
    pos = 720
    level, rain, events = [Z[pos]], [], []
    for ev in range(rng.randint(2, 3)):
        m = rng.randint(0, 12)
        rise = Z[m] - Z[pos]
        per = [round(rise / 2 * 8) / 8]
        per.append(rise - per[0])
        for p_ in per:
            rain.append(sy * p_ * 3600.0 / dt)
            level.append(level[-1] + p_)
        pos = m
        events.append(("storm", 2, m))
        rain.append(0.25)
        pos += 1
        level.append(Z[pos])
        L = rng.randint(690, 720)
        for _ in range(L):
            rain.append(0.0)
            pos += 1
            level.append(Z[pos])
        events.append(("dry", L, pos))
    rain = (rain + [0.0] * len(level))[:len(level)]
    t0 = (rng.randint(631152000, 1893456000) // dt) * dt
    tr = P.Truth(dt, t0, sy, Z, rain, level, [0.1, 0.2, 0.15], events, 0.25, 2.0)
    zstep = rng.choice([0.1, 0.125])
    w = P.run_workflow(ctx, tr.rows(), tr.s, tr.j, zstep, keep_db=True)
    if w["status"].get("rise", ("x",))[0] != "ok" or w["status"].get("recession", ("x",))[0] != "ok":
        ctx.count("big_dataset_without_master_curves")
        P.cleanup(w)
        return
    cli.run(["set-curvature", w["db"], "1.5"])
    ctx.count("big_dataset_rise_levels", len(w["tables"]["average_rising_depth"]))
    ctx.count("big_dataset_recession_levels", len(w["tables"]["average_recession_time"]))
    dataset_checks(ctx, tr, zstep, w, (sim.spline_params(rng, min(tr.level), max(tr.level)),
                                      sim.peatclsm_params(rng, max(tr.level))), simulate=False)
    P.cleanup(w)


def extract_stream(ctx, n):
    """every finite value the simulator can print, through the instruction file's fixed columns"""
    ob = "columns 3:24 return the printed value (model extractColumns on PyYAML's own text)"
    xs = []
    for i in range(n):
        mag = 10 ** ctx.rng.randint(-7, 6)
        x = ctx.rng.uniform(-1, 1) * mag
        xs.append(x)
    text = "# Rise curve simulation vector\n" + yaml.dump(xs)
    lines = text.split("\n")
    got = ctx.driver.call("pest.runins", {"n_rise": len(xs), "n_recession": 0, "curves": False, "out": lines})
    reported = False
    for k, (g, x) in enumerate(zip(got, xs)):
        printed = lines[k + 1][2:]
        ctx.case(("extract", printed), len(printed) > 20)
        try:
            back = float(g[1])
        except ValueError:
            back = None
        ok = back == x
        ctx.obligation(ob, ok or len(printed) > 22)
        if not ok and not reported:
            reported = True
            ctx.count("values_cut_by_columns_3_24")
            ctx.violation("impl-violation", "extractLossless", {
                "input": {"simulated_value": x, "printed_line": lines[k + 1], "instruction": "l1 [e%d]3:24" % (k + 1)},
                "impl": {"printed": printed, "extracted": g[1]},
                "oracle": {"name": "extractLossless", "result": False,
                           "witness": {"printed_longer_than_22_characters": len(printed) > 22, "printed": printed,
                                       "extracted": g[1]}}})
        elif not ok:
            ctx.count("values_cut_by_columns_3_24")
            if len(printed) <= 22:
                ctx.violation("impl-violation", "extractLossless", {
                    "input": {"simulated_value": x, "printed_line": lines[k + 1]}, "impl": {"printed": printed, "extracted": g[1]},
                    "oracle": {"name": "extractLossless", "result": False,
                               "witness": {"printed_longer_than_22_characters": False, "printed": printed, "extracted": g[1]}}})


def out_lines_value(lines, k, n_rise):
    vals = [ln[2:] for ln in lines if ln.startswith("- ")]
    return vals[k] if k < len(vals) else ""


def placeholder_values(params):
    syp, trp = params["specific_yield"], params["transmissivity"]
    v = {}
    if syp["type"] == "spline":
        for i, x in enumerate(syp["sy_knots"]):
            v["sy_knot_%d" % (i + 1)] = x
    else:
        for k in ("sd", "theta_s", "b", "psi_s"):
            v[k] = syp[k]
    if trp["type"] == "spline":
        for i, x in enumerate(trp["K_knots_km_d"]):
            v["k_knot_%d" % (i + 1)] = x
        v["t_min"] = trp["minimum_transmissivity_m2_d"]
    else:
        v["ksmacz0"], v["alpha"] = trp["Ksmacz0"], trp["alpha"]
    return v


def float_roundtrip(ctx, n):
    """'{:0.17g}' and PyYAML's float representation read back as the identical double (supporting check)"""
    import struct
    ob = "'{:0.17g}' / yaml float text reads back as the identical double"
    bad = 0
    for i in range(n):
        if i % 2:
            x = struct.unpack("<d", struct.pack("<Q", ctx.rng.getrandbits(64)))[0]
            if x != x or x in (float("inf"), float("-inf")):
                continue
        else:
            x = ctx.rng.uniform(-1, 1) * 10 ** ctx.rng.randint(-8, 8)
        if float("{:0.17g}".format(x)) != x:
            bad += 1
    xs = [ctx.rng.uniform(-1, 1) * 10 ** ctx.rng.randint(-8, 8) for _ in range(2000)]
    if yaml.safe_load(yaml.dump(xs)) != xs:
        bad += 1
    ctx.count("float_texts_checked", n + 2000)
    ctx.obligation(ob, bad == 0)
    if bad:
        ctx.corr_break(ob, {"input": {"count": bad}})


def replay(ctx, doc):
    return None   # re-run the stream with the recorded seed (check.py does it)
