"""C15 — spline transmissivity is the minimum plus the integral of conductivity."""
import warnings

import numpy as np

from . import common, hyd
from .common import f2h, h2f

THEOREMS = [
    "Spowtd.segInt_eq_integral",
    "Spowtd.logLinK_segment",
    "Spowtd.t_eq_Tmin_below",
    "Spowtd.tSplineClosed_eq_integral",
    "Spowtd.t_monotone",
    "Spowtd.t_continuous",
]
TRUSTED_BASE = [
    "Lean 4.33 kernel; axioms propext, Classical.choice, Quot.sound only (audited per theorem on every run)",
    "the closed form tSplineClosed is proved (over R) equal to Tmin + integral of the log-linear conductivity; the "
    "reference value is that closed form evaluated with Python's decimal module at 60 digits (exp/ln of decimal are "
    "trusted); the model's own execution at Float (C library exp/log) is compared with it where well conditioned",
    "QUADPACK quad (used by the implementation) is accurate to 1e-7 relative on these smooth integrands; FITPACK order-1 "
    "spline = linear interpolation of log K",
    "translator tools/gen_formulas.py: the arithmetic of the named source functions (an expression, or a whole body of assignments, if and return) as Python's own `ast` parses it -> Lean terms over the carrier class in lean/FormulaTie/Gen*.lean; that each is the model's definition is re-checked by `rfl` / a short unfolding on every run (lean/FormulaTie/*.lean)",
]
FORMULA_TIE = ('Spline',)
ASSUMPTIONS = ["strictly increasing knots, positive conductivities (1e-14 .. 1e6), positive minimum transmissivity",
               "levels at or below the highest knot (above it the code raises NotImplementedError, outside the property)"]
RULE = ("knot sets of 2-8 knots with conductivities over 12 orders of magnitude x levels below/at the lowest knot, on "
        "knots, between knots, at the highest knot, a quarter of the sets with two adjacent conductivities equal to "
        "1e-16..1e-7 relative; the implementation's value against the closed form (60 digits) within 1e-6 relative; scalar against array arguments bit for bit; monotonicity on sorted levels; non-trivial = level "
        "strictly above the lowest knot; distinct by (knots, level)")


def closed_form_decimal(zs, ks, tmin, z):
    """The closed form proved in Lean (tSplineClosed), evaluated with 60 significant digits: the reference where
    the double-precision evaluation of the same formula is ill-conditioned (nearly equal adjacent conductivities)."""
    import decimal
    D = decimal.Decimal
    with decimal.localcontext() as c:
        c.prec = 60
        t = D(tmin)
        z = D(z)
        for (z0, k0), (z1, k1) in zip(zip(zs, ks), list(zip(zs, ks))[1:]):
            z0, k0, z1, k1 = D(z0), D(k0), D(z1), D(k1)
            if z <= z0:
                break
            up = min(z, z1)
            q = (k1.ln() - k0.ln()) / (z1 - z0)
            t += k0 * (up - z0) if q == 0 else ((k0.ln() + q * (up - z0)).exp() - k0) / q
        return float(t)


def run(ctx):
    common.import_spowtd()
    import spowtd.transmissivity as tm
    warnings.simplefilter("ignore")
    nsets = 70 if ctx.tier == "quick" else 1000
    ob = "SplineTransmissivity = model tSplineClosed (closed form, 60 digits) within 1e-6 relative"
    for i_set in range(nsets):
        zs, ks = hyd.gen_knots(ctx.rng, nmin=2, nmax=8, positive=True)
        if i_set % 25 == 3:
            # three knots, the middle one at the peat surface (level exactly 0) where conductivity jumps by orders of
            # magnitude: every level above the surface has the value 0.0 as its only interior knot
            zs = [-float(ctx.rng.randint(200, 900)), 0.0, float(ctx.rng.randint(50, 400))]
            k0 = 10 ** ctx.rng.uniform(-5, -2)
            ks = [k0, k0 * 10 ** ctx.rng.uniform(2, 5), k0 * 10 ** ctx.rng.uniform(5, 8)]
            ctx.count("sets_whose_only_interior_knot_is_level_zero")
        if ctx.rng.random() < 0.2:
            i = ctx.rng.randrange(len(ks) - 1)
            ks[i + 1] = ks[i]                 # a segment of constant conductivity
        if 0.0 in [float(z) for z in zs] and ctx.rng.random() < 0.7:
            i0 = [float(z) for z in zs].index(0.0)
            if 0 < i0 < len(zs) - 1:
                # tight peat below the surface, open acrotelm above it: conductivity jumps by orders of magnitude at the knot
                ks[i0 - 1] = 10 ** ctx.rng.uniform(-5, -2)
                ks[i0] = ks[i0 - 1] * 10 ** ctx.rng.uniform(2, 5)
                ks[i0 + 1] = ks[i0] * 10 ** ctx.rng.uniform(1, 3)
        near_tie = False
        if ctx.rng.random() < 0.25:
            # nearly equal adjacent conductivities (a calibration that has almost converged to a uniform layer,
            # or the same number typed with different rounding)
            near_tie = True
            i = ctx.rng.randrange(len(ks) - 1)
            eps = ctx.rng.choice([-1, 1]) * 10 ** ctx.rng.uniform(-16, -7)
            ks[i + 1] = float(np.nextafter(ks[i], np.inf)) if ctx.rng.random() < 0.2 else ks[i] * (1.0 + eps)
            if ctx.rng.random() < 0.5 and len(ks) > 2:
                ks[i], ks[i + 1] = ks[i] * 1e3, ks[i + 1] * 1e3        # a conductive layer among tight ones
        tmin = 10 ** ctx.rng.uniform(-3, 3)
        tight = False
        if not near_tie and ctx.rng.random() < 0.15:
            # a whole profile of tight material, or one stated in other units than the tool expects (m/s typed where
            # km/d is meant): every conductivity many orders of magnitude below one, the minimum likewise -- what is
            # "small" must be judged relative to the values themselves, never against an absolute number
            tight = True
            scale_ = 10 ** ctx.rng.uniform(-14, -7)
            ks = [float(k) * scale_ / max(ks) * 10 ** ctx.rng.uniform(0, 1) for k in ks]
            ctx.count("sets_with_all_conductivities_below_1e-6")
        if tight:
            tmin = min(ks) * 10 ** ctx.rng.uniform(-2, 1)
        if near_tie:
            tmin = 10 ** ctx.rng.uniform(-6, -1)
        if ctx.rng.random() < 0.3 and not tight:
            tmin = ctx.rng.randint(1, 50)      # as typed in a parameter file: `minimum_transmissivity_m2_d: 7`
        tmin_arg = tmin
        if ctx.rng.random() < 0.25:
            # the minimum as it comes out of np.loadtxt on a one-number file, or as a slot of an optimiser's vector
            vec = np.array([123.0, float(tmin), 456.0])
            tmin_arg = ctx.rng.choice([np.array(float(tmin)), vec[1:2].reshape(()), np.float64(tmin)])
        try:
            T = tm.SplineTransmissivity(list(zs), list(ks), tmin_arg)
        except Exception as e:  # noqa
            ctx.case(("c15", tuple(zs), tuple(ks)), True)
            ctx.violation("impl-violation", "c15Holds", {"input": {"zeta_knots_mm": zs, "K_knots_km_d": ks, "minimum_transmissivity_m2_d": tmin},
                          "impl": repr(e)[:200], "oracle": {"name": "c15Holds", "result": False,
                                                            "witness": {"why": "the transmissivity cannot be constructed", "exception": repr(e)[:200]}}})
            continue
        lo, hi = zs[0], zs[-1]
        levels = sorted({lo - 100.0, lo - 1e-9, lo, hi} | set(zs) | {ctx.rng.uniform(lo, hi) for _ in range(8)}
                        | {np.nextafter(z, -np.inf) for z in zs[1:]} | {np.nextafter(z, np.inf) for z in zs[:-1]})
        # a few millimetres above each knot: the integrand has its kink just below the upper limit
        levels = sorted(set(levels) | {float(z) + d for z in zs[:-1] for d in (0.5, 1.0, 2.0, 5.0)})
        levels = [float(z) for z in levels if z <= hi]
        inp0 = {"zeta_knots_mm": zs, "K_knots_km_d": ks, "minimum_transmissivity_m2_d": tmin}
        try:
            scal = [float(T(z)) for z in levels]
            la = common.any_layout(ctx.rng, np.array(levels))
            snap_la = common.snapshot(la)
            arr = [float(v) for v in T(la)]
            err = None
            if not common.same_as_snapshot(la, snap_la):
                err = "the caller's array of levels was modified by the evaluation"
        except Exception as e:  # noqa
            scal, err = None, "%s: %s" % (type(e).__name__, e)
        if err is not None:
            ctx.case(("c15", tuple(zs), tuple(ks)), True)
            ctx.violation("impl-violation", "c15Holds", {"input": inp0, "impl": err, "oracle": {
                "name": "c15Holds", "result": False, "witness": {"exception": err}}})
            continue
        # reference: the closed form proved in Lean, evaluated with 60 digits (the double-precision evaluation of the
        # same formula cancels badly one ulp above a knot and for nearly equal adjacent conductivities)
        m = [closed_form_decimal(zs, ks, tmin, z) for z in levels]
        if near_tie:
            ctx.count("knot_sets_with_nearly_equal_adjacent_conductivities")
        mf = [h2f(v) for v in ctx.driver.call("tspline.f", {
            "knots": [[f2h(z), f2h(k)] for z, k in zip(zs, ks)], "tmin": f2h(float(tmin)), "zs": [f2h(z) for z in levels]})]

        def well_conditioned(z):
            for (z0, k0), (z1, k1) in zip(zip(zs, ks), list(zip(zs, ks))[1:]):
                if z <= z0:
                    break
                if k0 != k1 and abs(np.log(k1 / k0)) * (min(z, z1) - z0) / (z1 - z0) < 1e-4:
                    return False
            return True
        wc = [i for i, z in enumerate(levels) if well_conditioned(z)]
        ob_f = "model tSplineClosed executed at Float = the same closed form at 60 digits (1e-6), well-conditioned levels"
        same_f = all(abs(mf[i] - m[i]) <= 1e-6 * max(abs(m[i]), tmin) for i in wc)
        ctx.obligation(ob_f, same_f)
        if not same_f:
            ctx.corr_break(ob_f, {"input": dict(inp0, levels=levels), "float": mf, "decimal": m})
        wit = None
        if len(arr) != len(levels):
            wit = {"why": "an array of levels gives an array of another length", "levels": len(levels), "values": len(arr)}
        for z, s, a, mv in zip(levels, scal, arr, m):
            ctx.case(("c15", tuple(zs), tuple(ks), z), z > lo)
            if s != a:
                wit = {"why": "scalar and array arguments give different values", "level": z, "scalar": s, "array": a}
            elif z <= lo and s != tmin:
                wit = {"why": "not the minimum at or below the lowest knot", "level": z, "value": s}
            elif abs(s - mv) > 1e-6 * max(abs(mv), tmin):
                wit = {"why": "differs from minimum + integral of the log-linear conductivity", "level": z, "value": s,
                       "closed_form": mv}
            if wit:
                break
        if wit is None and tmin_arg is not tmin and float(tmin_arg) != float(tmin):
            wit = {"why": "evaluating the function changed the minimum transmissivity the caller passed in",
                   "passed": float(tmin), "now": float(tmin_arg)}
        if wit is None:
            again = [float(T(z)) for z in levels]
            if again != scal:
                k_ = next(i for i, (a_, b_) in enumerate(zip(again, scal)) if a_ != b_)
                wit = {"why": "the same level evaluated twice gives two values", "level": levels[k_], "first": scal[k_], "again": again[k_]}
        if wit is None and not isinstance(tmin_arg, np.ndarray):
            # (with a minimum passed as an array the value returned below the lowest knot IS the caller's own array)
            # what a caller does with a returned value must not change the function: in-place arithmetic on the result
            # (unit conversion `T /= 86400`, an accumulator started from a value) and evaluation again
            for z in (lo - 5.0, lo, levels[len(levels) // 2]):
                try:
                    r = T(z)
                    before = float(r)
                    if isinstance(r, np.ndarray):
                        r /= 86400.0
                        r += 1.0
                    ra = T(np.array([z, z]))
                    if isinstance(ra, np.ndarray):
                        ra *= 0.0
                    after = float(T(z))
                except Exception as e:  # noqa
                    wit = {"why": "raises when a returned value is modified in place and the level evaluated again", "exception": repr(e)[:200]}
                    break
                if after != before:
                    wit = {"why": "modifying a returned value in place changes later evaluations (the result aliases the function's state)",
                           "level": z, "first": before, "again": after}
                    break
        if wit is None:
            # levels as they come out of a logger file stored in single precision (numpy.float32 scalars), as Python
            # ints and as numpy integers: the value is that of the real number the argument denotes
            for z in levels[::3]:
                for conv in (np.float32, np.float64):
                    zc = conv(z)
                    if float(zc) > hi:
                        continue
                    try:
                        v = float(T(zc))
                    except Exception as e:  # noqa
                        wit = {"why": "raises for a level given as %s" % conv.__name__, "level": float(zc), "exception": repr(e)[:200]}
                        break
                    ref = float(T(float(zc)))
                    ctx.case(("c15-dtype", tuple(zs), tuple(ks), float(zc), conv.__name__), True)
                    if abs(v - ref) > 1e-10 * max(abs(ref), tmin):
                        wit = {"why": "the value depends on the floating-point width in which the same level is passed",
                               "level": float(zc), "as_" + conv.__name__: v, "as_float": ref}
                        break
                if wit:
                    break
        if wit is None:
            for (z0, s0), (z1, s1) in zip(zip(levels, scal), list(zip(levels, scal))[1:]):
                if s1 < s0 - 1e-7 * max(abs(s0), tmin):
                    wit = {"why": "decreases as the water level rises", "levels": [z0, z1], "values": [s0, s1]}
                    break
        ctx.obligation(ob, wit is None)
        if len(ctx.samples) < 2:
            ctx.sample(dict(inp0, levels=levels[:5], values=scal[:5]))
        if wit is not None:
            ctx.violation("impl-violation", "c15Holds", {"input": dict(inp0, levels=levels), "impl": scal, "model": m,
                          "oracle": {"name": "c15Holds", "result": False, "witness": wit}})


def replay(ctx, doc):
    common.import_spowtd()
    import spowtd.transmissivity as tm
    inp = doc["input"]
    T = tm.SplineTransmissivity(inp["zeta_knots_mm"], inp["K_knots_km_d"], inp["minimum_transmissivity_m2_d"])
    m = [h2f(v) for v in ctx.driver.call("tspline.f", {
        "knots": [[f2h(z), f2h(k)] for z, k in zip(inp["zeta_knots_mm"], inp["K_knots_km_d"])],
        "tmin": f2h(inp["minimum_transmissivity_m2_d"]), "zs": [f2h(z) for z in inp["levels"]]})]
    got = [float(T(z)) for z in inp["levels"]]
    d = [closed_form_decimal(inp["zeta_knots_mm"], inp["K_knots_km_d"], inp["minimum_transmissivity_m2_d"], z)
         for z in inp["levels"]]
    print("impl:", got[:6], "closed form at Float:", m[:6], "at 60 digits:", d[:6])
    tmin = inp["minimum_transmissivity_m2_d"]
    return (all(abs(a - b) <= 1e-6 * max(abs(b), tmin) for a, b in zip(got, d))
            and all(b >= a - 1e-7 * max(abs(a), tmin) for a, b in zip(got, got[1:])))
