"""C15 — spline transmissivity is the minimum plus the integral of conductivity."""
import warnings

import numpy as np

from . import common, hyd
from .common import f2h, h2f

THEOREMS = [
    "Spowtd.segInt_eq_integral",
    "Spowtd.logLinK_segment",
    "Spowtd.t_eq_Tmin_below",
    "Spowtd.tSplineClosed_eq_integral",
    "Spowtd.t_monotone",
    "Spowtd.t_continuous",
]
TRUSTED_BASE = [
    "Lean 4.33 kernel; axioms propext, Classical.choice, Quot.sound only (audited per theorem on every run)",
    "the closed form tSplineClosed is proved (over R) equal to Tmin + integral of the log-linear conductivity; at Float "
    "it is executed with the C library's exp/log",
    "QUADPACK quad (used by the implementation) is accurate to 1e-7 relative on these smooth integrands; FITPACK order-1 "
    "spline = linear interpolation of log K",
]
ASSUMPTIONS = ["strictly increasing knots, positive conductivities (1e-6 .. 1e6), positive minimum transmissivity",
               "levels at or below the highest knot (above it the code raises NotImplementedError, outside the property)"]
RULE = ("knot sets of 2-8 knots with conductivities over 12 orders of magnitude x levels below/at the lowest knot, on "
        "knots, between knots, at the highest knot; the implementation's value against the closed form at Float within "
        "1e-6 relative; scalar against array arguments bit for bit; monotonicity on sorted levels; non-trivial = level "
        "strictly above the lowest knot; distinct by (knots, level)")


def run(ctx):
    common.import_spowtd()
    import spowtd.transmissivity as tm
    warnings.simplefilter("ignore")
    nsets = 40 if ctx.tier == "quick" else 800
    ob = "SplineTransmissivity = model tSplineClosed at Float (1e-6 relative)"
    for _ in range(nsets):
        zs, ks = hyd.gen_knots(ctx.rng, nmin=2, nmax=8, positive=True)
        if ctx.rng.random() < 0.2:
            i = ctx.rng.randrange(len(ks) - 1)
            ks[i + 1] = ks[i]                 # a segment of constant conductivity
        tmin = 10 ** ctx.rng.uniform(-3, 3)
        if ctx.rng.random() < 0.3:
            tmin = ctx.rng.randint(1, 50)      # as typed in a parameter file: `minimum_transmissivity_m2_d: 7`
        T = tm.SplineTransmissivity(list(zs), list(ks), tmin)
        lo, hi = zs[0], zs[-1]
        levels = sorted({lo - 100.0, lo - 1e-9, lo, hi} | set(zs) | {ctx.rng.uniform(lo, hi) for _ in range(8)}
                        | {np.nextafter(z, -np.inf) for z in zs[1:]} | {np.nextafter(z, np.inf) for z in zs[:-1]})
        levels = [float(z) for z in levels if z <= hi]
        inp0 = {"zeta_knots_mm": zs, "K_knots_km_d": ks, "minimum_transmissivity_m2_d": tmin}
        try:
            scal = [float(T(z)) for z in levels]
            arr = [float(v) for v in T(np.array(levels))]
            err = None
        except Exception as e:  # noqa
            scal, err = None, "%s: %s" % (type(e).__name__, e)
        if err is not None:
            ctx.case(("c15", tuple(zs), tuple(ks)), True)
            ctx.violation("impl-violation", "c15Holds", {"input": inp0, "impl": err, "oracle": {
                "name": "c15Holds", "result": False, "witness": {"exception": err}}})
            continue
        m = [h2f(v) for v in ctx.driver.call("tspline.f", {
            "knots": [[f2h(z), f2h(k)] for z, k in zip(zs, ks)], "tmin": f2h(float(tmin)), "zs": [f2h(z) for z in levels]})]
        wit = None
        for z, s, a, mv in zip(levels, scal, arr, m):
            ctx.case(("c15", tuple(zs), tuple(ks), z), z > lo)
            if s != a:
                wit = {"why": "scalar and array arguments give different values", "level": z, "scalar": s, "array": a}
            elif z <= lo and s != tmin:
                wit = {"why": "not the minimum at or below the lowest knot", "level": z, "value": s}
            elif abs(s - mv) > 1e-6 * max(abs(mv), tmin):
                wit = {"why": "differs from minimum + integral of the log-linear conductivity", "level": z, "value": s,
                       "closed_form": mv}
            if wit:
                break
        if wit is None:
            for (z0, s0), (z1, s1) in zip(zip(levels, scal), list(zip(levels, scal))[1:]):
                if s1 < s0 - 1e-7 * max(abs(s0), tmin):
                    wit = {"why": "decreases as the water level rises", "levels": [z0, z1], "values": [s0, s1]}
                    break
        ctx.obligation(ob, wit is None)
        if len(ctx.samples) < 2:
            ctx.sample(dict(inp0, levels=levels[:5], values=scal[:5]))
        if wit is not None:
            ctx.violation("impl-violation", "c15Holds", {"input": dict(inp0, levels=levels), "impl": scal, "model": m,
                          "oracle": {"name": "c15Holds", "result": False, "witness": wit}})


def replay(ctx, doc):
    common.import_spowtd()
    import spowtd.transmissivity as tm
    inp = doc["input"]
    T = tm.SplineTransmissivity(inp["zeta_knots_mm"], inp["K_knots_km_d"], inp["minimum_transmissivity_m2_d"])
    m = [h2f(v) for v in ctx.driver.call("tspline.f", {
        "knots": [[f2h(z), f2h(k)] for z, k in zip(inp["zeta_knots_mm"], inp["K_knots_km_d"])],
        "tmin": f2h(inp["minimum_transmissivity_m2_d"]), "zs": [f2h(z) for z in inp["levels"]]})]
    got = [float(T(z)) for z in inp["levels"]]
    print("impl:", got[:6], "closed form:", m[:6])
    return all(abs(a - b) <= 1e-6 * max(abs(b), 1e-300) for a, b in zip(got, m))
