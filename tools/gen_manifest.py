#!/usr/bin/env python
"""Regenerate MANIFEST.json from the harness modules present (harness/cNN.py)."""
import importlib
import json
import os
import sys

VERIF = os.path.dirname(os.path.dirname(os.path.abspath(__file__)))
sys.path.insert(0, VERIF)
props = [json.loads(l) for l in open(os.path.join(VERIF, "properties.jsonl"))]

TEXT = {
 "C01": ("proof of totality, injectivity and overlap of the pairing for every well-formed dataset, schedule and threshold pair (carrier-free, hence valid for IEEE doubles); model tied to classify.py by exact table comparison on generated, boundary and field records", "3.2"),
 "C02": ("proof that every run of the deferred-acceptance loop, under every schedule and with ties, ends in a stable matching; storm-optimality and schedule-independence under strict rise preferences; tied to find_stable_matching / disambiguate_matching / the CLI by equality (strict) or by the Lean-defined blocking-pair test on the implementation's output (ties)", "3.3"),
 "C03": ("proof that trueRuns returns exactly the maximal runs and that every recorded storm/rise is such a run of its own stretch with strict comparison; exhaustive comparison of get_true_interval_masks on all boolean vectors up to a length; table and rain-depth comparison through the CLI", "3.4"),
 "C04": ("proof of the closed-form characterisation of the unexplained-rise state machine, of the interstorm flag and of the recorded intervals; exhaustive comparison of get_mystery_jump_mask on all vector pairs up to a length; table comparison through the CLI", "3.5"),
 "C05": ("proof over Q of the exact expansion of the objective, stationarity <=> minimiser, uniqueness modulo a common shift; the model's exact solution is certified by its residual sums; find_offsets and the CLI tables compared with the exact minimiser, residual sums evaluated on the implementation's own output", "5.3"),
 "C06": ("proof that a planted curve is recovered by any stationary offset vector; whole CLI workflow on records with planted ground truth compared with the exact Pipeline model and with the planted curves themselves", "5.4"),
 "C07": ("proof that classification commutes with any integer shift of the time origin (the model never divides an absolute epoch); implementation compared bit-exactly with the model at many origins and, relationally, with itself across origins and fixed-offset zones", "3.6"),
 "C08": ("proof of invariance of the objective/residuals under reordering and per-series axis shifts, of the irrelevance of the internal zero after re-origin, and of the partition/separation computed by the component merge loop; metamorphic and model-based comparison of get_series_time_offsets", "5.5"),
 "C09": ("proof that the re-origin step zeroes the master curve at the reference level (or the top level), that every multiple of the step is accepted and mapped to its own level and every other value rejected; decimal sweep over (step, k) through the CLI", "5.6"),
 "C10": ("proof, for every triple of files in any row order, of grid membership and uniformity, value-per-step copies, bracketing interpolation, no level inside a gap and a level everywhere else, label behaviour across gaps, and that load establishes the well-formedness classification relies on; five gridded tables compared with the model bit for bit", "4.2"),
 "C11": ("proof that localisation returns exactly the instants rendering to the given wall-clock reading, and of each refusal and its converse; stored epochs checked against the model on the pytz transition tables around every transition of ~60 zones; refusal outcomes compared on malformed inputs", "4.3"),
 "C12": ("proof over Q that a level is reported for a pair iff it lies between the samples (lower included, upper excluded), once, on the chord and inside the bracket; regrid compared bit-exactly (levels) with the Float model and within 1e-9 (positions) with the exact model", "5.2"),
 "C13": ("proof that every interval and crossing row is keyed by a series handed in, that each crossing value is the mean crossing of that series' own samples, that every crossed level is a grid level and the grid covers and does not exceed the observed range; row-by-row comparison and independent recomputation on the CLI tables", "5.7"),
 "C14": ("proof over R that Spline.integrate is the interval integral of the clamped extension for all limits in either order (hence additive, antisymmetric, non-negative for a non-negative function), with FITPACK's evaluator and integrator as parameters under a stated contract; the glue is executed at Float on the values FITPACK returned during the real call and must agree bit for bit; the area clause is checked against an independent quad", "6.2"),
 "C15": ("proof over R that the closed form equals the minimum plus the integral of the log-linear conductivity, is the minimum at and below the lowest knot, is continuous and non-decreasing; the implementation (nested quad) compared with the closed form at Float, scalar against array arguments bit for bit", "6.3"),
 "C16": ("proof of the interpolation properties of the tabulated function, of the tabulated levels, of the transmissivity formula and its refusal, of the exact difference between the 201-cell (Python) and 200-cell (R) sums and of the bound on that term; the 201 knot values and the transmissivity compared with the transliterated published discretisation at Float", "6.4"),
 "C17": ("proof over R, for any additive integral, that differences of the curve are the integrals between levels, that its mean is the requested mean, that it is monotone, refinement- and reversal-invariant, and of the table layout; compute_rise_curve compared with the model on the recorded integrals; the command's output parsed and compared row by row", "6.5"),
 "C18": ("proof that the integrand is negative, the cell integrals additive and negative, that zero curvature gives the water balance with the rise curve, and of the ET average; compute_recession_curve compared with the model on the recorded quad values and with an independent quad of the integrand; the ET used by the command compared with the model meanET over Q; output rows and order checked", "6.6"),
 "C19": ("proof, for every number of knots and of levels, that declared counts equal section lengths, that parameter names are the template's placeholders under case folding, that k-th observation, k-th instruction and k-th value line correspond, that PEST's reading of the simulator's vectors returns the fixed columns of the right lines, and that those columns are lossless exactly up to 22 characters; the six generated files compared line by line with the model and cross-checked against the real simulate output", "7"),
 "C20": ("proof that a trace that is one transaction is atomic at every crash point (and that a commit in the middle is not), that failed attempts are invisible, that steps with independent declared footprints commute; the hypothesis (one transaction, declared footprints) is checked on the real SQL trace of every step, and faults are injected at every statement", "8"),
}
NOTE = ("trusted: Lean kernel + audited axioms (propext, Classical.choice, Quot.sound); the hand-written model is tied to "
        "/repo only by the correspondence harness (generators, tolerances, oracles in harness/); external numeric "
        "routines enter under the contracts of DESIGN.md section 2.2")

checks, na = [], []
for p in props:
    pid = p["id"]
    mod_path = os.path.join(VERIF, "harness", pid.lower() + ".py")
    if os.path.exists(mod_path) and pid in TEXT:
        text, ref = TEXT[pid]
        checks.append({
            "property_id": pid,
            "quick_cmd": "/venv/bin/python check.py %s --tier quick" % pid,
            "thorough_cmd": "/venv/bin/python check.py %s --tier thorough" % pid,
            "evidence_file": "evidence/%s.json" % pid,
            "replay_cmd_template": "/venv/bin/python check.py %s --replay {path}" % pid,
            "engine": "lean-model",
            "level_claimed": {"category": "proof", "text": text, "design_ref": "section " + ref},
            "level_note": NOTE,
            "technique": ("Lean 4 theorems about a hand-written executable model + differential correspondence check against /repo"
                          + ("; schema.sql and/or the embedded SQL statements translated to Lean on every run and re-checked against what the model was derived from"
                             if pid in ("C01", "C03", "C04", "C06", "C07", "C09", "C10", "C11", "C13", "C17", "C18", "C19", "C20") else "")),
        })
    else:
        na.append({"property_id": pid, "reason": "check not built yet in this round (build in progress; see DESIGN.md section 12)"})

m = {
 "version": 1,
 "setup_cmd": "python3 tools/gen_schema.py && python3 tools/gen_sql.py && python3 tools/gen_formulas.py && cd lean && lake build SpowtdModel driver SchemaTie SqlTie FormulaTie && cd .. && /venv/bin/python -c \"from harness import common; import sys; r = common.audit([]); print(r['problems']); sys.exit(0 if r['ok'] else 1)\"",
 "hooks": {"guard": "SPOWTD_VERIF", "enable": "no source hooks: the harness instruments sqlite3/scipy inside its own process (SPOWTD_VERIF=1 is set but read by nothing in /repo)",
           "baseline_off_cmd": "cd /repo && /venv/bin/python -m pytest -ra -q -p no:cacheprovider --timeout=900 --continue-on-collection-errors",
           "source_commits": [], "add_only": True},
 "engines": [{"name": "lean-model", "path": "lean", "serves_properties": [c["property_id"] for c in checks],
              "kind_free_text": "Lean 4 model (lean/SpowtdModel/Model), theorems (Props), line-protocol driver (Main.lean), Python correspondence harness (harness/)"}],
 "checks": checks,
 "not_applicable": na,
 "notes": "Machine-checked proof in Lean 4 of a hand-written model, tied to /repo by a correspondence harness that runs the real code and the model on the same inputs. Exit 2 = infrastructure failure, never a verdict. See DESIGN.md.",
}
json.dump(m, open(os.path.join(VERIF, "MANIFEST.json"), "w"), indent=1)
print(len(checks), "checks;", len(na), "pending")
