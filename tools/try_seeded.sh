#!/bin/bash
# try_seeded.sh <seeded-id> <check-id> [seeds...]: apply seeded/<id>/patch.diff in a scratch worktree of /repo,
# run the check against it for each seed, print one verdict line per seed, remove the worktree.
sid=$1; chk=$2; shift 2
seeds=${@:-0}
wt=/tmp/mut-try-$sid-$chk
git -C /repo worktree add -q --detach $wt HEAD || exit 2
git -C $wt apply /verif/seeded/$sid/patch.diff || { git -C /repo worktree remove --force $wt; exit 3; }
cd /verif
for seed in $seeds; do
  out=$(VERIF_SEED=$seed SPOWTD_REPO=$wt /venv/bin/python check.py $chk --tier quick 2>&1)
  nv=$(echo "$out" | grep -c "^VIOLATION")
  nf=$(echo "$out" | grep "^VIOLATION" | grep -c "no-failing-input-found")
  echo "seeded=$sid check=$chk seed=$seed violations=$nv (without failing input: $nf)"
done
git -C /repo worktree remove --force $wt
# the translator ties were regenerated from the scratch worktree: put back what /repo says
python3 tools/gen_schema.py /repo >/dev/null 2>&1; python3 tools/gen_sql.py /repo >/dev/null 2>&1; python3 tools/gen_formulas.py /repo >/dev/null 2>&1
