#!/bin/bash
# run_all.sh <tier> <seed> [ids...]: every check on /repo's working tree, 6 at a time; prints one summary line per check
tier=${1:-quick}; seed=${2:-0}; shift 2
ids=${@:-C01 C02 C03 C04 C05 C06 C07 C08 C09 C10 C11 C12 C13 C14 C15 C16 C17 C18 C19 C20}
cd /verif
printf '%s\n' $ids | xargs -P 6 -I{} bash -c "VERIF_SEED=$seed /venv/bin/python check.py {} --tier $tier > /tmp/run_all_{}_$seed.txt 2>&1; echo \"exit \$? \$(grep -c '^VIOLATION' /tmp/run_all_{}_$seed.txt) viol: \$(tail -1 /tmp/run_all_{}_$seed.txt | cut -c1-120)\""
