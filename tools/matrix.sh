#!/bin/bash
# matrix.sh [seed]: every seeded change against the check of the property it breaks (behavioural streams only:
# the schema/SQL ties are switched off so that runs can share lean/ and so that the table says what the streams find).
seed=${1:-0}
cd /verif
ls seeded | xargs -P 6 -I{} bash -c '
  sid={}; prop=$(python3 -c "import json;d=json.load(open(\"/verif/seeded/$sid/meta.json\"));print((d.get(\"detected_by\") or [d[\"breaks_property\"]])[0])" 2>/dev/null)
  [ -z "$prop" ] && { echo "$sid: no meta.json"; exit 0; }
  VERIF_NO_TIE=1 tools/try_seeded.sh $sid $prop '$seed' 2>&1 | tail -1'
