#!/usr/bin/env python3
"""Translator: arithmetic of selected functions of <repo>/spowtd/*.py -> Lean terms over the model's carrier class.

For each entry of FORMULAS the function is located with `ast`, the selected expression (or the whole body) is
translated into a Lean term over `Num α` / `NumT α` — the law-free carrier the model is written over — and
written as a definition to lean/FormulaTie/Gen<Group>.lean.  The hand-written files lean/FormulaTie/<Group>.lean
state, and close by `rfl` (or a two-line unfolding), that each generated definition *is* the corresponding
definition of the model.  So the arithmetic the theorems talk about is re-derived from the source on every run:
a moved parenthesis, a dropped factor, `.all()` for `.any()`, `>` for `>=`, another constant, an extra or a
missing branch changes the generated term and the tie stops checking.

What is translated (anything else is an error, reported, and the definition is left out so that the tie of
that group fails and names it):

  expressions  names and subscripts listed in the entry's `env`; int and float constants (a float constant that
               is not an integer becomes a quotient of integers); + - * / ** and unary -; one comparison
               (> < >= <= ==); `and`/`or`/`&`/`~` on truth values; math.floor/ceil, np.floor/ceil, int(), float(),
               np.asarray, min/max, np.minimum/np.maximum, np.exp/np.log, np.power; calls listed in `env` as
               `call:<callee>`; `.astype(...)` (dropped); `.any()` / `.all()` over the entry's element-wise
               variable (-> List.any / List.all)
  statements   (select = body) docstring, assert (dropped, listed in the output as an assumption of the source),
               assignment and augmented assignment to a local name, tuple assignment listed in `env`,
               `if` whose branches assign one local or whose body returns, `return`

Usage: gen_formulas.py [repo]     regenerate the Gen*.lean files (each written only if its content differs);
                                  prints a JSON object {group: [problems]} on stdout
"""
import ast
import json
import os
import sys
from fractions import Fraction

VERIF = os.path.dirname(os.path.dirname(os.path.abspath(__file__)))
DIR = os.path.join(VERIF, "lean", "FormulaTie")


class Untranslatable(Exception):
    pass


# ---------------------------------------------------------------------------------------------- the table
# env: python source text of a sub-expression (as ast.unparse prints it) -> (lean term, type)
#      types: num (α), int (Int), bool (Bool); "call:<callee text>" -> (lean function, indices of the arguments passed on)
N, I, B = "num", "int", "bool"
FORMULAS = [
    # ---- zeta_grid.py: the levels of the grid
    dict(group="Grid", name="gridLo", file="zeta_grid.py", func="populate_zeta_grid", select=("callarg", "range", 0, 0),
         binders="(zmin step : α)", ret="Int", env={"zeta_bounds[0]": ("zmin", N), "grid_interval_mm": ("step", N)}),
    dict(group="Grid", name="gridHi", file="zeta_grid.py", func="populate_zeta_grid", select=("callarg", "range", 0, 1),
         binders="(zmax step : α)", ret="Int", env={"zeta_bounds[1]": ("zmax", N), "grid_interval_mm": ("step", N)}),
    # ---- classify.py: thresholds
    dict(group="Classify", name="interstormIsJump", file="classify.py", func="classify_interstorms", select=("assign", "is_jump", 0),
         binders="(j stepH inc : α)", ret="Bool",
         env={"increments": ("inc", N), "rising_jump_threshold_mm_h": ("j", N), "time_step_h": ("stepH", N)}),
    dict(group="Classify", name="interstormIncrement", file="classify.py", func="classify_interstorms", select=("assign", "increments", 0),
         binders="(zNext zPrev : α)", ret="List α",
         env={"zeta_mm[1:]": ("zNext", N), "zeta_mm[:-1]": ("zPrev", N)}, concat=True),
    dict(group="Classify", name="jumpDeltaThreshold", file="classify.py", func="match_all_storms", select=("assign", "jump_delta_threshold", 0),
         binders="(j stepH : α)", ret="α", env={"rising_jump_threshold_mm_h": ("j", N), "time_step_h": ("stepH", N)}),
    dict(group="Classify", name="isStorm", file="classify.py", func="match_all_storms", select=("assign", "is_storm", 0),
         binders="(s rain : α)", ret="Bool", env={"rainfall_intensity_mm_h": ("rain", N), "storm_rain_threshold_mm_h": ("s", N)}),
    dict(group="Classify", name="matchIsRaining", file="classify.py", func="match_storms", select=("assign", "is_raining", 0),
         binders="(s rain : α)", ret="Bool", env={"rain": ("rain", N), "rain_threshold": ("s", N)}),
    dict(group="Classify", name="matchIsJump", file="classify.py", func="match_storms", select=("assign", "is_jump", 0),
         binders="(thr inc : α)", ret="Bool", env={"head_increments": ("inc", N), "jump_threshold": ("thr", N)}),
    # ---- classify.py: index -> epoch conventions of match_all_storms (the statements are inside its loop over pairs)
    dict(group="Classify", name="stormStartEpoch", file="classify.py", func="match_all_storms", select=("assign", "storm_start_epoch", 0, "nested"),
         binders="(eFirst : Int)", ret="Int", env={"epoch[rain_start]": ("eFirst", I)}),
    dict(group="Classify", name="stormThruEpoch", file="classify.py", func="match_all_storms", select=("assign", "storm_thru_epoch", 0, "nested"),
         binders="(eLast step : Int)", ret="Int", env={"epoch[rain_stop - 1]": ("eLast", I), "time_step_s": ("step", I)}),
    dict(group="Classify", name="jumpStartEpoch", file="classify.py", func="match_all_storms", select=("assign", "jump_start_epoch", 0, "nested"),
         binders="(eFirst : Int)", ret="Int", env={"epoch[jump_start]": ("eFirst", I)}),
    dict(group="Classify", name="jumpThruEpoch", file="classify.py", func="match_all_storms", select=("assign", "jump_thru_epoch", 0, "nested"),
         binders="(eLast : Int)", ret="Int", env={"epoch[jump_stop - 1]": ("eLast", I)}),
    # ---- classify.py: the state machine of get_mystery_jump_mask (initial state, one step of the loop)
    dict(group="Classify", name="mysteryInit", file="classify.py", func="get_mystery_jump_mask", select=("assign", "in_mystery", 0),
         binders="", ret="Bool", env={}),
    dict(group="Classify", name="mysteryStep", file="classify.py", func="get_mystery_jump_mask",
         select=("loopstep", 0, "in_mystery", "mystery_jump_mask"),
         binders="(st j w : Bool)", ret="Bool", state=("in_mystery", "st", B),
         env={"is_raining[i]": ("w", B), "is_jump[i]": ("j", B)}),
    # ---- regrid.py: which levels a segment crosses
    dict(group="Regrid", name="scaled", file="regrid.py", func="regrid", select=("assign", "Y", 0),
         binders="(y step : α)", ret="α", env={"y": ("y", N), "y_step": ("step", N)}),
    dict(group="Regrid", name="ceilOf", file="regrid.py", func="regrid", select=("assign", "y_int", 0),
         binders="(Y : α)", ret="Int", env={"Y": ("Y", N)}),
    dict(group="Regrid", name="ascending", file="regrid.py", func="regrid", select=("iftest", 0, "for"),
         binders="(start stop : Int)", ret="Bool", env={"start": ("start", I), "stop": ("stop", I)}),
    # ---- spline.py: constant extrapolation and the three pieces of the integral
    dict(group="Spline", name="clamp", file="spline.py", func="Spline.__call__", select=("assign", "x_clamped", 0),
         binders="(xmin xmax x : α)", ret="α", env={"x": ("x", N), "self._tck[0][0]": ("xmin", N), "self._tck[0][-1]": ("xmax", N)}),
    dict(group="Spline", name="integrate", file="spline.py", func="Spline.integrate", select=("body",),
         binders="(inner : α → α) (splint : α → α → α) (xmin xmax a b swapped : α)", ret="α",
         env={"a": ("a", N), "b": ("b", N), "self.integrate(b, a)": ("swapped", N),
              "tuple:xmin,xmax=self.domain()": (("xmin", N), ("xmax", N)),
              "call:self": ("evalExt inner xmin xmax", [0]), "call:splint": ("splint", [0, 1])}),
    # ---- transmissivity.py / specific_yield.py: PEATCLSM
    dict(group="Peatclsm", name="tRefused", file="transmissivity.py", func="PeatclsmTransmissivity.__call__", select=("iftest", 0, None),
         binders="(zmax : α) (levels : List α)", ret="Bool", elem=("water_level_mm", "levels", "z"),
         env={"zeta_max_cm": ("zmax", N)}),
    dict(group="Peatclsm", name="tValue", file="transmissivity.py", func="PeatclsmTransmissivity.__call__", select=("return", 0),
         binders="(K0 alpha zmax z : α)", ret="α", numt=True,
         env={"Ksmacz0": ("K0", N), "alpha": ("alpha", N), "zeta_max_cm": ("zmax", N), "water_level_mm": ("z", N)}),
    dict(group="Peatclsm", name="campbell", file="specific_yield.py", func="campbell_1d_az", select=("body",),
         binders="(Fs z zlu thetaS psiS b : α)", ret="α", numt=True,
         env={"Fs": ("Fs", N), "z_": ("z", N), "zlu": ("zlu", N), "theta_s": ("thetaS", N), "psi_s": ("psiS", N), "b": ("b", N)}),
    # ---- simulate_rise.py / simulate_recession.py
    dict(group="Simulate", name="riseShift", file="simulate_rise.py", func="compute_rise_curve", select=("augassign", "W_mm", 0),
         binders="(mean m : α)", ret="α", env={"mean_storage_mm": ("mean", N), "W_mm.mean()": ("m", N)}),
    dict(group="Simulate", name="recessionShift", file="simulate_recession.py", func="compute_recession_curve", select=("augassign", "elapsed_time_d", 0),
         binders="(mean m : α)", ret="α", env={"mean_elapsed_time_d": ("mean", N), "elapsed_time_d.mean()": ("m", N)}),
    dict(group="Simulate", name="integrand", file="simulate_recession.py", func="compute_recession_curve.f", select=("return", 0),
         binders="(sy T : α → α) (et kappa z : α)", ret="α",
         env={"et_mm_d": ("et", N), "curvature_km": ("kappa", N), "zeta_mm": ("z", N),
              "call:specific_yield": ("sy", [0]), "call:transmissivity_m2_d": ("T", [0])}),
    dict(group="Simulate", name="peatclsmPerDay", file="simulate_recession.py", func="simulate_recession.transmissivity_m2_d", select=("return", 0),
         binders="(T : α → α) (z : α)", ret="α", env={"zeta_mm": ("z", N), "call:transmissivity_m2_s": ("T", [0])}),
    dict(group="Simulate", name="curvaturePerKm", file="simulate_recession.py", func="simulate_recession", select=("kwarg", "compute_recession_curve", "curvature_km"),
         binders="(c : α)", ret="α", env={"curvature_m_km2": ("c", N)}),
    dict(group="Simulate", name="gridMm", file="simulate_recession.py", func="simulate_recession", select=("kwarg", "compute_recession_curve", "zeta_grid_mm"),
         binders="(zcm : α)", ret="α", env={"avg_zeta_cm": ("zcm", N)}),
]


# ---------------------------------------------------------------------------------------------- locating
def find_function(tree, qual):
    node = tree
    for part in qual.split("."):
        found = None
        for child in ast.walk(node):
            if child is not node and isinstance(child, (ast.FunctionDef, ast.ClassDef)) and child.name == part:
                found = child
                break
        if found is None:
            raise Untranslatable("no function or class `%s` (looking for %s)" % (part, qual))
        node = found
    return node


def own_nodes(fn):
    """nodes of the function body in source order, not descending into nested function definitions"""
    out = []

    def visit(n):
        for c in ast.iter_child_nodes(n):
            if isinstance(c, (ast.FunctionDef, ast.ClassDef, ast.Lambda)):
                continue
            out.append(c)
            visit(c)
    for st in fn.body:
        out.append(st)
        visit(st)
    return out


def select(fn, sel):
    kind = sel[0]
    nodes = own_nodes(fn)
    if kind == "body":
        return fn.body
    if kind in ("assign", "augassign") and not (len(sel) > 3 and sel[3] == "nested"):
        # the statement itself must be a statement of the function body, not one made conditional or repeated
        nodes = list(fn.body)
    if kind == "assign":
        hits = [n for n in nodes if isinstance(n, ast.Assign) and len(n.targets) == 1 and isinstance(n.targets[0], ast.Name)
                and n.targets[0].id == sel[1]]
        if len(hits) <= sel[2]:
            raise Untranslatable("no assignment #%d to `%s` among the statements of the function body" % (sel[2], sel[1]))
        return hits[sel[2]].value
    if kind == "augassign":
        hits = [n for n in nodes if isinstance(n, ast.AugAssign) and isinstance(n.target, ast.Name) and n.target.id == sel[1]]
        if len(hits) <= sel[2]:
            raise Untranslatable("no augmented assignment #%d to `%s` among the statements of the function body" % (sel[2], sel[1]))
        if not isinstance(hits[sel[2]].op, ast.Add):
            raise Untranslatable("augmented assignment to `%s` is not `+=`" % sel[1])
        return hits[sel[2]].value
    if kind == "return":
        hits = [n for n in nodes if isinstance(n, ast.Return)]
        if len(hits) != 1 + sel[1] and sel[1] == 0 and len(hits) != 1:
            raise Untranslatable("expected one return statement, found %d" % len(hits))
        return hits[sel[1]].value
    if kind == "iftest":
        scope = nodes
        if sel[2] == "for":
            loops = [n for n in nodes if isinstance(n, ast.For)]
            if not loops:
                raise Untranslatable("no for loop")
            scope = []
            for st in loops[0].body:
                scope.append(st)
                scope.extend(ast.walk(st))
        hits = [n for n in scope if isinstance(n, ast.If)]
        if len(hits) <= sel[1]:
            raise Untranslatable("no `if` #%d" % sel[1])
        return hits[sel[1]].test
    if kind == "loopstep":
        loops = [n for n in fn.body if isinstance(n, ast.For)]
        if len(loops) <= sel[1]:
            raise Untranslatable("no for loop #%d among the statements of the function body" % sel[1])
        loop = loops[sel[1]]
        if loop.orelse or not (isinstance(loop.target, ast.Name) and isinstance(loop.iter, ast.Call)
                               and ast.unparse(loop.iter.func) == "range" and len(loop.iter.args) == 1
                               and ast.unparse(loop.iter.args[0]).startswith("len(")):
            raise Untranslatable("the loop is not `for i in range(len(...))`: %s" % ast.unparse(loop).split("\n")[0])
        last = loop.body[-1]
        want = "%s[%s] = %s" % (sel[3], loop.target.id, sel[2])
        if ast.unparse(last) != want:
            raise Untranslatable("the loop does not end with `%s` (it ends with `%s`)" % (want, ast.unparse(last).split("\n")[0]))
        if any(isinstance(n, (ast.Break, ast.Continue)) for st in loop.body for n in ast.walk(st)):
            raise Untranslatable("break/continue inside the loop")
        return loop.body[:-1]
    if kind == "callarg":
        hits = [n for n in nodes if isinstance(n, ast.Call) and ast.unparse(n.func) == sel[1]]
        if len(hits) <= sel[2] or len(hits[sel[2]].args) <= sel[3]:
            raise Untranslatable("no call #%d of `%s` with argument %d" % (sel[2], sel[1], sel[3]))
        if len(hits[sel[2]].args) != 2:
            raise Untranslatable("`%s` is called with %d arguments" % (sel[1], len(hits[sel[2]].args)))
        return hits[sel[2]].args[sel[3]]
    if kind == "kwarg":
        hits = [n for n in nodes if isinstance(n, ast.Call) and ast.unparse(n.func) == sel[1]]
        for h in hits:
            for kw in h.keywords:
                if kw.arg == sel[2]:
                    return kw.value
        raise Untranslatable("no call of `%s` with keyword `%s`" % (sel[1], sel[2]))
    raise Untranslatable("unknown selector %r" % (sel,))


# ---------------------------------------------------------------------------------------------- expressions
class Tx:
    def __init__(self, spec):
        self.env = dict(spec.get("env", {}))
        self.elem = spec.get("elem")          # (python name, lean list binder, lean element binder)
        self.concat = spec.get("concat", False)
        self.asserts = []
        self.locals = {}
        self.defs = {}
        self.resolving = set()

    def scan(self, fn):
        """temporaries: names assigned exactly once in the whole function, by a plain assignment that is a statement of its body"""
        count = {}
        for n in own_nodes(fn):
            for t in (n.targets if isinstance(n, ast.Assign) else [n.target] if isinstance(n, (ast.AugAssign, ast.For)) else []):
                for leaf in ast.walk(t):
                    if isinstance(leaf, ast.Name):
                        count[leaf.id] = count.get(leaf.id, 0) + 1
        for st in fn.body:
            if isinstance(st, ast.Assign) and len(st.targets) == 1 and isinstance(st.targets[0], ast.Name) and count.get(st.targets[0].id) == 1:
                self.defs[st.targets[0].id] = st.value

    def num(self, t):
        s, ty = t
        if ty == N:
            return s
        if ty == "intlit" and s.startswith("(-"):
            return "(Num.neg (Num.ofInt %s))" % s[2:-1]     # Python: unary minus applied to the literal
        if ty in (I, "intlit"):
            return "(Num.ofInt %s)" % s
        raise Untranslatable("a truth value is used as a number: %s" % s)

    def expr(self, node):
        src = ast.unparse(node)
        if src in self.env:
            return self.env[src]
        if isinstance(node, ast.Name) and node.id in self.locals:
            return self.locals[node.id]
        if self.elem and isinstance(node, ast.Name) and node.id == self.elem[0]:
            return (self.elem[2], N)
        if isinstance(node, ast.Name) and node.id in self.defs and node.id not in self.resolving:
            # a temporary of the function: assigned once, by a statement of the function body -- its value is substituted
            self.resolving.add(node.id)
            try:
                return self.expr(self.defs[node.id])
            finally:
                self.resolving.discard(node.id)
        if isinstance(node, ast.Constant):
            v = node.value
            if isinstance(v, bool):
                return ("true" if v else "false", B)
            if isinstance(v, int):
                return (str(v) if v >= 0 else "(%d)" % v, "intlit")
            if isinstance(v, float):
                if v == int(v) and abs(v) < 2 ** 53:
                    return (str(int(v)) if v >= 0 else "(%d)" % int(v), "intlit")
                q = Fraction(repr(v))
                if q < 0 or max(q.numerator, q.denominator) >= 2 ** 53:
                    raise Untranslatable("constant %r is not a quotient of two exactly representable integers" % (v,))
                # the nearest double to the decimal = the correctly rounded quotient of its (exact) numerator and denominator
                return ("(Num.div (Num.ofInt %d) (Num.ofInt %d))" % (q.numerator, q.denominator), N)
            raise Untranslatable("constant %r" % (v,))
        if isinstance(node, ast.UnaryOp):
            if isinstance(node.op, ast.USub):
                t = self.expr(node.operand)
                if t[1] == "intlit":
                    return ("(-%s)" % t[0], "intlit")
                if t[1] == I:
                    return ("(-%s)" % t[0], I)
                return ("(Num.neg %s)" % self.num(t), N)
            if isinstance(node.op, (ast.Invert, ast.Not)):
                t = self.expr(node.operand)
                if t[1] != B:
                    raise Untranslatable("`~`/`not` on a number: %s" % src)
                return ("(!%s)" % t[0], B)
            raise Untranslatable("unary operator in %s" % src)
        if isinstance(node, ast.BinOp):
            left, right = self.expr(node.left), self.expr(node.right)
            if isinstance(node.op, ast.BitAnd) and left[1] == B and right[1] == B:
                return ("(%s && %s)" % (left[0], right[0]), B)
            if isinstance(node.op, ast.BitOr) and left[1] == B and right[1] == B:
                return ("(%s || %s)" % (left[0], right[0]), B)
            ops = {ast.Add: ("+", "Num.add"), ast.Sub: ("-", "Num.sub"), ast.Mult: ("*", "Num.mul"), ast.Div: (None, "Num.div"),
                   ast.Pow: (None, "NumT.pow")}
            for k, (iop, nop) in ops.items():
                if isinstance(node.op, k):
                    if iop and left[1] in (I, "intlit") and right[1] in (I, "intlit") and I in (left[1], right[1]):
                        return ("(%s %s %s)" % (left[0], iop, right[0]), I)
                    return ("(%s %s %s)" % (nop, self.num(left), self.num(right)), N)
            raise Untranslatable("operator in %s" % src)
        if isinstance(node, ast.Compare):
            if len(node.ops) != 1:
                raise Untranslatable("chained comparison %s" % src)
            left, right = self.expr(node.left), self.expr(node.comparators[0])
            op = node.ops[0]
            if left[1] == I and right[1] == I:
                form = {ast.Gt: "decide (%s < %s)" % (right[0], left[0]), ast.Lt: "decide (%s < %s)" % (left[0], right[0]),
                        ast.GtE: "decide (%s ≤ %s)" % (right[0], left[0]), ast.LtE: "decide (%s ≤ %s)" % (left[0], right[0]),
                        ast.Eq: "decide (%s = %s)" % (left[0], right[0])}
            else:
                a, b = self.num(left), self.num(right)
                form = {ast.Gt: "Num.lt %s %s" % (b, a), ast.Lt: "Num.lt %s %s" % (a, b), ast.GtE: "Num.le %s %s" % (b, a),
                        ast.LtE: "Num.le %s %s" % (a, b), ast.Eq: "Num.beq %s %s" % (a, b)}
            for k, v in form.items():
                if isinstance(op, k):
                    return ("(%s)" % v, B)
            raise Untranslatable("comparison operator in %s" % src)
        if isinstance(node, ast.BoolOp):
            parts = [self.expr(v) for v in node.values]
            if any(p[1] != B for p in parts):
                raise Untranslatable("and/or on numbers: %s" % src)
            return ("(" + (" && " if isinstance(node.op, ast.And) else " || ").join(p[0] for p in parts) + ")", B)
        if isinstance(node, ast.Call):
            fn = ast.unparse(node.func)
            if "call:" + fn in self.env:
                lean, idx = self.env["call:" + fn]
                if node.keywords and fn != "splint":
                    raise Untranslatable("keyword arguments in %s" % src)
                if max(idx) >= len(node.args):
                    raise Untranslatable("too few arguments in %s" % src)
                return ("(%s %s)" % (lean, " ".join(self.num(self.expr(node.args[i])) for i in idx)), N)
            if isinstance(node.func, ast.Attribute) and node.func.attr in ("any", "all", "astype"):
                inner = self.expr(node.func.value)
                if node.func.attr == "astype":
                    return inner
                if inner[1] != B or not self.elem:
                    raise Untranslatable("`.%s()` outside an element-wise truth value: %s" % (node.func.attr, src))
                return ("(%s.%s (fun %s => %s))" % (self.elem[1], node.func.attr, self.elem[2], inner[0]), B)
            if fn == "np.concatenate" and self.concat and len(node.args) == 1 and isinstance(node.args[0], ast.Tuple) \
                    and len(node.args[0].elts) == 2:
                # np.concatenate(([c], v)): the constant first, then the element-wise expression
                head, tail = node.args[0].elts
                if not (isinstance(head, ast.List) and len(head.elts) == 1):
                    raise Untranslatable("np.concatenate whose first part is not a one-element list: %s" % src)
                return ("[%s, %s]" % (self.num(self.expr(head.elts[0])), self.num(self.expr(tail))), "list")
            args = [self.expr(a) for a in node.args]
            if node.keywords and not (fn in ("np.array", "np.asarray") and all(k.arg == "dtype" for k in node.keywords)):
                raise Untranslatable("keyword arguments in %s" % src)
            if fn in ("math.floor", "np.floor") and len(args) == 1:
                return ("(Num.floor %s)" % self.num(args[0]), I)
            if fn in ("math.ceil", "np.ceil") and len(args) == 1:
                return ("(Num.ceil %s)" % self.num(args[0]), I)
            if fn == "int" and len(args) == 1 and args[0][1] in (I, "intlit"):
                return args[0]
            if fn in ("float", "np.asarray", "np.array") and len(args) == 1:
                return args[0]
            if fn in ("min", "np.minimum") and len(args) == 2:
                return ("(Num.min %s %s)" % (self.num(args[0]), self.num(args[1])), N)
            if fn in ("max", "np.maximum") and len(args) == 2:
                return ("(Num.max %s %s)" % (self.num(args[0]), self.num(args[1])), N)
            if fn == "np.exp" and len(args) == 1:
                return ("(NumT.exp %s)" % self.num(args[0]), N)
            if fn == "np.log" and len(args) == 1:
                return ("(NumT.log %s)" % self.num(args[0]), N)
            if fn == "np.power" and len(args) == 2:
                return ("(NumT.pow %s %s)" % (self.num(args[0]), self.num(args[1])), N)
            raise Untranslatable("call of `%s` in %s" % (fn, src))
        raise Untranslatable("%s `%s`" % (type(node).__name__, src))

    # ------------------------------------------------------------------------------------------ statements
    def assigned(self, stmts):
        out = []
        for st in stmts:
            if isinstance(st, ast.Assign) and len(st.targets) == 1 and isinstance(st.targets[0], ast.Name):
                out.append(st.targets[0].id)
            elif isinstance(st, ast.AugAssign) and isinstance(st.target, ast.Name):
                out.append(st.target.id)
            elif isinstance(st, (ast.Expr, ast.Assert)):
                pass
            elif isinstance(st, ast.If) and not any(isinstance(n, ast.Return) for n in ast.walk(st)):
                out += self.assigned(st.body + st.orelse)
            else:
                raise Untranslatable("statement `%s` inside a branch" % ast.unparse(st).split("\n")[0])
        return sorted(set(out))

    @staticmethod
    def inline(term):
        return "(" + term.replace("\n  ", "; ") + ")" if "\n" in term else term

    def lname(self, py):
        return "v_" + py

    def block(self, stmts, tail=None):
        """Lean term for the statements; `tail` = (python name) whose value ends an assignment-only block"""
        if not stmts:
            if tail is None:
                raise Untranslatable("the function can end without returning a value")
            if tail not in self.locals:
                raise Untranslatable("`%s` may be used before it is assigned" % tail)
            return self.locals[tail][0]
        st, rest = stmts[0], stmts[1:]
        if isinstance(st, ast.Expr) and isinstance(st.value, ast.Constant) and isinstance(st.value.value, str):
            return self.block(rest, tail)
        if isinstance(st, ast.Assert):
            self.asserts.append(ast.unparse(st.test))
            return self.block(rest, tail)
        if isinstance(st, ast.Return):
            if tail is not None:
                raise Untranslatable("return inside a branch that also assigns")
            t = self.expr(st.value)
            return self.num(t) if t[1] != B else t[0]
        if isinstance(st, ast.Assign) and len(st.targets) == 1 and isinstance(st.targets[0], ast.Tuple):
            key = "tuple:" + ",".join(ast.unparse(e) for e in st.targets[0].elts) + "=" + ast.unparse(st.value)
            if key not in self.env:
                raise Untranslatable("tuple assignment `%s`" % ast.unparse(st))
            for e, b in zip(st.targets[0].elts, self.env[key]):
                self.locals[e.id] = b
            return self.block(rest, tail)
        if isinstance(st, ast.Assign) and len(st.targets) == 1 and isinstance(st.targets[0], ast.Name):
            v = st.targets[0].id
            t = self.expr(st.value)
            saved = dict(self.locals)
            self.locals[v] = (self.lname(v), N if t[1] in (I, "intlit", N) else t[1])
            body = self.block(rest, tail)
            self.locals = saved
            return "let %s := %s\n  %s" % (self.lname(v), self.num(t) if t[1] != B else t[0], body)
        if isinstance(st, ast.AugAssign) and isinstance(st.target, ast.Name):
            v = st.target.id
            if v not in self.locals:
                raise Untranslatable("`%s` is updated before it is assigned" % v)
            op = {ast.Add: "Num.add", ast.Sub: "Num.sub", ast.Mult: "Num.mul", ast.Div: "Num.div"}.get(type(st.op))
            if op is None:
                raise Untranslatable("augmented assignment `%s`" % ast.unparse(st))
            t = self.expr(st.value)
            cur = self.locals[v][0]
            body = self.block(rest, tail)
            return "let %s := %s %s %s\n  %s" % (self.lname(v), op, cur, self.num(t), body)
        if isinstance(st, ast.If):
            cond = self.expr(st.test)
            if cond[1] != B:
                raise Untranslatable("the test of `if %s` is a number (truthiness)" % ast.unparse(st.test))
            returns = any(isinstance(n, ast.Return) for s2 in st.body for n in ast.walk(s2))
            if returns:
                if st.orelse:
                    raise Untranslatable("`if` with a return and an else branch")
                return "if %s then %s\n  else %s" % (cond[0], self.block(st.body, None), self.block(rest, tail))
            vs = self.assigned(st.body + st.orelse)
            if len(vs) != 1:
                raise Untranslatable("an `if` whose branches assign %d names" % len(vs))
            v = vs[0]
            saved = dict(self.locals)
            then = self.block(st.body, v)
            self.locals = dict(saved)
            other = self.block(st.orelse, v)
            self.locals = dict(saved)
            self.locals[v] = (self.lname(v), saved[v][1] if v in saved else N)
            body = self.block(rest, tail)
            self.locals = saved
            return "let %s := if %s then %s else %s\n  %s" % (self.lname(v), cond[0], self.inline(then), self.inline(other), body)
        raise Untranslatable("statement `%s`" % ast.unparse(st).split("\n")[0])


def translate(repo, spec):
    path = os.path.join(repo, "spowtd", spec["file"])
    with open(path) as fh:
        tree = ast.parse(fh.read())
    fn = find_function(tree, spec["func"])
    sel = select(fn, spec["select"])
    tx = Tx(spec)
    if spec["select"][0] not in ("body", "loopstep"):
        tx.scan(fn)
    if spec["select"][0] == "loopstep":
        py, binder, ty = spec["state"]
        tx.locals[py] = (binder, ty)
        term = tx.block(list(sel), py)
        source = "one pass of the loop of %s on `%s`" % (spec["func"], py)
    elif spec["select"][0] == "body":
        term = tx.block(list(sel))
        source = "body of %s" % spec["func"]
    else:
        t = tx.expr(sel)
        want = {"Int": (I, "intlit"), "Bool": (B,), "α": (N, I, "intlit"), "List α": ("list",)}[spec["ret"]]
        if t[1] not in want:
            raise Untranslatable("`%s` is a %s, expected %s" % (ast.unparse(sel), t[1], spec["ret"]))
        term = tx.num(t) if spec["ret"] == "α" else t[0]
        source = ast.unparse(sel)
    return term, source, tx.asserts


def render(repo, group):
    problems = []
    specs = [s for s in FORMULAS if s["group"] == group]
    L = ["import SpowtdModel.Model.Hydraulic", "import SpowtdModel.Model.Spline", "/-",
         "  GENERATED by tools/gen_formulas.py from spowtd/*.py -- do not edit.", "-/",
         "namespace Spowtd.FormulaTie.Gen", "open Spowtd", ""]
    for s in specs:
        where = "spowtd/%s %s, %s" % (s["file"], s["func"], " ".join(str(x) for x in s["select"]))
        try:
            term, source, asserts = translate(repo, s)
        except (Untranslatable, OSError, SyntaxError) as e:
            problems.append("%s (%s): %s" % (s["name"], where, e))
            L += ["-- %s: NOT TRANSLATED (%s): %s" % (s["name"], where, str(e).replace("\n", " ")), ""]
            continue
        cls = "{α : Type} [NumT α]" if s.get("numt") else "{α : Type} [Num α]"
        if "α" not in s["binders"] + s["ret"]:
            cls = ""
        doc = source.replace("-/", "- /").split("\n")
        L += ["/-- %s:" % where] + ["    `" + ln + "`" for ln in doc[:1]] + (
            ["    asserted in the source: " + "; ".join("`%s`" % a for a in asserts)] if asserts else []) + ["-/"]
        L += ["def %s %s %s : %s :=\n  %s" % (s["name"], cls, s["binders"], s["ret"], term), ""]
    L += ["end Spowtd.FormulaTie.Gen", ""]
    return "\n".join(L), problems


def main():
    args = [a for a in sys.argv[1:] if not a.startswith("--")]
    repo = args[0] if args else "/repo"
    os.makedirs(DIR, exist_ok=True)
    report = {}
    for group in sorted({s["group"] for s in FORMULAS}):
        text, problems = render(repo, group)
        report[group] = problems
        path = os.path.join(DIR, "Gen%s.lean" % group)
        old = None
        if os.path.exists(path):
            with open(path) as fh:
                old = fh.read()
        if old != text:
            with open(path, "w") as fh:
                fh.write(text)
    print(json.dumps(report))


if __name__ == "__main__":
    main()
