#!/bin/bash
# confirm_seeded.sh <id> [worktree]: confirm a seeded change in its scratch worktree:
#   demo fails with the change, passes without it, the repository's suite passes with it.
# Writes /verif/seeded/<id>/{patch.diff,demo.py,confirm.log}.  meta.json is written by hand afterwards.
id=$1
wt=${2:-/tmp/mut/$id}
out=/verif/seeded/$id
mkdir -p $out
cd $wt || exit 2
if [ ! -s $out/patch.diff ]; then git diff > $out/patch.diff; fi
git checkout -q -- . && git apply $out/patch.diff || exit 3
cp demo.py $out/demo.py
{
echo "== demo with the change"; /venv/bin/python demo.py > /tmp/mut/$id.demo_mod.txt 2>&1; echo "exit $?"; tail -3 /tmp/mut/$id.demo_mod.txt
git checkout -q -- .      # (no `git stash`: linked worktrees share one stash stack)
echo "== demo without the change"; /venv/bin/python demo.py > /tmp/mut/$id.demo_orig.txt 2>&1; echo "exit $?"; tail -2 /tmp/mut/$id.demo_orig.txt
git apply $out/patch.diff
echo "== test suite with the change"
/venv/bin/python -m pytest -q -p no:cacheprovider --timeout=900 --deselect "spowtd/test/test_specific_yield.py::test_specific_yield[peatclsm-None]" --deselect "spowtd/test/test_transmissivity.py::test_transmissivity[peatclsm-None]" 2>&1 | tail -2
} > $out/confirm.log 2>&1
echo "$id confirmed: $(grep -c '' $out/confirm.log) lines"
