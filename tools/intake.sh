#!/bin/bash
# intake.sh <worktree-dir> <property-id> <suffix> [checks...]: take a sub-agent's change into /verif/seeded/<id><suffix>/
# (patch.diff, demo.py), run the given checks (default: the property's own) against the worktree with seeds 0 and 1 with the
# translator ties off, and start the confirmation (demo both ways + repository suite) in the background.
wt=$1; id=$2; suf=$3; shift 3
checks=${@:-$id}
out=/verif/seeded/$id$suf
mkdir -p $out
git -C $wt diff > $out/patch.diff
cp $wt/demo.py $out/demo.py 2>/dev/null
cd /verif
for c in $checks; do
  for sd in 0 1; do
    r=$(VERIF_SEED=$sd VERIF_NO_TIE=1 SPOWTD_REPO=$wt /venv/bin/python check.py $c --tier quick 2>&1)
    echo "$id$suf by $c seed $sd: $(echo "$r" | grep -c '^VIOLATION') violation lines ($(echo "$r" | grep '^VIOLATION' | grep -c no-failing-input-found) without input); $(echo "$r" | tail -1 | cut -c1-90)"
  done
done
(tools/confirm_seeded.sh $id$suf $wt > $(dirname $wt)/confirm_$id.txt 2>&1 &)
