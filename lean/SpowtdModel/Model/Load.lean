import SpowtdModel.Model.Num
import SpowtdModel.Model.Classify
/-
  Model of `spowtd load` after timestamp conversion (load.py: populate_grid_time,
  populate_rainfall_intensity, populate_evapotranspiration, populate_water_level).
  Input: the three files as lists of (epoch, value) rows in any order.
-/
namespace Spowtd
open Num

inductive LoadErr
  | populated | duplicate | nonuniform | noET
  deriving Repr, DecidableEq

structure Files (α : Type) where
  rain : List (Int × α)
  et : List (Int × α)
  level : List (Int × α)

variable {α : Type} [Num α]

/-- insertion sort by epoch (the staging tables are read back in primary-key order) -/
def insertRow (x : Int × α) : List (Int × α) → List (Int × α)
  | [] => [x]
  | y :: ys => if x.1 ≤ y.1 then x :: y :: ys else y :: insertRow x ys
def sortRows (l : List (Int × α)) : List (Int × α) := l.foldr insertRow []

def hasDup : List Int → Bool
  | [] => false
  | x :: xs => xs.contains x || hasDup xs

def diffs (es : List Int) : List Int := List.zipWith (fun b a => b - a) es.tail es

def minOf : List Int → Option Int
  | [] => none
  | x :: xs => some (xs.foldl (fun m y => if y < m then y else m) x)

/-- rainfall epochs inside the span of the water-level record, ascending -/
def gridCore (rain level : List (Int × α)) : List Int :=
  match minOf (level.map (·.1)), minOf (level.map (fun z => - z.1)) with
  | some lo, some nhi => ((sortRows rain).map (·.1)).filter (fun e => decide (lo ≤ e) && decide (e ≤ - nhi))
  | _, _ => []

/-- the uniform step, if the core has at least two instants and all differences agree -/
def stepOf (core : List Int) : Option Int :=
  match diffs core with
  | [] => none
  | d :: ds => if ds.all (fun x => x == d) then some d else none

/-- pairs of consecutive source samples further apart than the smallest sampling step -/
def gapsOf (zt : List Int) : List (Int × Int) :=
  match minOf (diffs zt) with
  | none => []
  | some m => (List.zip zt zt.tail).filter (fun p => p.2 - p.1 != m)

/-- valid intervals `[start, thru]` with labels 1, 2, …: from the first grid instant to the first
    gap, between gaps, and from the last gap to the closing instant -/
def validIntervals (first closing : Int) (gaps : List (Int × Int)) : List (Int × Int × Nat) :=
  let starts := first :: gaps.map (·.2)
  let thrus := gaps.map (·.1) ++ [closing]
  (List.zip starts thrus).zipIdx.map (fun p => (p.1.1, p.1.2, p.2 + 1))

/-- label of a grid instant: the last interval containing it -/
def labelOf (ivs : List (Int × Int × Nat)) (g : Int) : Option Nat :=
  ivs.foldl (fun acc iv => if decide (iv.1 ≤ g) && decide (g ≤ iv.2.1) then some iv.2.2 else acc) none

/-- `np.interp` on ascending abscissae, for `x` inside their range:
    bracketing pair, `slope * (x - x_j) + y_j`, exact at a sample and at the last sample -/
def interp : List (Int × α) → Int → Option α
  | [] , _ => none
  | [a], x => if x == a.1 then some a.2 else none
  | a :: b :: rest, x =>
    if x < a.1 then none
    else if x == a.1 then some a.2
    else if x < b.1 then
      some (Num.add (Num.mul (Num.div (Num.sub b.2 a.2) (Num.ofInt (b.1 - a.1))) (Num.ofInt (x - a.1))) a.2)
    else interp (b :: rest) x

def load (f : Files α) (populated : Bool) : Except LoadErr (Loaded α) :=
  if populated then .error .populated
  else if hasDup (f.rain.map (·.1)) || hasDup (f.et.map (·.1)) || hasDup (f.level.map (·.1)) then
    .error .duplicate
  else
    let core := gridCore f.rain f.level
    match stepOf core with
    | none => .error .nonuniform
    | some dt =>
      let closing := core.getLastD 0 + dt
      let grid := core ++ [closing]
      if !(grid.all (fun g => f.et.any (fun r => r.1 == g))) then .error .noET
      else
        let zs := sortRows f.level
        let ivs := validIntervals (core.headD 0) closing (gapsOf (zs.map (·.1)))
        let copy (src : List (Int × α)) : List (Int × Int × α) :=
          core.filterMap (fun e => (src.find? (fun r => r.1 == e)).map (fun r => (e, e + dt, r.2)))
        .ok { step := dt
              grid := grid.map (fun g => (g, labelOf ivs g))
              rain := copy f.rain
              et := copy f.et
              level := core.filterMap (fun g =>
                match labelOf ivs g, interp zs g with
                | some _, some v => some (g, v)
                | _, _ => none) }

end Spowtd
