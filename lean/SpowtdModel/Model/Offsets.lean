import SpowtdModel.Model.Regrid
/-
  Alignment of series by least squares (fit_offsets.py) and the re-origin step of
  rise.py / recession.py.  A *mapping* lists, for each level, the series crossing it with their
  mean crossing value:  `List (Int × List (Nat × α))`.
-/
namespace Spowtd
open Num
variable {α : Type} [Num α]

abbrev Mapping (α : Type) := List (Int × List (Nat × α))

/-- `build_head_mapping`: levels in order of first appearance; within a level, series in order -/
def headMapping (step : α) (series : List (List (α × α))) : Mapping α :=
  let per := series.zipIdx.map (fun p => (p.2, meanCrossings step p.1))
  let levels := per.foldl (fun acc p => p.2.foldl (fun a c => if a.contains c.1 then a else a ++ [c.1]) acc) []
  levels.map (fun k => (k, per.filterMap (fun p => (p.2.find? (fun c => c.1 == k)).map (fun c => (p.1, c.2)))))

def seriesAt (l : List (Nat × α)) : List Nat := l.map (·.1)
def disjointB (a b : List Nat) : Bool := a.all (fun x => !b.contains x)
def unionL (a b : List Nat) : List Nat := b.foldl (fun acc x => if acc.contains x then acc else acc ++ [x]) a

/-- `get_connected_components`: groups of levels linked by a shared series; each new level is
    merged with every existing group it shares a series with.  Result in creation order. -/
def components (m : Mapping α) : List (List Int × List Nat) :=
  m.foldl (fun groups hl =>
    let ser := seriesAt hl.2
    let hit := groups.filter (fun g => !disjointB ser g.2)
    let rest := groups.filter (fun g => disjointB ser g.2)
    rest ++ [(hl.1 :: hit.flatMap (·.1), hit.foldl (fun acc g => unionL acc g.2) ser)]) []

/-- the component with the most levels; the first such in creation order on a tie -/
def mainComponent (m : Mapping α) : List Int :=
  ((components m).foldl (fun (best : Option (List Int × List Nat)) g =>
    match best with
    | none => some g
    | some b => if b.1.length < g.1.length then some g else some b) none).map (·.1) |>.getD []

def restrictTo (m : Mapping α) (levels : List Int) : Mapping α := m.filter (fun hl => levels.contains hl.1)
def dropSingletons (m : Mapping α) : Mapping α := m.filter (fun hl => decide (2 ≤ hl.2.length))
def seriesOf (m : Mapping α) : List Nat :=
  m.foldl (fun acc hl => unionL acc (seriesAt hl.2)) []

/-- mean at one level of `x s + t` -/
def levelMean (x : Nat → α) (l : List (Nat × α)) : α := mean (l.map (fun st => Num.add (x st.1) st.2))

/-- Σ over levels and series of `(x s + t − mean)²` -/
def objective (m : Mapping α) (x : Nat → α) : α :=
  Num.sum (m.map (fun hl => Num.sum (hl.2.map (fun st =>
    let r := Num.sub (Num.add (x st.1) st.2) (levelMean x hl.2)
    Num.mul r r))))

/-- Σ over the levels crossed by `s` of the residual of `s` against the level mean -/
def residualSum (m : Mapping α) (x : Nat → α) (s : Nat) : α :=
  Num.sum (m.map (fun hl => Num.sum ((hl.2.filter (fun st => st.1 == s)).map (fun st =>
    Num.sub (Num.add (x st.1) st.2) (levelMean x hl.2)))))

inductive OffErr
  | empty | oneSeries | singular | offGrid | refOutside
  deriving Repr, DecidableEq

/-! Exact Gauss–Jordan elimination on the stationarity equations, the largest series pinned to 0.
    The result is *checked* before it is returned, so `solveOffsets … = .ok x` certifies
    stationarity whatever the elimination did. -/

def lookup (sol : List (Nat × α)) (s : Nat) : α := ((sol.find? (fun p => p.1 == s)).map (·.2)).getD (Num.ofInt 0)

/-- row of the stationarity equation of series `s`: coefficients on `unknowns`, right-hand side -/
def equationOf (m : Mapping α) (unknowns : List Nat) (s : Nat) : List α × α :=
  let coef (u : Nat) : α :=
    Num.sum (m.map (fun hl =>
      if (seriesAt hl.2).contains s then
        let n : α := Num.ofInt hl.2.length
        let cs : α := Num.ofInt ((hl.2.filter (fun st => st.1 == s)).length)
        let cu : α := Num.ofInt ((hl.2.filter (fun st => st.1 == u)).length)
        Num.sub (if u == s then cs else Num.ofInt 0) (Num.div (Num.mul cs cu) n)
      else Num.ofInt 0))
  let rhs : α :=
    Num.sum (m.map (fun hl => Num.sum ((hl.2.filter (fun st => st.1 == s)).map (fun st =>
      Num.sub (mean (hl.2.map (·.2))) st.2))))
  (unknowns.map coef, rhs)

def isZero (a : α) : Bool := Num.beq a (Num.ofInt 0)

/-- reduced row echelon form, one column per step; returns the solution column if every
    unknown got a pivot -/
def gaussJordan : Nat → List (List α × α) → List (List α × α) → Option (List α)
  | 0, done, _ => some (done.reverse.map (·.2))
  | n + 1, done, todo =>
    let col := done.length
    match todo.findIdx? (fun r => !isZero (r.1.getD col (Num.ofInt 0))) with
    | none => none
    | some i =>
      let p := todo.getD i ([], Num.ofInt 0)
      let pv := p.1.getD col (Num.ofInt 0)
      let pn : List α × α := (p.1.map (fun a => Num.div a pv), Num.div p.2 pv)
      let elim (r : List α × α) : List α × α :=
        let f := r.1.getD col (Num.ofInt 0)
        (List.zipWith (fun a b => Num.sub a (Num.mul f b)) r.1 pn.1, Num.sub r.2 (Num.mul f pn.2))
      gaussJordan n (pn :: done.map elim) ((todo.eraseIdx i).map elim)

/-- `find_offsets` on a mapping whose single-series levels have been dropped: series ids ascending,
    the largest pinned to 0, the others from the stationarity equations; refused unless the
    computed offsets make every residual sum vanish. -/
def solveOffsets (m : Mapping α) : Except OffErr (List (Nat × α)) :=
  let ids := (seriesOf m).foldl (fun acc s => if acc.any (fun t => decide (s < t)) then
      (acc.filter (fun t => decide (t < s))) ++ [s] ++ (acc.filter (fun t => decide (s < t))) else acc ++ [s]) []
  match ids.getLast? with
  | none => .error .empty
  | some ref =>
    let unknowns := ids.dropLast
    let rows := unknowns.map (equationOf m unknowns)
    match gaussJordan unknowns.length [] rows with
    | none => .error .singular
    | some xs =>
      let sol := List.zip unknowns xs ++ [(ref, Num.ofInt 0)]
      if ids.all (fun s => isZero (residualSum m (lookup sol) s)) then .ok sol else .error .singular

end Spowtd
