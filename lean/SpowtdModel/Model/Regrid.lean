import SpowtdModel.Model.Num
/-
  Level crossings of a piecewise-linear series (regrid.py) and the per-series mean crossing
  position at each level (fit_offsets.build_head_mapping).
-/
namespace Spowtd
open Num
variable {α : Type} [Num α]

/-- integers `lo, lo+1, …, hi-1` -/
def intRange (lo hi : Int) : List Int := (List.range (hi - lo).toNat).map (fun (i : Nat) => lo + (i : Int))

/-- Crossings of the segment `(x0,y0)–(x1,y1)` at multiples `k·step`: targets are the integers in
    `[⌈Y0⌉, ⌈Y1⌉)` ascending when that range is non-empty, else `[⌈Y1⌉, ⌈Y0⌉)` descending
    (`Y = y/step`); the position is the root of the linear interpolant of `Y`. -/
def crossingsPair (step x0 y0 x1 y1 : α) : List (Int × α) :=
  let Y0 := Num.div y0 step
  let Y1 := Num.div y1 step
  let c0 := Num.ceil Y0
  let c1 := Num.ceil Y1
  let targets := if c0 < c1 then intRange c0 c1 else (intRange c1 c0).reverse
  targets.map (fun k =>
    (k, Num.add x0 (Num.div (Num.mul (Num.sub (Num.ofInt k) Y0) (Num.sub x1 x0)) (Num.sub Y1 Y0))))

/-- all crossings of a series given as points `(x, y)`, in emission order -/
def crossings (step : α) : List (α × α) → List (Int × α)
  | a :: b :: rest => crossingsPair step a.1 a.2 b.1 b.2 ++ crossings step (b :: rest)
  | _ => []

def mean (l : List α) : α := Num.div (Num.sum l) (Num.ofInt l.length)

/-- distinct levels in order of first occurrence -/
def levelsOf (cs : List (Int × α)) : List Int :=
  cs.foldl (fun acc c => if acc.contains c.1 then acc else acc ++ [c.1]) []

/-- mean crossing position of each level crossed by one series -/
def meanCrossings (step : α) (pts : List (α × α)) : List (Int × α) :=
  let cs := crossings step pts
  (levelsOf cs).map (fun k => (k, mean ((cs.filter (fun c => c.1 == k)).map (·.2))))

end Spowtd
