/-
  Deferred acceptance as coded in `classify.find_stable_matching`:
  storms propose best-first; a rise keeps its holder unless the proposer scores
  strictly higher; a displaced or rejected storm goes back to the pool only if it
  has candidates left.  The order in which storms are taken from the pool
  (`set.pop()` in Python) is the parameter `pick`.
-/
namespace Spowtd.GS

structure Problem where
  storms : List Nat
  rises : List Nat
  /-- storm ↦ candidate rises, best first -/
  prefs : Nat → List Nat
  /-- rise → storm → score (higher is better) -/
  score : Nat → Nat → Int

structure State where
  free : List Nat
  rest : Nat → List Nat
  held : Nat → Option Nat

def upd {β : Type} (f : Nat → β) (k : Nat) (v : β) : Nat → β :=
  fun x => if x = k then v else f x

def init (P : Problem) : State :=
  { free := P.storms.filter (fun s => !(P.prefs s).isEmpty)
    rest := P.prefs
    held := fun _ => none }

/-- One iteration of the loop body with storm `s` taken from the pool. -/
def step (P : Problem) (st : State) (s : Nat) : State :=
  let free := st.free.erase s
  match st.rest s with
  | [] => { st with free := free }
  | r :: rs =>
    let rest := upd st.rest s rs
    match st.held r with
    | none => { free := free, rest := rest, held := upd st.held r (some s) }
    | some t =>
      if P.score r t < P.score r s then
        { free := if (rest t).isEmpty then free else t :: free
          rest := rest
          held := upd st.held r (some s) }
      else
        { free := if rs.isEmpty then free else s :: free
          rest := rest
          held := st.held }

/-- `pick` returns a position in the (non-empty) pool. -/
def choose (pick : List Nat → Nat) (free : List Nat) : Nat :=
  free.getD (pick free % free.length) 0

def run (P : Problem) (pick : List Nat → Nat) : Nat → State → State
  | 0, st => st
  | fuel + 1, st =>
    match st.free with
    | [] => st
    | _ :: _ => run P pick fuel (step P st (choose pick st.free))

def fuel (P : Problem) : Nat := (P.storms.map (fun s => (P.prefs s).length)).sum + 1

def matchingOf (P : Problem) (st : State) : List (Nat × Nat) :=
  P.rises.filterMap (fun r => (st.held r).map (fun s => (r, s)))

/-- Result as (rise, storm) pairs in the order of `P.rises`. -/
def galeShapley (P : Problem) (pick : List Nat → Nat) : List (Nat × Nat) :=
  matchingOf P (run P pick (fuel P) (init P))

/-! Decidable stability test used as the oracle on the implementation's output. -/

def stormOf (M : List (Nat × Nat)) (r : Nat) : Option Nat := (M.find? (fun p => p.1 == r)).map (·.2)
def riseOf (M : List (Nat × Nat)) (s : Nat) : Option Nat := (M.find? (fun p => p.2 == s)).map (·.1)

/-- `(s, r)` blocks `M` w.r.t. storm scores `σ` and rise scores `P.score`. -/
def blocks (P : Problem) (σ : Nat → Nat → Int) (M : List (Nat × Nat)) (s r : Nat) : Bool :=
  (P.prefs s).contains r && !(M.contains (r, s)) &&
  (match riseOf M s with | none => true | some r' => σ s r' < σ s r) &&
  (match stormOf M r with | none => true | some s' => P.score r s' < P.score r s)

def findBlocking (P : Problem) (σ : Nat → Nat → Int) (M : List (Nat × Nat)) : Option (Nat × Nat) :=
  (P.storms.flatMap (fun s => (P.prefs s).map (fun r => (s, r)))).find? (fun p => blocks P σ M p.1 p.2)

/-- no rise scores two of its candidate storms equally -/
def riseStrictB (P : Problem) : Bool :=
  P.rises.all fun r =>
    let cs := P.storms.filter (fun s => (P.prefs s).contains r)
    cs.all fun s => cs.all fun t => s == t || P.score r s != P.score r t

def isMatching (P : Problem) (M : List (Nat × Nat)) : Bool :=
  M.all (fun p => (P.prefs p.2).contains p.1) &&
  (M.map (·.1)).eraseDups.length == M.length && (M.map (·.2)).eraseDups.length == M.length

end Spowtd.GS
