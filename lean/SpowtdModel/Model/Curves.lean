import SpowtdModel.Model.Offsets
/-
  `get_series_time_offsets` end to end, the re-origin step and the master-curve views
  (fit_offsets.py, rise.py, recession.py, zeta_grid.py, schema.sql views).
-/
namespace Spowtd
open Num
variable {α : Type} [Num α]

def minBy (l : List α) : Option α :=
  match l with
  | [] => none
  | x :: xs => some (xs.foldl (fun m y => if Num.lt y m then y else m) x)

/-- `t - t.min()` -/
def rebase (pts : List (α × α)) : List (α × α) :=
  match minBy (pts.map (·.1)) with
  | none => pts
  | some m => pts.map (fun p => (Num.sub p.1 m, p.2))

/-- stable insertion sort of (original index, series) by the first ordinate -/
def insertByFirst (x : Nat × List (α × α)) : List (Nat × List (α × α)) → List (Nat × List (α × α))
  | [] => [x]
  | y :: ys =>
    let kx := (x.2.head?.map (·.2)).getD (Num.ofInt 0)
    let ky := (y.2.head?.map (·.2)).getD (Num.ofInt 0)
    if Num.lt kx ky then x :: y :: ys else y :: insertByFirst x ys
def sortByFirst (l : List (Nat × List (α × α))) : List (Nat × List (α × α)) :=
  l.foldl (fun acc x => insertByFirst x acc) []

structure Aligned (α : Type) where
  /-- (original index of the series, offset) for every series kept -/
  offsets : List (Nat × α)
  /-- level ↦ (original index, mean crossing value), for levels crossed by at least two kept series -/
  mapping : Mapping α

/-- `get_series_time_offsets` -/
def alignSeries (step : α) (series : List (List (α × α))) : Except OffErr (Aligned α) :=
  if series.isEmpty then .error .empty
  else
    let sorted := sortByFirst (series.zipIdx.map (fun p => (p.2, rebase p.1)))
    let orig (newIdx : Nat) : Nat := (sorted.getD newIdx (0, [])).1
    let hm := headMapping step (sorted.map (·.2))
    let kept := dropSingletons (restrictTo hm (mainComponent hm))
    match solveOffsets kept with
    | .error e => .error (if e == .empty then .oneSeries else e)
    | .ok sol =>
      .ok { offsets := sol.map (fun p => (orig p.1, p.2))
            mapping := kept.map (fun hl => (hl.1, hl.2.map (fun st => (orig st.1, st.2)))) }

/-- accepted iff `ref / step` is an integer; then that integer -/
def refIndex (ref step : α) : Except OffErr Int :=
  let q := Num.div ref step
  if Num.beq (Num.ofInt (Num.floor q)) q then .ok (Num.floor q) else .error .offGrid

def maxLevel (m : Mapping α) : Option Int :=
  match m.map (·.1) with
  | [] => none
  | x :: xs => some (xs.foldl (fun a b => if a < b then b else a) x)

/-- subtract from every offset the mean aligned crossing of the reference level (given, else the
    highest level of the curve) -/
def reorigin (a : Aligned α) (ref : Option Int) : Except OffErr (Aligned α) :=
  match (match ref with | some k => some k | none => maxLevel a.mapping) with
  | none => .error .refOutside
  | some k =>
    match a.mapping.find? (fun hl => hl.1 == k) with
    | none => .error .refOutside
    | some hl =>
      let z := mean (hl.2.map (fun st => Num.add (lookup a.offsets st.1) st.2))
      .ok { a with offsets := a.offsets.map (fun p => (p.1, Num.sub p.2 z)) }

/-- whole of compute_rise_offsets / compute_offsets after the series have been extracted -/
def assemble (step : α) (series : List (List (α × α))) (ref : Option α) : Except OffErr (Aligned α) := do
  let a ← alignSeries step series
  let k ← (match ref with
    | none => pure none
    | some r => do let i ← refIndex r step; pure (some i))
  reorigin a k

/-- the views average_rising_depth / average_recession_time: (level number, mean of offset + crossing) -/
def masterCurve (a : Aligned α) : List (Int × α) :=
  a.mapping.map (fun hl => (hl.1, mean (hl.2.map (fun st => Num.add (lookup a.offsets st.1) st.2))))

/-- `populate_zeta_grid`: range(floor(min/step), ceil(max/step)) -/
def zetaGrid (zmin zmax step : α) : List Int :=
  intRange (Num.floor (Num.div zmin step)) (Num.ceil (Num.div zmax step))

end Spowtd
