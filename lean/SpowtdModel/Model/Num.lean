/-
  Law-free numeric carrier.  The model's numeric functions are written once over
  `Num α` and executed at `Float` (IEEE double: bit-exact comparison with the
  Python code) and at `Rat` (exact).  Theorems that never use an arithmetic law
  hold for *every* instance, in particular for the `Float` one that the driver runs.
  No notation instances (`Add α` …) are derived on purpose: at `ℝ`/`ℚ` they would
  compete with Mathlib's.
-/
namespace Spowtd

class Num (α : Type) where
  add : α → α → α
  sub : α → α → α
  mul : α → α → α
  div : α → α → α
  neg : α → α
  ofInt : Int → α
  lt : α → α → Bool
  le : α → α → Bool
  beq : α → α → Bool
  floor : α → Int
  ceil : α → Int

namespace Num
scoped infixl:65 " +. " => Num.add
scoped infixl:65 " -. " => Num.sub
scoped infixl:70 " *. " => Num.mul
scoped infixl:70 " /. " => Num.div
scoped infix:50 " <. " => Num.lt
scoped infix:50 " <=. " => Num.le

variable {α : Type} [Num α]
def zero : α := Num.ofInt 0
def one : α := Num.ofInt 1
def max (a b : α) : α := if Num.lt a b then b else a
def min (a b : α) : α := if Num.lt b a then b else a
def sum (l : List α) : α := l.foldl Num.add (Num.ofInt 0)
end Num

/-- IEEE-754 binary64.  `floor`/`ceil` follow numpy: `np.floor(x)` then conversion to int64. -/
instance : Num Float where
  add := (· + ·)
  sub := (· - ·)
  mul := (· * ·)
  div := (· / ·)
  neg := fun x => -x
  ofInt := Float.ofInt
  lt := fun a b => a < b
  le := fun a b => a ≤ b
  beq := fun a b => a == b
  floor := fun x => x.floor.toInt64.toInt
  ceil := fun x => x.ceil.toInt64.toInt

instance : Num Rat where
  add := (· + ·)
  sub := (· - ·)
  mul := (· * ·)
  div := (· / ·)
  neg := fun x => -x
  ofInt := fun i => (i : Rat)
  lt := fun a b => decide (a < b)
  le := fun a b => decide (a ≤ b)
  beq := fun a b => a == b
  floor := Rat.floor
  ceil := Rat.ceil

end Spowtd
