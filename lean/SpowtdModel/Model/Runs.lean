/-
  Maximal runs of `true` in a boolean vector (`classify.get_true_interval_masks`)
  and the "unexplained rise" state machine (`classify.get_mystery_jump_mask`).
-/
namespace Spowtd

/-- Scan with the current index and the start of the open run (if any). -/
def trueRunsAux : List Bool → Nat → Option Nat → List (Nat × Nat)
  | [], _, none => []
  | [], i, some a => [(a, i)]
  | true :: v, i, none => trueRunsAux v (i + 1) (some i)
  | true :: v, i, some a => trueRunsAux v (i + 1) (some a)
  | false :: v, i, none => trueRunsAux v (i + 1) none
  | false :: v, i, some a => (a, i) :: trueRunsAux v (i + 1) none

/-- Maximal runs of `true`, as half-open index intervals `[a, b)`, in order. -/
def trueRuns (v : List Bool) : List (Nat × Nat) := trueRunsAux v 0 none

/-- The loop of `get_mystery_jump_mask`: state `st`, rain resets it, a jump without rain sets it. -/
def mysteryAux : Bool → List Bool → List Bool → List Bool
  | _, [], _ => []
  | _, _, [] => []
  | st, j :: js, w :: ws =>
    let st' := if w then false else if j then true else st
    st' :: mysteryAux st' js ws

/-- Starts in the "unexplained" state. -/
def mysteryMask (isJump isWet : List Bool) : List Bool := mysteryAux true isJump isWet

def interstormFlag (isJump isWet : List Bool) : List Bool :=
  List.zipWith (fun m w => !m && !w) (mysteryMask isJump isWet) isWet

/-- Runs of the interstorm flag holding at least two samples. -/
def interstormRuns (isJump isWet : List Bool) : List (Nat × Nat) :=
  (trueRuns (interstormFlag isJump isWet)).filter (fun r => decide (r.1 + 2 ≤ r.2))

end Spowtd
