import SpowtdModel.Model.Num
import SpowtdModel.Model.Runs
import SpowtdModel.Model.Matching
/-
  Model of `spowtd classify` (classify.py), per gap-free stretch and for a whole
  loaded dataset.  Index conventions (stretch of n samples, step Δ):
    storm  run [a,b) of heavy steps      ↦ storm row (e_a, e_{b-1}+Δ)
    rise   run [c,d) of fast increments  ↦ rise  row (e_c, e_d)      (samples c..d)
    interstorm run [a,b) of flagged samples, b-a ≥ 2 ↦ (e_a, e_{b-1})
-/
namespace Spowtd
open Num

variable {α : Type} [Num α]

def wet (r : List α) : List Bool := r.map (fun x => Num.lt (Num.ofInt 0) x)
def heavy (s : α) (r : List α) : List Bool := r.map (fun x => Num.lt s x)
def incs (z : List α) : List α := List.zipWith (fun b a => Num.sub b a) z.tail z
/-- threshold on the increment over one step: `j * (Δ / 3600.)` -/
def jumpDelta (j : α) (dt : Int) : α := Num.mul j (Num.div (Num.ofInt dt) (Num.ofInt 3600))
def jumps (j : α) (dt : Int) (z : List α) : List Bool :=
  (incs z).map (fun d => Num.lt (jumpDelta j dt) d)
/-- per-sample flag: the increment *ending* at the sample; the first sample is compared with 0 -/
def flagJump (j : α) (dt : Int) (z : List α) : List Bool :=
  match z with
  | [] => []
  | _ :: _ => Num.lt (jumpDelta j dt) (Num.ofInt 0) :: jumps j dt z

/-- storm run × rise run sharing a step: `max a c < min b d` -/
def overlaps (st ri : Nat × Nat) : Bool := decide (Nat.max st.1 ri.1 < Nat.min st.2 ri.2)

/-- storm's score for a rise: minus the absolute difference of durations in steps -/
def stormScore (st ri : Nat × Nat) : Int :=
  - Int.natAbs (((st.2 : Int) - st.1) - ((ri.2 : Int) - ri.1))
/-- rise's score for a storm: minus the absolute offset of the starts -/
def riseScore (ri st : Nat × Nat) : Int := - Int.natAbs ((ri.1 : Int) - st.1)

/-- stable insertion by ascending key (Python's `sorted(..., key=...)`) -/
def insertByKey (key : Nat → Int) (x : Nat) : List Nat → List Nat
  | [] => [x]
  | y :: ys => if key x < key y then x :: y :: ys else y :: insertByKey key x ys
def sortByKey (key : Nat → Int) (l : List Nat) : List Nat :=
  l.foldl (fun acc x => insertByKey key x acc) []

def runWithStart (runs : List (Nat × Nat)) (a : Nat) : Nat × Nat :=
  (runs.find? (fun r => r.1 == a)).getD (a, a)

/-- The arbitration problem for one stretch; storms and rises are named by their start index. -/
def problemOf (storms rises : List (Nat × Nat)) : GS.Problem :=
  let cand (a : Nat) : List Nat :=
    (rises.filter (fun ri => overlaps (runWithStart storms a) ri)).map (·.1)
  { storms := (storms.filter (fun st => rises.any (fun ri => overlaps st ri))).map (·.1)
    rises := (rises.filter (fun ri => storms.any (fun st => overlaps st ri))).map (·.1)
    -- candidates in ascending order of rise, stably sorted worst→best, proposals taken from the end
    prefs := fun a =>
      (sortByKey (fun c => stormScore (runWithStart storms a) (runWithStart rises c)) (cand a)).reverse
    score := fun c a => riseScore (runWithStart rises c) (runWithStart storms a) }

structure StretchResult where
  /-- (sample index, is_jump, is_mystery_jump, is_interstorm) -/
  flags : List (Bool × Bool × Bool)
  interstorms : List (Nat × Nat)
  /-- (storm run, rise run) -/
  pairs : List ((Nat × Nat) × (Nat × Nat))
  /-- no rise is indifferent between two candidate storms (then the pairing is schedule-independent) -/
  strict : Bool
  deriving Repr

/-- Index-level classification of one stretch. -/
def classifyIdx (pick : List Nat → Nat) (s j : α) (dt : Int) (zeta rain : List α) : StretchResult :=
  let fj := flagJump j dt zeta
  let w := wet rain
  let storms := trueRuns (heavy s rain)
  let rises := trueRuns (jumps j dt zeta)
  let P := problemOf storms rises
  let M := GS.galeShapley P pick
  { flags := List.zipWith (fun a bc => (a, bc)) fj (List.zip (mysteryMask fj w) (interstormFlag fj w))
    interstorms := interstormRuns fj w
    pairs := M.map (fun p => (runWithStart storms p.2, runWithStart rises p.1))
    strict := GS.riseStrictB P }

inductive ClassifyErr
  | noIntervals | nonuniform | noSamples
  deriving Repr, DecidableEq

structure Loaded (α : Type) where
  step : Int
  /-- grid_time: (epoch, data_interval) ascending -/
  grid : List (Int × Option Nat)
  /-- rainfall_intensity: (from, thru, value) -/
  rain : List (Int × Int × α)
  et : List (Int × Int × α)
  /-- water_level: (epoch, value) -/
  level : List (Int × α)

structure Classified where
  /-- grid_time_flags rows -/
  flags : List (Int × Bool × Bool × Bool)
  /-- zeta_interval rows of type interstorm: (start, thru) -/
  interstorms : List (Int × Int)
  /-- storm row and the rise row it is paired with -/
  pairs : List ((Int × Int) × (Int × Int))
  strict : Bool
  deriving Repr

/-- labels carrying at least one water level, ascending, distinct -/
def labelsOf (db : Loaded α) : List Nat :=
  let ls := db.grid.filterMap (fun g => if (db.level.any (fun z => z.1 == g.1)) then g.2 else none)
  (ls.foldl (fun acc l => if acc.contains l then acc else acc ++ [l]) [])

/-- the three-way join of classify.py: grid instants of the stretch that have both a rain step and a level -/
def samplesOf (db : Loaded α) (label : Nat) : List (Int × α × α) :=
  db.grid.filterMap fun g =>
    if g.2 == some label then
      match db.rain.find? (fun r => r.1 == g.1), db.level.find? (fun z => z.1 == g.1) with
      | some r, some z => some (g.1, z.2, r.2.2)
      | _, _ => none
    else none

def uniformB (es : List Int) : Bool :=
  match es with
  | e0 :: e1 :: _ => (List.zipWith (fun b a => b - a) es.tail es).all (fun d => d == e1 - e0)
  | _ => true

/-- epoch conventions of match_all_storms: a storm runs through the end of its last rainy step
    (`int(epoch[rain_stop - 1]) + time_step_s`); a rise ends at its last sample (`int(epoch[jump_stop - 1])`) -/
abbrev stormThru (eLast step : Int) : Int := eLast + step

def classifyStretch (pick : List Nat → Nat) (s j : α) (db : Loaded α) (label : Nat) :
    Except ClassifyErr Classified :=
  let smp := samplesOf db label
  let es := smp.map (·.1)
  if smp.isEmpty then .error .noSamples
  else if !uniformB es then .error .nonuniform
  else
    let r := classifyIdx pick s j db.step (smp.map (·.2.1)) (smp.map (·.2.2))
    let e (i : Nat) : Int := es.getD i 0
    .ok { flags := List.zipWith (fun t f => (t, f)) es r.flags
          interstorms := r.interstorms.map (fun ab => (e ab.1, e (ab.2 - 1)))
          pairs := r.pairs.map (fun p => ((e p.1.1, stormThru (e (p.1.2 - 1)) db.step), (e p.2.1, e p.2.2)))
          strict := r.strict }

def classifyAll (pick : List Nat → Nat) (s j : α) (db : Loaded α) : Except ClassifyErr Classified :=
  let labels := labelsOf db
  if labels.isEmpty then .error .noIntervals
  else
    labels.foldlM (fun (acc : Classified) l => do
      let c ← classifyStretch pick s j db l
      pure { flags := acc.flags ++ c.flags, interstorms := acc.interstorms ++ c.interstorms,
             pairs := acc.pairs ++ c.pairs, strict := acc.strict && c.strict })
      { flags := [], interstorms := [], pairs := [], strict := true }

def increasingB : List Int → Bool
  | a :: b :: t => decide (a < b) && increasingB (b :: t)
  | _ => true

/-- consecutive differences all equal to `dt` -/
def steppedB (dt : Int) : List Int → Bool
  | a :: b :: t => (b - a == dt) && steppedB dt (b :: t)
  | _ => true

/-- What `load` guarantees and classification relies on (decidable; evaluated on every real load):
    positive step; grid instants strictly increasing; some labelled instant carries a level; every
    instant with a level has a rain step; the samples of every stretch are one step apart. -/
def wellFormedLoadedB (db : Loaded α) : Bool :=
  decide (0 < db.step) &&
  increasingB (db.grid.map (·.1)) &&
  !(labelsOf db).isEmpty &&
  db.grid.all (fun g => !(db.level.any (fun z => z.1 == g.1)) || db.rain.any (fun r => r.1 == g.1)) &&
  (labelsOf db).all (fun l => steppedB db.step ((samplesOf db l).map (·.1)))

def Loaded.shift (db : Loaded α) (k : Int) : Loaded α :=
  { step := db.step
    grid := db.grid.map (fun g => (g.1 + k, g.2))
    rain := db.rain.map (fun r => (r.1 + k, r.2.1 + k, r.2.2))
    et := db.et.map (fun r => (r.1 + k, r.2.1 + k, r.2.2))
    level := db.level.map (fun z => (z.1 + k, z.2)) }

def Classified.shift (c : Classified) (k : Int) : Classified :=
  { flags := c.flags.map (fun f => (f.1 + k, f.2))
    interstorms := c.interstorms.map (fun q => (q.1 + k, q.2 + k))
    pairs := c.pairs.map (fun p => ((p.1.1 + k, p.1.2 + k), (p.2.1 + k, p.2.2 + k)))
    strict := c.strict }

/-- the view `storm_total_rain_depth`: Σ intensity·(thru−from)/3600 over steps inside [start, thru] -/
def totalRainDepth (db : Loaded α) (storm : Int × Int) : α :=
  Num.sum ((db.rain.filter (fun r => decide (storm.1 ≤ r.1) && decide (r.2.1 ≤ storm.2))).map
    (fun r => Num.div (Num.mul r.2.2 (Num.ofInt (r.2.1 - r.1))) (Num.ofInt 3600)))

end Spowtd
