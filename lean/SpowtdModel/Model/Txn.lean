/-
  Transactions as SQLite sees them, and workflow steps as guarded store transformers with
  table footprints (C20).
-/
namespace Spowtd.Txn

/-- what the database engine is asked to do, in order -/
inductive Ev (W : Type)
  | begin
  | write (w : W)
  | commit
  | rollback
  deriving Repr

/-- durable content and, inside a transaction, the pending content -/
structure Conn (S : Type) where
  committed : S
  pending : Option S

variable {S W : Type}

/-- one event; a write outside a transaction is durable at once (autocommit) -/
def exec (apply : S → W → S) (c : Conn S) : Ev W → Conn S
  | .begin => match c.pending with
    | some _ => c
    | none => { c with pending := some c.committed }
  | .write w => match c.pending with
    | some p => { c with pending := some (apply p w) }
    | none => { committed := apply c.committed w, pending := none }
  | .commit => match c.pending with
    | some p => { committed := p, pending := none }
    | none => c
  | .rollback => { c with pending := none }

def run (apply : S → W → S) (s : S) (tr : List (Ev W)) : Conn S :=
  tr.foldl (exec apply) { committed := s, pending := none }

/-- content of the file if the process dies (or the connection is dropped) after `k` events:
    whatever was pending is lost -/
def crashAfter (apply : S → W → S) (s : S) (tr : List (Ev W)) (k : Nat) : S :=
  (run apply s (tr.take k)).committed

def applyAll (apply : S → W → S) (s : S) (ws : List W) : S := ws.foldl apply s

def writesOf : List (Ev W) → List W
  | [] => []
  | .write w :: t => w :: writesOf t
  | _ :: t => writesOf t

/-- the trace of a step is one transaction: `BEGIN`, writes only, `COMMIT` -/
def SingleTxn (tr : List (Ev W)) : Prop := ∃ ws : List W, tr = .begin :: (ws.map .write ++ [.commit])

def isWrite : Ev W → Bool
  | .write _ => true
  | _ => false
def isBegin : Ev W → Bool
  | .begin => true
  | _ => false
def isCommit : Ev W → Bool
  | .commit => true
  | _ => false

/-- decidable form, evaluated on the traces of the real code -/
def singleTxnB (tr : List (Ev W)) : Bool :=
  match tr with
  | [] => false
  | e :: rest =>
    isBegin e && (match rest.getLast? with | some l => isCommit l | none => false) &&
    rest.dropLast.all isWrite

/-- a failed step: `BEGIN`, some writes, `ROLLBACK` -/
def FailedTxn (tr : List (Ev W)) : Prop := ∃ ws : List W, tr = .begin :: (ws.map .write ++ [.rollback])

/-! ### Steps, footprints, histories -/

inductive Table
  | timeGrid | gridTime | rainfall | evapotranspiration | waterLevel
  | thresholds | gridTimeFlags | storm | zetaInterval | zetaIntervalStorm
  | zetaGrid | discreteZeta | curvature
  | risingInterval | risingIntervalZeta | recessionInterval | recessionIntervalZeta
  deriving DecidableEq, Repr

structure Footprint where
  reads : List Table
  writes : List Table
  deriving Repr

/-- a step on a store `Table → R`: a guard and an effect -/
structure Step (R : Type) where
  pre : (Table → R) → Bool
  eff : (Table → R) → (Table → R)

def attempt {R : Type} (st : Step R) (s : Table → R) : Table → R := if st.pre s then st.eff s else s

def runHistory {R : Type} (h : List (Step R)) (s : Table → R) : Table → R := h.foldl (fun acc st => attempt st acc) s

/-- the step touches nothing outside its write set, and its guard and what it writes depend only on
    its read and write sets -/
def Respects {R : Type} (st : Step R) (fp : Footprint) : Prop :=
  (∀ s t, t ∉ fp.writes → st.eff s t = s t) ∧
  (∀ s s', (∀ t, t ∈ fp.reads ∨ t ∈ fp.writes → s t = s' t) →
    st.pre s = st.pre s' ∧ ∀ t, t ∈ fp.writes → st.eff s t = st.eff s' t)

def disjointT (a b : List Table) : Bool := a.all (fun x => !b.contains x)

/-- neither step writes what the other reads or writes -/
def independentB (a b : Footprint) : Bool :=
  disjointT a.writes (b.reads ++ b.writes) && disjointT b.writes (a.reads ++ a.writes)

open Table in
def fpClassify : Footprint :=
  { reads := [timeGrid, gridTime, rainfall, waterLevel]
    writes := [thresholds, gridTimeFlags, storm, zetaInterval, zetaIntervalStorm] }
open Table in
def fpZetaGrid : Footprint := { reads := [waterLevel], writes := [zetaGrid, discreteZeta] }
open Table in
def fpCurvature : Footprint := { reads := [], writes := [curvature] }
open Table in
def fpRise : Footprint :=
  { reads := [waterLevel, rainfall, storm, zetaInterval, zetaIntervalStorm, zetaGrid]
    writes := [risingInterval, risingIntervalZeta] }
open Table in
def fpRecession : Footprint :=
  { reads := [waterLevel, zetaInterval, zetaGrid]
    writes := [recessionInterval, recessionIntervalZeta] }

def subsetT (a b : List Table) : Bool := a.all (fun x => b.contains x)

end Spowtd.Txn
