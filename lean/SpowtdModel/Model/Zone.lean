/-
  A time zone as a table of UTC-offset transitions (read from the pytz object the tool uses).
-/
namespace Spowtd

structure Zone where
  /-- offset (seconds east of UTC) before the first transition -/
  initial : Int
  /-- (utc instant, offset from that instant on), ascending by instant -/
  transitions : List (Int × Int)

def offsetAt (z : Zone) (u : Int) : Int :=
  z.transitions.foldl (fun acc t => if t.1 ≤ u then t.2 else acc) z.initial

/-- wall-clock reading (as naive seconds) of the UTC instant `u` -/
def toLocal (z : Zone) (u : Int) : Int := u + offsetAt z u

def offsetsOf (z : Zone) : List Int :=
  (z.initial :: z.transitions.map (·.2)).foldl (fun acc o => if acc.contains o then acc else acc ++ [o]) []

/-- all UTC instants whose wall-clock reading is `l` (none in a skipped hour, two in a repeated one) -/
def localize (z : Zone) (l : Int) : List Int :=
  (offsetsOf z).filterMap (fun o => if offsetAt z (l - o) == o then some (l - o) else none)

end Spowtd
