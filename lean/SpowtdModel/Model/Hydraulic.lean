import SpowtdModel.Model.Spline
/-
  Transmissivity and PEATCLSM functions (transmissivity.py, specific_yield.py).
  `NumT` adds the libm functions; at `Float` they are the C library calls CPython/numpy make.
-/
namespace Spowtd
open Num

class NumT (α : Type) extends Num α where
  exp : α → α
  log : α → α
  pow : α → α → α

instance : NumT Float where
  exp := Float.exp
  log := Float.log
  pow := Float.pow

variable {α : Type} [NumT α]

/-- conductivity whose logarithm is linear between knots `(z, K)` -/
def logLinK (knots : List (α × α)) (z : α) : α :=
  NumT.exp (pwl (knots.map (fun k => (k.1, NumT.log k.2))) z)

/-- ∫ from `z0` to `z` of the log-linear conductivity on the segment `(z0,K0)–(z1,K1)` -/
def segInt (z0 K0 z1 K1 z : α) : α :=
  let q := Num.div (Num.sub (NumT.log K1) (NumT.log K0)) (Num.sub z1 z0)
  if Num.beq q (Num.ofInt 0) then Num.mul K0 (Num.sub z z0)
  else Num.div (Num.sub (NumT.exp (Num.add (NumT.log K0) (Num.mul q (Num.sub z z0)))) K0) q

/-- closed form of `SplineTransmissivity` for levels up to the highest knot:
    minimum at and below the lowest knot, then minimum + ∫ conductivity -/
def tSplineClosed : List (α × α) → α → α → α
  | [], tmin, _ => tmin
  | [_], tmin, _ => tmin
  | a :: b :: rest, tmin, z =>
    if Num.le z a.1 then tmin
    else if Num.le z b.1 then Num.add tmin (segInt a.1 a.2 b.1 b.2 z)
    else tSplineClosed (b :: rest) (Num.add tmin (segInt a.1 a.2 b.1 b.2 b.1)) z

inductive HydErr
  | aboveMax
  deriving Repr, DecidableEq

/-- `PeatclsmTransmissivity.__call__` (m²/s, level in mm): refused above `zeta_max_cm` -/
def tPeatclsm (K0 alpha zmax z : α) : Except HydErr α :=
  let zc := Num.div z (Num.ofInt 10)
  if Num.lt zmax zc then .error .aboveMax
  else .ok (Num.div (Num.mul K0 (NumT.pow (Num.sub zmax zc) (Num.sub (Num.ofInt 1) alpha)))
                    (Num.mul (Num.ofInt 100) (Num.sub alpha (Num.ofInt 1))))

/-- `np.linspace(start, stop, n)` as numpy computes it: `i * step + start`, last element = stop -/
def linspace (start stop : α) (n : Nat) : List α :=
  let step := Num.div (Num.sub stop start) (Num.ofInt (n - 1 : Nat))
  (List.range n).map (fun i => if i + 1 == n then stop else Num.add (Num.mul (Num.ofInt i) step) start)

/-- `campbell_1d_az` -/
def campbell (Fs z zlu thetaS psiS b : α) : α :=
  let h := Num.mul (Num.sub zlu z) (Num.ofInt 100)
  let hs := Num.mul psiS (Num.ofInt 100)
  let theta := if Num.le hs h then thetaS
    else Num.mul thetaS (NumT.pow (Num.div h hs) (Num.div (Num.neg (Num.ofInt 1)) b))
  Num.mul (Num.sub (Num.ofInt 1) Fs) theta

/-- `get_Sy_soil`: the discretised Dettmann–Bechtold profile; `ncell` cells are summed
    (201 in the Python code, 200 in the R reference) -/
def sySoil (zl zu Fs : List α) (thetaS psiS b : α) (ncell : Nat) : List α :=
  let zm := List.zipWith (fun l u => Num.mul (Num.div (Num.ofInt 1) (Num.ofInt 2)) (Num.add l u)) zl zu
  let dz := List.zipWith (fun l u => Num.sub u l) zl zu
  let cells := (List.zip zm (List.zip Fs dz)).take ncell
  (List.zip zl (List.zip zu dz)).map (fun r =>
    let A := cells.foldl (fun acc c =>
      let azl := campbell c.2.1 c.1 r.1 thetaS psiS b
      let azu := campbell c.2.1 c.1 r.2.1 thetaS psiS b
      Num.add acc (Num.mul c.2.2 (Num.sub azu azl))) (Num.ofInt 0)
    Num.mul (Num.div (Num.ofInt 1) (Num.mul (Num.ofInt 1) r.2.2)) A)

/-- knots of the PEATCLSM specific-yield spline: (level in mm, soil + surface) -/
def peatclsmKnots (cdf : List α) (thetaS psiS b : α) (ncell : Nat) : List (α × α) :=
  let zl : List α := linspace (Num.neg (Num.ofInt 1)) (Num.ofInt 1) 201
  let zu : List α := linspace (Num.div (Num.ofInt (-99)) (Num.ofInt 100)) (Num.div (Num.ofInt 101) (Num.ofInt 100)) 201
  let soil := sySoil zl zu cdf thetaS psiS b ncell
  let zk := List.zipWith (fun l u => Num.mul (Num.mul (Num.div (Num.ofInt 1) (Num.ofInt 2)) (Num.add u l)) (Num.ofInt 1000)) zl zu
  List.zip zk (List.zipWith Num.add soil cdf)

/-- integrand of the recession curve: `Sy / (-ET - curvature * T)` -/
def recessionIntegrand (sy T : α → α) (et kappa : α) (z : α) : α :=
  Num.div (sy z) (Num.sub (Num.neg et) (Num.mul kappa (T z)))

end Spowtd
