import SpowtdModel.Model.Classify
import SpowtdModel.Model.Curves
/-
  Data flow of `spowtd rise` and `spowtd recession`: from the classified intervals and the
  loaded tables to the series that are aligned, and to the rows of the six master-curve tables.
-/
namespace Spowtd
open Num
variable {α : Type} [Num α]

def levelAt (db : Loaded α) (e : Int) : Option α := (db.level.find? (fun z => z.1 == e)).map (·.2)

/-- one rise: the straight segment from zero depth at its initial level to its storm's total rain
    depth at its final level; keyed by the rise's start epoch -/
def riseSeries (db : Loaded α) (pairs : List ((Int × Int) × (Int × Int))) :
    List (Int × List (α × α)) :=
  pairs.filterMap (fun p =>
    match levelAt db p.2.1, levelAt db p.2.2 with
    | some z0, some z1 => some (p.2.1, [(Num.ofInt 0, z0), (totalRainDepth db p.1, z1)])
    | _, _ => none)

/-- one recession: the samples of the interstorm interval itself, (epoch, level) -/
def recessionSeries (db : Loaded α) (inter : List (Int × Int)) : List (Int × List (α × α)) :=
  inter.map (fun q => (q.1,
    (db.level.filter (fun z => decide (q.1 ≤ z.1) && decide (z.1 ≤ q.2))).map (fun z => (Num.ofInt z.1, z.2))))

structure CurveTables (α : Type) where
  /-- rising_interval / recession_interval: (start epoch, offset) -/
  intervals : List (Int × α)
  /-- rising_interval_zeta / recession_interval_zeta: (start epoch, level number, mean crossing) -/
  crossings : List (Int × Int × α)
  /-- the master-curve view: (level number, mean of offset + crossing) -/
  master : List (Int × α)

def tablesOf (keys : List Int) (a : Aligned α) : CurveTables α :=
  let key (i : Nat) : Int := keys.getD i 0
  { intervals := a.offsets.map (fun p => (key p.1, p.2))
    crossings := a.mapping.flatMap (fun hl => hl.2.map (fun st => (key st.1, hl.1, st.2)))
    master := masterCurve a }

def curveOf (step : α) (ref : Option α) (series : List (Int × List (α × α))) : Except OffErr (CurveTables α) := do
  let a ← assemble step (series.map (·.2)) ref
  pure (tablesOf (series.map (·.1)) a)

/-- storm rows joined with their rise, ordered by storm start (the query of compute_rise_offsets) -/
def sortPairs (pairs : List ((Int × Int) × (Int × Int))) : List ((Int × Int) × (Int × Int)) :=
  pairs.foldl (fun acc p =>
    (acc.filter (fun q => decide (q.1.1 ≤ p.1.1))) ++ [p] ++ (acc.filter (fun q => decide (p.1.1 < q.1.1)))) []

def sortInter (l : List (Int × Int)) : List (Int × Int) :=
  l.foldl (fun acc p =>
    (acc.filter (fun q => decide (q.1 ≤ p.1))) ++ [p] ++ (acc.filter (fun q => decide (p.1 < q.1)))) []

def riseCurveTables (db : Loaded α) (pairs : List ((Int × Int) × (Int × Int))) (step : α) (ref : Option α) :
    Except OffErr (CurveTables α) :=
  curveOf step ref (riseSeries db (sortPairs pairs))

def recessionCurveTables (db : Loaded α) (inter : List (Int × Int)) (step : α) (ref : Option α) :
    Except OffErr (CurveTables α) :=
  curveOf step ref (recessionSeries db (sortInter inter))

def levelBounds (db : Loaded α) : Option (α × α) :=
  match db.level.map (·.2) with
  | [] => none
  | x :: xs => some (xs.foldl (fun m y => if Num.lt y m then y else m) x,
                     xs.foldl (fun m y => if Num.lt m y then y else m) x)

def zetaGridOf (db : Loaded α) (step : α) : List Int :=
  match levelBounds db with
  | none => []
  | some b => zetaGrid b.1 b.2 step

end Spowtd
