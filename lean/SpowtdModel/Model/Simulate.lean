import SpowtdModel.Model.Hydraulic
import SpowtdModel.Model.Classify
/-
  `spowtd simulate rise` / `simulate recession` (simulate_rise.py, simulate_recession.py):
  curves on the levels of the measured master curve, the evapotranspiration average, and the
  tabulated output.
-/
namespace Spowtd
open Num
variable {α : Type} [Num α]

/-- simulated rise curve: cumulative integral of specific yield, centred on `mean` -/
def simulateRise (integrate : α → α → α) (grid : List α) (mean : α) : List α :=
  riseCurve integrate grid mean

/-- simulated recession curve: cumulative `quad` of the integrand per grid cell, centred -/
def simulateRecession (quadCell : α → α → α) (grid : List α) (mean : α) : List α :=
  riseCurve quadCell grid mean

/-- ET (mm/d) used by `simulate recession`: 24 × the mean ET (mm/h) over all time steps
    `[from, thru)` that start inside `[start, thru)` of the recession intervals of the master curve -/
def meanET (db : Loaded α) (intervals : List (Int × Int)) : α :=
  let vals := intervals.flatMap (fun iv =>
    (db.et.filter (fun r => decide (iv.1 ≤ r.1) && decide (r.1 < iv.2))).map (·.2.2))
  Num.mul (Num.div (Num.sum vals) (Num.ofInt vals.length)) (Num.ofInt 24)

/-- rows (level mm, measured, simulated), levels ascending: output of `simulate rise` -/
def riseTable (levels measured simulated : List α) : List (α × α × α) :=
  List.zip levels (List.zip measured simulated)

/-- output of `simulate recession`: the same rows from the highest level to the lowest -/
def recessionTable (levels measured simulated : List α) : List (α × α × α) :=
  (List.zip levels (List.zip measured simulated)).reverse

/-! unit conversions of `simulate recession` (simulate_recession.py) -/

/-- PEATCLSM transmissivity comes in m²/s, the recession integrand wants m²/d: `T(z) * 24 * 3600` -/
def perDay (T : α → α) (z : α) : α := Num.mul (Num.mul (T z) (Num.ofInt 24)) (Num.ofInt 3600)

/-- site curvature m/km² → 1/km: `curvature_m_km2 * 1e-3` (the literal `1e-3` is the correctly rounded quotient 1/1000) -/
def curvatureKm (c : α) : α := Num.mul c (Num.div (Num.ofInt 1) (Num.ofInt 1000))

/-- the levels of the measured curve are read in cm and handed on in mm: `avg_zeta_cm * 10` -/
def levelMm (zcm : α) : α := Num.mul zcm (Num.ofInt 10)

def recessionVector (simulated : List α) : List α := simulated.reverse

end Spowtd
