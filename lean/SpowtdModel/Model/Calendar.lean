/-
  Proleptic Gregorian calendar in integer arithmetic (Hinnant's algorithms) and the
  `%Y-%m-%d %H:%M:%S` timestamp text of the input files.
-/
namespace Spowtd

/-- days since 1970-01-01 of the civil date `y-m-d` -/
def daysFromCivil (y m d : Int) : Int :=
  let y' := if m ≤ 2 then y - 1 else y
  let era := y' / 400          -- `Int./` rounds towards −∞ for a positive divisor
  let yoe := y' - era * 400
  let mp := (m + 9) % 12
  let doy := (153 * mp + 2) / 5 + d - 1
  let doe := yoe * 365 + yoe / 4 - yoe / 100 + doy
  era * 146097 + doe - 719468

/-- civil date of a day number -/
def civilFromDays (z0 : Int) : Int × Int × Int :=
  let z := z0 + 719468
  let era := z / 146097
  let doe := z - era * 146097
  let yoe := (doe - doe / 1460 + doe / 36524 - doe / 146096) / 365
  let y := yoe + era * 400
  let doy := doe - (365 * yoe + yoe / 4 - yoe / 100)
  let mp := (5 * doy + 2) / 153
  let d := doy - (153 * mp + 2) / 5 + 1
  let m := if mp < 10 then mp + 3 else mp - 9
  (if m ≤ 2 then y + 1 else y, m, d)

def isLeap (y : Int) : Bool := (y % 4 == 0 && y % 100 != 0) || y % 400 == 0

def daysInMonth (y m : Int) : Int :=
  if m == 2 then (if isLeap y then 29 else 28)
  else if m == 4 || m == 6 || m == 9 || m == 11 then 30 else 31

def validDate (y m d : Int) : Bool :=
  decide (1 ≤ y) && decide (y ≤ 9999) && decide (1 ≤ m) && decide (m ≤ 12) &&
  decide (1 ≤ d) && decide (d ≤ daysInMonth y m)

/-- seconds since 1970-01-01 00:00:00 of a naive civil datetime -/
def civilSeconds (y m d hh mm ss : Int) : Int :=
  daysFromCivil y m d * 86400 + hh * 3600 + mm * 60 + ss

def natOfDigits (s : String) : Option Int :=
  if s.isEmpty || !(s.toList.all Char.isDigit) then none else some (s.toNat! : Int)

/-- `strptime(text, '%Y-%m-%d %H:%M:%S')`: fields may be given with fewer digits; anything else is refused -/
def parseIso (text : String) : Option Int :=
  match text.splitOn " " with
  | [date, time] =>
    match date.splitOn "-", time.splitOn ":" with
    | [ys, ms, ds], [hs, mis, ss] =>
      match natOfDigits ys, natOfDigits ms, natOfDigits ds, natOfDigits hs, natOfDigits mis, natOfDigits ss with
      | some y, some m, some d, some hh, some mm, some s =>
        if ys.length == 4 && ms.length ≤ 2 && ds.length ≤ 2 && hs.length ≤ 2 && mis.length ≤ 2 && ss.length ≤ 2 &&
           validDate y m d && decide (hh ≤ 23) && decide (mm ≤ 59) && decide (s ≤ 59) then
          some (civilSeconds y m d hh mm s)
        else none
      | _, _, _, _, _, _ => none
    | _, _ => none
  | _ => none

def pad (w : Nat) (n : Int) : String :=
  let s := toString n.toNat
  String.ofList (List.replicate (w - s.length) '0') ++ s

/-- render naive civil seconds as `YYYY-MM-DD HH:MM:SS` -/
def renderIso (t : Int) : String :=
  let days := t / 86400
  let sod := t % 86400
  let (y, m, d) := civilFromDays days
  s!"{pad 4 y}-{pad 2 m}-{pad 2 d} {pad 2 (sod / 3600)}:{pad 2 (sod % 3600 / 60)}:{pad 2 (sod % 60)}"

end Spowtd
