import SpowtdModel.Model.Num
/-
  `spline.Spline` with constant extrapolation (spline.py) and piecewise-linear interpolation
  (the order-1 splines of specific_yield.py / transmissivity.py).
  FITPACK's evaluator and integrator are parameters: `inner` (splev) and `splint`.
-/
namespace Spowtd
open Num
variable {α : Type} [Num α]

/-- `np.minimum(np.maximum(x, lo), hi)` -/
def clampTo (lo hi x : α) : α := Num.min (Num.max x lo) hi

/-- `Spline.__call__`: the argument is clamped to the knot range -/
def evalExt (inner : α → α) (xmin xmax x : α) : α := inner (clampTo xmin xmax x)

/-- the body of `Spline.integrate` for `a < b`: below the knots, inside (via `splint`), above -/
def integrateCore (inner : α → α) (splint : α → α → α) (xmin xmax a b : α) : α :=
  let i0 : α := Num.ofInt 0
  let i1 := if Num.lt a xmin then
      Num.add i0 (Num.mul (evalExt inner xmin xmax xmin) (Num.sub (Num.min xmin b) a)) else i0
  let i2 := if Num.lt xmin b then Num.add i1 (splint (Num.max a xmin) (Num.min xmax b)) else i1
  let i3 := if Num.lt xmax b then
      Num.add i2 (Num.mul (evalExt inner xmin xmax (Num.max a xmax)) (Num.sub b (Num.max a xmax))) else i2
  i3

/-- `Spline.integrate(a, b)`: reversed limits change the sign, equal limits give 0 -/
def integrateExt (inner : α → α) (splint : α → α → α) (xmin xmax a b : α) : α :=
  if Num.lt b a then Num.neg (integrateCore inner splint xmin xmax b a)
  else if Num.beq a b then Num.ofInt 0
  else integrateCore inner splint xmin xmax a b

/-- piecewise-linear interpolation through knots with ascending abscissae, constant outside -/
def pwl : List (α × α) → α → α
  | [], _ => Num.ofInt 0
  | [a], _ => a.2
  | a :: b :: rest, x =>
    if Num.le x a.1 then a.2
    else if Num.lt x b.1 then
      Num.add a.2 (Num.mul (Num.div (Num.sub b.2 a.2) (Num.sub b.1 a.1)) (Num.sub x a.1))
    else pwl (b :: rest) x

/-- `compute_rise_curve` before centring: 0, I g₀ g₁, I g₀ g₁ + I g₁ g₂, … (np.cumsum) -/
def cumulative (I : α → α → α) : List α → List α
  | [] => []
  | g :: gs => go (Num.ofInt 0) g gs
where
  go (acc : α) (prev : α) : List α → List α
    | [] => [acc]
    | g :: gs => acc :: go (Num.add acc (I prev g)) g gs

/-- `W += mean - W.mean()` -/
def centre (w : List α) (mean : α) : List α :=
  let m := Num.div (Num.sum w) (Num.ofInt w.length)
  w.map (fun v => Num.add v (Num.sub mean m))

def riseCurve (I : α → α → α) (grid : List α) (mean : α) : List α := centre (cumulative I grid) mean

end Spowtd
