/-
  The PEST files (pestfiles.py) and the `--observations` output, as structured lines that are
  rendered to text.  Numbers enter as already formatted strings (no model of float printing).
  Structure (names, counts, order, columns) is what the theorems talk about; the rendered text is
  compared with the files the real code writes.
-/
namespace Spowtd.Pest

def ljust (w : Nat) (s : String) : String := s ++ String.ofList (List.replicate (w - s.length) ' ')
def rjust (w : Nat) (s : String) : String := String.ofList (List.replicate (w - s.length) ' ') ++ s

/-- a piece of a template line: literal text, or a placeholder `@name   @` padded to `width` -/
inductive Seg
  | text (s : String)
  | ph (name : String) (width : Nat)

def Seg.render : Seg → String
  | .text s => s
  | .ph n w => "@" ++ ljust w n ++ "@"

abbrev TLine := List Seg
def TLine.render (l : TLine) : String := String.join (l.map Seg.render)
def TLine.names (l : TLine) : List String := l.filterMap (fun s => match s with | .ph n _ => some n | .text _ => none)

/-- fill the placeholders of a line with values -/
def TLine.fill (vals : String → String) (l : TLine) : String :=
  String.join (l.map (fun s => match s with | .text t => t | .ph n _ => vals n))

inductive Sy
  | peatclsm
  | spline (zetaKnots : List String) (nSy : Nat)

inductive Tr
  | peatclsm (ksmacz0 alpha zetaMax : String)
  | spline (zetaKnots kKnots : List String) (tmin : String)

def lit (s : String) : TLine := [.text s]

def syTpl : Sy → List TLine
  | .peatclsm =>
    [lit "  type: peatclsm",
     [.text "  sd: ", .ph "sd" 24],
     [.text "  theta_s: ", .ph "theta_s" 24],
     [.text "  b: ", .ph "b" 24],
     [.text "  psi_s: ", .ph "psi_s" 24]]
  | .spline zk n =>
    [lit "  type: spline", lit "  zeta_knots_mm:"] ++ zk.map (fun v => lit ("    - " ++ v)) ++
    [lit "  sy_knots:  # Specific yield, dimensionless"] ++
    (List.range n).map (fun i => [.text "    - ", .ph ("sy_knot_" ++ toString (i + 1)) 24])

/-- `pestfiles rise tpl`: transmissivity is written out, not calibrated -/
def riseTpl (sy : Sy) (tr : Tr) : List TLine :=
  [lit "specific_yield:"] ++ syTpl sy ++ [lit "transmissivity:"] ++
  (match tr with
   | .peatclsm k a z =>
     [lit "  type: peatclsm", lit ("  Ksmacz0: " ++ k ++ "  # m/s"), lit ("  alpha: " ++ a ++ "  # dimensionless"),
      lit ("  zeta_max_cm: " ++ z)]
   | .spline zk kk tmin =>
     [lit "  type: spline", lit "  zeta_knots_mm:"] ++ zk.map (fun v => lit ("    - " ++ v)) ++
     [lit "  K_knots_km_d:  # Conductivity, km /d"] ++ kk.map (fun v => lit ("    - " ++ v)) ++
     [lit ("  minimum_transmissivity_m2_d: " ++ tmin ++ "  # Minimum transmissivity, m2 /d")])

/-- `pestfiles curves tpl`: both functions are calibrated -/
def curvesTpl (sy : Sy) (tr : Tr) : List TLine :=
  [lit "specific_yield:"] ++ syTpl sy ++ [lit "transmissivity:"] ++
  (match tr with
   | .peatclsm _ _ z =>
     [lit "  type: peatclsm",
      [.text "  Ksmacz0: ", .ph "Ksmacz0" 24, .text "  # m/s"],
      [.text "  alpha: ", .ph "alpha" 24, .text "  # dimensionless"],
      lit ("  zeta_max_cm: " ++ z)]
   | .spline zk kk _ =>
     [lit "  type: spline", lit "  zeta_knots_mm:"] ++ zk.map (fun v => lit ("    - " ++ v)) ++
     [lit "  K_knots_km_d:  # Conductivity, km /d"] ++
     (List.range kk.length).map (fun i => [.text "    - ", .ph ("K_knot_" ++ toString (i + 1)) 24]) ++
     [[.text "  minimum_transmissivity_m2_d: ", .ph "T_min" 24, .text "  # Minimum transmissivity, m2 /d"]])

/-- the file text: first line `ptf @` -/
def renderTpl (t : List TLine) : List String := "ptf @" :: t.map TLine.render

/-! instruction files -/

inductive Ins
  | marker (text : String)
  | read (name : String) (lo hi : Nat)

def Ins.render : Ins → String
  | .marker t => "@" ++ t ++ "@"
  | .read n lo hi => "l1 [" ++ n ++ "]" ++ toString lo ++ ":" ++ toString hi

def obsName (k : Nat) : String := "e" ++ toString k

def RISE_MARK : String := "# Rise curve simulation vector"
def REC_MARK : String := "# Recession curve simulation vector"

def riseIns (nRise : Nat) : List Ins :=
  .marker RISE_MARK :: (List.range nRise).map (fun i => .read (obsName (i + 1)) 3 24)

def curvesIns (nRise nRec : Nat) : List Ins :=
  (.marker RISE_MARK :: (List.range nRise).map (fun i => .read (obsName (i + 1)) 3 24)) ++
  (.marker REC_MARK :: (List.range nRec).map (fun i => .read (obsName (nRise + i + 1)) 3 24))

def renderIns (l : List Ins) : List String := "pif @" :: l.map Ins.render

/-! control files -/

structure Param where
  name : String
  rest : String
structure Obs where
  name : String
  value : String
  group : String

structure Pst where
  groups : List String
  params : List Param
  obsGroups : List String
  obs : List Obs
  command : String
  io : List String

def Pst.npar (p : Pst) : Nat := p.params.length
def Pst.nobs (p : Pst) : Nat := p.obs.length
def Pst.npargp (p : Pst) : Nat := p.groups.length
def Pst.nobsgp (p : Pst) : Nat := p.obsGroups.length

def headerLine (p : Pst) : String :=
  rjust 5 (toString p.npar) ++ rjust 6 (toString p.nobs) ++ rjust 6 (toString p.npargp) ++ "     0" ++
  rjust 6 (toString p.nobsgp)

def Obs.render (o : Obs) : String := o.name ++ "    " ++ o.value ++ "    1.0   " ++ o.group
def Param.render (p : Param) : String := p.name ++ p.rest

def Pst.lines (p : Pst) : List String :=
  ["pcf", "* control data", "restart  estimation", headerLine p,
   "    1     1 double point   1   0   0", "   5.0  2.0   0.3  0.03    10", "  3.0   3.0 0.001  0",
   "  0.1", "   30  0.01     4     3  0.01     3", "    1     1     1",
   "* parameter groups"] ++ p.groups ++ ["* parameter data"] ++ p.params.map Param.render ++
  ["* observation groups"] ++ p.obsGroups ++ ["* observation data"] ++ p.obs.map Obs.render ++
  ["* model command line", p.command, "* model input/output"] ++ p.io ++ ["* prior information"]

def GROUP_TAIL : String := " relative 0.01  0.0  switch  2.0 parabolic"

def risePst (sy : Sy) (riseObs : List String) : Pst :=
  let (groups, params) : List String × List Param :=
    match sy with
    | .spline _ n =>
      (["sy_knot     " ++ GROUP_TAIL],
       (List.range n).map (fun i =>
         { name := "sy_knot_" ++ toString (i + 1), rest := "   none relative   NaN  0.01  1    sy_knot    1.0  0.0 1" }))
    | .peatclsm =>
      (["sd          " ++ GROUP_TAIL, "theta_s     " ++ GROUP_TAIL, "b           " ++ GROUP_TAIL,
        "psi_s       " ++ GROUP_TAIL],
       [{ name := "sd", rest := "          none relative   NaN  0.0   2.0  sd         1.0  0.0 1" },
        { name := "theta_s", rest := "     none relative   NaN  0.01  1    theta_s    1.0  0.0 1" },
        { name := "b", rest := "           none relative   NaN  0.01  20.0 b          1.0  0.0 1" },
        { name := "psi_s", rest := "       none relative   NaN  -1.0  -0.01  psi_s      1.0  0.0 1" }])
  { groups := groups, params := params, obsGroups := ["storageobs"]
    obs := riseObs.zipIdx.map (fun p => { name := obsName (p.2 + 1), value := p.1, group := "storageobs" })
    command := "bash simulate-rise.sh"
    io := ["rise_pars.yml.tpl  rise_pars.yml", "rise_observations.ins  rise_observations.yml"] }

/-- groups and parameter lines that the specific-yield section contributes to the curves control file -/
def syPstCurves : Sy → List String × List Param
  | .spline _ n =>
    (["sy_knot     " ++ GROUP_TAIL],
     (List.range n).map (fun i =>
       { name := "sy_knot_" ++ toString (i + 1), rest := "  none relative  NaN  0.01     1       sy_knot  1.0  0.0  1" }))
  | .peatclsm =>
    (["sd          " ++ GROUP_TAIL, "theta_s     " ++ GROUP_TAIL, "b           " ++ GROUP_TAIL,
      "psi_s       " ++ GROUP_TAIL],
     [{ name := "sd", rest := "          none relative   NaN  0.0      2.0        sd         1.0  0.0  1" },
      { name := "theta_s", rest := "     none relative   NaN  0.01     1          theta_s    1.0  0.0  1" },
      { name := "b", rest := "           none relative   NaN  0.01     20.0       b          1.0  0.0  1" },
      { name := "psi_s", rest := "       none relative   NaN  -1.0     -0.01      psi_s      1.0  0.0  1" }])

/-- groups and parameter lines that the transmissivity section contributes -/
def trPstCurves : Tr → List String × List Param
  | .spline _ kk _ =>
    (["k_knot      " ++ GROUP_TAIL, "T_min       " ++ GROUP_TAIL],
     (List.range kk.length).map (fun i =>
       { name := "k_knot_" ++ toString (i + 1), rest := "   log  factor    NaN  1.0e-04  1.0e+5  k_knot   1.0  0.0  1" }) ++
     [{ name := "T_min", rest := "      log  factor    NaN  1.0e-04  1.0e+5  T_min    1.0  0.0  1" }])
  | .peatclsm _ _ _ =>
    (["Ksmacz0     " ++ GROUP_TAIL, "alpha       " ++ GROUP_TAIL],
     [{ name := "Ksmacz0", rest := "     log  factor     NaN  1.0e-04  1.0e+5  Ksmacz0    1.0  0.0  1" },
      { name := "alpha", rest := "       none relative   NaN  1        20.0       alpha      1.0  0.0  1" }])

/-- `pestfiles curves pst`: each section of the parameter file contributes the groups and parameters of
    its own type (spowtd/pestfiles.py generate_curves_pst_file) -/
def curvesPst (sy : Sy) (tr : Tr) (riseObs recObs : List String) : Pst :=
  { groups := (syPstCurves sy).1 ++ (trPstCurves tr).1, params := (syPstCurves sy).2 ++ (trPstCurves tr).2
    obsGroups := ["storageobs", "timeobs"]
    obs := riseObs.zipIdx.map (fun p => { name := obsName (p.2 + 1), value := p.1, group := "storageobs" }) ++
           recObs.zipIdx.map (fun p => { name := obsName (riseObs.length + p.2 + 1), value := p.1, group := "timeobs" })
    command := "bash simulate-curves.sh"
    io := ["curves_pars.yml.tpl  curves_pars.yml", "curves_observations.ins  curves_observations.yml"] }

def lower (s : String) : String := s.map Char.toLower

/-! Reading an output file with an instruction file, as PEST does. -/

/-- fixed columns `lo:hi` (1-based, inclusive) of a line -/
def extractColumns (lo hi : Nat) (s : String) : String :=
  String.ofList ((s.toList.drop (lo - 1)).take (hi + 1 - lo))

/-- a marker searches forward for a line satisfying `isMark text`; `read` advances one line and
    reads the columns -/
def runIns (isMark : String → String → Bool) : List Ins → List String → List (String × String)
  | [], _ => []
  | .marker t :: is, rest => runIns isMark is (rest.dropWhile (fun l => !isMark t l))
  | .read n lo hi :: is, rest =>
    match rest with
    | _ :: l :: more => (n, extractColumns lo hi l) :: runIns isMark is (l :: more)
    | _ => []

/-- the output of `simulate … --observations` for one curve: marker line, one `- value` per level -/
def vectorLines (mark : String) (values : List String) : List String := mark :: values.map (fun v => "- " ++ v)

def containsSub (t l : String) : Bool := (l.splitOn t).length ≥ 2

end Spowtd.Pest
