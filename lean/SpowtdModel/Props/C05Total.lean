import SpowtdModel.Lemmas.LeastSquares
import SpowtdModel.Lemmas.LeastSquaresProofs
import SpowtdModel.Lemmas.SolveTotal
/-
  C05 (completeness of the solver) — on a proper, connected, non-empty mapping the model's
  `solveOffsets` never refuses: the stationarity equations with the largest series pinned to 0 have
  exactly one solution, Gauss–Jordan elimination finds a pivot in every column, and the final check
  of the residual sums passes.  Together with `solveOffsets_stationary`, `stationary_is_minimiser`
  and `minimiser_unique_mod_shift` this closes the statement of C05 for the model: a minimiser
  exists, the solver returns it, and it is unique up to a common shift.  Over `Rat`.
-/
namespace Spowtd

/-- The solver is complete on connected alignment problems. -/
theorem solveOffsets_total (m : Mapping Rat) (hm : ProperMapping m) (hne : m ≠ []) (hc : Connected m) :
    ∃ sol, solveOffsets m = .ok sol :=
  LS.solveOffsets_total m hm hne hc

/-- Hence a minimiser of the squared spread exists for every connected problem. -/
theorem minimiser_exists (m : Mapping Rat) (hm : ProperMapping m) (hne : m ≠ []) (hc : Connected m) :
    ∃ x : Nat → Rat, ∀ y, objective m x ≤ objective m y := by
  obtain ⟨sol, h⟩ := solveOffsets_total m hm hne hc
  exact ⟨lookup sol, fun y => LS.stationary_le m (lookup sol) (LS.solveOffsets_ok m sol h).1 y⟩

/-- The refusal `singular` is therefore reserved for disconnected (or improper) mappings. -/
theorem singular_only_if_disconnected (m : Mapping Rat) (hm : ProperMapping m)
    (h : solveOffsets m = .error .singular) : ¬ Connected m := by
  intro hc
  have hne : m ≠ [] := by
    intro h0; subst h0; revert h; decide
  obtain ⟨sol, hs⟩ := solveOffsets_total m hm hne hc
  rw [hs] at h; cases h

/-! Non-vacuity: `exChain` of Props/C05.lean is proper, connected and non-empty (shown there), and
    the solver returns `[(0, 1), (1, -1), (2, 0)]` on it. -/

end Spowtd
