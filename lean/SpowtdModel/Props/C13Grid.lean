import SpowtdModel.Model.Curves
import SpowtdModel.Lemmas.Regrid
/-
  C13 (grid part) — every level of the curves belongs to the water-level grid, and the grid
  covers the whole observed range.
-/
namespace Spowtd

theorem zetaGrid_mem (zmin zmax step : Rat) (k : Int) :
    k ∈ zetaGrid zmin zmax step ↔ Rat.floor (zmin / step) ≤ k ∧ k < Rat.ceil (zmax / step) := by
  rw [rat_floor_eq, rat_ceil_eq]
  exact mem_zetaGrid zmin zmax step k

/-- Every multiple of the step lying in `[zmin, zmax)` is a grid level, and so is the level at or
    just below `zmin` (when the range is not empty). -/
theorem grid_covers_range (zmin zmax step : Rat) (hs : 0 < step) (k : Int) :
    (zmin ≤ (k : Rat) * step ∧ (k : Rat) * step < zmax → k ∈ zetaGrid zmin zmax step) ∧
    (zmin < zmax → Rat.floor (zmin / step) ∈ zetaGrid zmin zmax step ∧
      ((Rat.floor (zmin / step) : Int) : Rat) * step ≤ zmin) := by
  rw [rat_floor_eq]
  exact ⟨fun h => zetaGrid_of_between hs h.1 h.2, zetaGrid_floor hs⟩

/-- Every level crossed by a series whose samples lie in `[zmin, zmax]` is a grid level. -/
theorem levels_in_grid (zmin zmax step : Rat) (hs : 0 < step) (pts : List (Rat × Rat))
    (hb : ∀ p ∈ pts, zmin ≤ p.2 ∧ p.2 ≤ zmax) (k : Int) (x : Rat) (h : (k, x) ∈ crossings step pts) :
    k ∈ zetaGrid zmin zmax step :=
  crossings_level_in_grid hs hb h

/-- The grid never extends a whole step beyond the observed range. -/
theorem grid_tight (zmin zmax step : Rat) (hs : 0 < step) (k : Int) (h : k ∈ zetaGrid zmin zmax step) :
    zmin - step < (k : Rat) * step ∧ (k : Rat) * step < zmax :=
  zetaGrid_tight hs h

/-! ### non-vacuity -/

/-- `zmin/step` and `zmax/step` integral: the level at `zmin` is in, the level at `zmax` is not -/
example : zetaGrid (1 : Rat) 3 (1/2) = [2, 3, 4, 5] := by decide +kernel
/-- neither integral: one level below `zmin`, the last one below `zmax` -/
example : zetaGrid (11/10 : Rat) (29/10) (1/2) = [2, 3, 4, 5] := by decide +kernel
/-- negative levels -/
example : zetaGrid (-7/10 : Rat) (1/10) (1/4) = [-3, -2, -1, 0] := by decide +kernel
/-- empty range, empty grid -/
example : zetaGrid (1 : Rat) 1 (1/2) = [] := by decide +kernel
/-- a series within `[1/2, 5/2]`: its crossed levels 1, 2 are grid levels -/
example : (2 : Int) ∈ zetaGrid (1/2 : Rat) (5/2) 1 :=
  levels_in_grid (1/2) (5/2) 1 (by decide +kernel) [(0, 1/2), (1, 3/2), (2, 1/2), (4, 5/2)]
    (by decide +kernel) 2 (7/2) (by decide +kernel)

end Spowtd
