import SpowtdModel.Model.Curves
import SpowtdModel.Lemmas.Regrid
/-
  C13 (grid part) — every level of the curves belongs to the water-level grid, and the grid
  covers the whole observed range.
-/
namespace Spowtd

theorem zetaGrid_mem (zmin zmax step : Rat) (k : Int) :
    k ∈ zetaGrid zmin zmax step ↔ Rat.floor (zmin / step) ≤ k ∧ k < Rat.ceil (zmax / step) := by
  sorry

/-- Every multiple of the step lying in `[zmin, zmax)` is a grid level, and so is the level at or
    just below `zmin` (when the range is not empty). -/
theorem grid_covers_range (zmin zmax step : Rat) (hs : 0 < step) (k : Int) :
    (zmin ≤ (k : Rat) * step ∧ (k : Rat) * step < zmax → k ∈ zetaGrid zmin zmax step) ∧
    (zmin < zmax → Rat.floor (zmin / step) ∈ zetaGrid zmin zmax step ∧
      ((Rat.floor (zmin / step) : Int) : Rat) * step ≤ zmin) := by
  sorry

/-- Every level crossed by a series whose samples lie in `[zmin, zmax]` is a grid level. -/
theorem levels_in_grid (zmin zmax step : Rat) (hs : 0 < step) (pts : List (Rat × Rat))
    (hb : ∀ p ∈ pts, zmin ≤ p.2 ∧ p.2 ≤ zmax) (k : Int) (x : Rat) (h : (k, x) ∈ crossings step pts) :
    k ∈ zetaGrid zmin zmax step := by
  sorry

/-- The grid never extends a whole step beyond the observed range. -/
theorem grid_tight (zmin zmax step : Rat) (hs : 0 < step) (k : Int) (h : k ∈ zetaGrid zmin zmax step) :
    zmin - step < (k : Rat) * step ∧ (k : Rat) * step < zmax := by
  sorry

end Spowtd
