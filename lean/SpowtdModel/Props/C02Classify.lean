import SpowtdModel.Model.Classify
import SpowtdModel.Props.C02
import SpowtdModel.Props.C03
import SpowtdModel.Lemmas.Classify
/-
  C02 at the level of a classified stretch: the arbitration problem built from the runs is
  well formed, its candidate relation is "share a time step", preference lists are sorted by
  agreement in duration, and the recorded pairing has no blocking pair.
-/
namespace Spowtd
variable {α : Type} [Num α]

theorem overlaps_iff (st ri : Nat × Nat) :
    overlaps st ri = true ↔ ∃ i, st.1 ≤ i ∧ i < st.2 ∧ ri.1 ≤ i ∧ i < ri.2 := by
  sorry

/-- The many-to-many candidate relation is exactly "the storm run and the rise run share a step". -/
theorem candidates_iff_overlap (v w : List Bool) (st ri : Nat × Nat)
    (hs : st ∈ trueRuns v) (hr : ri ∈ trueRuns w) :
    ri.1 ∈ (problemOf (trueRuns v) (trueRuns w)).prefs st.1 ↔ overlaps st ri = true := by
  sorry

theorem problemOf_wf (v w : List Bool) : GS.WF (problemOf (trueRuns v) (trueRuns w)) := by
  sorry

/-- A storm's proposals go from the closest duration to the farthest. -/
theorem problemOf_sorted (storms rises : List (Nat × Nat)) (a r r' : Nat)
    (h : GS.Before ((problemOf storms rises).prefs a) r r') :
    stormScore (runWithStart storms a) (runWithStart rises r') ≤
      stormScore (runWithStart storms a) (runWithStart rises r) := by
  sorry

/-- No blocking pair among overlapping storm and rise runs, in terms of the scores a user can
    compute from the record: duration agreement for the storm, start-time agreement for the rise.
    Holds for every schedule `pick` and with ties. -/
theorem classify_stable (pick : List Nat → Nat) (s j : α) (dt : Int) (zeta rain : List α) :
    ¬ ∃ st ∈ trueRuns (heavy s rain), ∃ ri ∈ trueRuns (jumps j dt zeta),
      overlaps st ri = true ∧ (st, ri) ∉ (classifyIdx pick s j dt zeta rain).pairs ∧
      ((∀ ri', (st, ri') ∉ (classifyIdx pick s j dt zeta rain).pairs) ∨
        ∃ ri', (st, ri') ∈ (classifyIdx pick s j dt zeta rain).pairs ∧ stormScore st ri' < stormScore st ri) ∧
      ((∀ st', (st', ri) ∉ (classifyIdx pick s j dt zeta rain).pairs) ∨
        ∃ st', (st', ri) ∈ (classifyIdx pick s j dt zeta rain).pairs ∧ riseScore ri st' < riseScore ri st) := by
  sorry

/-- When no rise is indifferent between two candidate storms the result does not depend on the
    order in which storms are considered. -/
theorem classify_schedule_independent (pick₁ pick₂ : List Nat → Nat) (s j : α) (dt : Int)
    (zeta rain : List α) (h : (classifyIdx pick₁ s j dt zeta rain).strict = true) :
    classifyIdx pick₁ s j dt zeta rain = classifyIdx pick₂ s j dt zeta rain := by
  sorry

end Spowtd
