import SpowtdModel.Model.Classify
import SpowtdModel.Props.C02
import SpowtdModel.Props.C03
import SpowtdModel.Lemmas.Classify
/-
  C02 at the level of a classified stretch: the arbitration problem built from the runs is
  well formed, its candidate relation is "share a time step", preference lists are sorted by
  agreement in duration, and the recorded pairing has no blocking pair.
-/
namespace Spowtd
variable {α : Type} [Num α]

theorem overlaps_iff (st ri : Nat × Nat) :
    overlaps st ri = true ↔ ∃ i, st.1 ≤ i ∧ i < st.2 ∧ ri.1 ≤ i ∧ i < ri.2 :=
  overlaps_iff' st ri

/-- The many-to-many candidate relation is exactly "the storm run and the rise run share a step". -/
theorem candidates_iff_overlap (v w : List Bool) (st ri : Nat × Nat)
    (hs : st ∈ trueRuns v) (hr : ri ∈ trueRuns w) :
    ri.1 ∈ (problemOf (trueRuns v) (trueRuns w)).prefs st.1 ↔ overlaps st ri = true :=
  candidates_iff_overlap' v w st ri hs hr

theorem problemOf_wf (v w : List Bool) : GS.WF (problemOf (trueRuns v) (trueRuns w)) :=
  problemOf_wf' v w

/-- A storm's proposals go from the closest duration to the farthest. -/
theorem problemOf_sorted (storms rises : List (Nat × Nat)) (a r r' : Nat)
    (h : GS.Before ((problemOf storms rises).prefs a) r r') :
    stormScore (runWithStart storms a) (runWithStart rises r') ≤
      stormScore (runWithStart storms a) (runWithStart rises r) :=
  problemOf_sorted' storms rises a r r' h

/-- No blocking pair among overlapping storm and rise runs, in terms of the scores a user can
    compute from the record: duration agreement for the storm, start-time agreement for the rise.
    Holds for every schedule `pick` and with ties. -/
theorem classify_stable (pick : List Nat → Nat) (s j : α) (dt : Int) (zeta rain : List α) :
    ¬ ∃ st ∈ trueRuns (heavy s rain), ∃ ri ∈ trueRuns (jumps j dt zeta),
      overlaps st ri = true ∧ (st, ri) ∉ (classifyIdx pick s j dt zeta rain).pairs ∧
      ((∀ ri', (st, ri') ∉ (classifyIdx pick s j dt zeta rain).pairs) ∨
        ∃ ri', (st, ri') ∈ (classifyIdx pick s j dt zeta rain).pairs ∧ stormScore st ri' < stormScore st ri) ∧
      ((∀ st', (st', ri) ∉ (classifyIdx pick s j dt zeta rain).pairs) ∨
        ∃ st', (st', ri) ∈ (classifyIdx pick s j dt zeta rain).pairs ∧ riseScore ri st' < riseScore ri st) :=
  idxPairs_stable pick (heavy s rain) (jumps j dt zeta)

/-- When no rise is indifferent between two candidate storms the result does not depend on the
    order in which storms are considered. -/
theorem classify_schedule_independent (pick₁ pick₂ : List Nat → Nat) (s j : α) (dt : Int)
    (zeta rain : List α) (h : (classifyIdx pick₁ s j dt zeta rain).strict = true) :
    classifyIdx pick₁ s j dt zeta rain = classifyIdx pick₂ s j dt zeta rain :=
  classifyIdx_schedule_independent pick₁ pick₂ s j dt zeta rain h

/-! ### Non-vacuity (kernel evaluation at `Rat`; thresholds `s = 4`, `j = 1`, hourly step) -/
namespace Example

/-- storms `[0,1)`, `[2,4)` both overlap the only rise `[0,3)`: both list it as a candidate -/
example : (problemOf (trueRuns (heavy s [5, 0, 5, 5, 0])) (trueRuns (jumps j 3600 [0, 2, 4, 6, 6]))).storms
    = [0, 2] := by decide +kernel
example : (problemOf (trueRuns (heavy s [5, 0, 5, 5, 0])) (trueRuns (jumps j 3600 [0, 2, 4, 6, 6]))).prefs 2
    = [0] := by decide +kernel
example : overlaps (2, 4) (0, 3) = true ∧ overlaps (0, 1) (0, 3) = true ∧ overlaps (0, 1) (1, 3) = false := by
  decide

/-- the rise strictly prefers the storm with the same start: the test is positive and both
    schedules record the same pair (the hypothesis of `classify_schedule_independent` holds) -/
example : (classifyIdx pickFirst s j 3600 [0, 2, 4, 6, 6] [5, 0, 5, 5, 0]).strict = true := by
  decide +kernel
example : (classifyIdx pickFirst s j 3600 [0, 2, 4, 6, 6] [5, 0, 5, 5, 0]).pairs = [((0, 1), (0, 3))] ∧
    (classifyIdx pickLast s j 3600 [0, 2, 4, 6, 6] [5, 0, 5, 5, 0]).pairs = [((0, 1), (0, 3))] := by
  decide +kernel

/-- … and the hypothesis is needed: storms `[0,3)` and `[4,5)` are equally far from the start of the
    rise `[2,5)`; the test is negative and the two schedules record different (both stable) pairs -/
example : (classifyIdx pickFirst s j 3600 [0, 0, 0, 2, 4, 6] [5, 5, 5, 0, 5, 0]).strict = false := by
  decide +kernel
example : (classifyIdx pickFirst s j 3600 [0, 0, 0, 2, 4, 6] [5, 5, 5, 0, 5, 0]).pairs = [((0, 3), (2, 5))] ∧
    (classifyIdx pickLast s j 3600 [0, 0, 0, 2, 4, 6] [5, 5, 5, 0, 5, 0]).pairs = [((4, 5), (2, 5))] := by
  decide +kernel

/-- a sorted preference list with two candidates: storm `[0,4)` overlaps the rises `[0,1)` and
    `[2,5)`; it proposes first to the one closest in duration -/
example : (problemOf (trueRuns (heavy s [5, 5, 5, 5, 0, 0])) (trueRuns (jumps j 3600 [0, 2, 2, 4, 6, 8]))).prefs 0
    = [2, 0] := by decide +kernel

end Example

end Spowtd
