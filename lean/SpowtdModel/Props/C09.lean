import SpowtdModel.Model.Curves
import SpowtdModel.Lemmas.Curves
import SpowtdModel.Lemmas.CurvesRat
/-
  C09 — the reference water level is the origin of the master curve.  Over `Rat`.
-/
namespace Spowtd

/-- every series listed at a level has an offset, and no level is empty -/
def Covered (a : Aligned Rat) : Prop :=
  ∀ hl ∈ a.mapping, hl.2 ≠ [] ∧ ∀ st ∈ hl.2, ∃ v, (st.1, v) ∈ a.offsets

/-- supplement: the hypothesis `Covered` holds for every alignment the model produces -/
theorem alignSeries_covered (step : Rat) (series : List (List (Rat × Rat))) (a : Aligned Rat)
    (h : alignSeries step series = .ok a) : Covered a :=
  (alignSeries_traced h).covered

/-- With a reference level `k` the master curve is zero at `k`. -/
theorem master_zero_at_reference (a a' : Aligned Rat) (k : Int) (hc : Covered a)
    (h : reorigin a (some k) = .ok a') :
    (masterCurve a').find? (fun p => p.1 == k) = some (k, 0) := by
  obtain ⟨k', hl, hk, hf, rfl⟩ := reorigin_eq_ok h
  cases hk
  exact master_zero_core a k hl hc hf

/-- Without a reference the highest level of the curve is the origin. -/
theorem master_zero_at_top_without_reference (a a' : Aligned Rat) (hc : Covered a)
    (h : reorigin a none = .ok a') :
    ∃ k, maxLevel a.mapping = some k ∧ (∀ hl ∈ a.mapping, hl.1 ≤ k) ∧
      (masterCurve a').find? (fun p => p.1 == k) = some (k, 0) := by
  obtain ⟨k, hl, hk, hf, rfl⟩ := reorigin_eq_ok h
  exact ⟨k, hk, (maxLevel_spec hk).1, master_zero_core a k hl hc hf⟩

/-- Re-origin changes all offsets by one common constant and nothing else. -/
theorem reorigin_common_shift (a a' : Aligned Rat) (ref : Option Int) (h : reorigin a ref = .ok a') :
    a'.mapping = a.mapping ∧ ∃ z, a'.offsets = a.offsets.map (fun p => (p.1, p.2 - z)) := by
  obtain ⟨k, hl, _, _, rfl⟩ := reorigin_eq_ok h
  exact ⟨rfl, originOf a hl, rfl⟩

/-- Every multiple of the grid step is accepted, whatever the step, and mapped to its own level. -/
theorem refIndex_accepts_multiples (k : Int) (step : Rat) (hs : step ≠ 0) :
    refIndex ((k : Rat) * step) step = .ok k := by
  rw [refIndex_rat, mul_div_cancel_right₀ _ hs, Int.floor_intCast, if_pos rfl]

/-- A level that is not a multiple of the step is rejected. -/
theorem refIndex_rejects_others (ref step : Rat) (hs : step ≠ 0)
    (h : ¬ ∃ k : Int, ref = (k : Rat) * step) : refIndex ref step = .error .offGrid := by
  rw [refIndex_rat, if_neg]
  intro he
  exact h ⟨⌊ref / step⌋, by rw [he, div_mul_cancel₀ _ hs]⟩

/-- … and the whole assembly is then refused (never assembled around a neighbouring level). -/
theorem assemble_refuses_offgrid (step ref : Rat) (series : List (List (Rat × Rat))) (hs : step ≠ 0)
    (h : ¬ ∃ k : Int, ref = (k : Rat) * step) : ∃ e, assemble step series (some ref) = .error e := by
  unfold assemble
  cases ha : alignSeries step series with
  | error e => exact ⟨e, rfl⟩
  | ok a =>
    refine ⟨.offGrid, ?_⟩
    show (do let k ← (do let i ← refIndex ref step; pure (some i)); reorigin a k) = _
    rw [refIndex_rejects_others ref step hs h]
    rfl

/-! ### non-vacuity: three series with overlapping level ranges (levels 1–2, 2–3, 1–3) -/

/-- three rising series, as points (position, level) -/
def exSeries : List (List (Rat × Rat)) :=
  [[(0, 1/2), (1, 5/2)], [(0, 3/2), (1, 7/2)], [(0, 1/5), (2, 16/5)]]

/-- no reference: assembled, the top level is 3 and the master curve is zero there -/
example : (assemble 1 exSeries none).toOption.map (fun a => (maxLevel a.mapping, masterCurve a)) =
    some (some 3, [(1, -11/9), (2, -11/18), (3, 0)]) := by decide +kernel

/-- reference level 2: the master curve is zero at level 2 -/
example : (assemble 1 exSeries (some 2)).toOption.map masterCurve =
    some [(1, -11/18), (2, 0), (3, 11/18)] := by decide +kernel

/-- step 1/10, reference 23/10: accepted as level 23, zero there -/
example : (assemble (1/10) exSeries (some (23/10))).toOption.map
    (fun a => (masterCurve a).find? (fun p => p.1 == 23)) = some (some (23, 0)) := by decide +kernel

/-- step 1/10, reference 1/20: refused, not assembled around level 0 or 1 -/
example : (match assemble (1/10) exSeries (some (1/20)) with | .error e => some e | .ok _ => none)
    = some .offGrid := by decide +kernel

end Spowtd
