import SpowtdModel.Lemmas.LeastSquares
import SpowtdModel.Props.C05
/-
  C08 — master curves do not depend on arbitrary processing choices.
-/
namespace Spowtd

/-- Presentation order (of levels, and of series within a level) is irrelevant to the objective
    and to the residual sums, hence to the set of minimisers. -/
theorem objective_perm (m m' : Mapping Rat) (x : Nat → Rat)
    (h : List.Forall₂ (fun hl hl' => hl.1 = hl'.1 ∧ hl.2.Perm hl'.2) m m') :
    objective m x = objective m' x ∧ ∀ s, residualSum m x s = residualSum m' x s :=
  LS.perm_within m m' x h

theorem objective_perm_levels (m m' : Mapping Rat) (x : Nat → Rat) (h : m.Perm m') :
    objective m x = objective m' x ∧ ∀ s, residualSum m x s = residualSum m' x s :=
  LS.perm_levels m m' x h

/-- Shifting one interval's own axis by a constant shifts its offset by the opposite constant and
    changes nothing else: residual sums, objective and aligned values `x s + t` are unchanged. -/
theorem axis_shift_equivariant (m : Mapping Rat) (c x : Nat → Rat) :
    (∀ s, residualSum (shiftAxes m c) (fun s => x s - c s) s = residualSum m x s) ∧
    objective (shiftAxes m c) (fun s => x s - c s) = objective m x :=
  LS.axis_shift m c x

/-- Which interval serves as the internal zero does not matter: adding a common constant to all
    offsets is undone by the re-origin step. -/
theorem reorigin_ignores_internal_zero (a : Aligned Rat) (κ : Rat) (ref : Option Int)
    (hcov : ∀ hl ∈ a.mapping, hl.2 ≠ [] ∧ ∀ st ∈ hl.2, ∃ v, (st.1, v) ∈ a.offsets) :
    reorigin { a with offsets := a.offsets.map (fun p => (p.1, p.2 + κ)) } ref = reorigin a ref :=
  LS.reorigin_shift a κ ref hcov

/-- Hence, for a connected proper mapping, the master curve after re-origin is the same for every
    stationary offset vector. -/
theorem master_curve_unique (m : Mapping Rat) (hm : ProperMapping m) (hc : Connected m)
    (ids : List Nat) (hids : ∀ s, s ∈ ids ↔ s ∈ seriesOf m) (hnd : ids.Nodup)
    (x y : Nat → Rat) (hx : Stationary m x) (hy : Stationary m y) (ref : Option Int) :
    (reorigin { offsets := ids.map (fun s => (s, x s)), mapping := m } ref).map masterCurve =
    (reorigin { offsets := ids.map (fun s => (s, y s)), mapping := m } ref).map masterCurve := by
  have _ := hnd
  rw [LS.master_unique m hm hc ids hids x y hx hy ref]

/-- The groups returned by the merge loop partition the levels, and two levels sharing a series
    are in the same group. -/
theorem components_partition (m : Mapping Rat) (hnd : (m.map (·.1)).Nodup) :
    ((components m).flatMap (·.1)).Perm (m.map (·.1)) ∧
    ∀ hl ∈ m, ∀ hl' ∈ m, ¬ disjointB (seriesAt hl.2) (seriesAt hl'.2) = true →
      ∃ g ∈ components m, hl.1 ∈ g.1 ∧ hl'.1 ∈ g.1 :=
  LS.components_part m hnd

/-- Series of different groups share no level: an interval outside the kept group is linked to it
    neither directly nor through a chain. -/
theorem components_separated (m : Mapping Rat) (hnd : (m.map (·.1)).Nodup) :
    ∀ g ∈ components m, ∀ g' ∈ components m, g ≠ g' → disjointB g.2 g'.2 = true := by
  have _ := hnd
  exact LS.components_sep m

/-! Non-vacuity: a disconnected mapping splits into two groups; a chained one stays in one. -/

example : components ([(0, [(0, 0), (1, 1)]), (1, [(2, 3), (3, 2)])] : Mapping Rat)
    = [([0], [0, 1]), ([1], [2, 3])] := by decide +kernel

example : components ([(0, [(0, 0), (1, 2)]), (1, [(1, 3), (2, 2)]), (2, [(1, 6), (2, 5)])] : Mapping Rat)
    = [([2, 1, 0], [1, 2, 0])] := by decide +kernel

end Spowtd
