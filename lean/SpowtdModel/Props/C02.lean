import SpowtdModel.Lemmas.GS
/-
  C02 — the storm–rise matching is stable and storm-optimal, whatever the order
  in which storms are taken from the pool.  Property theorems only; helper
  lemmas live in `Lemmas/GS*.lean`.
-/
namespace Spowtd.GS

/-- storm ↦ rise map of a state -/
def muOf (P : Problem) (st : State) : Nat → Option Nat :=
  fun s => P.rises.find? (fun r => st.held r == some s)

/-- Every run of the executable loop, under any schedule, is a `Reach` sequence. -/
theorem run_reach (P : Problem) (pick : List Nat → Nat) (n : Nat) (st : State) (h : Reach P st) :
    Reach P (run P pick n st) := by
  sorry

/-- The loop empties the pool within `fuel P` iterations (termination is a theorem, not fuel). -/
theorem run_terminates (P : Problem) (hP : WF P) (pick : List Nat → Nat) :
    (run P pick (fuel P) (init P)).free = [] := by
  sorry

/-- In every reachable state the held pairs are candidate pairs and no storm is held twice
    (no rise is held twice by construction: `held` is a function). -/
theorem gs_matching (P : Problem) (hP : WF P) {st : State} (h : Reach P st) :
    (∀ r s, st.held r = some s → s ∈ P.storms ∧ r ∈ P.prefs s) ∧
    (∀ r r' s, st.held r = some s → st.held r' = some s → r = r') := by
  sorry

/-- A final state is a stable matching (ties allowed on both sides). -/
theorem gs_stable (P : Problem) (hP : WF P) {st : State} (h : Reach P st) (hfin : st.free = []) :
    Stable P (muOf P st) := by
  sorry

/-- Stability in terms of the *scores* a user can compute: if the preference lists are sorted by
    a storm score `σ`, no candidate pair exists in which the storm would get a strictly higher
    score and the rise a strictly higher score. -/
theorem gs_stable_scores (P : Problem) (hP : WF P) (σ : Nat → Nat → Int)
    (hσ : ∀ s r r', Before (P.prefs s) r r' → σ s r' ≤ σ s r)
    {st : State} (h : Reach P st) (hfin : st.free = []) :
    ¬ ∃ s r, s ∈ P.storms ∧ r ∈ P.prefs s ∧ muOf P st s ≠ some r ∧
      (muOf P st s = none ∨ ∃ r', muOf P st s = some r' ∧ σ s r' < σ s r) ∧
      ((∀ s', muOf P st s' ≠ some r) ∨ ∃ s', muOf P st s' = some r ∧ P.score r s' < P.score r s) := by
  sorry

/-- With strict rise preferences the result is the storm-optimal stable matching: every storm
    matched in *any* stable matching is matched here, to a rise it lists at least as early. -/
theorem gs_storm_optimal (P : Problem) (hP : WF P) (hs : RiseStrict P)
    {st : State} (h : Reach P st) (hfin : st.free = [])
    (μ' : Nat → Option Nat) (hst : Stable P μ') (s r' : Nat) (h' : μ' s = some r') :
    ∃ r, st.held r = some s ∧ (r = r' ∨ Before (P.prefs s) r r') := by
  sorry

/-- … hence the result does not depend on the order in which storms are considered. -/
theorem gs_order_independent (P : Problem) (hP : WF P) (hs : RiseStrict P)
    (pick₁ pick₂ : List Nat → Nat) : galeShapley P pick₁ = galeShapley P pick₂ := by
  sorry

/-- The Boolean test used on the implementation's output decides strictness. -/
theorem riseStrictB_iff (P : Problem) (hP : WF P) : riseStrictB P = true ↔ RiseStrict P := by
  sorry

end Spowtd.GS
