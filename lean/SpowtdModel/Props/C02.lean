import SpowtdModel.Lemmas.GS
import SpowtdModel.Lemmas.GSInv
import SpowtdModel.Lemmas.GSOpt
/-
  C02 — the storm–rise matching is stable and storm-optimal, whatever the order
  in which storms are taken from the pool.  Property theorems only; helper
  lemmas live in `Lemmas/GS*.lean`.
-/
namespace Spowtd.GS

/-- storm ↦ rise map of a state -/
def muOf (P : Problem) (st : State) : Nat → Option Nat :=
  fun s => P.rises.find? (fun r => st.held r == some s)

/-- `muOf` is the inverse of `held` on reachable states. -/
theorem muOf_iff (P : Problem) (hP : WF P) {st : State} (h : Reach P st) (s r : Nat) :
    muOf P st s = some r ↔ st.held r = some s :=
  invHeld_iff hP (inv_reach hP h) s r

/-- Every run of the executable loop, under any schedule, is a `Reach` sequence. -/
theorem run_reach (P : Problem) (pick : List Nat → Nat) (n : Nat) (st : State) (h : Reach P st) :
    Reach P (run P pick n st) :=
  run_reach' P pick n st h

/-- The loop empties the pool within `fuel P` iterations (termination is a theorem, not fuel). -/
theorem run_terminates (P : Problem) (hP : WF P) (pick : List Nat → Nat) :
    (run P pick (fuel P) (init P)).free = [] :=
  run_terminates' hP pick

/-- In every reachable state the held pairs are candidate pairs and no storm is held twice
    (no rise is held twice by construction: `held` is a function). -/
theorem gs_matching (P : Problem) (hP : WF P) {st : State} (h : Reach P st) :
    (∀ r s, st.held r = some s → s ∈ P.storms ∧ r ∈ P.prefs s) ∧
    (∀ r r' s, st.held r = some s → st.held r' = some s → r = r') :=
  ⟨fun _ _ hh => held_mem_prefs (inv_reach hP h) hh,
   fun _ _ _ hh hh' => held_inj (inv_reach hP h) hh hh'⟩

/-- A final state is a stable matching (ties allowed on both sides). -/
theorem gs_stable (P : Problem) (hP : WF P) {st : State} (h : Reach P st) (hfin : st.free = []) :
    Stable P (muOf P st) :=
  stable_of_final hP (inv_reach hP h) hfin (muOf P st) (muOf_iff P hP h)

/-- Stability in terms of the *scores* a user can compute: if the preference lists are sorted by
    a storm score `σ`, no candidate pair exists in which the storm would get a strictly higher
    score and the rise a strictly higher score. -/
theorem gs_stable_scores (P : Problem) (hP : WF P) (σ : Nat → Nat → Int)
    (hσ : ∀ s r r', Before (P.prefs s) r r' → σ s r' ≤ σ s r)
    {st : State} (h : Reach P st) (hfin : st.free = []) :
    ¬ ∃ s r, s ∈ P.storms ∧ r ∈ P.prefs s ∧ muOf P st s ≠ some r ∧
      (muOf P st s = none ∨ ∃ r', muOf P st s = some r' ∧ σ s r' < σ s r) ∧
      ((∀ s', muOf P st s' ≠ some r) ∨ ∃ s', muOf P st s' = some r ∧ P.score r s' < P.score r s) := by
  rintro ⟨s, r, hs, hr, hne, hstorm, hrise⟩
  have hst := gs_stable P hP h hfin
  refine hst.2 s r ⟨hs, hr, hne, ?_, hrise⟩
  rcases hstorm with hnone | ⟨r', hr', hlt⟩
  · exact Or.inl hnone
  · refine Or.inr ⟨r', hr', ?_⟩
    have hr'mem : r' ∈ P.prefs s := (hst.1.sub s r' hr').2
    have hrr' : r ≠ r' := fun e => hne (e ▸ hr')
    rcases before_total hr hr'mem hrr' with hb | hb
    · exact hb
    · have := hσ s r' r hb
      omega

/-- With strict rise preferences the result is the storm-optimal stable matching: every storm
    matched in *any* stable matching is matched here, to a rise it lists at least as early. -/
theorem gs_storm_optimal (P : Problem) (hP : WF P) (hs : RiseStrict P)
    {st : State} (h : Reach P st) (hfin : st.free = [])
    (μ' : Nat → Option Nat) (hst : Stable P μ') (s r' : Nat) (h' : μ' s = some r') :
    ∃ r, st.held r = some s ∧ (r = r' ∨ Before (P.prefs s) r r') :=
  storm_optimal (inv_reach hP h) (noAchRej_reach hP hs h) hfin μ' hst s r' h'

/-- … hence the result does not depend on the order in which storms are considered. -/
theorem gs_order_independent (P : Problem) (hP : WF P) (hs : RiseStrict P)
    (pick₁ pick₂ : List Nat → Nat) : galeShapley P pick₁ = galeShapley P pick₂ :=
  galeShapley_order_independent hP hs pick₁ pick₂

/-- The Boolean test used on the implementation's output decides strictness. -/
theorem riseStrictB_iff (P : Problem) (hP : WF P) : riseStrictB P = true ↔ RiseStrict P :=
  riseStrictB_iff' hP

/-! ### Non-vacuity

Storms 1 and 2 contend for rise 10 (rise 10 scores storm 2 higher); storm 1 chooses between
rises 10 and 20 (it lists 10 first).  Storm 2 gets rise 10, storm 1 falls back on rise 20,
whichever storm is taken from the pool first. -/

def exampleProblem : Problem where
  storms := [1, 2]
  rises := [10, 20]
  prefs := fun s => if s = 1 then [10, 20] else if s = 2 then [10] else []
  score := fun r s => if r = 10 ∧ s = 2 then 7 else if r = 10 ∧ s = 1 then 5 else 1

theorem exampleProblem_wf : WF exampleProblem where
  storms_nodup := by decide
  rises_nodup := by decide
  prefs_nodup := by
    intro s
    show (if s = 1 then [10, 20] else if s = 2 then [10] else []).Nodup
    split
    · decide
    · split <;> decide
  prefs_rises := by
    intro s r hr
    have hr' : r ∈ (if s = 1 then [10, 20] else if s = 2 then [10] else []) := hr
    show r ∈ [10, 20]
    split at hr'
    · exact hr'
    · split at hr'
      · simp at hr'; simp [hr']
      · cases hr'

theorem exampleProblem_strict : RiseStrict exampleProblem :=
  (riseStrictB_iff exampleProblem exampleProblem_wf).mp (by decide)

/-- first storm of the pool taken first -/
example : galeShapley exampleProblem (fun _ => 0) = [(10, 2), (20, 1)] := by decide

/-- last storm of the pool taken first -/
example : galeShapley exampleProblem (fun l => l.length - 1) = [(10, 2), (20, 1)] := by decide

/-- the two schedules really differ: they take different storms first -/
example : choose (fun _ => 0) (init exampleProblem).free = 1 ∧
    choose (fun l => l.length - 1) (init exampleProblem).free = 2 := by decide

/-- the hypotheses of the theorems above are jointly satisfiable on a final state with a contested
    rise, and the conclusion of `gs_stable` is about a non-empty matching -/
example : Stable exampleProblem
    (muOf exampleProblem (run exampleProblem (fun _ => 0) (fuel exampleProblem) (init exampleProblem))) ∧
    muOf exampleProblem (run exampleProblem (fun _ => 0) (fuel exampleProblem) (init exampleProblem)) 1
      = some 20 :=
  ⟨gs_stable _ exampleProblem_wf (run_reach _ _ _ _ Reach.init) (run_terminates _ exampleProblem_wf _),
   by decide⟩

end Spowtd.GS
