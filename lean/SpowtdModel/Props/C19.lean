import SpowtdModel.Model.Pest
import SpowtdModel.Lemmas.Pest
/-
  C19 — calibration files and simulation output describe the same problem.
  For every parameterisation, every number of knots and every number of levels.
-/
namespace Spowtd.Pest

/-- the counts declared in the control file's header are the lengths of its sections -/
theorem declared_counts_match (sy : Sy) (tr : Tr) (riseObs recObs : List String) :
    (risePst sy riseObs).npar = (risePst sy riseObs).params.length ∧
    (risePst sy riseObs).nobs = riseObs.length ∧
    (risePst sy riseObs).npargp = (risePst sy riseObs).groups.length ∧
    (risePst sy riseObs).nobsgp = 1 ∧
    (curvesPst sy tr riseObs recObs).nobs = riseObs.length + recObs.length ∧
    (curvesPst sy tr riseObs recObs).nobsgp = 2 ∧
    (curvesPst sy tr riseObs recObs).npar = (curvesPst sy tr riseObs recObs).params.length ∧
    (curvesPst sy tr riseObs recObs).npargp = (curvesPst sy tr riseObs recObs).groups.length := by
  refine ⟨rfl, ?_, rfl, ?_, ?_, rfl, rfl, rfl⟩
  · simp only [Pst.nobs, risePst_obs, List.length_map, List.length_zipIdx]
  · cases sy <;> rfl
  · simp only [Pst.nobs, curvesPst_obs, List.length_append, List.length_map, List.length_zipIdx]

/-- number of calibrated parameters: one per specific-yield knot (4 for PEATCLSM) for the rise
    problem; for curves each section of the parameter file counts by its own type — specific yield
    as for rise, transmissivity one per conductivity knot plus the minimum transmissivity (2 for
    PEATCLSM) -/
theorem parameter_counts (zk : List String) (n : Nat) (sy : Sy) (tr : Tr) (zt kk : List String) (tmin k a z : String)
    (riseObs recObs : List String) :
    (risePst (.spline zk n) riseObs).npar = n ∧ (risePst .peatclsm riseObs).npar = 4 ∧
    (curvesPst sy tr riseObs recObs).npar = (risePst sy riseObs).npar + (trPstCurves tr).2.length ∧
    (trPstCurves (.spline zt kk tmin)).2.length = kk.length + 1 ∧
    (trPstCurves (.peatclsm k a z)).2.length = 2 := by
  refine ⟨?_, rfl, ?_, ?_, rfl⟩
  · simp only [Pst.npar, risePst, List.length_map, List.length_range]
  · cases sy with
    | peatclsm => simp only [Pst.npar, curvesPst, risePst, syPstCurves, List.length_append, List.length_cons, List.length_nil]
    | spline zs m =>
      simp only [Pst.npar, curvesPst, risePst, syPstCurves, List.length_append, List.length_map, List.length_range]
  · simp only [trPstCurves, List.length_append, List.length_map, List.length_range, List.length_cons, List.length_nil]

/-- the control file's parameter names are exactly the template's placeholders, in order, under
    PEST's case folding -/
theorem rise_param_names_eq_placeholders (sy : Sy) (tr : Tr) (riseObs : List String) :
    ((riseTpl sy tr).flatMap TLine.names).map lower = ((risePst sy riseObs).params.map (·.name)).map lower := by
  rw [riseTpl_names, risePst_names]

/-- the same for the curves problem, for every pair of section types — also a parameter file whose two
    sections are of different types (spline specific yield with PEATCLSM transmissivity, or the reverse) -/
theorem curves_param_names_eq_placeholders (sy : Sy) (tr : Tr) (riseObs recObs : List String) :
    ((curvesTpl sy tr).flatMap TLine.names).map lower =
      ((curvesPst sy tr riseObs recObs).params.map (·.name)).map lower := by
  rw [curvesTpl_names, curvesPst_names, List.map_append, List.map_append, trNames_lower]

/-- k-th observation of the control file, k-th read instruction: same name; rise levels first
    (ascending), then recession levels (descending, as handed in) -/
theorem obs_k_aligned (sy : Sy) (tr : Tr) (riseObs recObs : List String) :
    ((curvesPst sy tr riseObs recObs).obs.map (·.name)) =
      (curvesIns riseObs.length recObs.length).filterMap (fun i => match i with | .read n _ _ => some n | .marker _ => none) ∧
    ((risePst sy riseObs).obs.map (·.name)) =
      (riseIns riseObs.length).filterMap (fun i => match i with | .read n _ _ => some n | .marker _ => none) ∧
    ((curvesPst sy tr riseObs recObs).obs.map (·.value)) = riseObs ++ recObs := by
  refine ⟨?_, ?_, ?_⟩
  · refine Eq.trans ?_ (curvesIns_names _ _).symm
    rw [curvesPst_obs, List.map_append, List.map_map, List.map_map,
      List.range_eq_range', List.range_eq_range']
    congr 1
    · exact zipIdx_map_snd (fun i => obsName (i + 1)) riseObs 0
    · exact zipIdx_map_snd (fun i => obsName (riseObs.length + i + 1)) recObs 0
  · refine Eq.trans ?_ (riseIns_names _).symm
    rw [risePst_obs, List.map_map, List.range_eq_range']
    exact zipIdx_map_snd (fun i => obsName (i + 1)) riseObs 0
  · rw [curvesPst_obs, List.map_append, List.map_map, List.map_map]
    congr 1
    · exact (zipIdx_map_fst id riseObs 0).trans (List.map_id _)
    · exact (zipIdx_map_fst id recObs 0).trans (List.map_id _)

/-- Running the rise instruction file on the simulator's vector output extracts, for the k-th
    observation name, the fixed columns of the k-th value line. -/
theorem ins_reads_line_k (isMark : String → String → Bool) (values : List String)
    (hm : isMark RISE_MARK RISE_MARK = true) :
    runIns isMark (riseIns values.length) (vectorLines RISE_MARK values) =
      values.zipIdx.map (fun p => (obsName (p.2 + 1), extractColumns 3 24 ("- " ++ p.1))) := by
  obtain ⟨last, -, h⟩ := runIns_reads isMark (fun i => obsName (i + 1)) [] [] values 0 RISE_MARK
  simp only [List.append_nil, runIns_nil] at h
  simp only [riseIns, vectorLines, runIns, List.dropWhile_cons, hm, Bool.not_true,
    List.range_eq_range']
  exact h

/-- … and for the curves file on the two vectors one after the other -/
theorem ins_reads_both (isMark : String → String → Bool) (rise rec : List String)
    (hm1 : isMark RISE_MARK RISE_MARK = true) (hm2 : isMark REC_MARK REC_MARK = true)
    (hn : ∀ v ∈ rise, isMark REC_MARK ("- " ++ v) = false) (hn' : isMark REC_MARK RISE_MARK = false) :
    runIns isMark (curvesIns rise.length rec.length) (vectorLines RISE_MARK rise ++ vectorLines REC_MARK rec) =
      rise.zipIdx.map (fun p => (obsName (p.2 + 1), extractColumns 3 24 ("- " ++ p.1))) ++
      rec.zipIdx.map (fun p => (obsName (rise.length + p.2 + 1), extractColumns 3 24 ("- " ++ p.1))) := by
  obtain ⟨last, hl, h⟩ := runIns_reads isMark (fun i => obsName (i + 1))
    (.marker REC_MARK :: (List.range rec.length).map (fun i => .read (obsName (rise.length + i + 1)) 3 24))
    (vectorLines REC_MARK rec) rise 0 RISE_MARK
  obtain ⟨last', -, h'⟩ := runIns_reads isMark (fun i => obsName (rise.length + i + 1)) [] [] rec 0 REC_MARK
  have hlast : isMark REC_MARK last = false := by
    rcases hl with hl | ⟨v, hv, hl⟩
    · rw [hl]; exact hn'
    · rw [hl]; exact hn v hv
  simp only [List.append_nil, runIns_nil] at h'
  simp only [curvesIns, vectorLines, runIns, List.cons_append, List.dropWhile_cons, hm1,
    Bool.not_true, Bool.false_eq_true, if_false, List.range_eq_range']
  simp only [vectorLines, List.range_eq_range'] at h
  rw [h]
  simp only [runIns, List.dropWhile_cons, hlast, hm2, Bool.not_true, Bool.not_false,
    Bool.false_eq_true, if_false, if_true]
  rw [h']

/-- The fixed columns 3:24 return a printed value unchanged exactly when it has at most 22
    characters. -/
theorem extract_lossless_iff (s : String) :
    extractColumns 3 24 ("- " ++ s) = s ↔ s.length ≤ 22 := by
  have h1 : ("- " ++ s).toList = '-' :: ' ' :: s.toList := by
    rw [String.toList_append]; rfl
  have h2 : extractColumns 3 24 ("- " ++ s) = String.ofList (s.toList.take 22) := by
    simp only [extractColumns, h1]; rfl
  rw [h2, ← String.length_toList]
  constructor
  · intro h
    have h3 : s.toList.take 22 = s.toList := by
      have := congrArg String.toList h
      rwa [String.toList_ofList] at this
    have h4 := congrArg List.length h3
    rw [List.length_take] at h4
    omega
  · intro h
    rw [List.take_of_length_le h, String.ofList_toList]

/-- Filling the placeholders leaves every literal piece of the template untouched and puts each
    value where its name was. -/
theorem fill_template (vals : String → String) (l : TLine) :
    TLine.fill vals l = String.join (l.map (fun s => match s with | .text t => t | .ph n _ => vals n)) ∧
    (l.names = [] → TLine.fill vals l = TLine.render l) := by
  refine ⟨rfl, fill_eq_render_of_names_nil vals l⟩

/-! ### non-vacuity: the objects the theorems talk about, on small concrete inputs -/

example : "    - @sy_knot_1               @" ∈
    renderTpl (riseTpl (.spline ["-100", "0"] 2) (.spline ["-100", "0"] ["1.0", "2.0"] "0.5")) := by decide
example : "    - @K_knot_2                @" ∈
    renderTpl (curvesTpl (.spline ["-100", "0"] 2) (.spline ["-100", "0"] ["1.0", "2.0"] "0.5")) := by decide
example : (riseTpl (.spline ["-100", "0"] 2) (.peatclsm "1" "2" "3")).flatMap TLine.names =
    ["sy_knot_1", "sy_knot_2"] := by decide
/-- a parameter file with sections of different types: four PEATCLSM specific-yield parameters, two
    conductivity knots and the minimum transmissivity -/
example : (curvesPst .peatclsm (.spline ["-100", "0"] ["1.0", "2.0"] "0.5") ["1.5"] ["0.25"]).params.map (·.name) =
    ["sd", "theta_s", "b", "psi_s", "k_knot_1", "k_knot_2", "T_min"] := by decide
example : headerLine (curvesPst (.spline ["-100", "0"] 2) (.peatclsm "7.3" "3" "5") ["1.5"] ["0.25"]) =
    "    4     2     3     0     2" := by decide
example : renderIns (riseIns 2) =
    ["pif @", "@# Rise curve simulation vector@", "l1 [e1]3:24", "l1 [e2]3:24"] := by decide
example : headerLine (risePst (.spline ["-100", "0"] 2) ["1.5", "2.5"]) = "    2     2     1     0     1" := by
  decide
example : extractColumns 3 24 "- 12.5" = "12.5" := by decide
/-- a 23-character value (negative, 17 significant digits, exponent) loses its last character -/
example : extractColumns 3 24 ("- " ++ "-1.2345678901234568e-05") = "-1.2345678901234568e-0" := by decide
example : extractColumns 3 24 ("- " ++ "-1.2345678901234568e-05") ≠ "-1.2345678901234568e-05" := by decide
example : ¬ "-1.2345678901234568e-05".length ≤ 22 := by decide
/-- `String.splitOn` (inside `containsSub`) does not reduce under `decide`; the marker hypotheses
    are established in `Lemmas/Pest.lean` through a fuelled copy, then the theorems are applied -/
example : runIns containsSub (riseIns 2) (vectorLines RISE_MARK ["1.5", "2.5"]) =
    [("e1", "1.5"), ("e2", "2.5")] := by
  rw [show riseIns 2 = riseIns ["1.5", "2.5"].length from rfl,
    ins_reads_line_k containsSub _ containsSub_RISE_RISE]
  decide
example : runIns (fun t l => t == l) (riseIns 2) (vectorLines RISE_MARK ["1.5", "2.5"]) =
    [("e1", "1.5"), ("e2", "2.5")] := by decide
/-- the hypotheses of `ins_reads_both` hold for PEST's substring search -/
example : runIns containsSub (curvesIns 2 1)
      (vectorLines RISE_MARK ["1.5", "2.5"] ++ vectorLines REC_MARK ["-0.25"]) =
    [("e1", "1.5"), ("e2", "2.5"), ("e3", "-0.25")] := by
  rw [show curvesIns 2 1 = curvesIns ["1.5", "2.5"].length ["-0.25"].length from rfl,
    ins_reads_both containsSub _ _ containsSub_RISE_RISE containsSub_REC_REC ?_ containsSub_REC_RISE]
  · decide
  · intro v hv
    simp only [List.mem_cons, List.not_mem_nil, or_false] at hv
    rcases hv with rfl | rfl
    · exact containsSub_eq_of_fuel 100 _ _ ["- 1.5"] (by decide) (by decide)
    · exact containsSub_eq_of_fuel 100 _ _ ["- 2.5"] (by decide) (by decide)

end Spowtd.Pest
