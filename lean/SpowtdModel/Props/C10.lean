import SpowtdModel.Model.Load
import SpowtdModel.Lemmas.LoadA
/-
  C10 (grid, copies, row order, well-formedness) — carrier-free.
-/
namespace Spowtd
variable {α : Type} [Num α]

omit [Num α] in
/-- The core of the grid is exactly the rainfall timestamps lying within the span of the
    water-level record. -/
theorem gridCore_mem (rain level : List (Int × α)) (e : Int) :
    e ∈ gridCore rain level ↔
      (∃ v, (e, v) ∈ rain) ∧ (∃ z ∈ level, z.1 ≤ e) ∧ (∃ z ∈ level, e ≤ z.1) := by
  exact gridCore_mem_iff rain level e

/-- The grid is that core plus one closing instant one step after its last element. -/
theorem grid_members (f : Files α) (d : Loaded α) (h : load f false = .ok d) :
    d.grid.map (·.1) = gridCore f.rain f.level ++ [(gridCore f.rain f.level).getLastD 0 + d.step] ∧
    2 ≤ (gridCore f.rain f.level).length := by
  obtain ⟨_, _, h3, _, h5⟩ := load_ok_inv h
  exact ⟨load_ok_grid_fst h, stepOf_length h3⟩

/-- The grid is uniformly spaced with a positive step. -/
theorem grid_uniform (f : Files α) (d : Loaded α) (h : load f false = .ok d) :
    0 < d.step ∧ steppedB d.step (d.grid.map (·.1)) = true ∧ increasingB (d.grid.map (·.1)) = true := by
  obtain ⟨_, h2, h3, _, h5⟩ := load_ok_inv h
  have := grid_facts f d.step ((dupCheck_eq_false_iff f).mp h2).1 h3
  rw [load_ok_grid_fst h]
  exact this

/-- Rainfall (and likewise evapotranspiration) on a grid step `[a, a + step)` is the source value
    read for `a`; there is one row per non-closing grid instant and nothing else. -/
theorem rain_et_copied (f : Files α) (d : Loaded α) (h : load f false = .ok d) (a b : Int) (v : α) :
    ((a, b, v) ∈ d.rain ↔ a ∈ gridCore f.rain f.level ∧ b = a + d.step ∧ (a, v) ∈ f.rain) ∧
    ((a, b, v) ∈ d.et ↔ a ∈ gridCore f.rain f.level ∧ b = a + d.step ∧ (a, v) ∈ f.et) := by
  obtain ⟨_, h2, _, _, h5⟩ := load_ok_inv h
  obtain ⟨hnr, hne, _⟩ := (dupCheck_eq_false_iff f).mp h2
  have hr : d.rain = copyRows (gridCore f.rain f.level) d.step f.rain := by rw [h5]; rfl
  have he : d.et = copyRows (gridCore f.rain f.level) d.step f.et := by rw [h5]; rfl
  rw [hr, he]
  exact ⟨mem_copyRows hnr, mem_copyRows hne⟩

/-- Every grid instant, the closing one included, has an evapotranspiration source row. -/
theorem et_complete (f : Files α) (d : Loaded α) (h : load f false = .ok d) (g : Int)
    (hg : g ∈ d.grid.map (·.1)) : ∃ v, (g, v) ∈ f.et := by
  obtain ⟨_, _, _, h4, h5⟩ := load_ok_inv h
  rw [load_ok_grid_fst h] at hg
  exact (etCheck_iff f d.step).mp h4 g hg

/-- The result does not depend on the order of the rows in the three files. -/
theorem row_order_irrelevant (f f' : Files α) (pop : Bool)
    (hr : f.rain.Perm f'.rain) (he : f.et.Perm f'.et) (hz : f.level.Perm f'.level) :
    load f pop = load f' pop := by
  exact load_perm f f' pop hr he hz

/-- What classification relies on (hypothesis of `classify_total`) is established by `load`
    whenever at least one water level fell on the grid. -/
theorem load_establishes_wf (f : Files α) (d : Loaded α) (h : load f false = .ok d)
    (hne : d.level ≠ []) : wellFormedLoadedB d = true :=
  load_wf h hne

/-! ### non-vacuity: a record with a gap in the water levels, rows out of order, is accepted -/

private def exRows (l : List Int) : List (Int × Rat) := l.map (fun e => (e, 1))

/-- rainfall every 600 s (rows shuffled), levels at 0, 600, 2400, 3000: a gap from 600 to 2400 -/
private def exFiles : Files Rat :=
  { rain := exRows [1800, 0, 600, 1200, 2400, 3000]
    et := exRows [0, 600, 1200, 1800, 2400, 3000, 3600]
    level := exRows [3000, 0, 600, 2400] }

private theorem exFiles_check :
    okAnd (load exFiles false) (fun d => d.step == 600 &&
         d.grid == [(0, some 1), (600, some 1), (1200, none), (1800, none), (2400, some 2),
           (3000, some 2), (3600, some 2)] &&
         d.rain.map (·.1) == [0, 600, 1200, 1800, 2400, 3000] &&
         d.level.map (·.1) == [0, 600, 2400, 3000] && !d.level.isEmpty &&
         labelsOf d == [1, 2] && wellFormedLoadedB d) = true := by decide

/-- the hypotheses of `grid_members`, `grid_uniform`, `rain_et_copied`, `et_complete` and
    `load_establishes_wf` are satisfiable -/
example : ∃ d, load exFiles false = .ok d ∧ d.level ≠ [] := by
  obtain ⟨d, hd, hP⟩ := exists_ok_of_okAnd exFiles_check
  refine ⟨d, hd, ?_⟩
  simp only [Bool.and_eq_true, Bool.not_eq_true', List.isEmpty_eq_false_iff] at hP
  exact hP.1.1.2

example : gridCore exFiles.rain exFiles.level = [0, 600, 1200, 1800, 2400, 3000] := by decide

/-- `row_order_irrelevant` applies to a genuinely different row order -/
example : exFiles.rain.Perm (exRows [0, 600, 1200, 1800, 2400, 3000]) ∧
    exFiles.rain ≠ exRows [0, 600, 1200, 1800, 2400, 3000] := by decide

end Spowtd
