import SpowtdModel.Model.Load
import SpowtdModel.Lemmas.LoadA
/-
  C10 (grid, copies, row order, well-formedness) — carrier-free.
-/
namespace Spowtd
variable {α : Type} [Num α]

/-- The core of the grid is exactly the rainfall timestamps lying within the span of the
    water-level record. -/
theorem gridCore_mem (rain level : List (Int × α)) (e : Int) :
    e ∈ gridCore rain level ↔
      (∃ v, (e, v) ∈ rain) ∧ (∃ z ∈ level, z.1 ≤ e) ∧ (∃ z ∈ level, e ≤ z.1) := by
  sorry

/-- The grid is that core plus one closing instant one step after its last element. -/
theorem grid_members (f : Files α) (d : Loaded α) (h : load f false = .ok d) :
    d.grid.map (·.1) = gridCore f.rain f.level ++ [(gridCore f.rain f.level).getLastD 0 + d.step] ∧
    2 ≤ (gridCore f.rain f.level).length := by
  sorry

/-- The grid is uniformly spaced with a positive step. -/
theorem grid_uniform (f : Files α) (d : Loaded α) (h : load f false = .ok d) :
    0 < d.step ∧ steppedB d.step (d.grid.map (·.1)) = true ∧ increasingB (d.grid.map (·.1)) = true := by
  sorry

/-- Rainfall (and likewise evapotranspiration) on a grid step `[a, a + step)` is the source value
    read for `a`; there is one row per non-closing grid instant and nothing else. -/
theorem rain_et_copied (f : Files α) (d : Loaded α) (h : load f false = .ok d) (a b : Int) (v : α) :
    ((a, b, v) ∈ d.rain ↔ a ∈ gridCore f.rain f.level ∧ b = a + d.step ∧ (a, v) ∈ f.rain) ∧
    ((a, b, v) ∈ d.et ↔ a ∈ gridCore f.rain f.level ∧ b = a + d.step ∧ (a, v) ∈ f.et) := by
  sorry

/-- Every grid instant, the closing one included, has an evapotranspiration source row. -/
theorem et_complete (f : Files α) (d : Loaded α) (h : load f false = .ok d) (g : Int)
    (hg : g ∈ d.grid.map (·.1)) : ∃ v, (g, v) ∈ f.et := by
  sorry

/-- The result does not depend on the order of the rows in the three files. -/
theorem row_order_irrelevant (f f' : Files α) (pop : Bool)
    (hr : f.rain.Perm f'.rain) (he : f.et.Perm f'.et) (hz : f.level.Perm f'.level) :
    load f pop = load f' pop := by
  sorry

/-- What classification relies on (hypothesis of `classify_total`) is established by `load`
    whenever at least one water level fell on the grid. -/
theorem load_establishes_wf (f : Files α) (d : Loaded α) (h : load f false = .ok d)
    (hne : d.level ≠ []) : wellFormedLoadedB d = true := by
  sorry

end Spowtd
