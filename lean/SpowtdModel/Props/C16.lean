import SpowtdModel.Lemmas.RealNum
import SpowtdModel.Lemmas.TransReal
import SpowtdModel.Lemmas.TransRealPeat
/-
  C16 — PEATCLSM functions follow the published formulation.  Over `ℝ`.
-/
namespace Spowtd

/-- the interpolant passes through every knot -/
theorem pwl_at_knots (knots : List (ℝ × ℝ)) (hs : (knots.map (·.1)).Pairwise (· < ·)) (k : ℝ × ℝ)
    (hk : k ∈ knots) : pwl knots k.1 = k.2 := by
  exact TR.pwl_at_knots knots hs k hk

/-- linear between consecutive knots -/
theorem pwl_linear_between (knots : List (ℝ × ℝ)) (hs : (knots.map (·.1)).Pairwise (· < ·)) (i : Nat)
    (a b : ℝ × ℝ) (ha : knots[i]? = some a) (hb : knots[i + 1]? = some b) (x : ℝ) (hx : a.1 ≤ x ∧ x ≤ b.1) :
    pwl knots x = a.2 + (b.2 - a.2) / (b.1 - a.1) * (x - a.1) := by
  exact TR.pwl_linear_between knots hs i a b ha hb x hx

/-- constant beyond the first and last knot -/
theorem pwl_const_outside (knots : List (ℝ × ℝ)) (hs : (knots.map (·.1)).Pairwise (· < ·)) (a b : ℝ × ℝ)
    (ha : knots.head? = some a) (hb : knots.getLast? = some b) (x : ℝ) :
    (x ≤ a.1 → pwl knots x = a.2) ∧ (b.1 ≤ x → pwl knots x = b.2) := by
  constructor
  · intro hx
    cases knots with
    | nil => simp at ha
    | cons a0 rest =>
      simp only [List.head?_cons, Option.some.injEq] at ha
      subst ha
      exact TR.pwl_le_first _ rest x hx
  · intro hx
    exact TR.pwl_ge_last knots hs b hb x hx

/-- the 201 tabulated levels are the cell mid-points −995, −985, …, 1005 mm -/
theorem knots_are_midpoints (cdf : List ℝ) (thetaS psiS b : ℝ) (ncell i : Nat) (hc : cdf.length = 201)
    (hi : i < 201) :
    ((peatclsmKnots cdf thetaS psiS b ncell).map (·.1))[i]? = some (-995 + 10 * (i : ℝ)) := by
  exact TR.peatclsmKnots_fst cdf thetaS psiS b ncell i hc hi

/-- transmissivity is refused exactly above `zeta_max` (level in mm, `zeta_max` in cm) -/
theorem tPeatclsm_refuses_iff (K0 alpha zmax z : ℝ) :
    tPeatclsm K0 alpha zmax z = .error .aboveMax ↔ zmax < z / 10 := by
  rw [TR.tPeatclsm_eq]
  by_cases h : zmax < z / 10
  · simp [h]
  · simp [h]

/-- and otherwise equals `Ksmacz0 (zeta_max − zeta)^(1 − alpha) / (100 (alpha − 1))`, zeta in cm -/
theorem tPeatclsm_value (K0 alpha zmax z : ℝ) (h : z / 10 ≤ zmax) :
    tPeatclsm K0 alpha zmax z = .ok (K0 * (zmax - z / 10) ^ (1 - alpha) / (100 * (alpha - 1))) := by
  rw [TR.tPeatclsm_eq, if_neg (not_lt.2 h)]

/-- summing 201 cells (the Python code) instead of 200 (the R reference) adds exactly the last
    cell's term to every tabulated value -/
theorem py_vs_R_difference (zl zu Fs : List ℝ) (thetaS psiS b : ℝ)
    (h1 : zl.length = 201) (h2 : zu.length = 201) (h3 : Fs.length = 201) (i : Nat) (hi : i < 201) :
    (sySoil zl zu Fs thetaS psiS b 201).getD i 0 - (sySoil zl zu Fs thetaS psiS b 200).getD i 0 =
      1 / (1 * (zu.getD i 0 - zl.getD i 0)) *
        ((zu.getD 200 0 - zl.getD 200 0) *
          (campbell (Fs.getD 200 0) (1 / 2 * (zl.getD 200 0 + zu.getD 200 0)) (zu.getD i 0) thetaS psiS b -
           campbell (Fs.getD 200 0) (1 / 2 * (zl.getD 200 0 + zu.getD 200 0)) (zl.getD i 0) thetaS psiS b)) := by
  exact TR.sySoil_getD_succ zl zu Fs thetaS psiS b 201 200 i h1 h2 h3 hi (by norm_num)

/-- the soil moisture of a cell never exceeds `(1 − Fs) θs` when `θs ≥ 0`, `ψs < 0`, `b > 0`:
    the extra term of the 201st cell is bounded by the fraction of surface above it -/
theorem campbell_bounds (Fs z zlu thetaS psiS b : ℝ) (hF : 0 ≤ Fs ∧ Fs ≤ 1) (ht : 0 ≤ thetaS)
    (hp : psiS < 0) (hb : 0 < b) :
    0 ≤ campbell Fs z zlu thetaS psiS b ∧ campbell Fs z zlu thetaS psiS b ≤ (1 - Fs) * thetaS := by
  exact TR.campbell_bounds Fs z zlu thetaS psiS b hF ht hp hb

/-! ### non-vacuity -/

example : pwl [((0 : ℝ), (1 : ℝ)), (1, 3), (3, 2)] 2 = 5 / 2 := by
  rw [pwl_linear_between [((0 : ℝ), (1 : ℝ)), (1, 3), (3, 2)] (by simp) 1 (1, 3) (3, 2) rfl rfl 2
    (by norm_num)]
  norm_num

example : pwl [((0 : ℝ), (1 : ℝ)), (1, 3), (3, 2)] 1 = 3 :=
  pwl_at_knots [((0 : ℝ), (1 : ℝ)), (1, 3), (3, 2)] (by simp) (1, 3) (by simp)

end Spowtd
