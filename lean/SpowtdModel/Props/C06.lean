import SpowtdModel.Lemmas.LeastSquares
import SpowtdModel.Props.C05
/-
  C06 — a planted master curve is recovered: if every crossing value is `T level + c series`
  then the aligned values coincide across series and the master curve is `T` up to one constant.
-/
namespace Spowtd

theorem planted_recovered (m : Mapping Rat) (hm : ProperMapping m) (hc : Connected m)
    (T : Int → Rat) (c : Nat → Rat)
    (hp : ∀ hl ∈ m, ∀ st ∈ hl.2, st.2 = T hl.1 + c st.1)
    (x : Nat → Rat) (hx : Stationary m x) :
    ∃ κ, (∀ hl ∈ m, ∀ st ∈ hl.2, x st.1 + st.2 = T hl.1 + κ) ∧
         (∀ hl ∈ m, levelMean x hl.2 = T hl.1 + κ) := by
  sorry

/-- the planted shifts themselves (negated) are a stationary point with zero spread -/
theorem planted_is_stationary (m : Mapping Rat) (hm : ProperMapping m) (T : Int → Rat) (c : Nat → Rat)
    (hp : ∀ hl ∈ m, ∀ st ∈ hl.2, st.2 = T hl.1 + c st.1) :
    Stationary m (fun s => - c s) ∧ objective m (fun s => - c s) = 0 := by
  sorry

/-- A rise drawn along a storage curve of constant specific yield `sy`: the segment from zero depth
    at `z0` to depth `sy·(z1 − z0)` at `z1` crosses level `k·step` at depth `sy·(k·step − z0)`. -/
theorem rise_crossing_depth (step sy z0 z1 : Rat) (hs : 0 < step) (hz : z0 < z1) (k : Int) (x : Rat)
    (h : (k, x) ∈ crossings step [((0 : Rat), z0), (sy * (z1 - z0), z1)]) :
    x = sy * ((k : Rat) * step - z0) := by
  sorry

end Spowtd
