import SpowtdModel.Lemmas.LeastSquares
import SpowtdModel.Props.C05
/-
  C06 — a planted master curve is recovered: if every crossing value is `T level + c series`
  then the aligned values coincide across series and the master curve is `T` up to one constant.
-/
namespace Spowtd

theorem planted_recovered (m : Mapping Rat) (hm : ProperMapping m) (hc : Connected m)
    (T : Int → Rat) (c : Nat → Rat)
    (hp : ∀ hl ∈ m, ∀ st ∈ hl.2, st.2 = T hl.1 + c st.1)
    (x : Nat → Rat) (hx : Stationary m x) :
    ∃ κ, (∀ hl ∈ m, ∀ st ∈ hl.2, x st.1 + st.2 = T hl.1 + κ) ∧
         (∀ hl ∈ m, levelMean x hl.2 = T hl.1 + κ) :=
  LS.planted_rec m hm hc T c hp x hx

/-- the planted shifts themselves (negated) are a stationary point with zero spread -/
theorem planted_is_stationary (m : Mapping Rat) (hm : ProperMapping m) (T : Int → Rat) (c : Nat → Rat)
    (hp : ∀ hl ∈ m, ∀ st ∈ hl.2, st.2 = T hl.1 + c st.1) :
    Stationary m (fun s => - c s) ∧ objective m (fun s => - c s) = 0 :=
  LS.planted_stationary m hm T c hp

/-- A rise drawn along a storage curve of constant specific yield `sy`: the segment from zero depth
    at `z0` to depth `sy·(z1 − z0)` at `z1` crosses level `k·step` at depth `sy·(k·step − z0)`. -/
theorem rise_crossing_depth (step sy z0 z1 : Rat) (hs : 0 < step) (hz : z0 < z1) (k : Int) (x : Rat)
    (h : (k, x) ∈ crossings step [((0 : Rat), z0), (sy * (z1 - z0), z1)]) :
    x = sy * ((k : Rat) * step - z0) :=
  LS.rise_depth step sy z0 z1 hs hz k x h

/-! Non-vacuity: the chained example of C05 is planted (`T = 0, 1, 4`, shifts `0, 2, 1`), and the
    rise segment does produce a crossing. -/

example : ∀ hl ∈ exChain, ∀ st ∈ hl.2,
    st.2 = (fun k : Int => if k = 0 then (0 : Rat) else if k = 1 then 1 else 4) hl.1
      + (fun s : Nat => if s = 0 then (0 : Rat) else if s = 1 then 2 else 1) st.1 := by
  decide +kernel

example : crossings (1 : Rat) [((0 : Rat), 1 / 2), (3 * (5 / 2 - 1 / 2), 5 / 2)]
    = [(1, 3 / 2), (2, 9 / 2)] := by decide +kernel

end Spowtd
