import SpowtdModel.Lemmas.RealNum
import SpowtdModel.Lemmas.SplineReal
import SpowtdModel.Model.Simulate
/-
  C17 / C18 (discrete part) — the cumulative curve on a grid: differences are the integrals
  between the levels, the mean is the requested mean, refinement and reversal of the grid do not
  change values at shared levels.  Over `ℝ`, for any additive `I`.
-/
namespace Spowtd

/-- `I a b + I b c = I a c` -/
def Additive (I : ℝ → ℝ → ℝ) : Prop := ∀ a b c, I a b + I b c = I a c

/-- The difference of the curve between any two grid levels is `I` between them. -/
theorem curve_difference (I : ℝ → ℝ → ℝ) (hI : Additive I) (grid : List ℝ) (mean : ℝ) (i j : Nat)
    (hi : i < grid.length) (hj : j < grid.length) :
    (riseCurve I grid mean).getD j 0 - (riseCurve I grid mean).getD i 0 = I (grid.getD i 0) (grid.getD j 0) := by
  exact riseCurve_difference I hI grid mean i j hi hj

theorem curve_length (I : ℝ → ℝ → ℝ) (grid : List ℝ) (mean : ℝ) :
    (riseCurve I grid mean).length = grid.length := by
  exact riseCurve_length I grid mean

/-- Its mean is the requested mean. -/
theorem curve_mean (I : ℝ → ℝ → ℝ) (grid : List ℝ) (mean : ℝ) (hne : grid ≠ []) :
    (riseCurve I grid mean).sum / (riseCurve I grid mean).length = mean := by
  exact riseCurve_mean I grid mean hne

/-- With `I ≥ 0` on ascending limits and an ascending grid the curve never decreases;
    with `I < 0` it strictly decreases (elapsed time increases as the level falls). -/
theorem curve_monotone (I : ℝ → ℝ → ℝ) (hI : Additive I) (grid : List ℝ) (mean : ℝ)
    (hs : grid.Pairwise (· < ·)) :
    ((∀ a b, a ≤ b → 0 ≤ I a b) → (riseCurve I grid mean).Pairwise (· ≤ ·)) ∧
    ((∀ a b, a < b → I a b < 0) → (riseCurve I grid mean).Pairwise (· > ·)) := by
  exact riseCurve_monotone I hI grid mean hs

/-- Refinement: on any two grids containing the levels `a` and `b`, the difference of the curve
    between `a` and `b` is the same (`I a b`), whatever other levels the grids contain and whatever
    the two means. -/
theorem curve_refinement (I : ℝ → ℝ → ℝ) (hI : Additive I) (g g' : List ℝ) (m m' : ℝ)
    (i j i' j' : Nat) (hi : i < g.length) (hj : j < g.length) (hi' : i' < g'.length) (hj' : j' < g'.length)
    (ha : g.getD i 0 = g'.getD i' 0) (hb : g.getD j 0 = g'.getD j' 0) :
    (riseCurve I g m).getD j 0 - (riseCurve I g m).getD i 0 =
      (riseCurve I g' m').getD j' 0 - (riseCurve I g' m').getD i' 0 := by
  rw [riseCurve_difference I hI g m i j hi hj, riseCurve_difference I hI g' m' i' j' hi' hj', ha, hb]

/-- Reversal: the curve on the reversed grid is the reversed curve (same mean). -/
theorem curve_reversal (I : ℝ → ℝ → ℝ) (hI : Additive I) (grid : List ℝ) (mean : ℝ) :
    riseCurve I grid.reverse mean = (riseCurve I grid mean).reverse := by
  exact riseCurve_reverse I hI grid mean

/-- Additivity of the spline integral (C14) makes all of the above apply to the rise curve. -/
theorem integrate_additive' (inner : ℝ → ℝ) (splint : ℝ → ℝ → ℝ) (xmin xmax : ℝ) (hx : xmin ≤ xmax)
    (hc : Continuous inner)
    (hs : ∀ lo hi, xmin ≤ lo → lo ≤ hi → hi ≤ xmax → splint lo hi = ∫ x in lo..hi, inner x)
    (hz : ∀ lo, xmax ≤ lo → splint lo xmax = 0) : Additive (integrateExt inner splint xmin xmax) := by
  exact fun a b c => integrateExt_additive inner splint xmin xmax hx hc hs hz a b c

/-- layout: one row per level of the measured curve, ascending for the rise table, the same rows
    from highest to lowest for the recession table; the observation vectors are the third column -/
theorem tables_layout (levels measured simulated : List ℝ)
    (h1 : measured.length = levels.length) (h2 : simulated.length = levels.length) :
    (riseTable levels measured simulated).map (·.1) = levels ∧
    (riseTable levels measured simulated).map (·.2.2) = simulated ∧
    (recessionTable levels measured simulated).map (·.1) = levels.reverse ∧
    (recessionTable levels measured simulated).map (·.2.2) = recessionVector simulated := by
  exact tables_layout_real levels measured simulated h1 h2

/-- Non-vacuity: additive functions exist, with either sign on ascending limits. -/
example : Additive (fun a b => b - a) ∧ (∀ a b : ℝ, a ≤ b → 0 ≤ (fun a b => b - a) a b) := by
  refine ⟨fun a b c => ?_, fun a b h => ?_⟩
  · show b - a + (c - b) = c - a
    ring
  · show 0 ≤ b - a
    linarith

example : Additive (fun a b => a - b) ∧ (∀ a b : ℝ, a < b → (fun a b => a - b) a b < 0) := by
  refine ⟨fun a b c => ?_, fun a b h => ?_⟩
  · show a - b + (b - c) = a - c
    ring
  · show a - b < 0
    linarith

example : ([0, 1, 3] : List ℝ).Pairwise (· < ·) ∧ ([0, 1, 3] : List ℝ) ≠ [] := by
  refine ⟨?_, by simp⟩
  simp only [List.pairwise_cons, List.mem_cons, List.not_mem_nil, or_false, forall_eq_or_imp,
    forall_eq, List.Pairwise.nil, and_true, IsEmpty.forall_iff, implies_true]
  norm_num

end Spowtd
