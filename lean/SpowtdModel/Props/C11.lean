import SpowtdModel.Model.Load
import SpowtdModel.Model.Zone
import SpowtdModel.Lemmas.LoadA
/-
  C11 — refusals of `load`, and the zone arithmetic of timestamp conversion.
-/
namespace Spowtd
variable {α : Type} [Num α]

theorem load_refuses_populated (f : Files α) : load f true = .error .populated := by
  sorry

/-- Rainfall timestamps inside the water-level span that are not evenly spaced (or fewer than two
    of them) are refused, never regridded. -/
theorem load_refuses_nonuniform (f : Files α)
    (hd : hasDup (f.rain.map (·.1)) = false ∧ hasDup (f.et.map (·.1)) = false ∧ hasDup (f.level.map (·.1)) = false)
    (hn : stepOf (gridCore f.rain f.level) = none) : load f false = .error .nonuniform := by
  sorry

theorem stepOf_none_iff (core : List Int) :
    stepOf core = none ↔ core.length < 2 ∨ ∃ d d', d ∈ diffs core ∧ d' ∈ diffs core ∧ d ≠ d' := by
  sorry

/-- A grid instant (the closing one included) without an evapotranspiration row is refused. -/
theorem load_refuses_missing_et (f : Files α) (dt : Int)
    (hd : hasDup (f.rain.map (·.1)) = false ∧ hasDup (f.et.map (·.1)) = false ∧ hasDup (f.level.map (·.1)) = false)
    (hs : stepOf (gridCore f.rain f.level) = some dt) (g : Int)
    (hg : g ∈ gridCore f.rain f.level ++ [(gridCore f.rain f.level).getLastD 0 + dt])
    (hm : ∀ v, (g, v) ∉ f.et) : load f false = .error .noET := by
  sorry

/-- Conversely an accepted load had none of the refusal conditions: nothing is silently merged. -/
theorem load_ok_conditions (f : Files α) (pop : Bool) (d : Loaded α) (h : load f pop = .ok d) :
    pop = false ∧ hasDup (f.rain.map (·.1)) = false ∧ hasDup (f.et.map (·.1)) = false ∧
    hasDup (f.level.map (·.1)) = false ∧ stepOf (gridCore f.rain f.level) = some d.step ∧
    ∀ g ∈ d.grid.map (·.1), ∃ v, (g, v) ∈ f.et := by
  sorry

/-- Every instant returned for a wall-clock reading renders back to that reading … -/
theorem localize_sound (z : Zone) (l u : Int) (h : u ∈ localize z l) : toLocal z u = l := by
  sorry

/-- … and every instant that renders to it is returned. -/
theorem localize_complete (z : Zone) (l u : Int) (h : toLocal z u = l) : u ∈ localize z l := by
  sorry

/-- In a fixed-offset zone the instant is unique. -/
theorem fixed_offset_unique (o l : Int) : localize { initial := o, transitions := [] } l = [l - o] := by
  sorry

/-- Declaring the same wall-clock data in another fixed-offset zone shifts every instant by the
    difference of the offsets. -/
theorem zone_change_is_shift (o o' l : Int) :
    localize { initial := o', transitions := [] } l =
      (localize { initial := o, transitions := [] } l).map (· + (o - o')) := by
  sorry

end Spowtd
