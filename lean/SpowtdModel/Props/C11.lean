import SpowtdModel.Model.Load
import SpowtdModel.Model.Zone
import SpowtdModel.Lemmas.LoadA
/-
  C11 — refusals of `load`, and the zone arithmetic of timestamp conversion.
-/
namespace Spowtd
variable {α : Type} [Num α]

theorem load_refuses_populated (f : Files α) : load f true = .error .populated := rfl

/-- Rainfall timestamps inside the water-level span that are not evenly spaced (or fewer than two
    of them) are refused, never regridded. -/
theorem load_refuses_nonuniform (f : Files α)
    (hd : hasDup (f.rain.map (·.1)) = false ∧ hasDup (f.et.map (·.1)) = false ∧ hasDup (f.level.map (·.1)) = false)
    (hn : stepOf (gridCore f.rain f.level) = none) : load f false = .error .nonuniform := by
  have hd' : dupCheck f = false := by simp [dupCheck, hd.1, hd.2.1, hd.2.2]
  rw [load_unfold, hd', hn]
  rfl

theorem stepOf_none_iff (core : List Int) :
    stepOf core = none ↔ core.length < 2 ∨ ∃ d d', d ∈ diffs core ∧ d' ∈ diffs core ∧ d ≠ d' := by
  unfold stepOf
  cases hdf : diffs core with
  | nil => simp [(diffs_eq_nil_iff core).mp hdf]
  | cons d ds =>
    have hlen : ¬ core.length < 2 := fun h => by
      rw [(diffs_eq_nil_iff core).mpr h] at hdf; cases hdf
    simp only [hlen, false_or]
    by_cases hall : ds.all (fun x => x == d) = true
    · simp only [hall, ↓reduceIte, reduceCtorEq, false_iff]
      rintro ⟨a, b, ha, hb, hab⟩
      simp only [List.all_eq_true, beq_iff_eq] at hall
      have h1 : a = d := by
        rcases List.mem_cons.mp ha with h | h
        · exact h
        · exact hall a h
      have h2 : b = d := by
        rcases List.mem_cons.mp hb with h | h
        · exact h
        · exact hall b h
      exact hab (h1.trans h2.symm)
    · simp only [hall, Bool.false_eq_true, ↓reduceIte, true_iff]
      obtain ⟨x, hx, hxd⟩ := List.all_eq_false.mp (Bool.not_eq_true _ ▸ hall)
      simp only [beq_iff_eq] at hxd
      exact ⟨x, d, List.mem_cons_of_mem _ hx, List.mem_cons_self, hxd⟩

/-- A grid instant (the closing one included) without an evapotranspiration row is refused. -/
theorem load_refuses_missing_et (f : Files α) (dt : Int)
    (hd : hasDup (f.rain.map (·.1)) = false ∧ hasDup (f.et.map (·.1)) = false ∧ hasDup (f.level.map (·.1)) = false)
    (hs : stepOf (gridCore f.rain f.level) = some dt) (g : Int)
    (hg : g ∈ gridCore f.rain f.level ++ [(gridCore f.rain f.level).getLastD 0 + dt])
    (hm : ∀ v, (g, v) ∉ f.et) : load f false = .error .noET := by
  have hd' : dupCheck f = false := by simp [dupCheck, hd.1, hd.2.1, hd.2.2]
  have he : etCheck f dt = false := by
    cases h : etCheck f dt with
    | false => rfl
    | true =>
      obtain ⟨v, hv⟩ := (etCheck_iff f dt).mp h g hg
      exact absurd hv (hm v)
  rw [load_unfold, hd', hs]
  simp only [he]
  rfl

/-- Conversely an accepted load had none of the refusal conditions: nothing is silently merged. -/
theorem load_ok_conditions (f : Files α) (pop : Bool) (d : Loaded α) (h : load f pop = .ok d) :
    pop = false ∧ hasDup (f.rain.map (·.1)) = false ∧ hasDup (f.et.map (·.1)) = false ∧
    hasDup (f.level.map (·.1)) = false ∧ stepOf (gridCore f.rain f.level) = some d.step ∧
    ∀ g ∈ d.grid.map (·.1), ∃ v, (g, v) ∈ f.et := by
  obtain ⟨h1, h2, h3, h4, h5⟩ := load_ok_inv h
  simp only [dupCheck, Bool.or_eq_false_iff] at h2
  refine ⟨h1, h2.1.1, h2.1.2, h2.2, h3, ?_⟩
  intro g hg
  rw [load_ok_grid_fst h] at hg
  exact (etCheck_iff f d.step).mp h4 g hg

/-- Every instant returned for a wall-clock reading renders back to that reading … -/
theorem localize_sound (z : Zone) (l u : Int) (h : u ∈ localize z l) : toLocal z u = l := by
  obtain ⟨o, _, h1, rfl⟩ := (mem_localize_iff z l u).mp h
  unfold toLocal
  rw [h1]
  omega

/-- … and every instant that renders to it is returned. -/
theorem localize_complete (z : Zone) (l u : Int) (h : toLocal z u = l) : u ∈ localize z l := by
  unfold toLocal at h
  refine (mem_localize_iff z l u).mpr ⟨offsetAt z u, offsetAt_mem_offsetsOf z u, ?_, by omega⟩
  have : l - offsetAt z u = u := by omega
  rw [this]

/-- In a fixed-offset zone the instant is unique. -/
theorem fixed_offset_unique (o l : Int) : localize { initial := o, transitions := [] } l = [l - o] := by
  simp [localize, offsetsOf, offsetAt]

/-- Declaring the same wall-clock data in another fixed-offset zone shifts every instant by the
    difference of the offsets. -/
theorem zone_change_is_shift (o o' l : Int) :
    localize { initial := o', transitions := [] } l =
      (localize { initial := o, transitions := [] } l).map (· + (o - o')) := by
  rw [fixed_offset_unique, fixed_offset_unique]
  simp only [List.map_cons, List.map_nil, List.cons.injEq, and_true]
  omega

/-! ### non-vacuity: concrete inputs hitting each refusal, and an accepted one -/

private def exRows (l : List Int) : List (Int × Rat) := l.map (fun e => (e, 1))

/-- accepted: rainfall every 600 s, levels with a gap from 600 to 2400 -/
private def exOk : Files Rat :=
  { rain := exRows [0, 600, 1200, 1800, 2400, 3000]
    et := exRows [0, 600, 1200, 1800, 2400, 3000, 3600]
    level := exRows [0, 600, 2400, 3000] }
/-- a rainfall timestamp given twice -/
private def exDup : Files Rat := { exOk with rain := exRows [0, 600, 600, 1200] }
/-- rainfall at 0, 600, 1800: not evenly spaced -/
private def exUneven : Files Rat := { exOk with rain := exRows [0, 600, 1800] }
/-- a single rainfall timestamp inside the level span -/
private def exShort : Files Rat := { exOk with rain := exRows [600, 7200] }
/-- no evapotranspiration row for the closing instant 3600 -/
private def exNoET : Files Rat := { exOk with et := exRows [0, 600, 1200, 1800, 2400, 3000] }

/-- hypothesis of `load_ok_conditions` -/
example : ∃ d, load exOk false = .ok d :=
  (exists_ok_of_okAnd (P := fun d => d.step == 600 && d.grid.length == 7) (by decide)).imp
    fun _ h => h.1

example : load exOk true = .error .populated := load_refuses_populated exOk

example : load exDup false = .error .duplicate :=
  eq_error_of_refusedWith (by decide)

/-- hypotheses of `load_refuses_nonuniform`: uneven spacing … -/
example : load exUneven false = .error .nonuniform :=
  load_refuses_nonuniform exUneven (by decide) (by decide)
example : diffs (gridCore exUneven.rain exUneven.level) = [600, 1200] := by decide

/-- … or fewer than two instants -/
example : load exShort false = .error .nonuniform :=
  load_refuses_nonuniform exShort (by decide) (by decide)
example : gridCore exShort.rain exShort.level = [600] := by decide

/-- hypotheses of `load_refuses_missing_et` -/
example : load exNoET false = .error .noET :=
  load_refuses_missing_et exNoET 600 (by decide) (by decide) 3600 (by decide)
    (by intro v hv; revert hv; simp [exNoET, exOk, exRows])

/-- zone arithmetic on a zone with one transition (+7 h → +8 h at instant 1000000):
    a skipped hour has no instant, an ordinary reading exactly one -/
private def exZone : Zone := { initial := 25200, transitions := [(1000000, 28800)] }
example : localize exZone (1000000 + 25200 + 60) = [] := by decide
example : localize exZone (1000000 + 28800 + 60) = [1000060] := by decide
example : toLocal exZone 1000060 = 1000000 + 28800 + 60 := by decide
/-- a repeated hour (+8 h → +7 h) has two instants -/
example : localize { initial := 28800, transitions := [(1000000, 25200)] } (1000000 + 25200 + 60)
    = [996460, 1000060] := by decide

end Spowtd
