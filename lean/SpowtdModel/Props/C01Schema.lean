import SpowtdModel.Model.Classify
import SpowtdModel.Props.C01
import SpowtdModel.Props.C04Classify
import SpowtdModel.Lemmas.ClassifySchema
/-
  C01 (schema) — every row the classification emits satisfies the PRIMARY KEY / UNIQUE / CHECK
  constraints of schema.sql, so the INSERTs of `classify` cannot raise IntegrityError:
  part of "classification finishes without an error".
-/
namespace Spowtd
variable {α : Type} [Num α]

/-- `grid_time_flags`: one row per sample, keys pairwise distinct -/
theorem flags_keys_distinct (pick : List Nat → Nat) (s j : α) (db : Loaded α)
    (h : wellFormedLoadedB db = true) (c : Classified) (hc : classifyAll pick s j db = .ok c) :
    (c.flags.map (·.1)).Nodup :=
  flags_keys_nodup_of_ok pick s j db h c hc

/-- `zeta_interval`: CHECK (start_epoch < thru_epoch) for interstorm rows -/
theorem interstorm_rows_valid (pick : List Nat → Nat) (s j : α) (db : Loaded α)
    (h : wellFormedLoadedB db = true) (c : Classified) (hc : classifyAll pick s j db = .ok c)
    (q : Int × Int) (hq : q ∈ c.interstorms) : q.1 < q.2 :=
  interstorm_rows_lt_of_ok pick s j db h c hc q hq

/-- `zeta_interval`: PRIMARY KEY (start_epoch) over interstorm rows and rise rows together -/
theorem zeta_interval_keys_distinct (pick : List Nat → Nat) (s j : α) (db : Loaded α)
    (h : wellFormedLoadedB db = true) (hj : Num.lt (jumpDelta j db.step) (Num.ofInt 0) = false)
    (c : Classified) (hc : classifyAll pick s j db = .ok c) :
    (c.interstorms.map (·.1) ++ c.pairs.map (·.2.1)).Nodup :=
  -- `hj` (non-negative rise threshold) is not needed
  have _ := hj
  zeta_keys_nodup_of_ok pick s j db h c hc

/-- every interval row refers to instants that carry a water level (the REFERENCES water_level
    clauses of `zeta_interval`) -/
theorem interval_rows_have_levels (pick : List Nat → Nat) (s j : α) (db : Loaded α)
    (h : wellFormedLoadedB db = true) (c : Classified) (hc : classifyAll pick s j db = .ok c) :
    (∀ q ∈ c.interstorms, db.level.any (fun z => z.1 == q.1) = true ∧ db.level.any (fun z => z.1 == q.2) = true) ∧
    (∀ p ∈ c.pairs, db.level.any (fun z => z.1 == p.2.1) = true ∧ db.level.any (fun z => z.1 == p.2.2) = true) :=
  -- `h` is not needed: the rows exist only where the three-way join found a level
  have _ := h
  interval_rows_levels_of_ok pick s j db c hc

/-! ### Non-vacuity (dataset `Example.db`, kernel evaluation at `Rat`) -/
namespace Example

example : wellFormedLoadedB db = true := by decide +kernel
example : Num.lt (jumpDelta j db.step) (Num.ofInt 0) = false := by decide +kernel

/-- one interstorm row and two storm/rise pairs; the `zeta_interval` keys -/
example : (classifyAll pickFirst s j db).toOption.map
      (fun c => (c.interstorms, c.pairs, c.interstorms.map (·.1) ++ c.pairs.map (·.2.1))) =
    some ([(10800, 18000)], [((3600, 10800), (3600, 7200)), ((25200, 32400), (28800, 32400))],
          [10800, 3600, 28800]) := by decide +kernel

/-- hypotheses and conclusions together: the dataset is well formed, it is classified into some `c`
    with an interstorm row and a pair, and the key list of `zeta_interval_keys_distinct` has no
    repetition (checked by evaluation, independently of the theorem) -/
example : wellFormedLoadedB db = true ∧
    ∃ c, classifyAll pickFirst s j db = .ok c ∧ c.interstorms ≠ [] ∧ c.pairs ≠ [] ∧
      (c.interstorms.map (·.1) ++ c.pairs.map (·.2.1)) = [10800, 3600, 28800] ∧
      ([10800, 3600, 28800] : List Int).Nodup := by
  refine ⟨by decide +kernel, ?_⟩
  have hv : (classifyAll pickFirst s j db).toOption.map
      (fun c => (c.interstorms, c.pairs, c.interstorms.map (·.1) ++ c.pairs.map (·.2.1))) =
    some ([(10800, 18000)], [((3600, 10800), (3600, 7200)), ((25200, 32400), (28800, 32400))],
          [10800, 3600, 28800]) := by decide +kernel
  cases hc : classifyAll pickFirst s j db with
  | error e => rw [hc] at hv; cases hv
  | ok c =>
    rw [hc] at hv
    have hv' : (c.interstorms, c.pairs, c.interstorms.map (·.1) ++ c.pairs.map (·.2.1)) =
        ([(10800, 18000)], [((3600, 10800), (3600, 7200)), ((25200, 32400), (28800, 32400))],
          [10800, 3600, 28800]) := Option.some.inj hv
    simp only [Prod.mk.injEq] at hv'
    obtain ⟨h1, h2, h3⟩ := hv'
    refine ⟨c, rfl, ?_, ?_, h3, by decide⟩
    · rw [h1]; exact List.cons_ne_nil _ _
    · rw [h2]; exact List.cons_ne_nil _ _

/-- the theorems apply to it -/
example : ∀ c, classifyAll pickFirst s j db = .ok c →
    (c.interstorms.map (·.1) ++ c.pairs.map (·.2.1)).Nodup :=
  fun c hc => zeta_interval_keys_distinct pickFirst s j db (by decide +kernel) (by decide +kernel) c hc

end Example

end Spowtd
