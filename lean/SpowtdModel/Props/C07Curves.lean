import SpowtdModel.Model.Pipeline
import SpowtdModel.Lemmas.CurvesShift
/-
  C07 (master curves) — shifting every timestamp of a dataset by the same number of seconds
  leaves both master curves unchanged: recession series are re-based to their own first instant
  before anything else, rise series contain no time at all.  Over `Rat`.
-/
namespace Spowtd

/-- re-basing removes any constant added to a series' own abscissae -/
theorem rebase_shift (pts : List (Rat × Rat)) (c : Rat) :
    rebase (pts.map (fun p => (p.1 + c, p.2))) = rebase pts :=
  CS.rebase_shift pts c

/-- … hence the alignment does not see per-series shifts of the time (or depth) axis -/
theorem alignSeries_shift (step : Rat) (series : List (List (Rat × Rat))) (cs : List Rat)
    (h : cs.length = series.length) :
    alignSeries step (List.zipWith (fun s c => s.map (fun p => (p.1 + c, p.2))) series cs) =
      alignSeries step series :=
  CS.alignSeries_congr step (CS.map_rebase_zipWith series cs h)

def shiftPairs (k : Int) (pairs : List ((Int × Int) × (Int × Int))) : List ((Int × Int) × (Int × Int)) :=
  pairs.map (fun p => ((p.1.1 + k, p.1.2 + k), (p.2.1 + k, p.2.2 + k)))

def shiftTables (k : Int) (t : CurveTables Rat) : CurveTables Rat :=
  { intervals := t.intervals.map (fun r => (r.1 + k, r.2))
    crossings := t.crossings.map (fun c => (c.1 + k, c.2))
    master := t.master }

/-- the recession curve of the shifted dataset: same offsets, same crossing values, same master
    curve; only the interval keys move -/
theorem recession_curve_shift (db : Loaded Rat) (inter : List (Int × Int)) (step : Rat) (ref : Option Rat)
    (k : Int) :
    recessionCurveTables (db.shift k) (inter.map (fun q => (q.1 + k, q.2 + k))) step ref =
      (recessionCurveTables db inter step ref).map (shiftTables k) := by
  unfold recessionCurveTables
  have h1 : sortInter (inter.map (fun q => (q.1 + k, q.2 + k))) = (sortInter inter).map (CS.shiftq k) :=
    CS.sortInter_shift k inter
  rw [h1, CS.recessionSeries_shift]
  refine CS.curveOf_shift step ref _ _ k ?_ ?_
  · rw [List.map_map, List.map_map]; rfl
  · exact CS.assemble_congr step ref (CS.map_rebase_keyed _ k (k : Rat))

/-- the rise curve of the shifted dataset -/
theorem rise_curve_shift (db : Loaded Rat) (pairs : List ((Int × Int) × (Int × Int))) (step : Rat)
    (ref : Option Rat) (k : Int) :
    riseCurveTables (db.shift k) (shiftPairs k pairs) step ref =
      (riseCurveTables db pairs step ref).map (shiftTables k) := by
  unfold riseCurveTables
  have h1 : sortPairs (shiftPairs k pairs) = (sortPairs pairs).map (CS.shiftp k) :=
    CS.sortPairs_shift k pairs
  rw [h1, CS.riseSeries_shift]
  refine CS.curveOf_shift step ref _ _ k ?_ ?_
  · rw [List.map_map, List.map_map]; rfl
  · rw [List.map_map]; rfl

/-! ### Non-vacuity (kernel evaluation at `Rat`): two interstorm intervals whose level ranges
    overlap (levels 4–2 and 3–1 at step 1), a shift by one day -/
namespace C07CurvesExample

def db : Loaded Rat :=
  { step := 3600
    grid := [(0, some 1), (3600, some 1), (7200, some 1), (10800, some 1),
             (36000, some 2), (39600, some 2), (43200, some 2), (46800, some 2)]
    rain := []
    et := []
    level := [(0, 9/2), (3600, 7/2), (7200, 5/2), (10800, 3/2),
              (36000, 37/10), (39600, 27/10), (43200, 17/10), (46800, 7/10)] }

def inter : List (Int × Int) := [(36000, 46800), (0, 10800)]
def inter' : List (Int × Int) := inter.map (fun q => (q.1 + 86400, q.2 + 86400))

/-- the recession curve is assembled: interval keys, crossing rows, master curve -/
example : (recessionCurveTables db inter 1 none).toOption.map
      (fun t => (t.intervals, t.crossings, t.master)) =
    some ([(36000, -2520), (0, -5400)],
      [(36000, 3, 2520), (0, 3, 5400), (36000, 2, 6120), (0, 2, 9000)],
      [(3, 0), (2, 3600)]) := by decide +kernel

/-- after a shift by 86400 s (intervals shifted alike) it is assembled too -/
example : (recessionCurveTables (db.shift 86400) inter' 1 none).toOption.map
      (fun t => (t.intervals, t.crossings)) =
    some ([(122400, -2520), (86400, -5400)],
      [(122400, 3, 2520), (86400, 3, 5400), (122400, 2, 6120), (86400, 2, 9000)]) := by decide +kernel

/-- … with the same master curve -/
example : (recessionCurveTables (db.shift 86400) inter' 1 none).toOption.map (·.master) =
    (recessionCurveTables db inter 1 none).toOption.map (·.master) := by decide +kernel
example : (recessionCurveTables db inter 1 none).toOption.isSome = true := by decide +kernel

/-- two rises whose level ranges overlap (levels 1–3 and 2–4), each with its storm's rain -/
def dbRise : Loaded Rat :=
  { step := 3600
    grid := [(0, some 1), (3600, some 1), (36000, some 2), (39600, some 2)]
    rain := [(0, 3600, 10), (36000, 39600, 12)]
    et := []
    level := [(0, 1/2), (3600, 7/2), (36000, 3/2), (39600, 9/2)] }

def pairs : List ((Int × Int) × (Int × Int)) :=
  [((36000, 39600), (36000, 39600)), ((0, 3600), (0, 3600))]

example : (riseCurveTables dbRise pairs 1 none).toOption.isSome = true := by decide +kernel
example : (riseCurveTables (dbRise.shift 86400) (shiftPairs 86400 pairs) 1 none).toOption.map
      (fun t => (t.intervals.map (·.1), t.master)) =
    (riseCurveTables dbRise pairs 1 none).toOption.map
      (fun t => (t.intervals.map (fun r => r.1 + 86400), t.master)) := by decide +kernel

end C07CurvesExample

end Spowtd
