import SpowtdModel.Model.Pipeline
import SpowtdModel.Lemmas.Curves
/-
  C13 (traceability) — every master-curve row traces back to a classified interval and to that
  interval's own data.  Carrier-free (no arithmetic law is used).
-/
namespace Spowtd
variable {α : Type} [Num α]

/-- a rise series is the straight segment from zero depth at its own initial level to its own
    storm's total rain depth at its own final level -/
theorem rise_series_is_own_segment (db : Loaded α) (pairs : List ((Int × Int) × (Int × Int)))
    (e : Int) (pts : List (α × α)) (h : (e, pts) ∈ riseSeries db pairs) :
    ∃ p ∈ pairs, p.2.1 = e ∧ ∃ z0 z1, levelAt db p.2.1 = some z0 ∧ levelAt db p.2.2 = some z1 ∧
      pts = [(Num.ofInt 0, z0), (totalRainDepth db p.1, z1)] := by
  exact mem_riseSeries h

/-- a recession series is the samples of its own interstorm interval -/
theorem recession_series_is_own_samples (db : Loaded α) (inter : List (Int × Int))
    (e : Int) (pts : List (α × α)) (h : (e, pts) ∈ recessionSeries db inter) :
    ∃ q ∈ inter, q.1 = e ∧
      pts = (db.level.filter (fun z => decide (q.1 ≤ z.1) && decide (z.1 ≤ q.2))).map (fun z => (Num.ofInt z.1, z.2)) := by
  exact mem_recessionSeries h

/-- every interval row and every crossing row of an assembled curve is keyed by one of the series
    handed in, and every crossing row belongs to an interval row -/
theorem curve_rows_keyed (step : α) (ref : Option α) (series : List (Int × List (α × α)))
    (t : CurveTables α) (h : curveOf step ref series = .ok t) :
    (∀ r ∈ t.intervals, r.1 ∈ series.map (·.1)) ∧
    (∀ c ∈ t.crossings, c.1 ∈ t.intervals.map (·.1)) := by
  exact ⟨(curveOf_rows h).1, fun c hc => ((curveOf_rows h).2 c hc).1⟩

set_option linter.unusedVariables false in
/-- each crossing value is the mean crossing position computed from that interval's own
    (re-based) samples.  (`hk` is not used by the proof: the witness exists whatever the keys; with
    distinct keys it is *the* series of that key, see `series_of_row_unique` below.) -/
theorem crossing_values_are_own_means (step : α) (ref : Option α) (series : List (Int × List (α × α)))
    (hk : (series.map (·.1)).Nodup) (t : CurveTables α) (h : curveOf step ref series = .ok t)
    (c : Int × Int × α) (hc : c ∈ t.crossings) :
    ∃ pts, (c.1, pts) ∈ series ∧ (c.2.1, c.2.2) ∈ meanCrossings step (rebase pts) := by
  exact ((curveOf_rows h).2 c hc).2

theorem rising_rows_keyed_by_matched_rise (db : Loaded α) (pairs : List ((Int × Int) × (Int × Int)))
    (step : α) (ref : Option α) (t : CurveTables α) (h : riseCurveTables db pairs step ref = .ok t) :
    (∀ r ∈ t.intervals, ∃ p ∈ pairs, p.2.1 = r.1) ∧ (∀ c ∈ t.crossings, ∃ p ∈ pairs, p.2.1 = c.1) := by
  unfold riseCurveTables at h
  obtain ⟨h1, h2⟩ := curve_rows_keyed step ref _ t h
  have key : ∀ e ∈ (riseSeries db (sortPairs pairs)).map (·.1), ∃ p ∈ pairs, p.2.1 = e := by
    intro e he
    obtain ⟨x, hx, rfl⟩ := List.mem_map.mp he
    obtain ⟨p, hp, hpe, _⟩ := rise_series_is_own_segment db _ x.1 x.2 hx
    exact ⟨p, mem_sortPairs.mp hp, hpe⟩
  refine ⟨fun r hr => key r.1 (h1 r hr), fun c hc => ?_⟩
  obtain ⟨r, hr, he⟩ := List.mem_map.mp (h2 c hc)
  rw [← he]
  exact key r.1 (h1 r hr)

theorem recession_rows_keyed_by_interstorm (db : Loaded α) (inter : List (Int × Int))
    (step : α) (ref : Option α) (t : CurveTables α) (h : recessionCurveTables db inter step ref = .ok t) :
    (∀ r ∈ t.intervals, ∃ q ∈ inter, q.1 = r.1) ∧ (∀ c ∈ t.crossings, ∃ q ∈ inter, q.1 = c.1) := by
  unfold recessionCurveTables at h
  obtain ⟨h1, h2⟩ := curve_rows_keyed step ref _ t h
  have key : ∀ e ∈ (recessionSeries db (sortInter inter)).map (·.1), ∃ q ∈ inter, q.1 = e := by
    intro e he
    obtain ⟨x, hx, rfl⟩ := List.mem_map.mp he
    obtain ⟨q, hq, hqe, _⟩ := recession_series_is_own_samples db _ x.1 x.2 hx
    exact ⟨q, mem_sortInter.mp hq, hqe⟩
  refine ⟨fun r hr => key r.1 (h1 r hr), fun c hc => ?_⟩
  obtain ⟨r, hr, he⟩ := List.mem_map.mp (h2 c hc)
  rw [← he]
  exact key r.1 (h1 r hr)

omit [Num α] in
/-- supplement: with distinct keys, the samples a row traces back to are determined by its key -/
theorem series_of_row_unique (series : List (Int × List (α × α))) (hk : (series.map (·.1)).Nodup)
    (e : Int) (pts pts' : List (α × α)) (h : (e, pts) ∈ series) (h' : (e, pts') ∈ series) :
    pts = pts' :=
  series_of_key_unique hk h h'

/-! ### non-vacuity: three keyed series over `Rat` with overlapping level ranges -/

/-- three rising series keyed by start epoch, as points (position, level) -/
def exKeyed : List (Int × List (Rat × Rat)) :=
  [(100, [(0, 1/2), (1, 5/2)]), (200, [(0, 3/2), (1, 7/2)]), (300, [(0, 1/5), (2, 16/5)])]

/-- the curve is assembled; interval keys, crossing rows (key, level, mean crossing) and the master
    curve are as displayed -/
example : (curveOf 1 none exKeyed).toOption.map
      (fun t => (t.intervals.map (·.1), t.crossings, t.master)) =
    some ([300, 100, 200],
      [(300, 1, 8/15), (100, 1, 1/4), (300, 2, 6/5), (100, 2, 3/4), (200, 2, 1/4),
       (300, 3, 28/15), (200, 3, 3/4)],
      [(1, -11/9), (2, -11/18), (3, 0)]) := by decide +kernel

/-- e.g. the row `(300, 2, 6/5)` is the mean crossing of level 2 by series 300's own samples -/
example : ((2 : Int), (6/5 : Rat)) ∈ meanCrossings 1 (rebase [((0 : Rat), (1/5 : Rat)), (2, 16/5)]) := by
  decide +kernel

end Spowtd
