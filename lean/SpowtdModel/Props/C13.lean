import SpowtdModel.Model.Pipeline
import SpowtdModel.Lemmas.Curves
/-
  C13 (traceability) — every master-curve row traces back to a classified interval and to that
  interval's own data.  Carrier-free (no arithmetic law is used).
-/
namespace Spowtd
variable {α : Type} [Num α]

/-- a rise series is the straight segment from zero depth at its own initial level to its own
    storm's total rain depth at its own final level -/
theorem rise_series_is_own_segment (db : Loaded α) (pairs : List ((Int × Int) × (Int × Int)))
    (e : Int) (pts : List (α × α)) (h : (e, pts) ∈ riseSeries db pairs) :
    ∃ p ∈ pairs, p.2.1 = e ∧ ∃ z0 z1, levelAt db p.2.1 = some z0 ∧ levelAt db p.2.2 = some z1 ∧
      pts = [(Num.ofInt 0, z0), (totalRainDepth db p.1, z1)] := by
  sorry

/-- a recession series is the samples of its own interstorm interval -/
theorem recession_series_is_own_samples (db : Loaded α) (inter : List (Int × Int))
    (e : Int) (pts : List (α × α)) (h : (e, pts) ∈ recessionSeries db inter) :
    ∃ q ∈ inter, q.1 = e ∧
      pts = (db.level.filter (fun z => decide (q.1 ≤ z.1) && decide (z.1 ≤ q.2))).map (fun z => (Num.ofInt z.1, z.2)) := by
  sorry

/-- every interval row and every crossing row of an assembled curve is keyed by one of the series
    handed in, and every crossing row belongs to an interval row -/
theorem curve_rows_keyed (step : α) (ref : Option α) (series : List (Int × List (α × α)))
    (t : CurveTables α) (h : curveOf step ref series = .ok t) :
    (∀ r ∈ t.intervals, r.1 ∈ series.map (·.1)) ∧
    (∀ c ∈ t.crossings, c.1 ∈ t.intervals.map (·.1)) := by
  sorry

/-- each crossing value is the mean crossing position computed from that interval's own
    (re-based) samples -/
theorem crossing_values_are_own_means (step : α) (ref : Option α) (series : List (Int × List (α × α)))
    (hk : (series.map (·.1)).Nodup) (t : CurveTables α) (h : curveOf step ref series = .ok t)
    (c : Int × Int × α) (hc : c ∈ t.crossings) :
    ∃ pts, (c.1, pts) ∈ series ∧ (c.2.1, c.2.2) ∈ meanCrossings step (rebase pts) := by
  sorry

theorem rising_rows_keyed_by_matched_rise (db : Loaded α) (pairs : List ((Int × Int) × (Int × Int)))
    (step : α) (ref : Option α) (t : CurveTables α) (h : riseCurveTables db pairs step ref = .ok t) :
    (∀ r ∈ t.intervals, ∃ p ∈ pairs, p.2.1 = r.1) ∧ (∀ c ∈ t.crossings, ∃ p ∈ pairs, p.2.1 = c.1) := by
  sorry

theorem recession_rows_keyed_by_interstorm (db : Loaded α) (inter : List (Int × Int))
    (step : α) (ref : Option α) (t : CurveTables α) (h : recessionCurveTables db inter step ref = .ok t) :
    (∀ r ∈ t.intervals, ∃ q ∈ inter, q.1 = r.1) ∧ (∀ c ∈ t.crossings, ∃ q ∈ inter, q.1 = c.1) := by
  sorry

end Spowtd
