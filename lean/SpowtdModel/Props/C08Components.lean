import SpowtdModel.Lemmas.LeastSquares
import SpowtdModel.Lemmas.ComponentsConnected
/-
  C08 (the groups are exactly the connected components) — `components_partition` and
  `components_separated` (Props/C08.lean) say that levels sharing a series end in one group and that
  different groups share no series: nothing linked to the main body is left out.  The converse —
  nothing *unlinked* is taken in — is the statement below: inside one group, every two series are
  linked by a chain of shared levels of that group, so the kept group restricted from the mapping is
  `Connected`, which is the hypothesis of `minimiser_unique_mod_shift` and `solveOffsets_total`.
  Also: the kept group is one with the most levels, the earliest such in creation order.
-/
namespace Spowtd

/-- Series of one group are pairwise linked by a chain of levels of that group. -/
theorem components_connected (m : Mapping Rat) (hm : ProperMapping m) (hnd : (m.map (·.1)).Nodup) :
    ∀ g ∈ components m, Connected (restrictTo m g.1) :=
  LS.components_connected m hm hnd

/-- The series recorded for a group are exactly the series of its levels. -/
theorem components_series (m : Mapping Rat) (hnd : (m.map (·.1)).Nodup) :
    ∀ g ∈ components m, ∀ s, s ∈ g.2 ↔ s ∈ seriesOf (restrictTo m g.1) :=
  LS.components_series m hnd

/-- The kept group is a group, no other group has more levels, and among the groups with as many
    levels it is the first in creation order.  (Distinct level ids are needed for the last clause:
    with a repeated id and empty levels two groups can be equal, e.g. `[(0, []), (0, [])]`.) -/
theorem mainComponent_spec (m : Mapping Rat) (hnd : (m.map (·.1)).Nodup) (hne : m ≠ []) :
    ∃ g ∈ components m, mainComponent m = g.1 ∧
      (∀ g' ∈ components m, g'.1.length ≤ g.1.length) ∧
      (∀ i j (hi : i < (components m).length) (hj : j < (components m).length),
        (components m)[j] = g → (components m)[i].1.length = g.1.length → j ≤ i) :=
  LS.mainComponent_spec m hnd hne

/-- Hence the alignment problem that is actually solved (main group, single-interval levels dropped
    by `singleton_levels_irrelevant`) is connected. -/
theorem main_body_connected (m : Mapping Rat) (hm : ProperMapping m) (hnd : (m.map (·.1)).Nodup) (hne : m ≠ []) :
    Connected (restrictTo m (mainComponent m)) := by
  obtain ⟨g, hg, he, _, _⟩ := mainComponent_spec m hnd hne
  rw [he]
  exact components_connected m hm hnd g hg

/-! Non-vacuity: two groups; the first (two levels) is kept and is connected; the second is not
    linked to it. -/
def exTwoGroups : Mapping Rat :=
  [(0, [(0, 0), (1, 1)]), (5, [(2, 3), (3, 2)]), (1, [(1, 4), (4, 2)])]

example : components exTwoGroups = [([5], [2, 3]), ([1, 0], [1, 4, 0])] := by decide +kernel
example : mainComponent exTwoGroups = [1, 0] := by decide +kernel

end Spowtd
