import SpowtdModel.Model.Classify
import SpowtdModel.Props.C01
/-
  C03 at the level of a classified dataset.
-/
namespace Spowtd
variable {α : Type} [Num α]

theorem storm_is_maximal_heavy_run (pick : List Nat → Nat) (s j : α) (dt : Int) (zeta rain : List α)
    (p : (Nat × Nat) × (Nat × Nat)) (hp : p ∈ (classifyIdx pick s j dt zeta rain).pairs) :
    p.1 ∈ trueRuns (heavy s rain) :=
  (pairing_overlaps_idx pick s j dt zeta rain p hp).1

theorem rise_is_maximal_jump_run (pick : List Nat → Nat) (s j : α) (dt : Int) (zeta rain : List α)
    (p : (Nat × Nat) × (Nat × Nat)) (hp : p ∈ (classifyIdx pick s j dt zeta rain).pairs) :
    p.2 ∈ trueRuns (jumps j dt zeta) :=
  (pairing_overlaps_idx pick s j dt zeta rain p hp).2.1

/-- Every recorded storm/rise pair comes from one gap-free stretch `l`: with `es`, `zs`, `rs` the
    epochs, levels and rain of that stretch alone, the storm is `(es[a], es[b-1] + step)` for a
    maximal run `[a, b)` of steps with rain strictly above `s`, and the rise is `(es[c], es[d])` for
    a maximal run `[c, d)` of increments strictly above `j * step / 3600`.  Nothing crosses a gap. -/
theorem no_interval_crosses_gap (pick : List Nat → Nat) (s j : α) (db : Loaded α)
    (c : Classified) (hc : classifyAll pick s j db = .ok c)
    (p : (Int × Int) × (Int × Int)) (hp : p ∈ c.pairs) :
    ∃ l ∈ labelsOf db, ∃ a b c' d,
      (a, b) ∈ trueRuns (heavy s ((samplesOf db l).map (·.2.2))) ∧
      (c', d) ∈ trueRuns (jumps j db.step ((samplesOf db l).map (·.2.1))) ∧
      p = ((((samplesOf db l).map (·.1)).getD a 0, ((samplesOf db l).map (·.1)).getD (b - 1) 0 + db.step),
           (((samplesOf db l).map (·.1)).getD c' 0, ((samplesOf db l).map (·.1)).getD d 0)) := by
  obtain ⟨l, hl, q, hq, rfl⟩ := (mem_pairs_of_ok pick s j db c hc p).1 hp
  obtain ⟨h1, h2, _⟩ := idxPairs_sound pick _ _ q hq
  exact ⟨l, hl, q.1.1, q.1.2, q.2.1, q.2.2, h1, h2, rfl⟩

/-- On a uniform grid the view's join condition selects exactly the steps that start inside
    `[start, thru)`: the depth is intensity × step length summed over the storm's own steps. -/
theorem rain_depth_steps (db : Loaded α) (storm : Int × Int) (dt : Int) (hdt : 0 < dt)
    (hrows : ∀ r ∈ db.rain, r.2.1 = r.1 + dt) (hal : ∀ r ∈ db.rain, dt ∣ (storm.2 - r.1)) :
    totalRainDepth db storm =
      Num.sum ((db.rain.filter (fun r => decide (storm.1 ≤ r.1) && decide (r.1 < storm.2))).map
        (fun r => Num.div (Num.mul r.2.2 (Num.ofInt dt)) (Num.ofInt 3600))) :=
  totalRainDepth_steps db storm dt hdt hrows hal

/-! ### Non-vacuity (dataset `Example.db`, kernel evaluation at `Rat`) -/
namespace Example

/-- the runs of the two stretches, and the rows recorded from them -/
example : trueRuns (heavy s ((samplesOf db 0).map (·.2.2))) = [(1, 3)] ∧
    trueRuns (jumps j db.step ((samplesOf db 0).map (·.2.1))) = [(1, 2)] ∧
    trueRuns (heavy s ((samplesOf db 1).map (·.2.2))) = [(0, 2)] ∧
    trueRuns (jumps j db.step ((samplesOf db 1).map (·.2.1))) = [(1, 2)] := by decide +kernel
example : labelsOf db = [0, 1] ∧ (samplesOf db 0).map (·.1) = [0, 3600, 7200, 10800, 14400, 18000] ∧
    (samplesOf db 1).map (·.1) = [25200, 28800, 32400] := by decide +kernel
example : (classifyAll pickFirst s j db).toOption.map (·.pairs) =
    some [((3600, 10800), (3600, 7200)), ((25200, 32400), (28800, 32400))] := by decide +kernel

/-- the hypotheses of `rain_depth_steps` hold for the example's rain table and its first storm;
    the depth is 5 mm/h × 1 h + 5 mm/h × 1 h -/
example : (0 : Int) < 3600 ∧ (∀ r ∈ db.rain, r.2.1 = r.1 + 3600) ∧
    (∀ r ∈ db.rain, (3600 : Int) ∣ ((3600, 10800) : Int × Int).2 - r.1) := by decide +kernel
example : totalRainDepth db (3600, 10800) = 10 := by decide +kernel

end Example

end Spowtd
