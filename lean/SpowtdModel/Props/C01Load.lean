import SpowtdModel.Props.C01
import SpowtdModel.Props.C10
/-
  C01 end to end: every dataset that `load` accepts (with at least one water level on the
  grid) is classified without error, under every schedule and every pair of thresholds.
-/
namespace Spowtd
variable {α : Type} [Num α]

theorem load_then_classify_total (f : Files α) (d : Loaded α) (h : load f false = .ok d)
    (hne : d.level ≠ []) (pick : List Nat → Nat) (s j : α) :
    ∃ c, classifyAll pick s j d = .ok c :=
  classify_total pick s j d (load_establishes_wf f d h hne)

/-- … and the recorded pairing of that dataset is one-to-one. -/
theorem load_then_pairing_injective (f : Files α) (d : Loaded α) (h : load f false = .ok d)
    (hne : d.level ≠ []) (pick : List Nat → Nat) (s j : α) (c : Classified)
    (hc : classifyAll pick s j d = .ok c) :
    (c.pairs.map (·.1.1)).Nodup ∧ (c.pairs.map (·.2.1)).Nodup :=
  pairing_injective pick s j d (load_establishes_wf f d h hne) c hc

end Spowtd
