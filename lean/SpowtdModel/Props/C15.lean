import SpowtdModel.Lemmas.RealNum
import SpowtdModel.Lemmas.TransReal
import SpowtdModel.Lemmas.TransRealInt
/-
  C15 — spline transmissivity is the minimum plus the integral of a conductivity whose logarithm
  is linear between knots.  Over `ℝ`.
-/
namespace Spowtd
open intervalIntegral

/-- knots `(z, K)`: levels strictly increasing, conductivities positive -/
def GoodKnots (knots : List (ℝ × ℝ)) : Prop :=
  (knots.map (·.1)).Pairwise (· < ·) ∧ ∀ k ∈ knots, 0 < k.2

set_option linter.unusedVariables false in
/-- closed form of the integral of a log-linear conductivity over part of one segment
    (`z0 < z1` and `0 < K1` are not needed by the proof) -/
theorem segInt_eq_integral (z0 K0 z1 K1 z : ℝ) (hz : z0 < z1) (h0 : 0 < K0) (h1 : 0 < K1) :
    segInt z0 K0 z1 K1 z =
      ∫ x in z0..z, Real.exp (Real.log K0 + (Real.log K1 - Real.log K0) / (z1 - z0) * (x - z0)) := by
  exact TR.segInt_eq_integral z0 K0 z1 K1 z h0

/-- the conductivity passes through its knots and its logarithm is linear in between -/
theorem logLinK_segment (knots : List (ℝ × ℝ)) (hk : GoodKnots knots) (i : Nat) (a b : ℝ × ℝ)
    (ha : knots[i]? = some a) (hb : knots[i + 1]? = some b) (x : ℝ) (hx : a.1 ≤ x ∧ x ≤ b.1) :
    logLinK knots x = Real.exp (Real.log a.2 + (Real.log b.2 - Real.log a.2) / (b.1 - a.1) * (x - a.1)) := by
  exact TR.logLinK_segment knots hk.1 i a b ha hb x hx

/-- at and below the lowest knot: the stated minimum -/
theorem t_eq_Tmin_below (knots : List (ℝ × ℝ)) (tmin z : ℝ) (a : ℝ × ℝ) (h : knots.head? = some a)
    (hz : z ≤ a.1) : tSplineClosed knots tmin z = tmin := by
  cases knots with
  | nil => simp at h
  | cons a0 rest =>
    simp only [List.head?_cons, Option.some.injEq] at h
    subst h
    exact TR.tSpline_below _ rest tmin z hz

/-- up to the highest knot: minimum + ∫ from the lowest knot of the log-linear conductivity -/
theorem tSplineClosed_eq_integral (knots : List (ℝ × ℝ)) (hk : GoodKnots knots) (tmin z : ℝ)
    (a b : ℝ × ℝ) (ha : knots.head? = some a) (hb : knots.getLast? = some b) (hz : a.1 ≤ z ∧ z ≤ b.1) :
    tSplineClosed knots tmin z = tmin + ∫ x in a.1..z, logLinK knots x := by
  cases knots with
  | nil => simp at ha
  | cons a0 rest =>
    simp only [List.head?_cons, Option.some.injEq] at ha
    subst ha
    exact TR.tSpline_eq_integral rest _ tmin z hk.1 hk.2 b hb hz.1 hz.2

/-- never decreases as the water level rises -/
theorem t_monotone (knots : List (ℝ × ℝ)) (hk : GoodKnots knots) (tmin z z' : ℝ) (b : ℝ × ℝ)
    (hb : knots.getLast? = some b) (hzz : z ≤ z') (hz : z' ≤ b.1) :
    tSplineClosed knots tmin z ≤ tSplineClosed knots tmin z' := by
  exact TR.tSpline_monotone knots hk.1 hk.2 tmin z z' b hb hzz hz

/-- continuous up to the highest knot -/
theorem t_continuous (knots : List (ℝ × ℝ)) (hk : GoodKnots knots) (tmin : ℝ) (b : ℝ × ℝ)
    (hb : knots.getLast? = some b) : ContinuousOn (tSplineClosed knots tmin) (Set.Iic b.1) := by
  exact TR.tSpline_continuousOn knots hk.1 hk.2 tmin b hb

/-! ### non-vacuity -/

theorem goodKnots_example : GoodKnots [(0, 1), (1, Real.exp 1), (3, 2)] := by
  constructor
  · simp
  · intro k hk
    simp only [List.mem_cons, List.not_mem_nil, or_false] at hk
    rcases hk with rfl | rfl | rfl
    · exact one_pos
    · exact Real.exp_pos 1
    · exact two_pos

example (z : ℝ) (hz : 0 ≤ z ∧ z ≤ 3) :
    tSplineClosed [(0, 1), (1, Real.exp 1), (3, 2)] 5 z =
      5 + ∫ x in (0 : ℝ)..z, logLinK [(0, 1), (1, Real.exp 1), (3, 2)] x :=
  tSplineClosed_eq_integral _ goodKnots_example 5 z (0, 1) (3, 2) rfl rfl hz

/-- the first segment has `log K` of slope 1: `T(1) = 5 + ∫₀¹ eˣ dx = 5 + (e − 1)` -/
example : tSplineClosed [((0 : ℝ), (1 : ℝ)), (1, Real.exp 1), (3, 2)] 5 1 = 5 + (Real.exp 1 - 1) := by
  rw [TR.tSpline_cons_cons, if_neg (by norm_num), if_pos (by norm_num), TR.segInt_eq]
  norm_num

end Spowtd
