import SpowtdModel.Model.Calendar
import SpowtdModel.Lemmas.IsoText
/-
  C11 (the text itself) — the timestamp text of the input files, in the canonical spelling
  `YYYY-MM-DD HH:MM:SS`, denotes exactly one naive civil instant, and the model's reader returns it:
  reading what `renderIso` writes gives the instant back, for every instant of the years 1 … 9999.
  Together with `localize_sound` / `localize_complete` (Props/C11.lean) and the calendar round trips
  (Props/C11Calendar.lean) this covers the whole path text → civil fields → seconds → UTC instants.
-/
namespace Spowtd

/-- seconds of 0001-01-01 00:00:00 and of 10000-01-01 00:00:00 on the naive civil axis -/
def isoLo : Int := civilSeconds 1 1 1 0 0 0
def isoHi : Int := civilSeconds 10000 1 1 0 0 0

/-- Reading the canonical spelling of an instant returns that instant. -/
theorem parseIso_renderIso (t : Int) (hlo : isoLo ≤ t) (hhi : t < isoHi) :
    parseIso (renderIso t) = some t :=
  Iso.parse_render t hlo hhi

/-- Two different instants are never written alike. -/
theorem renderIso_injective (t t' : Int) (h : isoLo ≤ t ∧ t < isoHi) (h' : isoLo ≤ t' ∧ t' < isoHi)
    (he : renderIso t = renderIso t') : t = t' := by
  have a := parseIso_renderIso t h.1 h.2
  have b := parseIso_renderIso t' h'.1 h'.2
  rw [he] at a
  exact Option.some.inj (a.symm.trans b)

/-! Non-vacuity -/
example : renderIso 1361743200 = "2013-02-24 22:00:00" := by decide +kernel
example : parseIso "2013-02-24 22:00:00" = some 1361743200 := by
  -- (`String.splitOn` is defined by well-founded recursion, which the kernel does not unfold: go through the theorem)
  rw [← (by decide +kernel : renderIso 1361743200 = "2013-02-24 22:00:00")]
  exact parseIso_renderIso _ (by decide +kernel) (by decide +kernel)
example : isoLo ≤ 1361743200 ∧ (1361743200 : Int) < isoHi := by decide +kernel

end Spowtd
