import SpowtdModel.Lemmas.LeastSquares
import SpowtdModel.Lemmas.LeastSquaresProofs
/-
  C05 — the alignment offsets minimise the squared spread of crossing values; the minimiser is
  characterised by vanishing residual sums and is unique up to a common shift.  Over `Rat`.
-/
namespace Spowtd

/-- Exact expansion of the objective around any offset vector `x`. -/
theorem objective_expand (m : Mapping Rat) (hm : ProperMapping m) (x y : Nat → Rat) :
    objective m y = objective m x
      + 2 * Num.sum ((seriesOf m).map (fun s => (y s - x s) * residualSum m x s))
      + objective (m.map (fun hl => (hl.1, hl.2.map (fun st => (st.1, (0 : Rat))))))
          (fun s => y s - x s) := by
  sorry

/-- Vanishing residual sums ⇒ global minimiser, over *all* competing offset vectors. -/
theorem stationary_is_minimiser (m : Mapping Rat) (hm : ProperMapping m) (x : Nat → Rat)
    (h : Stationary m x) (y : Nat → Rat) : objective m x ≤ objective m y := by
  sorry

/-- Conversely a minimiser has vanishing residual sums for every interval. -/
theorem minimiser_is_stationary (m : Mapping Rat) (hm : ProperMapping m) (x : Nat → Rat)
    (h : ∀ y, objective m x ≤ objective m y) : Stationary m x := by
  sorry

/-- The minimiser is unique up to a common shift of all intervals. -/
theorem minimiser_unique_mod_shift (m : Mapping Rat) (hm : ProperMapping m) (hc : Connected m)
    (x y : Nat → Rat) (hx : Stationary m x) (hy : Stationary m y) :
    ∃ c, ∀ s ∈ seriesOf m, y s = x s + c := by
  sorry

/-- What the model's solver returns has vanishing residual sums (it is checked before being
    returned) and pins one series to zero. -/
theorem solveOffsets_stationary (m : Mapping Rat) (sol : List (Nat × Rat))
    (h : solveOffsets m = .ok sol) :
    Stationary m (lookup sol) ∧ ∃ r ∈ seriesOf m, lookup sol r = 0 := by
  sorry

/-- Levels crossed by a single interval carry no information: dropping them changes neither the
    residual sums nor differences of the objective. -/
theorem singleton_levels_irrelevant (m : Mapping Rat) (x : Nat → Rat) (s : Nat) :
    residualSum (dropSingletons m) x s = residualSum m x s ∧
    objective (dropSingletons m) x = objective m x := by
  sorry

end Spowtd
