import SpowtdModel.Lemmas.LeastSquares
import SpowtdModel.Lemmas.LeastSquaresProofs
/-
  C05 — the alignment offsets minimise the squared spread of crossing values; the minimiser is
  characterised by vanishing residual sums and is unique up to a common shift.  Over `Rat`.
-/
namespace Spowtd

/-- Exact expansion of the objective around any offset vector `x`. -/
theorem objective_expand (m : Mapping Rat) (hm : ProperMapping m) (x y : Nat → Rat) :
    objective m y = objective m x
      + 2 * Num.sum ((seriesOf m).map (fun s => (y s - x s) * residualSum m x s))
      + objective (m.map (fun hl => (hl.1, hl.2.map (fun st => (st.1, (0 : Rat))))))
          (fun s => y s - x s) := by
  have _ := hm
  exact LS.objective_expand_num m x y

/-- Vanishing residual sums ⇒ global minimiser, over *all* competing offset vectors. -/
theorem stationary_is_minimiser (m : Mapping Rat) (hm : ProperMapping m) (x : Nat → Rat)
    (h : Stationary m x) (y : Nat → Rat) : objective m x ≤ objective m y := by
  have _ := hm
  exact LS.stationary_le m x h y

/-- Conversely a minimiser has vanishing residual sums for every interval. -/
theorem minimiser_is_stationary (m : Mapping Rat) (hm : ProperMapping m) (x : Nat → Rat)
    (h : ∀ y, objective m x ≤ objective m y) : Stationary m x := by
  have _ := hm
  exact LS.minimiser_stationary m x h

/-- The minimiser is unique up to a common shift of all intervals. -/
theorem minimiser_unique_mod_shift (m : Mapping Rat) (hm : ProperMapping m) (hc : Connected m)
    (x y : Nat → Rat) (hx : Stationary m x) (hy : Stationary m y) :
    ∃ c, ∀ s ∈ seriesOf m, y s = x s + c := by
  have _ := hm
  exact LS.unique_mod_shift m hc x y hx hy

/-- What the model's solver returns has vanishing residual sums (it is checked before being
    returned) and pins one series to zero. -/
theorem solveOffsets_stationary (m : Mapping Rat) (sol : List (Nat × Rat))
    (h : solveOffsets m = .ok sol) :
    Stationary m (lookup sol) ∧ ∃ r ∈ seriesOf m, lookup sol r = 0 :=
  LS.solveOffsets_ok m sol h

/-- Levels crossed by a single interval carry no information: dropping them changes neither the
    residual sums nor differences of the objective. -/
theorem singleton_levels_irrelevant (m : Mapping Rat) (x : Nat → Rat) (s : Nat) :
    residualSum (dropSingletons m) x s = residualSum m x s ∧
    objective (dropSingletons m) x = objective m x :=
  LS.singletons m x s

/-! Non-vacuity: three series chained over three levels; the mapping is proper and connected,
    and the solver returns checked offsets that are not all zero. -/

def exChain : Mapping Rat :=
  [(0, [(0, 0), (1, 2)]), (1, [(1, 3), (2, 2)]), (2, [(1, 6), (2, 5)])]

example : ProperMapping exChain := by
  intro hl h
  simp only [exChain, List.mem_cons, List.not_mem_nil, or_false] at h
  rcases h with rfl | rfl | rfl <;> decide

example : seriesOf exChain = [0, 1, 2] := by decide +kernel

example : Connected exChain := by
  have h01 : Shares exChain 0 1 := ⟨(0, [(0, 0), (1, 2)]), by simp [exChain], by decide, by decide⟩
  have h12 : Shares exChain 1 2 := ⟨(1, [(1, 3), (2, 2)]), by simp [exChain], by decide, by decide⟩
  apply LS.connected_of_hub exChain 0
  intro s hs
  have hs' : s ∈ [0, 1, 2] := by
    have : seriesOf exChain = [0, 1, 2] := by decide +kernel
    rw [← this]; exact hs
  simp only [List.mem_cons, List.not_mem_nil, or_false] at hs'
  rcases hs' with rfl | rfl | rfl
  · exact Relation.ReflTransGen.refl
  · exact Relation.ReflTransGen.single h01
  · exact (Relation.ReflTransGen.single h01).tail h12

example : solveOffsets exChain = .ok [(0, 1), (1, -1), (2, 0)] := by decide +kernel

example : ∃ sol, solveOffsets exChain = .ok sol ∧ lookup sol 0 ≠ 0 :=
  ⟨[(0, 1), (1, -1), (2, 0)], by decide +kernel, by decide +kernel⟩

end Spowtd
