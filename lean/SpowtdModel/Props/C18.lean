import SpowtdModel.Lemmas.RealNum
import SpowtdModel.Lemmas.SplineReal
import SpowtdModel.Props.C17
/-
  C18 — the recession curve obeys the water-balance equation.  Over `ℝ`.
-/
namespace Spowtd
open intervalIntegral

/-- the integrand is negative: time increases as the level falls -/
theorem integrand_negative (sy T : ℝ → ℝ) (et kappa z : ℝ) (hsy : 0 < sy z) (het : 0 ≤ et)
    (hk : 0 ≤ kappa) (hne : ¬ (et = 0 ∧ kappa = 0)) (hT : 0 < T z) :
    recessionIntegrand sy T et kappa z < 0 := by
  exact recessionIntegrand_neg sy T et kappa z hsy het hk hne hT

/-- the cell integral `∫ a..b Sy / (−ET − κ T)` is additive for a continuous integrand -/
theorem recession_cells_additive (f : ℝ → ℝ) (hf : Continuous f) :
    Additive (fun a b => ∫ x in a..b, f x) := by
  intro a b c
  exact integral_add_adjacent_intervals (hf.intervalIntegrable a b) (hf.intervalIntegrable b c)

/-- a negative continuous integrand gives negative cells on ascending limits -/
theorem recession_cells_negative (f : ℝ → ℝ) (hf : Continuous f) (hneg : ∀ x, f x < 0) (a b : ℝ)
    (hab : a < b) : (∫ x in a..b, f x) < 0 := by
  exact integral_neg_of_neg f hf hneg a b hab

/-- Zero curvature: elapsed time × ET is the storage released according to the rise curve. -/
theorem zero_curvature_water_balance (sy T : ℝ → ℝ) (hsy : Continuous sy) (et : ℝ) (het : 0 < et) (a b : ℝ) :
    (∫ x in a..b, recessionIntegrand sy T et 0 x) * et = - ∫ x in a..b, sy x := by
  -- continuity of `sy` is not needed: a constant factor moves out of any interval integral
  have _ := hsy
  exact zero_curvature_real sy T et het a b

/-- the ET used is 24 × the mean over the time steps starting inside `[start, thru)` of exactly
    the given intervals; for a single interval it is the mean of its own steps -/
theorem meanET_single (db : Loaded ℝ) (iv : Int × Int) :
    meanET db [iv] =
      ((db.et.filter (fun r => decide (iv.1 ≤ r.1) && decide (r.1 < iv.2))).map (·.2.2)).sum /
        ((db.et.filter (fun r => decide (iv.1 ≤ r.1) && decide (r.1 < iv.2))).length : ℝ) * 24 := by
  exact meanET_single_real db iv

/-- ET that does not vary over the steps used gives that ET × 24 -/
theorem meanET_constant (db : Loaded ℝ) (ivs : List (Int × Int)) (c : ℝ)
    (hc : ∀ r ∈ db.et, r.2.2 = c)
    (hne : ∃ iv ∈ ivs, ∃ r ∈ db.et, iv.1 ≤ r.1 ∧ r.1 < iv.2) : meanET db ivs = c * 24 := by
  exact meanET_constant_real db ivs c hc hne

/-- Non-vacuity of `integrand_negative`, `recession_cells_negative`, `meanET_constant`. -/
example : ∃ (sy T : ℝ → ℝ) (et kappa z : ℝ), 0 < sy z ∧ 0 ≤ et ∧ 0 ≤ kappa ∧ ¬ (et = 0 ∧ kappa = 0) ∧
    0 < T z :=
  ⟨fun _ => 1, fun _ => 1, 0, 1, 0, one_pos, le_rfl, zero_le_one, fun h => one_ne_zero h.2, one_pos⟩

example : ∃ f : ℝ → ℝ, Continuous f ∧ ∀ x, f x < 0 :=
  ⟨fun _ => -1, continuous_const, fun _ => by norm_num⟩

example : ∃ (db : Loaded ℝ) (ivs : List (Int × Int)) (c : ℝ), (∀ r ∈ db.et, r.2.2 = c) ∧
    ∃ iv ∈ ivs, ∃ r ∈ db.et, iv.1 ≤ r.1 ∧ r.1 < iv.2 := by
  refine ⟨⟨1, [], [], [(0, 1, 5)], []⟩, [(0, 1)], 5, ?_, (0, 1), List.mem_singleton.2 rfl, (0, 1, 5),
    List.mem_singleton.2 rfl, ?_, ?_⟩
  · intro r hr
    rw [List.mem_singleton.1 hr]
  · show (0 : Int) ≤ 0
    exact le_rfl
  · show (0 : Int) < 1
    exact Int.zero_lt_one

end Spowtd
