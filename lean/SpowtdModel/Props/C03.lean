import SpowtdModel.Lemmas.Runs
/-
  C03 (index level) — `trueRuns` returns exactly the maximal runs of `true`.
-/
namespace Spowtd

/-- `(a, b)` is reported iff `[a, b)` is a non-empty run of `true` that cannot be extended. -/
theorem trueRuns_spec (v : List Bool) (a b : Nat) :
    (a, b) ∈ trueRuns v ↔
      a < b ∧ b ≤ v.length ∧ (∀ i, a ≤ i → i < b → v[i]? = some true) ∧
      (a = 0 ∨ v[a - 1]? = some false) ∧ (b = v.length ∨ v[b]? = some false) :=
  mem_trueRuns v a b

/-- Runs come out in order, pairwise separated by at least one `false`; in particular each
    maximal run is reported exactly once. -/
theorem trueRuns_sorted (v : List Bool) :
    (trueRuns v).Pairwise (fun r r' => r.2 < r'.1) :=
  trueRuns_pairwise v

theorem trueRuns_nodup (v : List Bool) : (trueRuns v).Nodup :=
  trueRuns_nodup' v

/-- distinct runs have distinct starts (storms and rises are named by their start) -/
theorem trueRuns_start_inj (v : List Bool) (r r' : Nat × Nat)
    (h : r ∈ trueRuns v) (h' : r' ∈ trueRuns v) (e : r.1 = r'.1) : r = r' :=
  trueRuns_start_inj' v r r' h h' e

/-! Non-vacuity: concrete evaluations of the model, and the specification's right-hand side
    is satisfiable / refutable on concrete data. -/
example : trueRuns [true, false, true, true] = [(0, 1), (2, 4)] := by decide
example : trueRuns [true, true, false] = [(0, 2)] := by decide
example : trueRuns [false, true, true, false, false, true] = [(1, 3), (5, 6)] := by decide
example : trueRuns [true, true, true] = [(0, 3)] := by decide
example : trueRuns [false, false] = [] := by decide
example : trueRuns [] = [] := by decide
example : (2, 4) ∈ trueRuns [true, false, true, true] := by decide
example : (2, 3) ∉ trueRuns [true, false, true, true] := by decide
/-- the specification (right-hand side) really holds for a reported run … -/
example : (2, 4) ∈ trueRuns [true, false, true, true] :=
  (trueRuns_spec _ 2 4).2
    ⟨by decide, by decide, fun i h1 h2 => by
      have : i = 2 ∨ i = 3 := by omega
      rcases this with rfl | rfl <;> rfl, Or.inr rfl, Or.inl rfl⟩
/-- … and fails for a non-maximal sub-run. -/
example : ¬ ((2 : Nat) < 3 ∧ 3 ≤ [true, false, true, true].length ∧
      (∀ i, 2 ≤ i → i < 3 → [true, false, true, true][i]? = some true) ∧
      ((2 : Nat) = 0 ∨ [true, false, true, true][2 - 1]? = some false) ∧
      (3 = [true, false, true, true].length ∨ [true, false, true, true][3]? = some false)) :=
  fun h => absurd ((trueRuns_spec _ 2 3).2 h) (by decide)

end Spowtd
