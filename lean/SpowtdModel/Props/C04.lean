import SpowtdModel.Lemmas.Runs
/-
  C04 — interstorm intervals are the maximal, clean, rain-free stretches of at least two
  samples; the stored per-step flags follow the same definitions.
  Carrier-free: `J` (rise flag) and `W` (rain > 0) are arbitrary boolean vectors.
-/
namespace Spowtd

/-- The unexplained-rise flag is off at sample `k` exactly when some rainy step `m ≤ k` exists
    after which (up to `k`) no rise ends at a rain-free sample. -/
theorem mystery_spec (J W : List Bool) (k : Nat) (hk : k < (mysteryMask J W).length) :
    (mysteryMask J W)[k]? = some false ↔
      ∃ m, m ≤ k ∧ W[m]? = some true ∧
        ∀ i, m < i → i ≤ k → (W[i]? = some true ∨ J[i]? = some false) := by
  rw [mysteryMask_false_iff]
  exact ⟨fun h => h.2, fun h => ⟨by rw [mysteryMask_length'] at hk; exact hk, h⟩⟩

theorem mysteryMask_length (J W : List Bool) : (mysteryMask J W).length = min J.length W.length :=
  mysteryMask_length' J W

/-- The interstorm flag: no rain on the step starting at the sample, some rain earlier in the
    record, and no rise ending at a rain-free sample since the last rainy step. -/
theorem interstorm_flag_spec (J W : List Bool) (k : Nat) (hk : k < min J.length W.length) :
    (interstormFlag J W)[k]? = some true ↔
      W[k]? = some false ∧
      ∃ m, m < k ∧ W[m]? = some true ∧
        ∀ i, m < i → i ≤ k → (W[i]? = some false ∧ J[i]? = some false) :=
  interstormFlag_true_iff_last J W k hk

/-- Recorded interstorm intervals are exactly the maximal runs of the flag holding at least two
    samples, each exactly once and in order. -/
theorem interstorms_spec (J W : List Bool) (a b : Nat) :
    (a, b) ∈ interstormRuns J W ↔
      a + 2 ≤ b ∧ b ≤ (interstormFlag J W).length ∧
      (∀ i, a ≤ i → i < b → (interstormFlag J W)[i]? = some true) ∧
      (a = 0 ∨ (interstormFlag J W)[a - 1]? = some false) ∧
      (b = (interstormFlag J W).length ∨ (interstormFlag J W)[b]? = some false) :=
  mem_interstormRuns J W a b

theorem interstorms_once (J W : List Bool) : (interstormRuns J W).Nodup :=
  interstormRuns_nodup J W

/-- "in order": consecutive recorded intervals are separated. -/
theorem interstorms_sorted (J W : List Bool) :
    (interstormRuns J W).Pairwise (fun r r' => r.2 < r'.1) :=
  interstormRuns_pairwise J W

/-- Rain always clears the unexplained flag; a rise at a rain-free sample always sets it
    (the two assertions at the end of `get_mystery_jump_mask` can never fail). -/
theorem mystery_asserts (J W : List Bool) (k : Nat) :
    (W[k]? = some true → J[k]? ≠ none → (mysteryMask J W)[k]? = some false) ∧
    (W[k]? = some false → J[k]? = some true → (mysteryMask J W)[k]? = some true) :=
  mysteryMask_asserts J W k

/-! Non-vacuity: concrete evaluations.  `J` = rise flag, `W` = rain flag. -/

/-- starts unexplained, rain (index 1) clears the flag, a dry rise (index 3) sets it again,
    and it stays set until the next rain (index 5). -/
example : mysteryMask [false, false, false, true, false, false, false]
                      [false, true, false, false, false, true, false]
            = [true, false, false, true, true, false, false] := by decide
/-- a rise on a rainy step is explained -/
example : mysteryMask [true, true] [true, true] = [false, false] := by decide
/-- truncation to the shorter vector -/
example : mysteryMask [false, false, false] [true] = [false] := by decide
example : interstormFlag [false, false, false, true, false, false, false]
                         [false, true, false, false, false, true, false]
            = [false, false, true, false, false, false, true] := by decide
/-- one interval `[2, 5)` after the rain at 1; the single flagged sample at the end is too short -/
example : interstormRuns [false, false, false, false, false, false, false]
                         [false, true, false, false, false, true, false] = [(2, 5)] := by decide
/-- two intervals -/
example : interstormRuns [false, false, false, false, false, false, false, false]
                         [true, false, false, true, true, false, false, false] = [(1, 3), (5, 8)] := by
  decide
/-- a dry rise cuts the interval short -/
example : interstormRuns [false, false, false, true, false, false]
                         [true, false, false, false, false, false] = [(1, 3)] := by decide
/-- no rain at all: nothing is recorded -/
example : interstormRuns [false, false, false] [false, false, false] = [] := by decide
/-- the specs' right-hand sides are satisfiable on concrete data -/
example : (interstormFlag [false, false, false] [true, false, false])[2]? = some true :=
  (interstorm_flag_spec _ _ 2 (by decide)).2
    ⟨rfl, 0, by decide, rfl, fun i h1 h2 => by
      have : i = 1 ∨ i = 2 := by omega
      rcases this with rfl | rfl <;> exact ⟨rfl, rfl⟩⟩
example : (mysteryMask [false, true] [true, false])[1]? ≠ some false := by decide

end Spowtd
