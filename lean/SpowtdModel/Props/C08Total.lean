import SpowtdModel.Lemmas.LeastSquares
import SpowtdModel.Lemmas.AlignTotal
/-
  C08 / C05 (the alignment as a whole) — the model of `get_series_time_offsets` (`alignSeries`) either
  aligns the collection or refuses it for one of two stated reasons: the collection is empty, or no
  water level of the main group is shared by two intervals (there is nothing to align).  It never
  fails for a numerical reason (`singular`): the sorted, re-based series give a proper head mapping
  with distinct level ids, its main group is connected (`main_body_connected`), dropping the levels
  crossed by a single interval keeps it connected, and on a connected proper mapping the solver is
  complete (`solveOffsets_total`).  Over `Rat`.
-/
namespace Spowtd

/-- The alignment succeeds, or the collection is empty, or no level is shared. -/
theorem alignSeries_total (step : Rat) (series : List (List (Rat × Rat))) :
    (∃ a, alignSeries step series = .ok a) ∨ alignSeries step series = .error .empty ∨
      alignSeries step series = .error .oneSeries :=
  LS.alignSeries_total step series

/-- It is refused as `oneSeries` exactly when, in the main group of the head mapping of the sorted
    re-based series, no level is crossed by two intervals. -/
theorem alignSeries_oneSeries_iff (step : Rat) (series : List (List (Rat × Rat))) (hne : series ≠ []) :
    alignSeries step series = .error .oneSeries ↔
      let hm := headMapping step ((sortByFirst (series.zipIdx.map (fun p => (p.2, rebase p.1)))).map (·.2))
      dropSingletons (restrictTo hm (mainComponent hm)) = [] :=
  LS.alignSeries_oneSeries_iff step series hne

/-! Non-vacuity: two overlapping falling series are aligned; two series far apart are refused. -/
example : ∃ a, alignSeries (1 : Rat) [[(0, 5), (10, 0)], [(0, 4), (10, 1)]] = .ok a := by
  rcases alignSeries_total 1 [[(0, 5), (10, 0)], [(0, 4), (10, 1)]] with h | h | h
  · exact h
  · exact absurd h (by decide +kernel)
  · exact absurd h (by decide +kernel)

example : alignSeries (1 : Rat) [[(0, 5), (10, 4)], [(0, 105), (10, 104)]] = .error .oneSeries := by
  decide +kernel

end Spowtd
