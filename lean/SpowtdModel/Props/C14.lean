import SpowtdModel.Lemmas.RealNum
import SpowtdModel.Lemmas.SplineReal
/-
  C14 — the spline specific yield is constant outside its knots and its `integrate` is the area
  under that same function, for all limits in either order.  Over `ℝ`; FITPACK's evaluator
  `inner` and integrator `splint` are parameters with the stated contract.
-/
namespace Spowtd
open intervalIntegral

/-- constant extrapolation below and above the knot range -/
theorem evalExt_const_outside (inner : ℝ → ℝ) (xmin xmax x : ℝ) (h : xmin ≤ xmax) :
    (x ≤ xmin → evalExt inner xmin xmax x = inner xmin) ∧
    (xmax ≤ x → evalExt inner xmin xmax x = inner xmax) ∧
    (xmin ≤ x → x ≤ xmax → evalExt inner xmin xmax x = inner x) := by
  refine ⟨fun h1 => ?_, fun h2 => ?_, fun h1 h2 => ?_⟩
  · rw [evalExt_real, max_eq_right h1, min_eq_left h]
  · rw [evalExt_real, max_eq_left (le_trans h h2), min_eq_right h2]
  · rw [evalExt_real, max_eq_left h1, min_eq_left h2]

/-- `integrate a b` is the integral of the clamped extension between `a` and `b`, for every
    position of the limits relative to the knot range and in either order. -/
theorem integrate_is_area (inner : ℝ → ℝ) (splint : ℝ → ℝ → ℝ) (xmin xmax : ℝ) (hx : xmin ≤ xmax)
    (hc : Continuous inner)
    (hs : ∀ lo hi, xmin ≤ lo → lo ≤ hi → hi ≤ xmax → splint lo hi = ∫ x in lo..hi, inner x)
    (hz : ∀ lo, xmax ≤ lo → splint lo xmax = 0) (a b : ℝ) :
    integrateExt inner splint xmin xmax a b = ∫ x in a..b, evalExt inner xmin xmax x := by
  exact integrateExt_is_area inner splint xmin xmax hx hc hs hz a b

/-- additive over adjacent ranges -/
theorem integrate_additive (inner : ℝ → ℝ) (splint : ℝ → ℝ → ℝ) (xmin xmax : ℝ) (hx : xmin ≤ xmax)
    (hc : Continuous inner)
    (hs : ∀ lo hi, xmin ≤ lo → lo ≤ hi → hi ≤ xmax → splint lo hi = ∫ x in lo..hi, inner x)
    (hz : ∀ lo, xmax ≤ lo → splint lo xmax = 0) (a b c : ℝ) :
    integrateExt inner splint xmin xmax a b + integrateExt inner splint xmin xmax b c =
      integrateExt inner splint xmin xmax a c := by
  exact integrateExt_additive inner splint xmin xmax hx hc hs hz a b c

/-- changes sign when the limits are swapped; zero on an empty range -/
theorem integrate_antisymm (inner : ℝ → ℝ) (splint : ℝ → ℝ → ℝ) (xmin xmax a b : ℝ) :
    integrateExt inner splint xmin xmax b a = - integrateExt inner splint xmin xmax a b ∧
    integrateExt inner splint xmin xmax a a = 0 := by
  exact ⟨integrateExt_antisymm inner splint xmin xmax a b, integrateExt_self inner splint xmin xmax a⟩

/-- never decreases with the upper limit when the function is non-negative -/
theorem integrate_nonneg (inner : ℝ → ℝ) (splint : ℝ → ℝ → ℝ) (xmin xmax : ℝ) (hx : xmin ≤ xmax)
    (hc : Continuous inner) (hpos : ∀ x, 0 ≤ inner x)
    (hs : ∀ lo hi, xmin ≤ lo → lo ≤ hi → hi ≤ xmax → splint lo hi = ∫ x in lo..hi, inner x)
    (hz : ∀ lo, xmax ≤ lo → splint lo xmax = 0) (a b : ℝ) (hab : a ≤ b) :
    0 ≤ integrateExt inner splint xmin xmax a b := by
  exact integrateExt_nonneg inner splint xmin xmax hx hc hpos hs hz a b hab

/-- Non-vacuity: the contract on `inner`/`splint` is satisfiable (constant 2 on the knots `[0, 1]`). -/
example : ∃ (inner : ℝ → ℝ) (splint : ℝ → ℝ → ℝ) (xmin xmax : ℝ), xmin ≤ xmax ∧ Continuous inner ∧
    (∀ x, 0 ≤ inner x) ∧
    (∀ lo hi, xmin ≤ lo → lo ≤ hi → hi ≤ xmax → splint lo hi = ∫ x in lo..hi, inner x) ∧
    (∀ lo, xmax ≤ lo → splint lo xmax = 0) := by
  refine ⟨fun _ => 2, fun lo hi => if 1 ≤ lo then 0 else 2 * (min hi 1 - max lo 0), 0, 1,
    zero_le_one, continuous_const, fun _ => by norm_num, ?_, ?_⟩
  · intro lo hi h0 h1 h2
    rw [intervalIntegral.integral_const, smul_eq_mul]
    beta_reduce
    by_cases h : 1 ≤ lo
    · rw [if_pos h]
      have : hi = lo := le_antisymm (le_trans h2 h) h1
      rw [this, sub_self, zero_mul]
    · rw [if_neg h, min_eq_left h2, max_eq_left h0, mul_comm]
  · intro lo h
    exact if_pos h

end Spowtd
