import SpowtdModel.Model.Txn
import SpowtdModel.Lemmas.Txn
/-
  C20 — each workflow step is all-or-nothing and independent steps commute.
-/
namespace Spowtd.Txn
variable {S W : Type}

/-- A step that is one transaction leaves, at *every* crash point, either exactly the previous
    content or the complete result — and we know which. -/
theorem atomic_exact (apply : S → W → S) (s : S) (ws : List W) (k : Nat) :
    let tr : List (Ev W) := .begin :: (ws.map .write ++ [.commit])
    (k < tr.length → crashAfter apply s tr k = s) ∧
    (tr.length ≤ k → crashAfter apply s tr k = applyAll apply s ws) := by
  intro tr
  have hlen : tr.length = ws.length + 2 := length_txn ws Ev.commit
  constructor
  · intro hk
    exact crashAfter_txn_lt apply s ws Ev.commit k (by omega)
  · intro hk
    exact crashAfter_txn_ge apply s ws Ev.commit k (by omega)

theorem atomic (apply : S → W → S) (s : S) (tr : List (Ev W)) (h : SingleTxn tr) (k : Nat) :
    crashAfter apply s tr k = s ∨ crashAfter apply s tr k = applyAll apply s (writesOf tr) := by
  obtain ⟨ws, rfl⟩ := h
  rw [writesOf_txn]
  have h := atomic_exact apply s ws k
  by_cases hk : k < (Ev.begin :: (ws.map Ev.write ++ [Ev.commit])).length
  · exact Or.inl (h.1 hk)
  · exact Or.inr (h.2 (Nat.le_of_not_lt hk))

/-- A step that fails at any internal write and rolls back leaves the previous content, at every
    point, and a later run starts from that content. -/
theorem error_rolls_back (apply : S → W → S) (s : S) (tr : List (Ev W)) (h : FailedTxn tr) (k : Nat) :
    crashAfter apply s tr k = s ∧ (run apply s tr).pending = none := by
  obtain ⟨ws, rfl⟩ := h
  constructor
  · by_cases hk : k < ws.length + 2
    · exact crashAfter_txn_lt apply s ws Ev.rollback k hk
    · rw [crashAfter_txn_ge apply s ws Ev.rollback k (Nat.le_of_not_lt hk)]
      rfl
  · rw [run_failed]

/-- Failed attempts followed by a successful run: the file ends with the complete result. -/
theorem rerunnable (apply : S → W → S) (s : S) (fails : List (List (Ev W))) (ok : List (Ev W))
    (hf : ∀ tr ∈ fails, FailedTxn tr) (ho : SingleTxn ok) :
    (run apply s (fails.flatten ++ ok)).committed = applyAll apply s (writesOf ok) := by
  obtain ⟨ws, rfl⟩ := ho
  rw [run_append_of_closed apply s s _ _ (run_flatten_failed apply s fails hf), run_single,
    writesOf_txn]

theorem singleTxnB_iff (tr : List (Ev W)) : singleTxnB tr = true ↔ SingleTxn tr := by
  constructor
  · exact singleTxn_of_singleTxnB tr
  · rintro ⟨ws, rfl⟩
    exact singleTxnB_txn ws

/-- Conversely a trace that commits in the middle exposes a mixture: the decidable test is not
    just sufficient but necessary for atomicity at every crash point (for writes that change the
    store). -/
theorem commit_in_middle_not_atomic (apply : S → W → S) (s : S) (ws₁ ws₂ : List W)
    (h1 : applyAll apply s ws₁ ≠ s) (h2 : applyAll apply s (ws₁ ++ ws₂) ≠ applyAll apply s ws₁) :
    let tr : List (Ev W) := .begin :: (ws₁.map .write ++ [.commit]) ++ (.begin :: (ws₂.map .write ++ [.commit]))
    ∃ k, crashAfter apply s tr k ≠ s ∧ crashAfter apply s tr k ≠ applyAll apply s (ws₁ ++ ws₂) := by
  intro tr
  refine ⟨(Ev.begin :: (ws₁.map Ev.write ++ [Ev.commit])).length, ?_⟩
  have hc : crashAfter apply s tr (Ev.begin :: (ws₁.map Ev.write ++ [Ev.commit])).length =
      applyAll apply s ws₁ := by
    show (run apply s (List.take _ (_ ++ _))).committed = _
    rw [List.take_left, run_single]
  rw [hc]
  exact ⟨h1, fun h => h2 h.symm⟩

/-! ### histories -/
variable {R : Type}

/-- Steps with independent footprints commute, whether or not their guards let them run. -/
theorem independent_commute (a b : Step R) (fa fb : Footprint) (ha : Respects a fa) (hb : Respects b fb)
    (hi : independentB fa fb = true) (s : Table → R) :
    attempt a (attempt b s) = attempt b (attempt a s) := by
  have hi' := hi
  unfold independentB at hi'
  rw [Bool.and_eq_true] at hi'
  obtain ⟨hd1, hd2⟩ := hi'
  have hA := indep_pre_eff a b fa fb ha hb hd2
  have hB := indep_pre_eff b a fb fa hb ha hd1
  rw [disjointT_iff] at hd1 hd2
  cases hpa : a.pre s <;> cases hpb : b.pre s
  · rw [attempt_of_pre_false b s hpb, attempt_of_pre_false a s hpa, attempt_of_pre_false b s hpb]
  · rw [attempt_of_pre_true b s hpb, attempt_of_pre_false a s hpa, attempt_of_pre_true b s hpb,
      attempt_of_pre_false a _ ((hA s).1.trans hpa)]
  · rw [attempt_of_pre_false b s hpb, attempt_of_pre_true a s hpa,
      attempt_of_pre_false b _ ((hB s).1.trans hpb)]
  · rw [attempt_of_pre_true b s hpb, attempt_of_pre_true a s hpa,
      attempt_of_pre_true a _ ((hA s).1.trans hpa), attempt_of_pre_true b _ ((hB s).1.trans hpb)]
    funext t
    by_cases hta : t ∈ fa.writes
    · have htb : t ∉ fb.writes := fun h => hd1 t hta (List.mem_append.mpr (Or.inr h))
      rw [(hA s).2 t hta, hb.1 _ t htb]
    · by_cases htb : t ∈ fb.writes
      · rw [(hB s).2 t htb, ha.1 _ t hta]
      · rw [ha.1 _ t hta, hb.1 _ t htb, hb.1 _ t htb, ha.1 _ t hta]

/-- The declared footprints: classification, grid setting and curvature setting are pairwise
    independent; rise and recession are independent of each other and of curvature. -/
theorem declared_independence :
    independentB fpClassify fpZetaGrid = true ∧ independentB fpClassify fpCurvature = true ∧
    independentB fpZetaGrid fpCurvature = true ∧ independentB fpRise fpRecession = true ∧
    independentB fpRise fpCurvature = true ∧ independentB fpRecession fpCurvature = true := by
  decide

/-- … while rise and recession do depend on classification and on the grid (no false claim). -/
theorem declared_dependence :
    independentB fpClassify fpRise = false ∧ independentB fpZetaGrid fpRise = false ∧
    independentB fpClassify fpRecession = false ∧ independentB fpZetaGrid fpRecession = false := by
  decide

/-- An attempt whose guard fails changes nothing: failed attempts made in between are invisible. -/
theorem failed_attempts_invisible (h : List (Step R)) (s : Table → R) (f : Step R) (i : Nat)
    (hf : f.pre (runHistory (h.take i) s) = false) :
    runHistory (h.take i ++ f :: h.drop i) s = runHistory h s := by
  rw [runHistory_append, runHistory_cons, attempt_of_pre_false f _ hf, ← runHistory_append,
    List.take_append_drop]

/-- Swapping two adjacent independent steps anywhere in a history does not change the result;
    hence any two histories related by such swaps agree. -/
theorem history_swap (pre post : List (Step R)) (a b : Step R) (fa fb : Footprint)
    (ha : Respects a fa) (hb : Respects b fb) (hi : independentB fa fb = true) (s : Table → R) :
    runHistory (pre ++ a :: b :: post) s = runHistory (pre ++ b :: a :: post) s := by
  rw [runHistory_append, runHistory_append, runHistory_cons, runHistory_cons, runHistory_cons,
    runHistory_cons, independent_commute a b fa fb ha hb hi]

/-! ### non-vacuity -/
section NonVacuity

private def snoc (s : List Nat) (w : Nat) : List Nat := s ++ [w]
private def trOk : List (Ev Nat) := [.begin, .write 1, .write 2, .commit]
private def trMid : List (Ev Nat) := [.begin, .write 1, .commit, .begin, .write 2, .commit]
private def trFail : List (Ev Nat) := [.begin, .write 1, .write 2, .rollback]

example : crashAfter snoc [] trOk 0 = [] := by decide
example : crashAfter snoc [] trOk 1 = [] := by decide
example : crashAfter snoc [] trOk 2 = [] := by decide
example : crashAfter snoc [] trOk 3 = [] := by decide
example : crashAfter snoc [] trOk 4 = [1, 2] := by decide
example : crashAfter snoc [] trOk 7 = [1, 2] := by decide
example : applyAll snoc [] (writesOf trOk) = [1, 2] := by decide
/-- a commit in the middle exposes `[1]`, which is neither `[]` nor `[1, 2]` -/
example : crashAfter snoc [] trMid 3 = [1] := by decide
example : crashAfter snoc [] trMid 5 = [1] := by decide
example : crashAfter snoc [] trMid 6 = [1, 2] := by decide
example : singleTxnB trOk = true := by decide
example : singleTxnB trMid = false := by decide
example : singleTxnB trFail = false := by decide
example : singleTxnB ([] : List (Ev Nat)) = false := by decide
example : SingleTxn trOk := ⟨[1, 2], rfl⟩
example : ¬ SingleTxn trMid := fun h => absurd ((singleTxnB_iff trMid).mpr h) (by decide)
example : FailedTxn trFail := ⟨[1, 2], rfl⟩
example : crashAfter snoc [] trFail 3 = [] ∧ crashAfter snoc [] trFail 4 = [] := by decide
example : (run snoc [] (trFail ++ trFail ++ trOk)).committed = [1, 2] := by decide

/-- bumps `curvature` -/
private def stA : Step Nat :=
  { pre := fun _ => true
    eff := fun s t => match t with | .curvature => s .curvature + 1 | _ => s t }
/-- sets `zetaGrid` from `waterLevel`, if `waterLevel` is positive -/
private def stB : Step Nat :=
  { pre := fun s => decide (0 < s .waterLevel)
    eff := fun s t => match t with | .zetaGrid => s .waterLevel + 10 | _ => s t }
/-- doubles `curvature` -/
private def stC : Step Nat :=
  { pre := fun _ => true
    eff := fun s t => match t with | .curvature => 2 * s .curvature | _ => s t }
private def fpB : Footprint := { reads := [.waterLevel], writes := [.zetaGrid] }
private def st0 : Table → Nat := fun t => match t with | .waterLevel => 3 | _ => 0

private theorem stA_respects : Respects stA fpCurvature := by
  refine ⟨fun s t ht => ?_, fun s s' h => ⟨rfl, fun t ht => ?_⟩⟩
  · cases t <;> first | rfl | exact absurd (List.mem_singleton.mpr rfl) ht
  · obtain rfl := List.mem_singleton.mp ht
    show s .curvature + 1 = s' .curvature + 1
    rw [h .curvature (Or.inr ht)]

private theorem stC_respects : Respects stC fpCurvature := by
  refine ⟨fun s t ht => ?_, fun s s' h => ⟨rfl, fun t ht => ?_⟩⟩
  · cases t <;> first | rfl | exact absurd (List.mem_singleton.mpr rfl) ht
  · obtain rfl := List.mem_singleton.mp ht
    show 2 * s .curvature = 2 * s' .curvature
    rw [h .curvature (Or.inr ht)]

private theorem stB_respects : Respects stB fpB := by
  refine ⟨fun s t ht => ?_, fun s s' h => ⟨?_, fun t ht => ?_⟩⟩
  · cases t <;> first | rfl | exact absurd (List.mem_singleton.mpr rfl) ht
  · show decide (0 < s .waterLevel) = decide (0 < s' .waterLevel)
    rw [h .waterLevel (Or.inl (List.mem_singleton.mpr rfl))]
  · obtain rfl := List.mem_singleton.mp ht
    show s .waterLevel + 10 = s' .waterLevel + 10
    rw [h .waterLevel (Or.inl (List.mem_singleton.mpr rfl))]

example : independentB fpCurvature fpB = true := by decide
/-- disjoint footprints: the two steps commute, and both really ran -/
example : attempt stA (attempt stB st0) = attempt stB (attempt stA st0) :=
  independent_commute stA stB fpCurvature fpB stA_respects stB_respects (by decide) st0
example : attempt stA (attempt stB st0) .curvature = 1 ∧ attempt stA (attempt stB st0) .zetaGrid = 13 ∧
    attempt stB (attempt stA st0) .curvature = 1 ∧ attempt stB (attempt stA st0) .zetaGrid = 13 := by
  decide
/-- overlapping footprints: both steps respect `fpCurvature`, they are not independent, and they
    do not commute -/
example : independentB fpCurvature fpCurvature = false := by decide
example : attempt stA (attempt stC st0) .curvature = 1 ∧ attempt stC (attempt stA st0) .curvature = 2 := by
  decide
example : attempt stA (attempt stC st0) ≠ attempt stC (attempt stA st0) :=
  fun h => absurd (congrFun h .curvature) (by decide)
/-- a guard that fails: the attempt is invisible -/
example : runHistory ([stA].take 1 ++ stB :: [stA].drop 1) (fun _ => 0) .zetaGrid = 0 := by decide

end NonVacuity

end Spowtd.Txn
