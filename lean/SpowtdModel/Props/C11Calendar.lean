import SpowtdModel.Model.Calendar
import SpowtdModel.Lemmas.Calendar
/-
  C11 (calendar) — the day-number arithmetic used to read and render timestamps is a
  bijection between valid civil dates and day numbers.
-/
namespace Spowtd

/-- day number → civil date → day number -/
theorem days_civil_roundtrip (n : Int) :
    let c := civilFromDays n
    daysFromCivil c.1 c.2.1 c.2.2 = n := by
  intro c
  obtain ⟨z, hz⟩ : ∃ z, z = n + 719468 := ⟨_, rfl⟩
  obtain ⟨era, hera⟩ : ∃ era, era = z / 146097 := ⟨_, rfl⟩
  obtain ⟨doe, hdoe⟩ : ∃ doe, doe = z - era * 146097 := ⟨_, rfl⟩
  obtain ⟨yoe, hyoe⟩ :
    ∃ yoe, yoe = (doe - doe / 1460 + doe / 36524 - doe / 146096) / 365 := ⟨_, rfl⟩
  obtain ⟨doy, hdoy⟩ : ∃ doy, doy = doe - (365 * yoe + yoe / 4 - yoe / 100) := ⟨_, rfl⟩
  obtain ⟨mp, hmp⟩ : ∃ mp, mp = (5 * doy + 2) / 153 := ⟨_, rfl⟩
  have hc : c = _ := Cal.civilFromDays_eq n z era doe yoe doy mp hz hera hdoe hyoe hdoy hmp
  rw [hc]
  obtain ⟨m, hm⟩ : ∃ m, m = if mp < 10 then mp + 3 else mp - 9 := ⟨_, rfl⟩
  simp only [← hm]
  have hdb : 0 ≤ doe ∧ doe < 146097 := by omega
  have hA := Cal.yoe_of_doe doe yoe hdb.1 hdb.2 hyoe
  rw [← hdoy] at hA
  have hM := Cal.md_of_doy doy mp _ hA.2.2.1 (by omega) hmp rfl
  rw [Cal.daysFromCivil_eq _ m _ (yoe + era * 400) era yoe mp (by omega) (by omega) (by omega)
    (by omega)]
  omega

/-- civil date → day number → civil date, for every valid date of the proleptic Gregorian
    calendar (years 1 … 9999, as `datetime` accepts) -/
theorem civil_days_roundtrip (y m d : Int) (h : validDate y m d = true) :
    civilFromDays (daysFromCivil y m d) = (y, m, d) := by
  obtain ⟨hy1, hy2, hm1, hm2, hd1, hd2⟩ := (Cal.validDate_iff y m d).1 h
  obtain ⟨y', hy'⟩ : ∃ y', y' = if m ≤ 2 then y - 1 else y := ⟨_, rfl⟩
  obtain ⟨era, hera⟩ : ∃ era, era = y' / 400 := ⟨_, rfl⟩
  obtain ⟨yoe, hyoe⟩ : ∃ yoe, yoe = y' - era * 400 := ⟨_, rfl⟩
  obtain ⟨mp, hmp⟩ : ∃ mp, mp = (m + 9) % 12 := ⟨_, rfl⟩
  obtain ⟨doy, hdoy⟩ : ∃ doy, doy = (153 * mp + 2) / 5 + d - 1 := ⟨_, rfl⟩
  obtain ⟨doe, hdoe⟩ : ∃ doe, doe = yoe * 365 + yoe / 4 - yoe / 100 + doy := ⟨_, rfl⟩
  rw [Cal.daysFromCivil_eq y m d y' era yoe mp hy' hera hyoe hmp, ← hdoy, ← hdoe]
  have hyb : 0 ≤ yoe ∧ yoe ≤ 399 := by omega
  have hmb : 0 ≤ mp ∧ mp ≤ 11 := by omega
  have hM := Cal.doy_of_md mp d doy hmb.1 hmb.2 hd1 (by omega) hdoy
  have hD := Cal.doe_of_yoe yoe doy doe hyb.1 hyb.2 hM.1 (by omega) hdoe
  rw [Cal.civilFromDays_eq _ (era * 146097 + doe) era doe yoe doy mp (by omega) (by omega)
    (by omega) hD.2.2.symm (by omega) hM.2.2.1.symm]
  refine Prod.ext ?_ (Prod.ext ?_ ?_) <;> simp only [] <;> omega

/-- consecutive days get consecutive numbers: the day after `y-m-d` -/
theorem civilFromDays_valid (n : Int) (h0 : -719162 ≤ n) (h1 : n ≤ 2932896) :
    let c := civilFromDays n
    validDate c.1 c.2.1 c.2.2 = true := by
  intro c
  obtain ⟨z, hz⟩ : ∃ z, z = n + 719468 := ⟨_, rfl⟩
  obtain ⟨era, hera⟩ : ∃ era, era = z / 146097 := ⟨_, rfl⟩
  obtain ⟨doe, hdoe⟩ : ∃ doe, doe = z - era * 146097 := ⟨_, rfl⟩
  obtain ⟨yoe, hyoe⟩ :
    ∃ yoe, yoe = (doe - doe / 1460 + doe / 36524 - doe / 146096) / 365 := ⟨_, rfl⟩
  obtain ⟨doy, hdoy⟩ : ∃ doy, doy = doe - (365 * yoe + yoe / 4 - yoe / 100) := ⟨_, rfl⟩
  obtain ⟨mp, hmp⟩ : ∃ mp, mp = (5 * doy + 2) / 153 := ⟨_, rfl⟩
  have hc : c = _ := Cal.civilFromDays_eq n z era doe yoe doy mp hz hera hdoe hyoe hdoy hmp
  rw [hc]
  obtain ⟨m, hm⟩ : ∃ m, m = if mp < 10 then mp + 3 else mp - 9 := ⟨_, rfl⟩
  obtain ⟨d, hd⟩ : ∃ d, d = doy - (153 * mp + 2) / 5 + 1 := ⟨_, rfl⟩
  simp only [← hm, ← hd]
  have hdb : 0 ≤ doe ∧ doe < 146097 := by omega
  have hA := Cal.yoe_of_doe doe yoe hdb.1 hdb.2 hyoe
  rw [← hdoy] at hA
  obtain ⟨hy0, hy399, hdoy0, hleap⟩ := hA
  have hdoy365 : doy ≤ 365 := by omega
  have hM := Cal.md_of_doy doy mp d hdoy0 hdoy365 hmp hd
  obtain ⟨hmp0, hmp11, hd1, hdm⟩ := hM
  rw [Cal.validDate_iff]
  have he : 0 ≤ era ∧ era ≤ 24 := by omega
  clear hc c hyoe
  have g1 : 1 ≤ (if m ≤ 2 then yoe + era * 400 + 1 else yoe + era * 400) := by
    clear hleap hdm; omega
  have g2 : (if m ≤ 2 then yoe + era * 400 + 1 else yoe + era * 400) ≤ 9999 := by
    clear hleap hdm; omega
  have g3 : 1 ≤ m ∧ m ≤ 12 := by
    clear hleap hdm; omega
  refine ⟨g1, g2, g3.1, g3.2, hd1, ?_⟩
  clear g1 g2 g3 h0 h1 hz hera hdoe hdb he hmp hd hdoy
  have hc : mp = 0 ∨ mp = 1 ∨ mp = 2 ∨ mp = 3 ∨ mp = 4 ∨ mp = 5 ∨ mp = 6 ∨ mp = 7 ∨ mp = 8 ∨
      mp = 9 ∨ mp = 10 ∨ mp = 11 := by omega
  rcases hc with h | h | h | h | h | h | h | h | h | h | h | h <;> subst h <;>
    omega

/-- the Unix epoch -/
theorem epoch_day_zero : daysFromCivil 1970 1 1 = 0 ∧ civilFromDays 0 = (1970, 1, 1) := by
  decide

end Spowtd
