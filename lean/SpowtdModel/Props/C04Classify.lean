import SpowtdModel.Model.Classify
import SpowtdModel.Props.C04
import SpowtdModel.Lemmas.Classify
/-
  C04 at the level of a classified stretch / dataset.
-/
namespace Spowtd
variable {α : Type} [Num α]

/-- The three stored flags are the rise test of C03 shifted by one sample, the unexplained-rise
    state machine and the interstorm predicate, sample by sample. -/
theorem flags_agree (pick : List Nat → Nat) (s j : α) (dt : Int) (zeta rain : List α) (k : Nat)
    (hk : k < zeta.length) (hl : zeta.length = rain.length) :
    (classifyIdx pick s j dt zeta rain).flags[k]? =
      some ((flagJump j dt zeta).getD k false,
            (mysteryMask (flagJump j dt zeta) (wet rain)).getD k false,
            (interstormFlag (flagJump j dt zeta) (wet rain)).getD k false) ∧
    (flagJump j dt zeta)[k + 1]? = (jumps j dt zeta)[k]? :=
  ⟨classifyIdx_flags_getElem? pick s j dt zeta rain k hk hl, flagJump_succ j dt zeta k⟩

/-- Recorded interstorm intervals of a dataset are exactly the qualifying runs of its stretches. -/
theorem recorded_interstorms (pick : List Nat → Nat) (s j : α) (db : Loaded α)
    (c : Classified) (hc : classifyAll pick s j db = .ok c) (q : Int × Int) :
    q ∈ c.interstorms ↔
      ∃ l ∈ labelsOf db, ∃ a b,
        (a, b) ∈ interstormRuns (flagJump j db.step ((samplesOf db l).map (·.2.1)))
                                (wet ((samplesOf db l).map (·.2.2))) ∧
        q = (((samplesOf db l).map (·.1)).getD a 0, ((samplesOf db l).map (·.1)).getD (b - 1) 0) :=
  mem_interstorms_of_ok pick s j db c hc q

/-! ### Non-vacuity (dataset `Example.db`, kernel evaluation at `Rat`) -/
namespace Example

/-- stretch 0: the rise ends at sample 2, on a rainy step (explained); samples 3–5 are dry, flat and
    after rain: one interstorm interval from sample 3 to sample 5 -/
example : (classifyIdx pickFirst s j 3600 [10, 10, 14, 14, 14, 14] [0, 5, 5, 0, 0, 0]).flags =
    [(false, true, false), (false, false, false), (true, false, false),
     (false, false, true), (false, false, true), (false, false, true)] := by decide +kernel
example : flagJump j 3600 [10, 10, 14, 14, 14, 14] = [false, false, true, false, false, false] ∧
    jumps j 3600 [10, 10, 14, 14, 14, 14] = [false, true, false, false, false] := by decide +kernel
example : interstormRuns (flagJump j db.step ((samplesOf db 0).map (·.2.1)))
    (wet ((samplesOf db 0).map (·.2.2))) = [(3, 6)] := by decide +kernel
example : (classifyAll pickFirst s j db).toOption.map (·.interstorms) = some [(10800, 18000)] := by
  decide +kernel

end Example

end Spowtd
