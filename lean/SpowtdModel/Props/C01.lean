import SpowtdModel.Model.Classify
import SpowtdModel.Props.C02
import SpowtdModel.Props.C03
import SpowtdModel.Lemmas.Classify
/-
  C01 — classification completes on every well-formed loaded dataset, for every schedule and
  every pair of thresholds, and the recorded pairing is one-to-one and overlapping.
  Carrier-free: holds for every `Num α` instance, in particular IEEE `Float`.
-/
namespace Spowtd
variable {α : Type} [Num α]

/-- Totality: none of the model's three refusals can occur on a dataset that `load` produced. -/
theorem classify_total (pick : List Nat → Nat) (s j : α) (db : Loaded α)
    (h : wellFormedLoadedB db = true) : ∃ c, classifyAll pick s j db = .ok c := by
  sorry

/-- Index level (one gap-free stretch): no storm and no rise appears twice. -/
theorem pairing_injective_idx (pick : List Nat → Nat) (s j : α) (dt : Int) (zeta rain : List α) :
    ((classifyIdx pick s j dt zeta rain).pairs.map (·.1)).Nodup ∧
    ((classifyIdx pick s j dt zeta rain).pairs.map (·.2)).Nodup := by
  sorry

/-- Index level: each recorded pair is a heavy-rain run and a rise run sharing a time step. -/
theorem pairing_overlaps_idx (pick : List Nat → Nat) (s j : α) (dt : Int) (zeta rain : List α)
    (p : (Nat × Nat) × (Nat × Nat)) (hp : p ∈ (classifyIdx pick s j dt zeta rain).pairs) :
    p.1 ∈ trueRuns (heavy s rain) ∧ p.2 ∈ trueRuns (jumps j dt zeta) ∧
    ∃ i, p.1.1 ≤ i ∧ i < p.1.2 ∧ p.2.1 ≤ i ∧ i < p.2.2 := by
  sorry

/-- Dataset level: storm start epochs are pairwise distinct and rise start epochs are pairwise
    distinct (the UNIQUE / PRIMARY KEY constraints of the pairing table cannot fire). -/
theorem pairing_injective (pick : List Nat → Nat) (s j : α) (db : Loaded α)
    (h : wellFormedLoadedB db = true) (c : Classified) (hc : classifyAll pick s j db = .ok c) :
    (c.pairs.map (·.1.1)).Nodup ∧ (c.pairs.map (·.2.1)).Nodup := by
  sorry

/-- Dataset level: each recorded pair shares a whole time step `[t, t + step)`: it lies inside the
    storm `[start, thru)` and inside the rise `[start, thru]`; and both rows satisfy the schema's
    `start < thru` checks. -/
theorem pairing_overlaps (pick : List Nat → Nat) (s j : α) (db : Loaded α)
    (h : wellFormedLoadedB db = true) (c : Classified) (hc : classifyAll pick s j db = .ok c)
    (p : (Int × Int) × (Int × Int)) (hp : p ∈ c.pairs) :
    p.1.1 < p.1.2 ∧ p.2.1 < p.2.2 ∧
    ∃ t, p.1.1 ≤ t ∧ t + db.step ≤ p.1.2 ∧ p.2.1 ≤ t ∧ t + db.step ≤ p.2.2 := by
  sorry

end Spowtd
