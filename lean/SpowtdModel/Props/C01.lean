import SpowtdModel.Model.Classify
import SpowtdModel.Props.C02
import SpowtdModel.Props.C03
import SpowtdModel.Lemmas.Classify
/-
  C01 — classification completes on every well-formed loaded dataset, for every schedule and
  every pair of thresholds, and the recorded pairing is one-to-one and overlapping.
  Carrier-free: holds for every `Num α` instance, in particular IEEE `Float`.
-/
namespace Spowtd
variable {α : Type} [Num α]

/-- Totality: none of the model's three refusals can occur on a dataset that `load` produced. -/
theorem classify_total (pick : List Nat → Nat) (s j : α) (db : Loaded α)
    (h : wellFormedLoadedB db = true) : ∃ c, classifyAll pick s j db = .ok c :=
  classifyAll_total pick s j db h

/-- Index level (one gap-free stretch): no storm and no rise appears twice. -/
theorem pairing_injective_idx (pick : List Nat → Nat) (s j : α) (dt : Int) (zeta rain : List α) :
    ((classifyIdx pick s j dt zeta rain).pairs.map (·.1)).Nodup ∧
    ((classifyIdx pick s j dt zeta rain).pairs.map (·.2)).Nodup :=
  idxPairs_nodup pick (heavy s rain) (jumps j dt zeta)

/-- Index level: each recorded pair is a heavy-rain run and a rise run sharing a time step. -/
theorem pairing_overlaps_idx (pick : List Nat → Nat) (s j : α) (dt : Int) (zeta rain : List α)
    (p : (Nat × Nat) × (Nat × Nat)) (hp : p ∈ (classifyIdx pick s j dt zeta rain).pairs) :
    p.1 ∈ trueRuns (heavy s rain) ∧ p.2 ∈ trueRuns (jumps j dt zeta) ∧
    ∃ i, p.1.1 ≤ i ∧ i < p.1.2 ∧ p.2.1 ≤ i ∧ i < p.2.2 := by
  obtain ⟨h1, h2, h3⟩ := idxPairs_sound pick (heavy s rain) (jumps j dt zeta) p hp
  exact ⟨h1, h2, (overlaps_iff' _ _).1 h3⟩

/-- Dataset level: storm start epochs are pairwise distinct and rise start epochs are pairwise
    distinct (the UNIQUE / PRIMARY KEY constraints of the pairing table cannot fire). -/
theorem pairing_injective (pick : List Nat → Nat) (s j : α) (db : Loaded α)
    (h : wellFormedLoadedB db = true) (c : Classified) (hc : classifyAll pick s j db = .ok c) :
    (c.pairs.map (·.1.1)).Nodup ∧ (c.pairs.map (·.2.1)).Nodup :=
  pairs_nodup_of_ok pick s j db h c hc

/-- Dataset level: each recorded pair shares a whole time step `[t, t + step)`: it lies inside the
    storm `[start, thru)` and inside the rise `[start, thru]`; and both rows satisfy the schema's
    `start < thru` checks. -/
theorem pairing_overlaps (pick : List Nat → Nat) (s j : α) (db : Loaded α)
    (h : wellFormedLoadedB db = true) (c : Classified) (hc : classifyAll pick s j db = .ok c)
    (p : (Int × Int) × (Int × Int)) (hp : p ∈ c.pairs) :
    p.1.1 < p.1.2 ∧ p.2.1 < p.2.2 ∧
    ∃ t, p.1.1 ≤ t ∧ t + db.step ≤ p.1.2 ∧ p.2.1 ≤ t ∧ t + db.step ≤ p.2.2 :=
  pairs_overlap_of_ok pick s j db h c hc p hp

/-! ### Non-vacuity

The dataset `Example.db` (two stretches separated by a grid instant without data, exact `Rat`
arithmetic; see `Lemmas/Classify.lean`) satisfies the hypothesis of the theorems above, is
classified without refusal, and the recorded pairing is not empty.  All evaluations are done
by the kernel (`decide +kernel`: no native code, no extra axiom). -/
namespace Example

example : wellFormedLoadedB db = true := by decide +kernel

/-- one storm/rise pair per stretch, for both schedules -/
example : (classifyAll pickFirst s j db).toOption.map (·.pairs) =
    some [((3600, 10800), (3600, 7200)), ((25200, 32400), (28800, 32400))] := by decide +kernel
example : (classifyAll pickLast s j db).toOption.map (·.pairs) =
    some [((3600, 10800), (3600, 7200)), ((25200, 32400), (28800, 32400))] := by decide +kernel

/-- the theorems apply to it -/
example : ∃ c, classifyAll pickFirst s j db = .ok c :=
  classify_total pickFirst s j db (by decide +kernel)

/-- the well-formedness hypothesis is needed: without grid labels classification is refused -/
example : wellFormedLoadedB dbNoLabels = false := by decide +kernel
example : (classifyAll pickFirst s j dbNoLabels).toOption.map (·.pairs) = none := by decide +kernel

/-- index level: two storms `[0,1)`, `[2,4)` compete for the rise `[0,3)`; the rise goes to the storm
    starting at the same step, the other storm stays unpaired -/
example : (classifyIdx pickFirst s j 3600 [0, 2, 4, 6, 6] [5, 0, 5, 5, 0]).pairs = [((0, 1), (0, 3))] := by
  decide +kernel
example : trueRuns (heavy s [5, 0, 5, 5, 0]) = [(0, 1), (2, 4)] ∧
    trueRuns (jumps j 3600 [0, 2, 4, 6, 6]) = [(0, 3)] := by decide +kernel

end Example

end Spowtd
