import SpowtdModel.Model.Load
import SpowtdModel.Lemmas.LoadB
/-
  C10 (water levels, gaps, labels).
-/
namespace Spowtd
variable {α : Type} [Num α]

/-- Each gridded level is either a source measurement taken at that very instant or the value of
    numpy's interpolation formula on the two *adjacent* source measurements that bracket it. -/
theorem level_is_bracket_interpolation (f : Files α) (d : Loaded α) (h : load f false = .ok d)
    (g : Int) (v : α) (hv : (g, v) ∈ d.level) :
    ∃ i, ∃ a ∈ (sortRows f.level)[i]?,
      (a.1 = g ∧ v = a.2) ∨
      ∃ b ∈ (sortRows f.level)[i + 1]?, a.1 < g ∧ g < b.1 ∧
        v = Num.add (Num.mul (Num.div (Num.sub b.2 a.2) (Num.ofInt (b.1 - a.1))) (Num.ofInt (g - a.1))) a.2 := by
  sorry

/-- Over an ordered field the formula is the point of the chord: exact linear interpolation. -/
theorem interp_on_chord (x0 x1 g : Int) (y0 y1 : Rat) (h : x0 < x1) :
    Num.add (Num.mul (Num.div (Num.sub y1 y0) (Num.ofInt (x1 - x0))) (Num.ofInt (g - x0))) y0 =
      y0 + (y1 - y0) * ((g - x0 : Int) : Rat) / ((x1 - x0 : Int) : Rat) := by
  sorry

/-- No level is produced strictly inside a gap of the source record … -/
theorem no_level_in_gap (f : Files α) (d : Loaded α) (h : load f false = .ok d)
    (g : Int) (v : α) (hv : (g, v) ∈ d.level) :
    ∀ p ∈ gapsOf ((sortRows f.level).map (·.1)), ¬ (p.1 < g ∧ g < p.2) := by
  sorry

/-- … and a level is produced at every other non-closing grid instant. -/
theorem level_outside_gaps (f : Files α) (d : Loaded α) (h : load f false = .ok d)
    (g : Int) (hg : g ∈ gridCore f.rain f.level)
    (hgap : ∀ p ∈ gapsOf ((sortRows f.level).map (·.1)), ¬ (p.1 < g ∧ g < p.2)) :
    ∃ v, (g, v) ∈ d.level := by
  sorry

/-- A gap is a pair of consecutive source measurements further apart than the smallest step. -/
theorem gapsOf_spec (zt : List Int) (p : Int × Int) :
    p ∈ gapsOf zt ↔ p ∈ List.zip zt zt.tail ∧ ∃ m, minOf (diffs zt) = some m ∧ p.2 - p.1 ≠ m := by
  sorry

/-- Two instants carrying a level have the same label exactly when no gap separates them. -/
theorem labels_across_gap (f : Files α) (d : Loaded α) (h : load f false = .ok d)
    (g g' : Int) (v v' : α) (hv : (g, v) ∈ d.level) (hv' : (g', v') ∈ d.level) (hlt : g < g') :
    ∃ l l', (g, some l) ∈ d.grid ∧ (g', some l') ∈ d.grid ∧
      (l = l' ↔ ¬ ∃ p ∈ gapsOf ((sortRows f.level).map (·.1)), g ≤ p.1 ∧ p.2 ≤ g') := by
  sorry

end Spowtd
