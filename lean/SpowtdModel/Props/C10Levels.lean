import SpowtdModel.Model.Load
import SpowtdModel.Lemmas.LoadB
/-
  C10 (water levels, gaps, labels).
-/
namespace Spowtd
variable {α : Type} [Num α]

/-- Each gridded level is either a source measurement taken at that very instant or the value of
    numpy's interpolation formula on the two *adjacent* source measurements that bracket it. -/
theorem level_is_bracket_interpolation (f : Files α) (d : Loaded α) (h : load f false = .ok d)
    (g : Int) (v : α) (hv : (g, v) ∈ d.level) :
    ∃ i, ∃ a ∈ (sortRows f.level)[i]?,
      (a.1 = g ∧ v = a.2) ∨
      ∃ b ∈ (sortRows f.level)[i + 1]?, a.1 < g ∧ g < b.1 ∧
        v = Num.add (Num.mul (Num.div (Num.sub b.2 a.2) (Num.ofInt (b.1 - a.1))) (Num.ofInt (g - a.1))) a.2 := by
  obtain ⟨_, dt, _, hlev, _⟩ := LoadB.load_invB f d h
  rw [hlev, LoadB.mem_levelB] at hv
  exact LoadB.interp_bracketB _ g v hv.2.2

/-- Over an ordered field the formula is the point of the chord: exact linear interpolation. -/
theorem interp_on_chord (x0 x1 g : Int) (y0 y1 : Rat) (h : x0 < x1) :
    Num.add (Num.mul (Num.div (Num.sub y1 y0) (Num.ofInt (x1 - x0))) (Num.ofInt (g - x0))) y0 =
      y0 + (y1 - y0) * ((g - x0 : Int) : Rat) / ((x1 - x0 : Int) : Rat) := by
  exact LoadB.chordB x0 x1 g y0 y1 h

/-- No level is produced strictly inside a gap of the source record … -/
theorem no_level_in_gap (f : Files α) (d : Loaded α) (h : load f false = .ok d)
    (g : Int) (v : α) (hv : (g, v) ∈ d.level) :
    ∀ p ∈ gapsOf ((sortRows f.level).map (·.1)), ¬ (p.1 < g ∧ g < p.2) := by
  obtain ⟨hdup, dt, _, hlev, _⟩ := LoadB.load_invB f d h
  rw [hlev, LoadB.mem_levelB] at hv
  obtain ⟨_, ⟨l, hl⟩, _⟩ := hv
  rw [LoadB.ivsOf_labelB] at hl
  exact LoadB.lab_not_in_gap _ _ _ _ g l (LoadB.gaps_okB f.level hdup) hl

/-- … and a level is produced at every other non-closing grid instant. -/
theorem level_outside_gaps (f : Files α) (d : Loaded α) (h : load f false = .ok d)
    (g : Int) (hg : g ∈ gridCore f.rain f.level)
    (hgap : ∀ p ∈ gapsOf ((sortRows f.level).map (·.1)), ¬ (p.1 < g ∧ g < p.2)) :
    ∃ v, (g, v) ∈ d.level := by
  obtain ⟨_, dt, hdt, hlev, _⟩ := LoadB.load_invB f d h
  have hs := LoadB.gridCore_sortedB f.rain f.level
  have h0 := LoadB.stepOf_nonnegB _ dt hs hdt
  have h1 := LoadB.headD_leB _ 0 g hs hg
  have h2 := LoadB.le_getLastDB _ 0 g hs hg
  obtain ⟨l, hl⟩ := LoadB.lab_some ((gridCore f.rain f.level).getLastD 0 + dt)
    ((gridCore f.rain f.level).headD 0) _ 0 g h1 (by omega) hgap
  obtain ⟨hlo, hhi⟩ := LoadB.core_spanB f.rain f.level g hg
  obtain ⟨v, hv⟩ := LoadB.interp_someB (sortRows f.level) g (LoadB.sortRows_sortedLE _) hlo hhi
  refine ⟨v, ?_⟩
  rw [hlev, LoadB.mem_levelB]
  exact ⟨hg, ⟨l, by rw [LoadB.ivsOf_labelB]; exact hl⟩, hv⟩

/-- A gap is a pair of consecutive source measurements further apart than the smallest step. -/
theorem gapsOf_spec (zt : List Int) (p : Int × Int) :
    p ∈ gapsOf zt ↔ p ∈ List.zip zt zt.tail ∧ ∃ m, minOf (diffs zt) = some m ∧ p.2 - p.1 ≠ m := by
  exact LoadB.gapsOf_specB zt p

/-- Two instants carrying a level have the same label exactly when no gap separates them. -/
theorem labels_across_gap (f : Files α) (d : Loaded α) (h : load f false = .ok d)
    (g g' : Int) (v v' : α) (hv : (g, v) ∈ d.level) (hv' : (g', v') ∈ d.level) (hlt : g < g') :
    ∃ l l', (g, some l) ∈ d.grid ∧ (g', some l') ∈ d.grid ∧
      (l = l' ↔ ¬ ∃ p ∈ gapsOf ((sortRows f.level).map (·.1)), g ≤ p.1 ∧ p.2 ≤ g') := by
  obtain ⟨hdup, dt, _, hlev, hgrid⟩ := LoadB.load_invB f d h
  rw [hlev, LoadB.mem_levelB] at hv hv'
  obtain ⟨hc, ⟨l, hl⟩, _⟩ := hv
  obtain ⟨hc', ⟨l', hl'⟩, _⟩ := hv'
  refine ⟨l, l', ?_, ?_, ?_⟩
  · rw [hgrid, List.mem_map]
    exact ⟨g, List.mem_append_left _ hc, by rw [hl]⟩
  · rw [hgrid, List.mem_map]
    exact ⟨g', List.mem_append_left _ hc', by rw [hl']⟩
  · rw [LoadB.ivsOf_labelB] at hl hl'
    exact LoadB.lab_eq_iff _ _ _ _ g g' l l' (LoadB.gaps_okB f.level hdup) hl hl' hlt

/-! ### Non-vacuity: a record with one gap loads, interpolates between two source samples,
    produces no level inside the gap, and carries two labels. -/
section NonVacuity

/-- ad-hoc exact integer carrier for kernel-free evaluation by `decide` (the data below are chosen so
    that every division is exact) -/
local instance numIntB : Num Int where
  add := (· + ·)
  sub := (· - ·)
  mul := (· * ·)
  div := (· / ·)
  neg := fun x => -x
  ofInt := id
  lt := fun a b => decide (a < b)
  le := fun a b => decide (a ≤ b)
  beq := fun a b => a == b
  floor := id
  ceil := id

/-- source levels at 0, 10, 20, 40, 50 (unsorted): smallest step 10, one gap (20, 40);
    rainfall every 5 s from 0 to 50; ET additionally at the closing instant 55 -/
private def exI : Files Int where
  rain := [(10, 1), (0, 0), (5, 2), (15, 0), (20, 0), (25, 3), (30, 0), (35, 0), (40, 1), (45, 0), (50, 0)]
  et := [(0, 1), (5, 1), (10, 1), (15, 1), (20, 1), (25, 1), (30, 1), (35, 1), (40, 1), (45, 1),
    (50, 1), (55, 1)]
  level := [(0, 10), (10, 30), (40, 70), (50, 90), (20, 10)]

private def exIOK : Bool :=
  match load exI false with
  | .ok d =>
    d.step == 5 &&
    gapsOf ((sortRows exI.level).map (·.1)) == [(20, 40)] &&
    -- interpolated between the source samples (0, 10) and (10, 30)
    d.level.contains (5, 20) &&
    -- source samples are reproduced; (15, 20), (20, 10), (40, 70) instantiate both sides of
    -- `labels_across_gap`
    d.level.contains (15, 20) && d.level.contains (20, 10) && d.level.contains (40, 70) &&
    -- nothing strictly inside the gap
    !d.level.any (fun r => decide (20 < r.1) && decide (r.1 < 40)) &&
    d.level.map (·.1) == [0, 5, 10, 15, 20, 40, 45, 50] &&
    -- two labels, none inside the gap
    d.grid == [(0, some 1), (5, some 1), (10, some 1), (15, some 1), (20, some 1), (25, none),
      (30, none), (35, none), (40, some 2), (45, some 2), (50, some 2), (55, some 2)]
  | .error _ => false

example : exIOK = true := by decide

/-- the same record shape at `Rat`, with a non-integral interpolated value; plain `decide` gets stuck
    on `Rat` arithmetic, so the Boolean is evaluated by the kernel (`decide +kernel`: ordinary
    definitional unfolding checked by the kernel itself; the compiler is not trusted) -/
private def exQ : Files Rat where
  rain := [(10, 1), (0, 0), (5, 2), (15, 0), (20, 0), (25, 3), (30, 0), (35, 0), (40, 1), (45, 0), (50, 0)]
  et := [(0, 1), (5, 1), (10, 1), (15, 1), (20, 1), (25, 1), (30, 1), (35, 1), (40, 1), (45, 1),
    (50, 1), (55, 1)]
  level := [(0, 10), (10, 13), (40, 7), (50, 9), (20, 11)]

private def exQOK : Bool :=
  match load exQ false with
  | .ok d =>
    gapsOf ((sortRows exQ.level).map (·.1)) == [(20, 40)] &&
    d.level.any (fun r => r.1 == 5 && r.2 == (23 / 2 : Rat)) &&
    d.level.map (·.1) == [0, 5, 10, 15, 20, 40, 45, 50] &&
    d.grid.contains (20, some 1) && d.grid.contains (30, none) && d.grid.contains (40, some 2)
  | .error _ => false

example : exQOK = true := by decide +kernel

end NonVacuity

end Spowtd
