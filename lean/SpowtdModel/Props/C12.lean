import SpowtdModel.Model.Regrid
import SpowtdModel.Lemmas.Regrid
/-
  C12 — level-crossing positions are exact for the piecewise-linear record.
  Stated over `Rat` (every finite double is a rational: the theorems cover every float input,
  read as exact arithmetic).
-/
namespace Spowtd

/-- A level `k·step` is reported for a pair of consecutive samples iff it lies between them,
    lower value included, upper value excluded. -/
theorem crossing_reported_iff (step x0 y0 x1 y1 : Rat) (hs : 0 < step) (k : Int) :
    (∃ x, (k, x) ∈ crossingsPair step x0 y0 x1 y1) ↔
      (min y0 y1 ≤ (k : Rat) * step ∧ (k : Rat) * step < max y0 y1) := by
  rw [← mem_pairTargets_minmax hs]
  exact ⟨fun ⟨_, h⟩ => (mem_crossingsPair.mp h).1, fun h => ⟨_, mem_crossingsPair.mpr ⟨h, rfl⟩⟩⟩

/-- … exactly once for that pair. -/
theorem crossing_once (step x0 y0 x1 y1 : Rat) :
    ((crossingsPair step x0 y0 x1 y1).map (·.1)).Nodup := by
  rw [crossingsPair_levels]
  exact pairTargets_nodup step y0 y1

/-- The reported position is a point where the straight-line interpolation of the two samples
    equals the level. -/
theorem crossing_on_chord (step x0 y0 x1 y1 : Rat) (hs : 0 < step) (hx : x0 ≠ x1) (k : Int) (x : Rat)
    (h : (k, x) ∈ crossingsPair step x0 y0 x1 y1) :
    y0 + (y1 - y0) * ((x - x0) / (x1 - x0)) = (k : Rat) * step := by
  obtain ⟨hk, rfl⟩ := mem_crossingsPair.mp h
  exact pairPos_on_chord hs hx hk

/-- … and lies between the two samples that bracket it.  (`0 < step` is not needed for this.) -/
theorem crossing_between (step x0 y0 x1 y1 : Rat) (_hs : 0 < step) (hx : x0 ≤ x1) (k : Int) (x : Rat)
    (h : (k, x) ∈ crossingsPair step x0 y0 x1 y1) : x0 ≤ x ∧ x ≤ x1 := by
  obtain ⟨hk, rfl⟩ := mem_crossingsPair.mp h
  exact pairPos_between hx hk

/-- Levels come out ascending on a rising pair and descending on a falling pair.
    (Hypothesis `0 < step` added: with a negative step the scaled values `y/step` are ordered the
    other way round and the statement fails, see the counterexample below.) -/
theorem crossing_order (step x0 y0 x1 y1 : Rat) (hs : 0 < step) :
    (y0 ≤ y1 → ((crossingsPair step x0 y0 x1 y1).map (·.1)).Pairwise (· < ·)) ∧
    (y1 ≤ y0 → ((crossingsPair step x0 y0 x1 y1).map (·.1)).Pairwise (· > ·)) := by
  rw [crossingsPair_levels]
  exact ⟨pairTargets_ascending hs, pairTargets_descending hs⟩

/-- why `0 < step` is needed in `crossing_order`: a rising pair, step `-1`, levels descending -/
example : (crossingsPair (-1 : Rat) 0 0 10 2).map (·.1) = [-1, -2] := by decide +kernel

/-- Nothing else is reported: the crossings of a series are those of its consecutive pairs. -/
theorem crossings_mem (step : Rat) (pts : List (Rat × Rat)) (c : Int × Rat) :
    c ∈ crossings step pts ↔
      ∃ i a b, pts[i]? = some a ∧ pts[i + 1]? = some b ∧ c ∈ crossingsPair step a.1 a.2 b.1 b.2 :=
  mem_crossings step pts c

/-- Shifting the abscissae shifts the positions and nothing else (re-basing, time origin). -/
theorem crossings_shift_x (step c : Rat) (pts : List (Rat × Rat)) :
    crossings step (pts.map (fun p => (p.1 + c, p.2))) =
      (crossings step pts).map (fun q => (q.1, q.2 + c)) :=
  crossings_shift step c pts

/-- The value stored for a level is the mean of that series' own crossing positions of it. -/
theorem meanCrossings_spec (step : Rat) (pts : List (Rat × Rat)) (k : Int) (v : Rat) :
    (k, v) ∈ meanCrossings step pts ↔
      (∃ x, (k, x) ∈ crossings step pts) ∧
      v = mean (((crossings step pts).filter (fun c => c.1 == k)).map (·.2)) :=
  mem_meanCrossings step pts k v

theorem meanCrossings_levels_nodup (step : Rat) (pts : List (Rat × Rat)) :
    ((meanCrossings step pts).map (·.1)).Nodup := by
  rw [meanCrossings_levels]
  exact levelsOf_nodup _

/-! ### non-vacuity: concrete series (exact rational arithmetic, evaluated in the kernel) -/

/-- rising segment (0, 0.5)–(10, 3.5), step 1: levels 1, 2, 3 -/
example : crossingsPair (1 : Rat) 0 (1/2) 10 (7/2) = [(1, 5/3), (2, 5), (3, 25/3)] := by
  decide +kernel
/-- falling segment: the same levels, descending -/
example : crossingsPair (1 : Rat) 0 (7/2) 10 (1/2) = [(3, 5/3), (2, 5), (1, 25/3)] := by
  decide +kernel
/-- a sample exactly on a level: the lower value is included, the upper one excluded -/
example : crossingsPair (1 : Rat) 0 1 10 3 = [(1, 0), (2, 5)] := by decide +kernel
example : crossingsPair (1 : Rat) 0 3 10 1 = [(2, 5), (1, 10)] := by decide +kernel
/-- flat segment, even on a level: no crossing -/
example : crossingsPair (1 : Rat) 0 2 10 2 = [] := by decide +kernel
/-- a step other than 1 -/
example : crossingsPair (1/2 : Rat) 0 (1/4) 3 (5/4) = [(1, 3/4), (2, 9/4)] := by decide +kernel
/-- a series crossing level 1 three times and level 2 once; mean position per level -/
example : crossings (1 : Rat) [(0, 1/2), (1, 3/2), (2, 1/2), (4, 5/2)] =
    [(1, 1/2), (1, 3/2), (1, 5/2), (2, 7/2)] := by decide +kernel
example : meanCrossings (1 : Rat) [(0, 1/2), (1, 3/2), (2, 1/2), (4, 5/2)] =
    [(1, 3/2), (2, 7/2)] := by decide +kernel
/-- the hypotheses of the pair theorems are satisfiable and the conclusions are not trivial -/
example : ∃ x, ((2 : Int), x) ∈ crossingsPair (1 : Rat) 0 (1/2) 10 (7/2) :=
  (crossing_reported_iff 1 0 (1/2) 10 (7/2) (by decide +kernel) 2).mpr (by decide +kernel)
example : ¬ ∃ x, ((4 : Int), x) ∈ crossingsPair (1 : Rat) 0 (1/2) 10 (7/2) := fun h =>
  absurd ((crossing_reported_iff 1 0 (1/2) 10 (7/2) (by decide +kernel) 4).mp h)
    (by decide +kernel)

end Spowtd
