import SpowtdModel.Model.Regrid
import SpowtdModel.Lemmas.Regrid
/-
  C12 — level-crossing positions are exact for the piecewise-linear record.
  Stated over `Rat` (every finite double is a rational: the theorems cover every float input,
  read as exact arithmetic).
-/
namespace Spowtd

/-- A level `k·step` is reported for a pair of consecutive samples iff it lies between them,
    lower value included, upper value excluded. -/
theorem crossing_reported_iff (step x0 y0 x1 y1 : Rat) (hs : 0 < step) (k : Int) :
    (∃ x, (k, x) ∈ crossingsPair step x0 y0 x1 y1) ↔
      (min y0 y1 ≤ (k : Rat) * step ∧ (k : Rat) * step < max y0 y1) := by
  sorry

/-- … exactly once for that pair. -/
theorem crossing_once (step x0 y0 x1 y1 : Rat) :
    ((crossingsPair step x0 y0 x1 y1).map (·.1)).Nodup := by
  sorry

/-- The reported position is a point where the straight-line interpolation of the two samples
    equals the level. -/
theorem crossing_on_chord (step x0 y0 x1 y1 : Rat) (hs : 0 < step) (hx : x0 ≠ x1) (k : Int) (x : Rat)
    (h : (k, x) ∈ crossingsPair step x0 y0 x1 y1) :
    y0 + (y1 - y0) * ((x - x0) / (x1 - x0)) = (k : Rat) * step := by
  sorry

/-- … and lies between the two samples that bracket it. -/
theorem crossing_between (step x0 y0 x1 y1 : Rat) (hs : 0 < step) (hx : x0 ≤ x1) (k : Int) (x : Rat)
    (h : (k, x) ∈ crossingsPair step x0 y0 x1 y1) : x0 ≤ x ∧ x ≤ x1 := by
  sorry

/-- Levels come out ascending on a rising pair and descending on a falling pair. -/
theorem crossing_order (step x0 y0 x1 y1 : Rat) :
    (y0 ≤ y1 → ((crossingsPair step x0 y0 x1 y1).map (·.1)).Pairwise (· < ·)) ∧
    (y1 ≤ y0 → ((crossingsPair step x0 y0 x1 y1).map (·.1)).Pairwise (· > ·)) := by
  sorry

/-- Nothing else is reported: the crossings of a series are those of its consecutive pairs. -/
theorem crossings_mem (step : Rat) (pts : List (Rat × Rat)) (c : Int × Rat) :
    c ∈ crossings step pts ↔
      ∃ i a b, pts[i]? = some a ∧ pts[i + 1]? = some b ∧ c ∈ crossingsPair step a.1 a.2 b.1 b.2 := by
  sorry

/-- Shifting the abscissae shifts the positions and nothing else (re-basing, time origin). -/
theorem crossings_shift_x (step c : Rat) (pts : List (Rat × Rat)) :
    crossings step (pts.map (fun p => (p.1 + c, p.2))) =
      (crossings step pts).map (fun q => (q.1, q.2 + c)) := by
  sorry

/-- The value stored for a level is the mean of that series' own crossing positions of it. -/
theorem meanCrossings_spec (step : Rat) (pts : List (Rat × Rat)) (k : Int) (v : Rat) :
    (k, v) ∈ meanCrossings step pts ↔
      (∃ x, (k, x) ∈ crossings step pts) ∧
      v = mean (((crossings step pts).filter (fun c => c.1 == k)).map (·.2)) := by
  sorry

theorem meanCrossings_levels_nodup (step : Rat) (pts : List (Rat × Rat)) :
    ((meanCrossings step pts).map (·.1)).Nodup := by
  sorry

end Spowtd
