import SpowtdModel.Model.Classify
import SpowtdModel.Lemmas.Classify
/-
  C07 — classification commutes with a shift of the time origin by *any* integer number of
  seconds: the model reads epochs only as keys and through differences.  Carrier-free, hence
  valid for the IEEE `Float` instance the driver executes.
-/
namespace Spowtd
variable {α : Type} [Num α]

theorem classify_shift (pick : List Nat → Nat) (s j : α) (db : Loaded α) (k : Int) :
    classifyAll pick s j (db.shift k) = (classifyAll pick s j db).map (fun c => c.shift k) :=
  classifyAll_shift pick s j db k

/-- flags and pairing are literally unchanged apart from the epoch keys -/
theorem flags_shift_invariant (pick : List Nat → Nat) (s j : α) (db : Loaded α) (k : Int)
    (c c' : Classified) (h : classifyAll pick s j db = .ok c) (h' : classifyAll pick s j (db.shift k) = .ok c') :
    c'.flags.map (·.2) = c.flags.map (·.2) ∧ c'.pairs.length = c.pairs.length ∧ c'.strict = c.strict := by
  rw [classify_shift, h] at h'
  have e : c' = c.shift k := by injection h' with h'; exact h'.symm
  subst e
  refine ⟨?_, List.length_map _, rfl⟩
  show List.map _ (List.map _ c.flags) = _
  rw [List.map_map]
  rfl

/-! ### Non-vacuity (dataset `Example.db`, kernel evaluation at `Rat`): a shift by 17 s, which is
    not a multiple of the step -/
namespace Example

example : (classifyAll pickFirst s j db).toOption.map (·.pairs) =
    some [((3600, 10800), (3600, 7200)), ((25200, 32400), (28800, 32400))] := by decide +kernel
example : (classifyAll pickFirst s j (db.shift 17)).toOption.map (·.pairs) =
    some [((3617, 10817), (3617, 7217)), ((25217, 32417), (28817, 32417))] := by decide +kernel
example : (classifyAll pickFirst s j (db.shift 17)).toOption.map (·.interstorms) =
    some [(10817, 18017)] := by decide +kernel
example : (classifyAll pickFirst s j (db.shift 17)).toOption.map (fun c => c.flags.map (·.2)) =
    (classifyAll pickFirst s j db).toOption.map (fun c => c.flags.map (·.2)) := by decide +kernel
/-- a refusal is carried over unchanged -/
example : (classifyAll pickFirst s j (dbNoLabels.shift 17)).toOption.map (·.pairs) = none := by
  decide +kernel

end Example

end Spowtd
