import SpowtdModel.Driver.Codec
import SpowtdModel.Model.Classify
namespace Spowtd.Driver
open Lean Spowtd

def pickOf (name : String) : List Nat → Nat :=
  match name with
  | "last" => fun l => l.length - 1
  | "min" => fun l => (l.zipIdx.foldl (fun (best : Nat × Nat) p => if p.1 < best.1 then p else best) (l.headD 0, 0)).2
  | "max" => fun l => (l.zipIdx.foldl (fun (best : Nat × Nat) p => if p.1 > best.1 then p else best) (l.headD 0, 0)).2
  | _ => fun _ => 0

def jRun (r : Nat × Nat) : Json := jPair jNat jNat r
def jIRun (r : Int × Int) : Json := jPair jInt jInt r

def cmdRuns (j : Json) : Except String Json := do
  let v ← listOf getBool (← field j "v")
  pure (jList jRun (trueRuns v))

def cmdMystery (j : Json) : Except String Json := do
  let jm ← listOf getBool (← field j "j")
  let w ← listOf getBool (← field j "w")
  pure (Json.mkObj [("mystery", jList jBool (mysteryMask jm w)),
                    ("interstorm", jList jBool (interstormFlag jm w)),
                    ("runs", jList jRun (interstormRuns jm w))])

def decProblem (j : Json) : Except String GS.Problem := do
  let storms ← listOf getNat (← field j "storms")
  let rises ← listOf getNat (← field j "rises")
  let prefs ← listOf (pairOf getNat (listOf getNat)) (← field j "prefs")
  let score ← listOf (tripleOf getNat getNat getInt) (← field j "score")
  pure { storms := storms, rises := rises,
         prefs := fun s => ((prefs.find? (fun p => p.1 == s)).map (·.2)).getD []
         score := fun r s => ((score.find? (fun t => t.1 == r && t.2.1 == s)).map (·.2.2)).getD 0 }

def cmdGs (j : Json) : Except String Json := do
  let P ← decProblem j
  let pick ← (← field j "pick").getStr?
  pure (jList (jPair jNat jNat) (GS.galeShapley P (pickOf pick)))

/-- evaluate the matching/stability predicates on a supplied matching (the implementation's) -/
def cmdGsCheck (j : Json) : Except String Json := do
  let P ← decProblem j
  let sigma ← listOf (tripleOf getNat getNat getInt) (← field j "sigma")
  let M ← listOf (pairOf getNat getNat) (← field j "M")
  let σ : Nat → Nat → Int := fun s r => ((sigma.find? (fun t => t.1 == s && t.2.1 == r)).map (·.2.2)).getD 0
  let blk := GS.findBlocking P σ M
  pure (Json.mkObj [("matching", jBool (GS.isMatching P M)),
                    ("blocking", match blk with | none => Json.null | some p => jPair jNat jNat p)])

/-- arbitration on explicit storm runs and rise runs (candidates = overlapping pairs) -/
def cmdDisamb (j : Json) : Except String Json := do
  let storms ← listOf (pairOf getNat getNat) (← field j "storms")
  let rises ← listOf (pairOf getNat getNat) (← field j "rises")
  let pick ← (← field j "pick").getStr?
  let P := problemOf storms rises
  let M := GS.galeShapley P (pickOf pick)
  pure (Json.mkObj [
    ("pairs", jList (fun p : Nat × Nat => jPair jRun jRun (runWithStart storms p.2, runWithStart rises p.1)) M),
    ("strict", jBool (GS.riseStrictB P)),
    ("prefs", jList (fun s => jPair jNat (jList jNat) (s, P.prefs s)) P.storms)])

section
variable {α : Type} [Num α] [Codec α]

def decLoaded (j : Json) : Except String (Loaded α) := do
  let step ← getInt (← field j "step")
  let grid ← listOf (pairOf getInt (optOf getNat)) (← field j "grid")
  let rain ← listOf (tripleOf getInt getInt (Codec.dec (α := α))) (← field j "rain")
  let et ← listOf (tripleOf getInt getInt (Codec.dec (α := α))) (← field j "et")
  let level ← listOf (pairOf getInt (Codec.dec (α := α))) (← field j "level")
  pure { step := step, grid := grid, rain := rain, et := et, level := level }

def jFlags (f : Int × Bool × Bool × Bool) : Json :=
  Json.arr #[jInt f.1, jBool f.2.1, jBool f.2.2.1, jBool f.2.2.2]

def errName : ClassifyErr → String
  | .noIntervals => "no_intervals" | .nonuniform => "nonuniform" | .noSamples => "no_samples"

def cmdClassify (j : Json) : Except String Json := do
  let db ← decLoaded (α := α) (← field j "db")
  let s ← Codec.dec (α := α) (← field j "s")
  let jt ← Codec.dec (α := α) (← field j "j")
  let pick ← (← field j "pick").getStr?
  match classifyAll (pickOf pick) s jt db with
  | .error e => pure (Json.mkObj [("outcome", Json.str (errName e))])
  | .ok c =>
    pure (Json.mkObj [("outcome", Json.str "ok"),
      ("flags", jList jFlags c.flags),
      ("interstorms", jList jIRun c.interstorms),
      ("pairs", jList (jPair jIRun jIRun) c.pairs),
      ("strict", jBool c.strict),
      ("depths", jList (fun p => jPair jInt (Codec.enc (α := α)) (p.1.1, totalRainDepth db p.1)) c.pairs)])

def cmdWf (j : Json) : Except String Json := do
  let db ← decLoaded (α := α) (← field j "db")
  pure (jBool (wellFormedLoadedB db))

/-- index-level classification of one stretch, with the candidate relation and scores exposed -/
def cmdClassifyIdx (j : Json) : Except String Json := do
  let s ← Codec.dec (α := α) (← field j "s")
  let jt ← Codec.dec (α := α) (← field j "j")
  let dt ← getInt (← field j "dt")
  let zeta ← listOf (Codec.dec (α := α)) (← field j "zeta")
  let rain ← listOf (Codec.dec (α := α)) (← field j "rain")
  let pick ← (← field j "pick").getStr?
  let r := classifyIdx (pickOf pick) s jt dt zeta rain
  let storms := trueRuns (heavy s rain)
  let rises := trueRuns (jumps jt dt zeta)
  let P := problemOf storms rises
  pure (Json.mkObj [
    ("flags", jList (fun f : Bool × Bool × Bool => Json.arr #[jBool f.1, jBool f.2.1, jBool f.2.2]) r.flags),
    ("interstorms", jList jRun r.interstorms),
    ("pairs", jList (jPair jRun jRun) r.pairs),
    ("strict", jBool r.strict),
    ("storms", jList jRun storms), ("rises", jList jRun rises),
    ("pstorms", jList jNat P.storms), ("prises", jList jNat P.rises),
    ("prefs", jList (fun s => jPair jNat (jList jNat) (s, P.prefs s)) P.storms)])
end

end Spowtd.Driver
