import Lean.Data.Json
import SpowtdModel.Model.Num
/-
  Line protocol helpers.  Numbers of the carrier travel as strings:
    Float: 16 hex digits of the IEEE-754 bit pattern
    Rat  : "n/d" (or "n")
  Integers (epochs, indices, labels) are plain JSON integers.
-/
namespace Spowtd.Driver
open Lean

class Codec (α : Type) where
  dec : Json → Except String α
  enc : α → Json

def hexVal (c : Char) : Option Nat :=
  if '0' ≤ c ∧ c ≤ '9' then some (c.toNat - '0'.toNat)
  else if 'a' ≤ c ∧ c ≤ 'f' then some (c.toNat - 'a'.toNat + 10)
  else if 'A' ≤ c ∧ c ≤ 'F' then some (c.toNat - 'A'.toNat + 10)
  else none

def parseHex (s : String) : Option Nat :=
  s.toList.foldl (fun acc c => do let a ← acc; let v ← hexVal c; pure (a * 16 + v)) (some 0)

def hexDigit (n : Nat) : Char :=
  if n < 10 then Char.ofNat ('0'.toNat + n) else Char.ofNat ('a'.toNat + n - 10)

def toHex16 (n : Nat) : String :=
  String.ofList ((List.range 16).reverse.map (fun i => hexDigit ((n / 16 ^ i) % 16)))

instance : Codec Float where
  dec j := do
    let s ← j.getStr?
    if s.length != 16 then throw s!"bad float {s}"
    match parseHex s with
    | some n => pure (Float.ofBits n.toUInt64)
    | none => throw s!"bad float {s}"
  enc x := Json.str (toHex16 x.toBits.toNat)

def parseInt? (s : String) : Option Int := s.toInt?

instance : Codec Rat where
  dec j := do
    let s ← j.getStr?
    match s.splitOn "/" with
    | [n] => match parseInt? n with
      | some i => pure (i : Rat)
      | none => throw s!"bad rat {s}"
    | [n, d] => match parseInt? n, parseInt? d with
      | some i, some k => if k == 0 then throw s!"bad rat {s}" else pure ((i : Rat) / (k : Rat))
      | _, _ => throw s!"bad rat {s}"
    | _ => throw s!"bad rat {s}"
  enc x := Json.str (if x.den == 1 then s!"{x.num}" else s!"{x.num}/{x.den}")

def getInt (j : Json) : Except String Int := j.getInt?
def getNat (j : Json) : Except String Nat := j.getNat?
def getBool (j : Json) : Except String Bool := j.getBool?
def getArr (j : Json) : Except String (Array Json) := j.getArr?
def field (j : Json) (k : String) : Except String Json := j.getObjVal? k

def listOf {β : Type} (f : Json → Except String β) (j : Json) : Except String (List β) := do
  let a ← getArr j
  a.toList.mapM f

def pairOf {β γ : Type} (f : Json → Except String β) (g : Json → Except String γ) (j : Json) :
    Except String (β × γ) := do
  let a ← getArr j
  if a.size != 2 then throw "pair expected"
  pure (← f a[0]!, ← g a[1]!)

def tripleOf {β γ δ : Type} (f : Json → Except String β) (g : Json → Except String γ)
    (h : Json → Except String δ) (j : Json) : Except String (β × γ × δ) := do
  let a ← getArr j
  if a.size != 3 then throw "triple expected"
  pure (← f a[0]!, ← g a[1]!, ← h a[2]!)

def optOf {β : Type} (f : Json → Except String β) (j : Json) : Except String (Option β) :=
  if j.isNull then pure none else do pure (some (← f j))

def jInt (i : Int) : Json := Json.num (JsonNumber.fromInt i)
def jNat (n : Nat) : Json := Json.num (JsonNumber.fromNat n)
def jList {β : Type} (f : β → Json) (l : List β) : Json := Json.arr (l.map f).toArray
def jPair {β γ : Type} (f : β → Json) (g : γ → Json) (p : β × γ) : Json := Json.arr #[f p.1, g p.2]
def jBool (b : Bool) : Json := Json.bool b

end Spowtd.Driver
