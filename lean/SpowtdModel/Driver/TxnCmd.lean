import SpowtdModel.Driver.Codec
import SpowtdModel.Model.Txn
namespace Spowtd.Driver
open Lean Spowtd Spowtd.Txn

def decEv (idx : Nat) (s : String) : Except String (Ev Nat) :=
  match s with
  | "b" => pure .begin
  | "w" => pure (.write idx)
  | "c" => pure .commit
  | "r" => pure .rollback
  | _ => throw s!"bad event {s}"

/-- events as "b" | "w" | "c" | "r"; the store is the list of durable write positions -/
def cmdTxnCheck (j : Json) : Except String Json := do
  let evs ← listOf (fun x => x.getStr?) (← field j "events")
  let tr ← evs.zipIdx.mapM (fun p => decEv p.2 p.1)
  let app : List Nat → Nat → List Nat := fun s w => s ++ [w]
  let nw := (writesOf tr).length
  pure (Json.mkObj [
    ("single", jBool (singleTxnB tr)),
    ("writes", jNat nw),
    -- number of durable writes after a crash at each point 0..n
    ("durable", jList (fun k => jNat (crashAfter app [] tr k).length) (List.range (tr.length + 1)))])

def tableName : Table → String
  | .timeGrid => "time_grid" | .gridTime => "grid_time" | .rainfall => "rainfall_intensity"
  | .evapotranspiration => "evapotranspiration" | .waterLevel => "water_level"
  | .thresholds => "thresholds" | .gridTimeFlags => "grid_time_flags" | .storm => "storm"
  | .zetaInterval => "zeta_interval" | .zetaIntervalStorm => "zeta_interval_storm"
  | .zetaGrid => "zeta_grid" | .discreteZeta => "discrete_zeta" | .curvature => "curvature"
  | .risingInterval => "rising_interval" | .risingIntervalZeta => "rising_interval_zeta"
  | .recessionInterval => "recession_interval" | .recessionIntervalZeta => "recession_interval_zeta"

def jFootprint (fp : Footprint) : Json :=
  Json.mkObj [("reads", jList (fun t => Json.str (tableName t)) fp.reads),
              ("writes", jList (fun t => Json.str (tableName t)) fp.writes)]

def cmdFootprints (_ : Json) : Except String Json := do
  let fps := [("classify", fpClassify), ("set-zeta-grid", fpZetaGrid), ("set-curvature", fpCurvature),
              ("rise", fpRise), ("recession", fpRecession)]
  pure (Json.mkObj [
    ("footprints", Json.mkObj (fps.map (fun p => (p.1, jFootprint p.2)))),
    ("independent", jList (fun (p : (String × Footprint) × (String × Footprint)) =>
        Json.arr #[Json.str p.1.1, Json.str p.2.1, jBool (independentB p.1.2 p.2.2)])
      (fps.flatMap (fun a => fps.map (fun b => (a, b)))))])

end Spowtd.Driver
