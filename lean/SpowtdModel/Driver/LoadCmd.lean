import SpowtdModel.Driver.Codec
import SpowtdModel.Model.Load
import SpowtdModel.Model.Calendar
import SpowtdModel.Model.Zone
namespace Spowtd.Driver
open Lean Spowtd

section
variable {α : Type} [Num α] [Codec α]

def loadErrName : LoadErr → String
  | .populated => "populated" | .duplicate => "duplicate" | .nonuniform => "nonuniform" | .noET => "no_et"

def jRow3 (r : Int × Int × α) : Json := Json.arr #[jInt r.1, jInt r.2.1, Codec.enc r.2.2]

def cmdLoad (j : Json) : Except String Json := do
  let rows (k : String) : Except String (List (Int × α)) := do
    listOf (pairOf getInt (Codec.dec (α := α))) (← field j k)
  let f : Files α := { rain := ← rows "rain", et := ← rows "et", level := ← rows "level" }
  let pop ← getBool (← field j "populated")
  match load f pop with
  | .error e => pure (Json.mkObj [("outcome", Json.str (loadErrName e))])
  | .ok d =>
    pure (Json.mkObj [("outcome", Json.str "ok"), ("step", jInt d.step),
      ("grid", jList (fun g : Int × Option Nat => Json.arr #[jInt g.1, match g.2 with | none => Json.null | some l => jNat l]) d.grid),
      ("rain", jList jRow3 d.rain), ("et", jList jRow3 d.et),
      ("level", jList (fun z : Int × α => Json.arr #[jInt z.1, Codec.enc z.2]) d.level),
      ("wf", jBool (wellFormedLoadedB d))])
end

def decZone (j : Json) : Except String Zone := do
  let init ← getInt (← field j "initial")
  let tr ← listOf (pairOf getInt getInt) (← field j "transitions")
  pure { initial := init, transitions := tr }

/-- parse a timestamp text and list the UTC instants that render to it in the zone -/
def cmdTimestamp (j : Json) : Except String Json := do
  let z ← decZone (← field j "zone")
  let texts ← listOf (fun x => x.getStr?) (← field j "texts")
  pure (jList (fun t =>
    match parseIso t with
    | none => Json.null
    | some l => Json.mkObj [("local", jInt l), ("utc", jList jInt (localize z l)), ("render", Json.str (renderIso l))]) texts)

/-- render UTC instants in a zone -/
def cmdRender (j : Json) : Except String Json := do
  let z ← decZone (← field j "zone")
  let us ← listOf getInt (← field j "utc")
  pure (jList (fun u => Json.str (renderIso (toLocal z u))) us)

end Spowtd.Driver
