import SpowtdModel.Driver.Codec
import SpowtdModel.Driver.ClassifyCmd
import SpowtdModel.Model.Simulate
import SpowtdModel.Model.Pest
namespace Spowtd.Driver
open Lean Spowtd

def fdec (j : Json) : Except String Float := Codec.dec (α := Float) j
def fenc (x : Float) : Json := Codec.enc (α := Float) x

/-- `Spline.integrate` with the values FITPACK returned during the real call -/
def cmdIntegrate (j : Json) : Except String Json := do
  let xmin ← fdec (← field j "xmin")
  let xmax ← fdec (← field j "xmax")
  let a ← fdec (← field j "a")
  let b ← fdec (← field j "b")
  let evals ← listOf (pairOf fdec fdec) (← field j "evals")
  let splints ← listOf (tripleOf fdec fdec fdec) (← field j "splints")
  let nan := Float.ofBits 0x7ff8000000000bad
  let inner (x : Float) : Float :=
    match evals.find? (fun p => p.1.toBits == x.toBits) with | some p => p.2 | none => nan
  let splint (lo hi : Float) : Float :=
    match splints.find? (fun p => p.1.toBits == lo.toBits && p.2.1.toBits == hi.toBits) with
    | some p => p.2.2 | none => nan
  pure (fenc (integrateExt inner splint xmin xmax a b))

def cmdPwl (j : Json) : Except String Json := do
  let knots ← listOf (pairOf fdec fdec) (← field j "knots")
  let xs ← listOf fdec (← field j "xs")
  pure (jList (fun x => fenc (pwl knots x)) xs)

def cmdTSpline (j : Json) : Except String Json := do
  let knots ← listOf (pairOf fdec fdec) (← field j "knots")
  let tmin ← fdec (← field j "tmin")
  let zs ← listOf fdec (← field j "zs")
  pure (jList (fun z => fenc (tSplineClosed knots tmin z)) zs)

def cmdPeatSy (j : Json) : Except String Json := do
  let cdf ← listOf fdec (← field j "cdf")
  let thetaS ← fdec (← field j "theta_s")
  let psiS ← fdec (← field j "psi_s")
  let b ← fdec (← field j "b")
  let ncell ← getNat (← field j "ncell")
  let xs ← listOf fdec (← field j "xs")
  let knots := peatclsmKnots cdf thetaS psiS b ncell
  pure (Json.mkObj [("knots", jList (fun k : Float × Float => Json.arr #[fenc k.1, fenc k.2]) knots),
                    ("values", jList (fun x => fenc (pwl knots x)) xs)])

def cmdPeatT (j : Json) : Except String Json := do
  let k0 ← fdec (← field j "Ksmacz0")
  let al ← fdec (← field j "alpha")
  let zmax ← fdec (← field j "zeta_max_cm")
  let zs ← listOf fdec (← field j "zs")
  pure (jList (fun z => match tPeatclsm k0 al zmax z with
    | .ok v => fenc v | .error _ => Json.str "refused") zs)

/-- unit conversions of `simulate recession`: curvature m/km² → 1/km, levels cm → mm, PEATCLSM transmissivity
    per second → per day (applied to its own value at the given levels; "refused" above zeta_max) -/
def cmdUnits (j : Json) : Except String Json := do
  let c ← fdec (← field j "curvature_m_km2")
  let zcm ← listOf fdec (← field j "zeta_cm")
  let k0 ← fdec (← field j "Ksmacz0")
  let al ← fdec (← field j "alpha")
  let zmax ← fdec (← field j "zeta_max_cm")
  let zs ← listOf fdec (← field j "zs")
  pure (Json.mkObj [("curvature_km", fenc (curvatureKm c)), ("grid_mm", jList fenc (zcm.map levelMm)),
    ("per_day", jList (fun z => match tPeatclsm k0 al zmax z with
      | .ok _ => fenc (perDay (fun x => match tPeatclsm k0 al zmax x with | .ok v => v | .error _ => Float.ofBits 0x7ff8000000000bad) z)
      | .error _ => Json.str "refused") zs)])

/-- cumulative curve from recorded per-cell integrals, centred on `mean` -/
def cmdCurve (j : Json) : Except String Json := do
  let grid ← listOf fdec (← field j "grid")
  let cells ← listOf fdec (← field j "cells")
  let mean ← fdec (← field j "mean")
  -- the k-th cell integral is looked up by position: I g[k] g[k+1]
  let pairs := List.zip (List.zip grid grid.tail) cells
  let I (a b : Float) : Float :=
    match pairs.find? (fun p => p.1.1.toBits == a.toBits && p.1.2.toBits == b.toBits) with
    | some p => p.2 | none => Float.ofBits 0x7ff8000000000bad
  pure (Json.mkObj [("cumulative", jList fenc (cumulative I grid)), ("curve", jList fenc (riseCurve I grid mean))])

section
variable {α : Type} [Num α] [Codec α]
def cmdMeanET (j : Json) : Except String Json := do
  let db ← decLoaded (α := α) (← field j "db")
  let ivs ← listOf (pairOf getInt getInt) (← field j "intervals")
  pure (Codec.enc (α := α) (meanET db ivs))
end

open Spowtd.Pest in
def decSy (j : Json) : Except String Sy := do
  let typ ← (← field j "type").getStr?
  if typ == "peatclsm" then pure .peatclsm
  else do
    let zk ← listOf (fun x => x.getStr?) (← field j "zeta_knots")
    let n ← getNat (← field j "n")
    pure (.spline zk n)

open Spowtd.Pest in
def decTr (j : Json) : Except String Tr := do
  let typ ← (← field j "type").getStr?
  if typ == "peatclsm" then do
    pure (.peatclsm (← (← field j "Ksmacz0").getStr?) (← (← field j "alpha").getStr?) (← (← field j "zeta_max_cm").getStr?))
  else do
    let zk ← listOf (fun x => x.getStr?) (← field j "zeta_knots")
    let kk ← listOf (fun x => x.getStr?) (← field j "K_knots")
    pure (.spline zk kk (← (← field j "tmin").getStr?))

def jStrs (l : List String) : Json := jList Json.str l

open Spowtd.Pest in
def cmdPest (j : Json) : Except String Json := do
  let sy ← decSy (← field j "sy")
  let tr ← decTr (← field j "tr")
  let riseObs ← listOf (fun x => x.getStr?) (← field j "rise_obs")
  let recObs ← listOf (fun x => x.getStr?) (← field j "recession_obs")
  let rp := risePst sy riseObs
  let cp := curvesPst sy tr riseObs recObs
  pure (Json.mkObj [
    ("rise_tpl", jStrs (renderTpl (riseTpl sy tr))), ("curves_tpl", jStrs (renderTpl (curvesTpl sy tr))),
    ("rise_ins", jStrs (renderIns (riseIns riseObs.length))),
    ("curves_ins", jStrs (renderIns (curvesIns riseObs.length recObs.length))),
    ("rise_pst", jStrs rp.lines), ("curves_pst", jStrs cp.lines),
    ("rise_placeholders", jStrs ((riseTpl sy tr).flatMap TLine.names)),
    ("curves_placeholders", jStrs ((curvesTpl sy tr).flatMap TLine.names)),
    ("rise_params", jStrs (rp.params.map (·.name))), ("curves_params", jStrs (cp.params.map (·.name)))])

/-- run the instruction file of the given shape on an output file, as PEST does -/
def cmdRunIns (j : Json) : Except String Json := do
  let nRise ← getNat (← field j "n_rise")
  let nRec ← getNat (← field j "n_recession")
  let curves ← getBool (← field j "curves")
  let out ← listOf (fun x => x.getStr?) (← field j "out")
  let ins := if curves then Pest.curvesIns nRise nRec else Pest.riseIns nRise
  pure (jList (fun p : String × String => Json.arr #[Json.str p.1, Json.str p.2])
    (Pest.runIns Pest.containsSub ins out))

end Spowtd.Driver
