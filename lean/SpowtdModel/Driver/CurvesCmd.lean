import SpowtdModel.Driver.Codec
import SpowtdModel.Driver.ClassifyCmd
import SpowtdModel.Model.Pipeline
namespace Spowtd.Driver
open Lean Spowtd

section
variable {α : Type} [Num α] [Codec α]

def decPts (j : Json) : Except String (List (α × α)) := listOf (pairOf Codec.dec Codec.dec) j
def encA (x : α) : Json := Codec.enc x
def jMapping (m : Mapping α) : Json :=
  jList (fun hl : Int × List (Nat × α) => Json.arr #[jInt hl.1, jList (fun st : Nat × α => Json.arr #[jNat st.1, encA st.2]) hl.2]) m

def offErrName : OffErr → String
  | .empty => "empty" | .oneSeries => "one_series" | .singular => "singular" | .offGrid => "off_grid"
  | .refOutside => "ref_outside"

def cmdRegrid (j : Json) : Except String Json := do
  let step ← Codec.dec (α := α) (← field j "step")
  let pts ← decPts (α := α) (← field j "pts")
  pure (Json.mkObj [("crossings", jList (fun c : Int × α => Json.arr #[jInt c.1, encA c.2]) (crossings step pts)),
                    ("means", jList (fun c : Int × α => Json.arr #[jInt c.1, encA c.2]) (meanCrossings step pts))])

def decSeries (j : Json) : Except String (List (List (α × α))) := listOf (decPts (α := α)) j

def cmdHeadmap (j : Json) : Except String Json := do
  let step ← Codec.dec (α := α) (← field j "step")
  let series ← decSeries (α := α) (← field j "series")
  let hm := headMapping step series
  pure (Json.mkObj [("mapping", jMapping hm),
    ("components", jList (fun g : List Int × List Nat => Json.arr #[jList jInt g.1, jList jNat g.2]) (components hm)),
    ("main", jList jInt (mainComponent hm))])

def decMapping (j : Json) : Except String (Mapping α) :=
  listOf (pairOf getInt (listOf (pairOf getNat (Codec.dec (α := α))))) j

/-- `get_connected_components` on a bare level → series mapping (crossing values irrelevant) -/
def cmdComponents (j : Json) : Except String Json := do
  let m ← decMapping (α := α) (← field j "mapping")
  pure (Json.mkObj [
    ("components", jList (fun g : List Int × List Nat => Json.arr #[jList jInt g.1, jList jNat g.2]) (components m)),
    ("main", jList jInt (mainComponent m))])

def cmdSolve (j : Json) : Except String Json := do
  let m ← decMapping (α := α) (← field j "mapping")
  match solveOffsets (dropSingletons m) with
  | .error e => pure (Json.mkObj [("outcome", Json.str (offErrName e))])
  | .ok sol =>
    pure (Json.mkObj [("outcome", Json.str "ok"),
      ("offsets", jList (fun p : Nat × α => Json.arr #[jNat p.1, encA p.2]) sol),
      ("objective", encA (objective (dropSingletons m) (lookup sol)))])

/-- objective and residual sums of a supplied offset vector (the implementation's) -/
def cmdResiduals (j : Json) : Except String Json := do
  let m ← decMapping (α := α) (← field j "mapping")
  let off ← listOf (pairOf getNat (Codec.dec (α := α))) (← field j "offsets")
  pure (Json.mkObj [("objective", encA (objective m (lookup off))),
    ("residuals", jList (fun s => Json.arr #[jNat s, encA (residualSum m (lookup off) s)]) (seriesOf m))])

def jAligned (a : Aligned α) : Json :=
  Json.mkObj [("outcome", Json.str "ok"),
    ("offsets", jList (fun p : Nat × α => Json.arr #[jNat p.1, encA p.2]) a.offsets),
    ("mapping", jMapping a.mapping),
    ("master", jList (fun c : Int × α => Json.arr #[jInt c.1, encA c.2]) (masterCurve a))]

def decRef (j : Json) : Except String (Option α) := do
  match j.getObjVal? "ref" with
  | .ok r => optOf (Codec.dec (α := α)) r
  | .error _ => pure none

def cmdAssemble (j : Json) : Except String Json := do
  let step ← Codec.dec (α := α) (← field j "step")
  let series ← decSeries (α := α) (← field j "series")
  let ref ← decRef (α := α) j
  match assemble step series ref with
  | .error e => pure (Json.mkObj [("outcome", Json.str (offErrName e))])
  | .ok a => pure (jAligned a)

def cmdRefIndex (j : Json) : Except String Json := do
  let step ← Codec.dec (α := α) (← field j "step")
  let ref ← Codec.dec (α := α) (← field j "ref")
  match refIndex ref step with
  | .error e => pure (Json.mkObj [("outcome", Json.str (offErrName e))])
  | .ok k => pure (Json.mkObj [("outcome", Json.str "ok"), ("index", jInt k)])

def cmdZetaGrid (j : Json) : Except String Json := do
  let step ← Codec.dec (α := α) (← field j "step")
  let lo ← Codec.dec (α := α) (← field j "zmin")
  let hi ← Codec.dec (α := α) (← field j "zmax")
  pure (jList jInt (zetaGrid lo hi step))

def jTables (t : CurveTables α) : Json :=
  Json.mkObj [("outcome", Json.str "ok"),
    ("intervals", jList (fun p : Int × α => Json.arr #[jInt p.1, encA p.2]) t.intervals),
    ("crossings", jList (fun p : Int × Int × α => Json.arr #[jInt p.1, jInt p.2.1, encA p.2.2]) t.crossings),
    ("master", jList (fun p : Int × α => Json.arr #[jInt p.1, encA p.2]) t.master)]

/-- rise and recession tables from loaded tables and the classified intervals -/
def cmdPipeline (j : Json) : Except String Json := do
  let db ← decLoaded (α := α) (← field j "db")
  let step ← Codec.dec (α := α) (← field j "step")
  let pairs ← listOf (pairOf (pairOf getInt getInt) (pairOf getInt getInt)) (← field j "pairs")
  let inter ← listOf (pairOf getInt getInt) (← field j "interstorms")
  let rref ← optOf (Codec.dec (α := α)) ((j.getObjVal? "rise_ref").toOption.getD Json.null)
  let cref ← optOf (Codec.dec (α := α)) ((j.getObjVal? "recession_ref").toOption.getD Json.null)
  let enc (r : Except OffErr (CurveTables α)) : Json :=
    match r with
    | .error e => Json.mkObj [("outcome", Json.str (offErrName e))]
    | .ok t => jTables t
  let comps (series : List (Int × List (α × α))) : Json :=
    let sorted := sortByFirst (series.zipIdx.map (fun p => (p.2, rebase p.1.2)))
    let hm := headMapping step (sorted.map (·.2))
    Json.mkObj [("sizes", jList (fun g : List Int × List Nat => Json.arr #[jNat g.1.length, jNat g.2.length]) (components hm)),
                ("kept_levels", jNat (mainComponent hm).length)]
  pure (Json.mkObj [
    ("rise_components", comps (riseSeries db (sortPairs pairs))),
    ("recession_components", comps (recessionSeries db (sortInter inter))),
    ("grid", jList jInt (zetaGridOf db step)),
    ("rise_series", jList (fun s : Int × List (α × α) => Json.arr #[jInt s.1, jList (fun p : α × α => Json.arr #[encA p.1, encA p.2]) s.2]) (riseSeries db (sortPairs pairs))),
    ("rise", enc (riseCurveTables db pairs step rref)),
    ("recession", enc (recessionCurveTables db inter step cref))])
end

end Spowtd.Driver
