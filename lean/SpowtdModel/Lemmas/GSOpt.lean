import SpowtdModel.Lemmas.GSInv
/-
  Storm-optimality of the deferred-acceptance result under strict rise preferences,
  order independence, and the Boolean strictness test.
-/
namespace Spowtd.GS

/-- If `b` is not matched in `μ'` to anything it lists before `r`, and `r` is matched in `μ'` to a storm
    it scores strictly lower than `b`, then `(b, r)` blocks `μ'`. -/
theorem stable_no_worse {P : Problem} {μ' : Nat → Option Nat} (hst : Stable P μ')
    {a b r : Nat} {pre suf : List Nat} (hb : b ∈ P.storms) (hp : P.prefs b = pre ++ r :: suf)
    (hpre : ∀ x, x ∈ pre → μ' b ≠ some x) (ha : μ' a = some r) (hlt : P.score r a < P.score r b) :
    False := by
  have hne : μ' b ≠ some r := by
    intro h
    have := hst.1.inj a b r ha h
    rw [this] at hlt
    omega
  apply hst.2 b r
  refine ⟨hb, by rw [hp]; simp, hne, ?_, Or.inr ⟨a, ha, hlt⟩⟩
  cases hm : μ' b with
  | none => exact Or.inl rfl
  | some r'' =>
    right
    refine ⟨r'', rfl, ?_⟩
    have hmem : r'' ∈ P.prefs b := (hst.1.sub b r'' hm).2
    rw [hp] at hmem
    rcases List.mem_append.mp hmem with h | h
    · exact absurd hm (hpre r'' h)
    · rcases List.mem_cons.mp h with h | h
      · rw [h] at hm
        exact absurd hm hne
      · exact before_of_split hp h

/-- No storm has been turned down by a rise it could have in some stable matching. -/
def NoAchRej (P : Problem) (st : State) : Prop :=
  ∀ s r, r ∈ P.prefs s → r ∉ st.rest s → st.held r ≠ some s →
    ∀ μ', Stable P μ' → μ' s ≠ some r

theorem noAchRej_init (P : Problem) : NoAchRej P (init P) := by
  intro s r hr hnr
  exact absurd hr hnr

/-- What a holder listed before the rise it holds has all been proposed to and is not held by it. -/
theorem frontier_held {P : Problem} (hP : WF P) {st : State} (hI : Inv P st) {r t : Nat}
    (hh : st.held r = some t) {pre : List Nat} (hp : P.prefs t = pre ++ r :: st.rest t)
    {x : Nat} (hx : x ∈ pre) : x ∈ P.prefs t ∧ x ∉ st.rest t ∧ st.held x ≠ some t := by
  have hnd := hP.prefs_nodup t
  rw [hp] at hnd
  have hdis := (List.nodup_append.mp hnd).2.2 x hx
  refine ⟨by rw [hp]; simp [hx], ?_, ?_⟩
  · intro h
    exact hdis x (by simp [h]) rfl
  · intro h
    have := held_inj hI h hh
    exact hdis r (by simp) this

theorem noAchRej_step {P : Problem} (hP : WF P) (hstrict : RiseStrict P) {st : State} {s : Nat}
    (hI : Inv P st) (hO : NoAchRej P st) (hs : s ∈ st.free) : NoAchRej P (step P st s) := by
  have hs_st : s ∈ P.storms := hI.free_sub s hs
  have hs_nh : ∀ x, st.held x ≠ some s := fun x h => (hI.held_spec x s h).2.1 hs
  obtain ⟨r, rs, hr⟩ : ∃ r rs, st.rest s = r :: rs := by
    cases h : st.rest s with
    | nil => exact absurd h (hI.free_rest s hs)
    | cons r rs => exact ⟨r, rs, rfl⟩
  obtain ⟨pre, hpre⟩ := hI.suffix s
  rw [hr] at hpre
  have hrs : r ∈ P.prefs s := by rw [hpre]; simp
  have hrest_s : upd st.rest s rs s = rs := upd_same _ _ _
  have hrest_ne : ∀ x, x ≠ s → upd st.rest s rs x = st.rest x := fun x h => upd_ne _ _ h
  -- the proposer is matched to nothing it lists before `r`, in any stable matching
  have hfront_s : ∀ μ', Stable P μ' → ∀ x, x ∈ pre → μ' s ≠ some x := by
    intro μ' hst x hx
    have hnd := hP.prefs_nodup s
    rw [hpre] at hnd
    have hdis := (List.nodup_append.mp hnd).2.2 x hx
    refine hO s x (by rw [hpre]; simp [hx]) ?_ (hs_nh x) μ' hst
    rw [hr]
    intro h
    exact hdis x h rfl
  -- the same for a holder of `r`
  have hfront_t : ∀ t, st.held r = some t → ∃ pre_t suf_t, P.prefs t = pre_t ++ r :: suf_t ∧
      ∀ μ', Stable P μ' → ∀ x, x ∈ pre_t → μ' t ≠ some x := by
    intro t hh
    obtain ⟨_, _, pre_t, hpt⟩ := hI.held_spec r t hh
    refine ⟨pre_t, st.rest t, hpt, ?_⟩
    intro μ' hst x hx
    obtain ⟨h1, h2, h3⟩ := frontier_held hP hI hh hpt hx
    exact hO t x h1 h2 h3 μ' hst
  -- pairs (u, x) other than the freshly decided one
  have hold : ∀ (held' : Nat → Option Nat) u x, x ∈ P.prefs u → x ∉ upd st.rest s rs u →
      (x ≠ r → held' x = st.held x) → ¬ (u = s ∧ x = r) → (x = r → st.held r ≠ some u) →
      held' x ≠ some u → ∀ μ', Stable P μ' → μ' u ≠ some x := by
    intro held' u x hx hnr hsame hnew hxr_old hnh
    by_cases hus : u = s
    · have hxr : x ≠ r := fun h => hnew ⟨hus, h⟩
      rw [hus] at hx hnr hnh ⊢
      rw [hrest_s] at hnr
      rw [hsame hxr] at hnh
      exact hO s x hx (by rw [hr]; simp [hxr, hnr]) hnh
    · rw [hrest_ne u hus] at hnr
      by_cases hxr : x = r
      · rw [hxr] at hx hnr ⊢
        exact hO u r hx hnr (hxr_old hxr)
      · rw [hsame hxr] at hnh
        exact hO u x hx hnr hnh
  cases hh : st.held r with
  | none =>
    rw [step_accept hr hh]
    intro u x hx hnr hnh
    have hnh' : upd st.held r (some s) x ≠ some u := hnh
    refine hold (upd st.held r (some s)) u x hx hnr (fun h => upd_ne _ _ h) ?_ ?_ hnh'
    · rintro ⟨hus, hxr⟩
      rw [hus, hxr, upd_same] at hnh'
      exact hnh' rfl
    · intro _
      rw [hh]; simp
  | some t =>
    have ht_st : t ∈ P.storms := (hI.held_spec r t hh).1
    have hrt : r ∈ P.prefs t := (held_mem_prefs hI hh).2
    have hts : t ≠ s := fun h => hs_nh r (h ▸ hh)
    by_cases hlt : P.score r t < P.score r s
    · rw [step_displace hr hh hlt]
      intro u x hx hnr hnh
      have hnh' : upd st.held r (some s) x ≠ some u := hnh
      by_cases hnew : u = t ∧ x = r
      · -- the displaced holder `t`: `(s, r)` would block
        rw [hnew.1, hnew.2]
        intro μ' hst hμ
        exact stable_no_worse hst hs_st hpre (hfront_s μ' hst) hμ hlt
      · refine hold (upd st.held r (some s)) u x hx hnr (fun h => upd_ne _ _ h) ?_ ?_ hnh'
        · rintro ⟨hus, hxr⟩
          rw [hus, hxr, upd_same] at hnh'
          exact hnh' rfl
        · intro hxr hu
          rw [hh] at hu
          exact hnew ⟨(Option.some.inj hu).symm, hxr⟩
    · rw [step_reject hr hh hlt]
      intro u x hx hnr hnh
      have hnh' : st.held x ≠ some u := hnh
      by_cases hnew : u = s ∧ x = r
      · -- the rejected proposer `s`: `(t, r)` would block
        rw [hnew.1, hnew.2]
        intro μ' hst hμ
        obtain ⟨pre_t, suf_t, hpt, hft⟩ := hfront_t t hh
        have hne := hstrict r s t hs_st ht_st hrs hrt (fun h => hts h.symm)
        have hlt' : P.score r s < P.score r t := by omega
        exact stable_no_worse hst ht_st hpt (hft μ' hst) hμ hlt'
      · refine hold st.held u x hx hnr (fun _ => rfl) hnew ?_ hnh'
        intro hxr
        rw [← hxr]
        exact hnh'

theorem noAchRej_reach {P : Problem} (hP : WF P) (hstrict : RiseStrict P) {st : State}
    (h : Reach P st) : NoAchRej P st := by
  induction h with
  | init => exact noAchRej_init P
  | step hr hs ih => exact noAchRej_step hP hstrict (inv_reach hP hr) ih hs

/-- Storm-optimality of a final state. -/
theorem storm_optimal {P : Problem} {st : State} (hI : Inv P st) (hO : NoAchRej P st)
    (hfin : st.free = []) (μ' : Nat → Option Nat) (hst : Stable P μ') (s r' : Nat)
    (h' : μ' s = some r') : ∃ r, st.held r = some s ∧ (r = r' ∨ Before (P.prefs s) r r') := by
  obtain ⟨hs, hr'⟩ := hst.1.sub s r' h'
  by_cases hmem : r' ∈ st.rest s
  · have hex : ∃ r0, st.held r0 = some s := by
      apply Classical.byContradiction
      intro hno
      have := hI.idle s hs (by rw [hfin]; simp) (fun x hx => hno ⟨x, hx⟩)
      rw [this] at hmem
      cases hmem
    obtain ⟨r0, h0⟩ := hex
    obtain ⟨_, _, pre, hp⟩ := hI.held_spec r0 s h0
    exact ⟨r0, h0, Or.inr (before_of_split hp hmem)⟩
  · by_cases hh : st.held r' = some s
    · exact ⟨r', hh, Or.inl rfl⟩
    · exact absurd h' (hO s r' hr' hmem hh μ' hst)

/-- Two final states of the same problem hold the same pairs. -/
theorem final_held_eq {P : Problem} (hP : WF P) {st₁ st₂ : State}
    (hI₁ : Inv P st₁) (hO₁ : NoAchRej P st₁) (hf₁ : st₁.free = [])
    (hI₂ : Inv P st₂) (hO₂ : NoAchRej P st₂) (hf₂ : st₂.free = []) (r : Nat) :
    st₁.held r = st₂.held r := by
  have hS₁ := stable_of_final hP hI₁ hf₁ _ (invHeld_iff hP hI₁)
  have hS₂ := stable_of_final hP hI₂ hf₂ _ (invHeld_iff hP hI₂)
  -- one direction, symmetric in the two states
  have key : ∀ {sa sb : State}, Inv P sa → NoAchRej P sa → sa.free = [] →
      Stable P (invHeld P.rises sa.held) → Inv P sb → NoAchRej P sb → sb.free = [] →
      Stable P (invHeld P.rises sb.held) → ∀ r s, sa.held r = some s → sb.held r = some s := by
    intro sa sb hIa hOa hfa hSa hIb hOb hfb hSb r s h
    obtain ⟨r2, h2, hrel2⟩ := storm_optimal hIb hOb hfb _ hSa s r ((invHeld_iff hP hIa s r).mpr h)
    obtain ⟨r1, h1, hrel1⟩ := storm_optimal hIa hOa hfa _ hSb s r2 ((invHeld_iff hP hIb s r2).mpr h2)
    have : r1 = r := held_inj hIa h1 h
    rw [this] at hrel1
    have hnd := hP.prefs_nodup s
    rcases hrel2 with rfl | hb2
    · exact h2
    · rcases hrel1 with rfl | hb1
      · exact h2
      · exact absurd hb1 (hb2.asymm hnd)
  cases h1 : st₁.held r with
  | some s => exact (key hI₁ hO₁ hf₁ hS₁ hI₂ hO₂ hf₂ hS₂ r s h1).symm
  | none =>
    cases h2 : st₂.held r with
    | none => rfl
    | some s =>
      have := key hI₂ hO₂ hf₂ hS₂ hI₁ hO₁ hf₁ hS₁ r s h2
      rw [h1] at this
      cases this

theorem galeShapley_order_independent {P : Problem} (hP : WF P) (hs : RiseStrict P)
    (pick₁ pick₂ : List Nat → Nat) : galeShapley P pick₁ = galeShapley P pick₂ := by
  have hR₁ := run_reach' P pick₁ (fuel P) (init P) Reach.init
  have hR₂ := run_reach' P pick₂ (fuel P) (init P) Reach.init
  have heq := final_held_eq hP
    (inv_reach hP hR₁) (noAchRej_reach hP hs hR₁) (run_terminates' hP pick₁)
    (inv_reach hP hR₂) (noAchRej_reach hP hs hR₂) (run_terminates' hP pick₂)
  unfold galeShapley matchingOf
  have : (run P pick₁ (fuel P) (init P)).held = (run P pick₂ (fuel P) (init P)).held := funext heq
  rw [this]

/-! ## The Boolean strictness test -/

theorem riseStrictB_iff' {P : Problem} (hP : WF P) : riseStrictB P = true ↔ RiseStrict P := by
  unfold riseStrictB RiseStrict
  simp only [List.all_eq_true, List.mem_filter, List.contains_iff_mem, Bool.or_eq_true,
    beq_iff_eq, bne_iff_ne, ne_eq, and_imp]
  constructor
  · intro h r s t hs ht hrs hrt hne
    rcases h r (hP.prefs_rises s r hrs) s hs hrs t ht hrt with h | h
    · exact absurd h hne
    · exact h
  · intro h r _ s hs hrs t ht hrt
    by_cases hst : s = t
    · exact Or.inl hst
    · exact Or.inr (h r s t hs ht hrs hrt hst)

end Spowtd.GS
