import SpowtdModel.Model.Calendar
import SpowtdModel.Props.C11Calendar
import Batteries.Data.String.Lemmas
import Std.Data.String.ToNat
/-
  Helper lemmas for Props/C11Text.lean: reading the canonical timestamp text written by
  `renderIso` gives the instant back.

  Three parts:
  * text: `String.splitOn` with a one-character separator on a string given by its characters
    is `List.splitOnP` on the characters (`splitOn_single`; Batteries has this only for
    `splitToList`), hence splits a concatenation of separator-free pieces into the pieces;
  * digits: `pad w n` is `w` decimal digits whose value is `n` (`natOfDigits_pad`);
  * arithmetic: the civil fields computed by `renderIso` are a valid date and time of day and
    `civilSeconds` of them is the instant (`fields_of_render`).
-/
namespace Spowtd
namespace Iso

open String

/-! ### `String.splitOn` with a one-character separator -/

/-- `splitOnAux` with separator `[c]`, in the state "`l` is behind the last separator seen,
    `m` has been scanned since, `r` is still to come". -/
theorem splitOnAux_single (c : Char) (l m r : List Char) (acc : List String) :
    splitOnAux (ofList (l ++ m ++ r)) (ofList [c]) ⟨utf8Len l⟩ ⟨utf8Len l + utf8Len m⟩ 0 acc =
      acc.reverse ++ (List.splitOnPPrepend (· == c) r m.reverse).map ofList := by
  unfold splitOnAux
  have hsep0 : Pos.Raw.get (ofList [c]) 0 = c := by
    simpa using get_of_valid [] [c]
  have hsepn : Pos.Raw.next (ofList [c]) 0 = ⟨c.utf8Size⟩ := by
    simpa using next_of_valid [] c []
  simp only [List.append_assoc, atEnd_iff, rawEndPos_ofList, utf8Len_append, Pos.Raw.mk_le_mk,
    Nat.add_le_add_iff_left, (by omega : utf8Len m + utf8Len r ≤ utf8Len m ↔ utf8Len r = 0),
    utf8Len_eq_zero, List.reverse_cons]
  split
  · subst r
    simpa using extract_of_valid l m []
  · obtain ⟨d, r, rfl⟩ := r.exists_cons_of_ne_nil ‹_›
    have h1 : Pos.Raw.get (ofList (l ++ (m ++ d :: r))) ⟨utf8Len l + utf8Len m⟩ = d := by
      simpa [-ofList_append] using get_of_valid (l ++ m) (d :: r)
    have h2 : Pos.Raw.next (ofList (l ++ (m ++ d :: r))) ⟨utf8Len l + utf8Len m⟩
        = ⟨utf8Len l + utf8Len m + d.utf8Size⟩ := by
      simpa [-ofList_append] using next_of_valid (l ++ m) d r
    have h3 : (⟨utf8Len l + utf8Len m⟩ : Pos.Raw).unoffsetBy 0 = ⟨utf8Len l + utf8Len m⟩ := by
      ext; simp
    rw [h1, h2, h3, hsep0, hsepn, h2]
    by_cases h : d = c
    · subst h
      have h4 : (⟨utf8Len l + utf8Len m + d.utf8Size⟩ : Pos.Raw).unoffsetBy ⟨d.utf8Size⟩
          = ⟨utf8Len l + utf8Len m⟩ := by ext; simp
      have h5 : Pos.Raw.extract (ofList (l ++ (m ++ d :: r))) ⟨utf8Len l⟩ ⟨utf8Len l + utf8Len m⟩
          = ofList m := by
        simpa [-ofList_append] using extract_of_valid l m (d :: r)
      simp only [beq_self_eq_true, if_true, utf8Len_cons, utf8Len_nil, Nat.zero_add,
        Pos.Raw.mk_le_mk, Nat.le_refl, h4, h5]
      simpa [Nat.add_assoc, List.splitOnPPrepend_cons_eq_if] using
        splitOnAux_single d (l ++ m ++ [d]) [] r ((ofList m) :: acc)
    · have hb : (d == c) = false := by simpa using h
      simp only [hb, Bool.false_eq_true, if_false]
      simpa [List.splitOnPPrepend_cons_eq_if, hb, Nat.add_assoc] using
        splitOnAux_single c l (m ++ [d]) r acc
termination_by r.length

/-- `String.splitOn` with a one-character separator is `List.splitOnP` on the characters. -/
theorem splitOn_single (c : Char) (l : List Char) :
    (ofList l).splitOn (ofList [c]) = (List.splitOnP (· == c) l).map ofList := by
  have h : (ofList [c] == "") = false := by simp
  simpa [splitOn, h] using splitOnAux_single c [] [] l []

theorem splitOn_two (c : Char) (a b : List Char) (ha : ∀ x ∈ a, (x == c) = false)
    (hb : ∀ x ∈ b, (x == c) = false) :
    (ofList (a ++ c :: b)).splitOn (ofList [c]) = [ofList a, ofList b] := by
  rw [splitOn_single, List.splitOnP_append_cons_of_forall_mem ha c (by simp),
    List.splitOnP_eq_singleton hb]
  rfl

theorem splitOn_three (c : Char) (a b d : List Char) (ha : ∀ x ∈ a, (x == c) = false)
    (hb : ∀ x ∈ b, (x == c) = false) (hd : ∀ x ∈ d, (x == c) = false) :
    (ofList (a ++ c :: (b ++ c :: d))).splitOn (ofList [c]) = [ofList a, ofList b, ofList d] := by
  rw [splitOn_single, List.splitOnP_append_cons_of_forall_mem ha c (by simp),
    List.splitOnP_append_cons_of_forall_mem hb c (by simp),
    List.splitOnP_eq_singleton hd]
  rfl

/-! ### Decimal digits -/

theorem toNat!_of_toNat? (s : String) (n : Nat) (h : s.toNat? = some n) : s.toNat! = n := by
  have hn : s.toSlice.isNat = true := by
    simpa using String.isNat_of_toNat?_eq_some h
  unfold String.toNat? String.Slice.toNat? at h
  unfold String.toNat! String.Slice.toNat!
  rw [if_pos hn] at h ⊢
  exact Option.some.inj h

/-- the model's field reader on a non-empty string of decimal digits: its positional value -/
theorem natOfDigits_ofList (l : List Char) (hne : l ≠ []) (hd : ∀ c ∈ l, c.isDigit = true) :
    natOfDigits (String.ofList l) = some ((Nat.ofDigitChars 10 l 0 : Nat) : Int) := by
  have hnat : (String.ofList l).isNat = true :=
    String.isNat_of_isDigit (by simpa using hne) (by simpa using hd)
  have h1 := String.toNat?_eq_some_ofDigitChars hnat
  rw [String.toList_ofList, List.filter_eq_self.2 (fun c hc => by
    have := hd c hc
    rw [bne_iff_ne]; rintro rfl; simp at this)] at h1
  have h2 := toNat!_of_toNat? _ _ h1
  have h3 : (String.ofList l).isEmpty = false := by simpa using hne
  simpa [natOfDigits, h2, h3] using hd

/-- the characters of `pad w k` -/
def padL (w k : Nat) : List Char :=
  List.replicate (w - (Nat.toDigits 10 k).length) '0' ++ Nat.toDigits 10 k

theorem pad_eq (w : Nat) (n : Int) : pad w n = String.ofList (padL w n.toNat) := by
  unfold pad padL
  simp only [Nat.toString_eq_repr, Nat.repr_eq_ofList_toDigits, String.length_ofList,
    String.ofList_append]

theorem padL_digit (w k : Nat) : ∀ c ∈ padL w k, c.isDigit = true := by
  intro c hc
  rcases List.mem_append.1 hc with h | h
  · rw [(List.mem_replicate.1 h).2]; decide
  · exact Nat.isDigit_of_mem_toDigits (by decide) (by decide) h

theorem padL_length (w k : Nat) (hw : 0 < w) (hk : k < 10 ^ w) : (padL w k).length = w := by
  have := (Nat.length_toDigits_le_iff (b := 10) (n := k) (by decide) hw).2 hk
  simp [padL]; omega

theorem padL_value (w k : Nat) : Nat.ofDigitChars 10 (padL w k) 0 = k := by
  simp [padL, Nat.ofDigitChars_append]

theorem padL_ne_nil (w k : Nat) : padL w k ≠ [] := by
  simp [padL, Nat.toDigits_ne_nil]

/-- `pad w n` (for `0 ≤ n < 10 ^ w`) is exactly `w` decimal digits, and the field reader returns
    `n` on it. -/
theorem natOfDigits_pad (w : Nat) (n : Int) (h0 : 0 ≤ n) :
    natOfDigits (pad w n) = some n := by
  rw [pad_eq, natOfDigits_ofList _ (padL_ne_nil _ _) (padL_digit _ _), padL_value]
  simp [Int.toNat_of_nonneg h0]

theorem length_pad (w : Nat) (n : Int) (hw : 0 < w) (h1 : n < 10 ^ w) :
    (pad w n).length = w := by
  rw [pad_eq, String.length_ofList, padL_length _ _ hw]
  have h10 : ((10 ^ w : Nat) : Int) = (10 : Int) ^ w := Int.natCast_pow 10 w
  have hp : 0 < 10 ^ w := Nat.pow_pos (by decide)
  omega

theorem toList_pad_digit (w : Nat) (n : Int) : ∀ c ∈ (pad w n).toList, c.isDigit = true := by
  rw [pad_eq, String.toList_ofList]
  exact padL_digit _ _

/-! ### Reading the rendered text -/

theorem digit_ne (c x : Char) (hc : c.isDigit = false) (hx : x.isDigit = true) : (x == c) = false := by
  rw [beq_eq_false_iff_ne]; rintro rfl; simp [hc] at hx

theorem parse_lists (Y M D H Mi S : List Char)
    (hY : ∀ c ∈ Y, c.isDigit = true) (hM : ∀ c ∈ M, c.isDigit = true)
    (hD : ∀ c ∈ D, c.isDigit = true) (hH : ∀ c ∈ H, c.isDigit = true)
    (hMi : ∀ c ∈ Mi, c.isDigit = true) (hS : ∀ c ∈ S, c.isDigit = true) :
    parseIso (ofList (Y ++ '-' :: (M ++ '-' :: D) ++ ' ' :: (H ++ ':' :: (Mi ++ ':' :: S)))) =
      (match natOfDigits (ofList Y), natOfDigits (ofList M), natOfDigits (ofList D),
          natOfDigits (ofList H), natOfDigits (ofList Mi), natOfDigits (ofList S) with
      | some y, some m, some d, some hh, some mm, some s =>
        if (ofList Y).length == 4 && (ofList M).length ≤ 2 && (ofList D).length ≤ 2 &&
           (ofList H).length ≤ 2 && (ofList Mi).length ≤ 2 && (ofList S).length ≤ 2 &&
           validDate y m d && decide (hh ≤ 23) && decide (mm ≤ 59) && decide (s ≤ 59) then
          some (civilSeconds y m d hh mm s)
        else none
      | _, _, _, _, _, _ => none) := by
  have e1 : (" " : String) = ofList [' '] := rfl
  have e2 : ("-" : String) = ofList ['-'] := rfl
  have e3 : (":" : String) = ofList [':'] := rfl
  have s1 := splitOn_two ' ' (Y ++ '-' :: (M ++ '-' :: D)) (H ++ ':' :: (Mi ++ ':' :: S))
    (by
      intro x hx
      simp only [List.mem_append, List.mem_cons] at hx
      rcases hx with h | rfl | h | rfl | h
      · exact digit_ne _ _ (by decide) (hY _ h)
      · decide
      · exact digit_ne _ _ (by decide) (hM _ h)
      · decide
      · exact digit_ne _ _ (by decide) (hD _ h))
    (by
      intro x hx
      simp only [List.mem_append, List.mem_cons] at hx
      rcases hx with h | rfl | h | rfl | h
      · exact digit_ne _ _ (by decide) (hH _ h)
      · decide
      · exact digit_ne _ _ (by decide) (hMi _ h)
      · decide
      · exact digit_ne _ _ (by decide) (hS _ h))
  have s2 := splitOn_three '-' Y M D (fun x h => digit_ne _ _ (by decide) (hY x h))
    (fun x h => digit_ne _ _ (by decide) (hM x h)) (fun x h => digit_ne _ _ (by decide) (hD x h))
  have s3 := splitOn_three ':' H Mi S (fun x h => digit_ne _ _ (by decide) (hH x h))
    (fun x h => digit_ne _ _ (by decide) (hMi x h)) (fun x h => digit_ne _ _ (by decide) (hS x h))
  unfold parseIso
  rw [e1, e2, e3, s1]
  simp only []
  rw [s2, s3]
  rfl


theorem render_string (a b c d e f : List Char) :
    toString (ofList a) ++ toString "-" ++ toString (ofList b) ++ toString "-" ++
      toString (ofList c) ++ toString " " ++ toString (ofList d) ++ toString ":" ++
      toString (ofList e) ++ toString ":" ++ toString (ofList f) =
    ofList (a ++ '-' :: (b ++ '-' :: c) ++ ' ' :: (d ++ ':' :: (e ++ ':' :: f))) := by
  apply String.toList_injective
  simp [toString]

theorem parse_pads (y m d hh mm ss : Int) (hy0 : 0 ≤ y) (hm0 : 0 ≤ m) (hd0 : 0 ≤ d)
    (hh0 : 0 ≤ hh) (hmm0 : 0 ≤ mm) (hss0 : 0 ≤ ss) (hv : validDate y m d = true)
    (hh1 : hh ≤ 23) (hmm1 : mm ≤ 59) (hss1 : ss ≤ 59) :
    parseIso (toString (pad 4 y) ++ toString "-" ++ toString (pad 2 m) ++ toString "-" ++
      toString (pad 2 d) ++ toString " " ++ toString (pad 2 hh) ++ toString ":" ++
      toString (pad 2 mm) ++ toString ":" ++ toString (pad 2 ss)) =
    some (civilSeconds y m d hh mm ss) := by
  obtain ⟨hy1, hy2, hm1, hm2, hd1, hd2⟩ := (Cal.validDate_iff y m d).1 hv
  have hd3 : d ≤ 31 := by
    revert hd2; split <;> [split; split] <;> omega
  have ly := length_pad 4 y (by decide) (by omega)
  have lm := length_pad 2 m (by decide) (by omega)
  have ld := length_pad 2 d (by decide) (by omega)
  have lh := length_pad 2 hh (by decide) (by omega)
  have lmi := length_pad 2 mm (by decide) (by omega)
  have ls := length_pad 2 ss (by decide) (by omega)
  have ny := natOfDigits_pad 4 y hy0
  have nm := natOfDigits_pad 2 m hm0
  have nd := natOfDigits_pad 2 d hd0
  have nh := natOfDigits_pad 2 hh hh0
  have nmi := natOfDigits_pad 2 mm hmm0
  have ns := natOfDigits_pad 2 ss hss0
  rw [pad_eq] at ly lm ld lh lmi ls ny nm nd nh nmi ns
  simp only [pad_eq]
  rw [render_string, parse_lists _ _ _ _ _ _ (padL_digit _ _) (padL_digit _ _) (padL_digit _ _)
    (padL_digit _ _) (padL_digit _ _) (padL_digit _ _), ny, nm, nd, nh, nmi, ns]
  simp only [ly, lm, ld, lh, lmi, ls, hv]
  simp [hh1, hmm1, hss1]


theorem isoLo_eq : civilSeconds 1 1 1 0 0 0 = -719162 * 86400 := by decide
theorem isoHi_eq : civilSeconds 10000 1 1 0 0 0 = 2932897 * 86400 := by decide

/-- The civil fields `renderIso` computes for an instant of the years 1 … 9999 are a valid date
    and a time of day, and `civilSeconds` of them is the instant. -/
theorem fields_of_render (t : Int) (hlo : civilSeconds 1 1 1 0 0 0 ≤ t)
    (hhi : t < civilSeconds 10000 1 1 0 0 0) :
    let c := civilFromDays (t / 86400)
    let sod := t % 86400
    validDate c.1 c.2.1 c.2.2 = true ∧
    0 ≤ sod / 3600 ∧ sod / 3600 ≤ 23 ∧ 0 ≤ sod % 3600 / 60 ∧ sod % 3600 / 60 ≤ 59 ∧
    0 ≤ sod % 60 ∧ sod % 60 ≤ 59 ∧
    civilSeconds c.1 c.2.1 c.2.2 (sod / 3600) (sod % 3600 / 60) (sod % 60) = t := by
  intro c sod
  rw [isoLo_eq] at hlo
  rw [isoHi_eq] at hhi
  have hv := civilFromDays_valid (t / 86400) (by omega) (by omega)
  have hr := days_civil_roundtrip (t / 86400)
  refine ⟨hv, by omega, by omega, by omega, by omega, by omega, by omega, ?_⟩
  unfold civilSeconds
  show daysFromCivil c.1 c.2.1 c.2.2 * 86400 + _ + _ + _ = t
  rw [show daysFromCivil c.1 c.2.1 c.2.2 = t / 86400 from hr]
  omega

theorem renderIso_eq (t : Int) :
    renderIso t =
      toString (pad 4 (civilFromDays (t / 86400)).1) ++ toString "-" ++
      toString (pad 2 (civilFromDays (t / 86400)).2.1) ++ toString "-" ++
      toString (pad 2 (civilFromDays (t / 86400)).2.2) ++ toString " " ++
      toString (pad 2 (t % 86400 / 3600)) ++ toString ":" ++
      toString (pad 2 (t % 86400 % 3600 / 60)) ++ toString ":" ++
      toString (pad 2 (t % 86400 % 60)) := rfl

/-- Reading the canonical spelling of an instant of the years 1 … 9999 returns that instant. -/
theorem parse_render (t : Int) (hlo : civilSeconds 1 1 1 0 0 0 ≤ t)
    (hhi : t < civilSeconds 10000 1 1 0 0 0) :
    parseIso (renderIso t) = some t := by
  obtain ⟨hv, h1, h2, h3, h4, h5, h6, h7⟩ := fields_of_render t hlo hhi
  obtain ⟨hy1, hy2, hm1, hm2, hd1, hd2⟩ := (Cal.validDate_iff _ _ _).1 hv
  rw [renderIso_eq, parse_pads _ _ _ _ _ _ (by omega) (by omega) (by omega) h1 h3 h5 hv h2 h4 h6,
    h7]

end Iso
end Spowtd
