import SpowtdModel.Lemmas.ClassifyBasic
/-
  Dataset-level helper lemmas (no matching theory): epochs of a stretch, labels, samples,
  the fold over the stretches, invariance under a shift of the time origin.
-/
namespace Spowtd

/-! ### integer lists: increasing, stepped, uniform -/

theorem increasingB_pairwise : ∀ l : List Int, increasingB l = true → l.Pairwise (· < ·)
  | [], _ => List.Pairwise.nil
  | [_], _ => List.pairwise_singleton _ _
  | a :: b :: t, h => by
    simp only [increasingB, Bool.and_eq_true, decide_eq_true_eq] at h
    have ih := increasingB_pairwise (b :: t) h.2
    refine List.pairwise_cons.2 ⟨?_, ih⟩
    intro z hz
    rcases List.mem_cons.1 hz with rfl | hz
    · exact h.1
    · have := (List.pairwise_cons.1 ih).1 z hz
      omega

theorem steppedB_diffs (dt : Int) : ∀ l : List Int, steppedB dt l = true →
    ∀ d ∈ List.zipWith (fun b a => b - a) l.tail l, d = dt
  | [], _ => by intro d hd; cases hd
  | [_], _ => by intro d hd; cases hd
  | a :: b :: t, h => by
    simp only [steppedB, Bool.and_eq_true, beq_iff_eq] at h
    intro d hd
    simp only [List.tail_cons, List.zipWith_cons_cons, List.mem_cons] at hd
    rcases hd with rfl | hd
    · exact h.1
    · exact steppedB_diffs dt (b :: t) h.2 d hd

theorem steppedB_uniformB (dt : Int) (l : List Int) (h : steppedB dt l = true) : uniformB l = true := by
  match l, h with
  | [], _ => rfl
  | [_], _ => rfl
  | a :: b :: t, h =>
    have hd := steppedB_diffs dt _ h
    simp only [steppedB, Bool.and_eq_true, beq_iff_eq] at h
    unfold uniformB
    simp only [List.all_eq_true, beq_iff_eq]
    intro d hd'
    rw [hd d hd', h.1]

theorem steppedB_getElem? (dt : Int) : ∀ (l : List Int), steppedB dt l = true →
    ∀ i, i < l.length → l[i]? = some (l.getD 0 0 + i * dt)
  | [], _ => by intro i hi; cases hi
  | [a], _ => by
    intro i hi
    have : i = 0 := by simpa using hi
    subst this
    simp
  | a :: b :: t, h => by
    intro i hi
    have h' := h
    simp only [steppedB, Bool.and_eq_true, beq_iff_eq] at h'
    cases i with
    | zero => simp
    | succ i =>
      have ih := steppedB_getElem? dt (b :: t) h'.2 i (by simpa using hi)
      rw [List.getElem?_cons_succ, ih]
      simp only [List.getD_cons_zero, Option.some.injEq]
      have : ((i + 1 : Nat) : Int) * dt = (i : Int) * dt + dt := by
        rw [Int.natCast_add, Int.add_mul]; simp
      rw [this]
      omega

theorem getD_eq_of_getElem? {β : Type} {l : List β} {i : Nat} {x d : β} (h : l[i]? = some x) :
    l.getD i d = x := by
  rw [List.getD_eq_getElem?_getD, h]; rfl

theorem steppedB_getD (dt : Int) (l : List Int) (h : steppedB dt l = true) (i : Nat)
    (hi : i < l.length) : l.getD i 0 = l.getD 0 0 + i * dt :=
  getD_eq_of_getElem? (steppedB_getElem? dt l h i hi)

theorem pairwise_lt_getD_inj (l : List Int) (h : l.Pairwise (· < ·)) (i k : Nat)
    (hi : i < l.length) (hk : k < l.length) (e : l.getD i 0 = l.getD k 0) : i = k := by
  rw [List.getD_eq_getElem?_getD, List.getD_eq_getElem?_getD, List.getElem?_eq_getElem hi,
    List.getElem?_eq_getElem hk] at e
  simp only [Option.getD_some] at e
  rw [List.pairwise_iff_getElem] at h
  rcases Nat.lt_trichotomy i k with hlt | heq | hgt
  · have := h i k hi hk hlt; omega
  · exact heq
  · have := h k i hk hi hgt; omega

theorem getD_mem {β : Type} (l : List β) (i : Nat) (d : β) (hi : i < l.length) : l.getD i d ∈ l := by
  rw [List.getD_eq_getElem?_getD, List.getElem?_eq_getElem hi]
  exact List.getElem_mem hi

theorem getD_map_of_lt {β γ : Type} (f : β → γ) (l : List β) (i : Nat) (d : β) (d' : γ)
    (hi : i < l.length) : (l.map f).getD i d' = f (l.getD i d) := by
  rw [List.getD_eq_getElem?_getD, List.getD_eq_getElem?_getD, List.getElem?_map,
    List.getElem?_eq_getElem hi]
  rfl

theorem pairwise_lt_inj {β : Type} (f : β → Int) : ∀ (l : List β),
    l.Pairwise (fun a b => f a < f b) → ∀ a ∈ l, ∀ b ∈ l, f a = f b → a = b := by
  intro l h
  induction h with
  | nil => intro a ha; cases ha
  | cons hx _ ih =>
    intro a ha b hb e
    rcases List.mem_cons.1 ha with rfl | ha' <;> rcases List.mem_cons.1 hb with rfl | hb'
    · rfl
    · have := hx b hb'; omega
    · have := hx a ha'; omega
    · exact ih a ha' b hb' e

theorem filterMap_map_sublist {β γ δ : Type} (f : β → Option γ) (p : γ → δ) (q : β → δ)
    (hf : ∀ a b, f a = some b → p b = q a) :
    ∀ l : List β, ((l.filterMap f).map p).Sublist (l.map q) := by
  intro l
  induction l with
  | nil => exact List.Sublist.slnil
  | cons a l ih =>
    rw [List.filterMap_cons]
    cases h : f a with
    | none => exact List.Sublist.cons _ ih
    | some b =>
      simp only [List.map_cons]
      rw [hf a b h]
      exact List.Sublist.cons_cons _ ih

/-! ### labels -/

theorem foldl_dedup_mem (ls : List Nat) : ∀ (acc : List Nat) (x : Nat),
    x ∈ ls.foldl (fun acc l => if acc.contains l then acc else acc ++ [l]) acc ↔ x ∈ acc ∨ x ∈ ls := by
  induction ls with
  | nil => intro acc x; simp
  | cons l ls ih =>
    intro acc x
    rw [List.foldl_cons, ih]
    by_cases hc : acc.contains l = true
    · rw [if_pos hc]
      have hl : l ∈ acc := List.contains_iff_mem.1 hc
      constructor
      · rintro (h | h)
        · exact Or.inl h
        · exact Or.inr (List.mem_cons_of_mem _ h)
      · rintro (h | h)
        · exact Or.inl h
        · rcases List.mem_cons.1 h with rfl | h
          · exact Or.inl hl
          · exact Or.inr h
    · rw [if_neg hc]
      simp only [List.mem_append, List.mem_cons, List.not_mem_nil, or_false]
      constructor
      · rintro ((h | h) | h)
        · exact Or.inl h
        · exact Or.inr (Or.inl h)
        · exact Or.inr (Or.inr h)
      · rintro (h | h | h)
        · exact Or.inl (Or.inl h)
        · exact Or.inl (Or.inr h)
        · exact Or.inr h

theorem foldl_dedup_nodup (ls : List Nat) : ∀ (acc : List Nat), acc.Nodup →
    (ls.foldl (fun acc l => if acc.contains l then acc else acc ++ [l]) acc).Nodup := by
  induction ls with
  | nil => intro acc h; exact h
  | cons l ls ih =>
    intro acc h
    rw [List.foldl_cons]
    apply ih
    by_cases hc : acc.contains l = true
    · rw [if_pos hc]; exact h
    · rw [if_neg hc]
      have hl : l ∉ acc := fun hm => hc (List.contains_iff_mem.2 hm)
      refine List.nodup_append.2 ⟨h, List.nodup_cons.2 ⟨List.not_mem_nil, List.nodup_nil⟩, ?_⟩
      intro a ha b hb e
      rw [List.mem_singleton] at hb
      subst hb; subst e
      exact hl ha

variable {α : Type}

theorem labelsOf_nodup (db : Loaded α) : (labelsOf db).Nodup :=
  foldl_dedup_nodup _ [] List.nodup_nil

theorem mem_labelsOf (db : Loaded α) (l : Nat) :
    l ∈ labelsOf db ↔
      ∃ g ∈ db.grid, g.2 = some l ∧ db.level.any (fun z => z.1 == g.1) = true := by
  unfold labelsOf
  rw [foldl_dedup_mem, List.mem_filterMap]
  constructor
  · rintro (h | ⟨g, hg, h⟩)
    · cases h
    · refine ⟨g, hg, ?_⟩
      by_cases hc : db.level.any (fun z => z.1 == g.1) = true
      · rw [if_pos hc] at h; exact ⟨h, hc⟩
      · rw [if_neg hc] at h; cases h
  · rintro ⟨g, hg, h, hc⟩
    exact Or.inr ⟨g, hg, by rw [if_pos hc]; exact h⟩

/-! ### samples -/

/-- the row of the three-way join for grid row `g` -/
def sampleRow (db : Loaded α) (label : Nat) (g : Int × Option Nat) : Option (Int × α × α) :=
  if g.2 == some label then
    match db.rain.find? (fun r => r.1 == g.1), db.level.find? (fun z => z.1 == g.1) with
    | some r, some z => some (g.1, z.2, r.2.2)
    | _, _ => none
  else none

theorem samplesOf_eq (db : Loaded α) (label : Nat) :
    samplesOf db label = db.grid.filterMap (sampleRow db label) := rfl

theorem sampleRow_some (db : Loaded α) (label : Nat) (g : Int × Option Nat) (x : Int × α × α)
    (h : sampleRow db label g = some x) : x.1 = g.1 ∧ g.2 = some label := by
  unfold sampleRow at h
  by_cases hc : (g.2 == some label) = true
  · rw [if_pos hc] at h
    refine ⟨?_, by simpa using hc⟩
    split at h
    · injection h with h; rw [← h]
    · cases h
  · rw [if_neg hc] at h; cases h

theorem sampleRow_isSome (db : Loaded α) (label : Nat) (g : Int × Option Nat)
    (hl : g.2 = some label) (hr : db.rain.any (fun r => r.1 == g.1) = true)
    (hz : db.level.any (fun z => z.1 == g.1) = true) : ∃ x, sampleRow db label g = some x := by
  unfold sampleRow
  rw [if_pos (by rw [hl]; exact beq_self_eq_true _)]
  cases h1 : db.rain.find? (fun r => r.1 == g.1) with
  | none =>
    rw [List.any_eq_true] at hr
    obtain ⟨r, hr, hp⟩ := hr
    exact absurd hp (List.find?_eq_none.1 h1 r hr)
  | some r =>
    cases h2 : db.level.find? (fun z => z.1 == g.1) with
    | none =>
      rw [List.any_eq_true] at hz
      obtain ⟨z, hz, hp⟩ := hz
      exact absurd hp (List.find?_eq_none.1 h2 z hz)
    | some z => exact ⟨_, rfl⟩

theorem samplesOf_epochs_sublist (db : Loaded α) (label : Nat) :
    ((samplesOf db label).map (·.1)).Sublist (db.grid.map (·.1)) :=
  filterMap_map_sublist _ _ _ (fun g x h => (sampleRow_some db label g x h).1) _

theorem mem_samplesOf_epochs (db : Loaded α) (label : Nat) (e : Int)
    (h : e ∈ (samplesOf db label).map (·.1)) : ∃ g ∈ db.grid, g.1 = e ∧ g.2 = some label := by
  rw [List.mem_map] at h
  obtain ⟨x, hx, rfl⟩ := h
  rw [samplesOf_eq, List.mem_filterMap] at hx
  obtain ⟨g, hg, hgx⟩ := hx
  have := sampleRow_some db label g x hgx
  exact ⟨g, hg, this.1.symm, this.2⟩

/-! ### well-formedness, unpacked -/

theorem wellFormed_iff (db : Loaded α) :
    wellFormedLoadedB db = true ↔
      0 < db.step ∧ increasingB (db.grid.map (·.1)) = true ∧ labelsOf db ≠ [] ∧
      (∀ g ∈ db.grid, db.level.any (fun z => z.1 == g.1) = true →
        db.rain.any (fun r => r.1 == g.1) = true) ∧
      (∀ l ∈ labelsOf db, steppedB db.step ((samplesOf db l).map (·.1)) = true) := by
  unfold wellFormedLoadedB
  simp only [Bool.and_eq_true, decide_eq_true_eq, List.all_eq_true, Bool.or_eq_true,
    Bool.not_eq_true', List.isEmpty_eq_false_iff]
  constructor
  · rintro ⟨⟨⟨⟨h1, h2⟩, h3⟩, h4⟩, h5⟩
    refine ⟨h1, h2, h3, ?_, h5⟩
    intro g hg hz
    rcases h4 g hg with h | h
    · rw [hz] at h; cases h
    · exact h
  · rintro ⟨h1, h2, h3, h4, h5⟩
    refine ⟨⟨⟨⟨h1, h2⟩, h3⟩, ?_⟩, h5⟩
    intro g hg
    cases hz : db.level.any (fun z => z.1 == g.1) with
    | false => exact Or.inl rfl
    | true => exact Or.inr (h4 g hg hz)

theorem samplesOf_ne_nil (db : Loaded α) (h : wellFormedLoadedB db = true) (l : Nat)
    (hl : l ∈ labelsOf db) : samplesOf db l ≠ [] := by
  obtain ⟨_, _, _, h4, _⟩ := (wellFormed_iff db).1 h
  obtain ⟨g, hg, hgl, hz⟩ := (mem_labelsOf db l).1 hl
  obtain ⟨x, hx⟩ := sampleRow_isSome db l g hgl (h4 g hg hz) hz
  have : x ∈ samplesOf db l := by
    rw [samplesOf_eq, List.mem_filterMap]; exact ⟨g, hg, hx⟩
  intro e
  rw [e] at this
  cases this

theorem grid_pairwise (db : Loaded α) (h : wellFormedLoadedB db = true) :
    db.grid.Pairwise (fun a b => a.1 < b.1) := by
  obtain ⟨_, h2, _⟩ := (wellFormed_iff db).1 h
  exact List.pairwise_map.1 (increasingB_pairwise _ h2)

theorem samplesOf_epochs_pairwise (db : Loaded α) (h : wellFormedLoadedB db = true) (l : Nat) :
    ((samplesOf db l).map (·.1)).Pairwise (· < ·) := by
  obtain ⟨_, h2, _⟩ := (wellFormed_iff db).1 h
  exact (increasingB_pairwise _ h2).sublist (samplesOf_epochs_sublist db l)

/-- distinct stretches have no epoch in common -/
theorem samplesOf_epochs_disjoint (db : Loaded α) (h : wellFormedLoadedB db = true) (l l' : Nat)
    (e : Int) (h1 : e ∈ (samplesOf db l).map (·.1)) (h2 : e ∈ (samplesOf db l').map (·.1)) :
    l = l' := by
  obtain ⟨g, hg, hge, hgl⟩ := mem_samplesOf_epochs db l e h1
  obtain ⟨g', hg', hge', hgl'⟩ := mem_samplesOf_epochs db l' e h2
  have := pairwise_lt_inj (fun g : Int × Option Nat => g.1) db.grid (grid_pairwise db h) g hg g' hg'
    (by rw [hge, hge'])
  subst this
  rw [hgl] at hgl'
  injection hgl'

/-! ### one stretch, and the fold over the stretches -/

variable [Num α]

/-- the result of `classifyStretch` when it does not refuse -/
def stretchOf (pick : List Nat → Nat) (s j : α) (db : Loaded α) (label : Nat) : Classified :=
  let smp := samplesOf db label
  let es := smp.map (·.1)
  let r := classifyIdx pick s j db.step (smp.map (·.2.1)) (smp.map (·.2.2))
  let e (i : Nat) : Int := es.getD i 0
  { flags := List.zipWith (fun t f => (t, f)) es r.flags
    interstorms := r.interstorms.map (fun ab => (e ab.1, e (ab.2 - 1)))
    pairs := r.pairs.map (fun p => ((e p.1.1, e (p.1.2 - 1) + db.step), (e p.2.1, e p.2.2)))
    strict := r.strict }

def StretchOk (db : Loaded α) (label : Nat) : Prop :=
  samplesOf db label ≠ [] ∧ uniformB ((samplesOf db label).map (·.1)) = true

theorem classifyStretch_ok_iff (pick : List Nat → Nat) (s j : α) (db : Loaded α) (l : Nat)
    (c : Classified) :
    classifyStretch pick s j db l = .ok c ↔ StretchOk db l ∧ c = stretchOf pick s j db l := by
  unfold classifyStretch StretchOk
  cases hs : samplesOf db l with
  | nil =>
    simp only [List.isEmpty_nil, if_true]
    constructor
    · intro h; cases h
    · rintro ⟨⟨h, _⟩, _⟩; exact absurd rfl h
  | cons x xs =>
    simp only [List.isEmpty_cons, Bool.false_eq_true, if_false]
    cases hu : uniformB (List.map (·.1) (x :: xs)) with
    | false =>
      simp only [Bool.not_false, if_true]
      constructor
      · intro h; cases h
      · rintro ⟨⟨_, h⟩, _⟩; cases h
    | true =>
      simp only [Bool.not_true, Bool.false_eq_true, if_false, Except.ok.injEq]
      unfold stretchOf
      rw [hs]
      constructor
      · intro h; exact ⟨⟨List.cons_ne_nil _ _, trivial⟩, h.symm⟩
      · rintro ⟨_, h⟩; exact h.symm

theorem classified_ext {c c' : Classified} (h1 : c.flags = c'.flags)
    (h2 : c.interstorms = c'.interstorms) (h3 : c.pairs = c'.pairs) (h4 : c.strict = c'.strict) :
    c = c' := by
  cases c; cases c'; simp only at h1 h2 h3 h4; subst h1 h2 h3 h4; rfl

/-- The accumulation over the stretches, for an arbitrary per-stretch function. -/
theorem foldlM_merge (f : Nat → Except ClassifyErr Classified) (g : Nat → Classified)
    (ok : Nat → Prop) (hf : ∀ l c, f l = .ok c ↔ ok l ∧ c = g l) :
    ∀ (ls : List Nat) (acc c : Classified),
      ls.foldlM (fun (acc : Classified) l => do
        let c ← f l
        pure { flags := acc.flags ++ c.flags, interstorms := acc.interstorms ++ c.interstorms,
               pairs := acc.pairs ++ c.pairs, strict := acc.strict && c.strict }) acc = .ok c ↔
      (∀ l ∈ ls, ok l) ∧
        c.flags = acc.flags ++ ls.flatMap (fun l => (g l).flags) ∧
        c.interstorms = acc.interstorms ++ ls.flatMap (fun l => (g l).interstorms) ∧
        c.pairs = acc.pairs ++ ls.flatMap (fun l => (g l).pairs) ∧
        c.strict = (acc.strict && ls.all (fun l => (g l).strict)) := by
  intro ls
  induction ls with
  | nil =>
    intro acc c
    simp only [List.foldlM_nil, List.flatMap_nil, List.append_nil, List.all_nil, Bool.and_true]
    constructor
    · intro h
      cases h
      exact ⟨fun _ h => (nomatch h), rfl, rfl, rfl, rfl⟩
    · rintro ⟨_, h1, h2, h3, h4⟩
      rw [classified_ext h1 h2 h3 h4]; rfl
  | cons l ls ih =>
    intro acc c
    rw [List.foldlM_cons]
    cases hfl : f l with
    | error e =>
      constructor
      · intro h; cases h
      · rintro ⟨hok, _⟩
        have := (hf l (g l)).2 ⟨hok l List.mem_cons_self, rfl⟩
        rw [hfl] at this; cases this
    | ok c1 =>
      obtain ⟨hokl, rfl⟩ := (hf l c1).1 hfl
      show List.foldlM _ _ ls = Except.ok c ↔ _
      rw [ih]
      simp only [List.flatMap_cons, List.append_assoc, List.all_cons, Bool.and_assoc,
        List.mem_cons, forall_eq_or_imp]
      constructor
      · rintro ⟨h0, h⟩; exact ⟨⟨hokl, h0⟩, h⟩
      · rintro ⟨⟨_, h0⟩, h⟩; exact ⟨h0, h⟩

theorem classifyAll_ok_iff (pick : List Nat → Nat) (s j : α) (db : Loaded α) (c : Classified) :
    classifyAll pick s j db = .ok c ↔
      labelsOf db ≠ [] ∧ (∀ l ∈ labelsOf db, StretchOk db l) ∧
        c.flags = (labelsOf db).flatMap (fun l => (stretchOf pick s j db l).flags) ∧
        c.interstorms = (labelsOf db).flatMap (fun l => (stretchOf pick s j db l).interstorms) ∧
        c.pairs = (labelsOf db).flatMap (fun l => (stretchOf pick s j db l).pairs) ∧
        c.strict = (labelsOf db).all (fun l => (stretchOf pick s j db l).strict) := by
  unfold classifyAll
  cases hl : labelsOf db with
  | nil =>
    simp only [List.isEmpty_nil, if_true]
    constructor
    · intro h; cases h
    · rintro ⟨h, _⟩; exact absurd rfl h
  | cons l ls =>
    simp only [List.isEmpty_cons, Bool.false_eq_true, if_false]
    rw [foldlM_merge _ _ _ (classifyStretch_ok_iff pick s j db)]
    simp only [List.nil_append, Bool.true_and, ne_eq, reduceCtorEq, not_false_eq_true, true_and]

/-! ### shift of the time origin -/

theorem beq_add_right (a b k : Int) : (a + k == b + k) = (a == b) := by
  rw [Bool.eq_iff_iff, beq_iff_eq, beq_iff_eq]; omega

omit [Num α] in
theorem labelsOf_shift (db : Loaded α) (k : Int) : labelsOf (db.shift k) = labelsOf db := by
  unfold labelsOf Loaded.shift
  simp only [List.filterMap_map, List.any_map, Function.comp_def, beq_add_right]

omit [Num α] in
theorem sampleRow_shift (db : Loaded α) (k : Int) (l : Nat) (g : Int × Option Nat) :
    sampleRow (db.shift k) l (g.1 + k, g.2) =
      (sampleRow db l g).map (fun x => (x.1 + k, x.2)) := by
  unfold sampleRow Loaded.shift
  simp only [List.find?_map, Function.comp_def, beq_add_right]
  by_cases hc : (g.2 == some l) = true
  · rw [if_pos hc, if_pos hc]
    cases db.rain.find? (fun r => r.1 == g.1) with
    | none => rfl
    | some r =>
      cases db.level.find? (fun z => z.1 == g.1) with
      | none => rfl
      | some z => rfl
  · rw [if_neg hc, if_neg hc]; rfl

omit [Num α] in
theorem samplesOf_shift (db : Loaded α) (k : Int) (l : Nat) :
    samplesOf (db.shift k) l = (samplesOf db l).map (fun x => (x.1 + k, x.2)) := by
  rw [samplesOf_eq, samplesOf_eq]
  show List.filterMap _ (List.map (fun g => (g.1 + k, g.2)) db.grid) = _
  rw [List.filterMap_map, List.map_filterMap]
  congr 1
  funext g
  exact sampleRow_shift db k l g

theorem diffs_shift (l : List Int) (k : Int) :
    List.zipWith (fun b a => b - a) (l.map (· + k)).tail (l.map (· + k)) =
      List.zipWith (fun b a => b - a) l.tail l := by
  rw [← List.map_tail, List.zipWith_map]
  congr 1
  funext a b
  omega

theorem uniformB_shift (l : List Int) (k : Int) : uniformB (l.map (· + k)) = uniformB l := by
  match l with
  | [] => rfl
  | [_] => rfl
  | a :: b :: t =>
    have := diffs_shift (a :: b :: t) k
    unfold uniformB
    simp only [List.map_cons] at this ⊢
    rw [this]
    congr 1
    funext d
    rw [Bool.eq_iff_iff, beq_iff_eq, beq_iff_eq]
    omega

def mergeC (acc c : Classified) : Classified :=
  { flags := acc.flags ++ c.flags, interstorms := acc.interstorms ++ c.interstorms,
    pairs := acc.pairs ++ c.pairs, strict := acc.strict && c.strict }

theorem mergeC_shift (acc c : Classified) (k : Int) :
    mergeC (acc.shift k) (c.shift k) = (mergeC acc c).shift k := by
  unfold mergeC Classified.shift
  simp only [List.map_append]

theorem foldlM_shift (f f' : Nat → Except ClassifyErr Classified) (k : Int)
    (h : ∀ l, f' l = (f l).map (fun c : Classified => c.shift k)) :
    ∀ (ls : List Nat) (acc : Classified),
      ls.foldlM (fun (acc : Classified) l => do let c ← f' l; pure (mergeC acc c)) (acc.shift k) =
        (ls.foldlM (fun (acc : Classified) l => do let c ← f l; pure (mergeC acc c)) acc).map
          (fun c : Classified => c.shift k) := by
  intro ls
  induction ls with
  | nil => intro acc; rfl
  | cons l ls ih =>
    intro acc
    rw [List.foldlM_cons, List.foldlM_cons, h l]
    cases f l with
    | error e => rfl
    | ok c1 =>
      show List.foldlM _ (mergeC (acc.shift k) (c1.shift k)) ls = _
      rw [mergeC_shift, ih]
      rfl

end Spowtd
