import SpowtdModel.Lemmas.LoadASort
/-
  Helper lemmas for Props/C10.lean and Props/C11.lean:
  the grid core, the uniform step, stepped / increasing lists, and the unfolding of `load`.
-/
namespace Spowtd
variable {α : Type}

/-! ### the grid core -/

theorem gridCore_mem_iff (rain level : List (Int × α)) (e : Int) :
    e ∈ gridCore rain level ↔
      (∃ v, (e, v) ∈ rain) ∧ (∃ z ∈ level, z.1 ≤ e) ∧ (∃ z ∈ level, e ≤ z.1) := by
  unfold gridCore
  cases h1 : minOf (level.map (·.1)) with
  | none =>
    have h := List.map_eq_nil_iff.mp ((minOf_eq_none_iff _).mp h1)
    subst h
    simp
  | some lo =>
    cases h2 : minOf (level.map (fun z => - z.1)) with
    | none =>
      have h := List.map_eq_nil_iff.mp ((minOf_eq_none_iff _).mp h2)
      subst h
      simp
    | some nhi =>
      obtain ⟨a1, a2⟩ := minOf_spec h1
      obtain ⟨b1, b2⟩ := minOf_spec h2
      obtain ⟨zl, hzl, hzl'⟩ := List.mem_map.mp a1
      obtain ⟨zh, hzh, hzh'⟩ := List.mem_map.mp b1
      simp only [List.mem_filter, Bool.and_eq_true, decide_eq_true_eq]
      constructor
      · rintro ⟨hm, hlo, hhi⟩
        obtain ⟨r, hr, hr'⟩ := List.mem_map.mp hm
        refine ⟨⟨r.2, ?_⟩, ⟨zl, hzl, by omega⟩, ⟨zh, hzh, by omega⟩⟩
        have : (e, r.2) = r := by rw [← hr']
        rw [this]
        exact mem_sortRows.mp hr
      · rintro ⟨⟨v, hv⟩, ⟨z, hz, hze⟩, ⟨z', hz', hze'⟩⟩
        refine ⟨List.mem_map.mpr ⟨(e, v), mem_sortRows.mpr hv, rfl⟩, ?_, ?_⟩
        · have := a2 z.1 (List.mem_map.mpr ⟨z, hz, rfl⟩)
          omega
        · have := b2 (- z'.1) (List.mem_map.mpr ⟨z', hz', rfl⟩)
          omega

theorem gridCore_perm {rain rain' level level' : List (Int × α)} (hr : rain.Perm rain')
    (hn : (rain.map (·.1)).Nodup) (hz : level.Perm level') :
    gridCore rain level = gridCore rain' level' := by
  unfold gridCore
  rw [minOf_perm (hz.map (·.1)), minOf_perm (hz.map (fun z => - z.1)), sortRows_eq_of_perm hr hn]

theorem gridCore_strict (rain level : List (Int × α)) (hn : (rain.map (·.1)).Nodup) :
    (gridCore rain level).Pairwise (· < ·) := by
  unfold gridCore
  split
  · exact (sortRows_keys_strict rain hn).filter _
  · exact List.Pairwise.nil

/-! ### differences, stepped and increasing lists -/

theorem diffs_cons_cons (a b : Int) (t : List Int) : diffs (a :: b :: t) = (b - a) :: diffs (b :: t) :=
  rfl

theorem steppedB_eq_all (dt : Int) : ∀ l : List Int, steppedB dt l = (diffs l).all (fun x => x == dt)
  | [] => rfl
  | [_] => rfl
  | a :: b :: t => by
    have ih := steppedB_eq_all dt (b :: t)
    rw [diffs_cons_cons, List.all_cons, ← ih]
    rfl

theorem diffs_eq_nil_iff (l : List Int) : diffs l = [] ↔ l.length < 2 := by
  match l with
  | [] => simp [diffs]
  | [_] => simp [diffs]
  | a :: b :: t => simp [diffs_cons_cons]

theorem stepOf_eq_some_iff {core : List Int} {dt : Int} :
    stepOf core = some dt ↔ ∃ a b t, core = a :: b :: t ∧ b - a = dt ∧ steppedB dt core = true := by
  match core with
  | [] => simp [stepOf, diffs]
  | [_] => simp [stepOf, diffs]
  | a :: b :: t =>
    simp only [stepOf, diffs_cons_cons]
    constructor
    · intro h
      split at h
      · rename_i hall
        simp only [Option.some.injEq] at h
        refine ⟨a, b, t, rfl, h, ?_⟩
        rw [steppedB_eq_all, diffs_cons_cons, List.all_cons, ← h, hall]
        simp
      · cases h
    · rintro ⟨a', b', t', heq, hd, hs⟩
      simp only [List.cons.injEq] at heq
      obtain ⟨rfl, rfl, rfl⟩ := heq
      rw [steppedB_eq_all, diffs_cons_cons, List.all_cons, ← hd] at hs
      simp only [Bool.and_eq_true] at hs
      rw [if_pos hs.2, hd]

theorem getLastD_cons_cons (a b : Int) (t : List Int) (d : Int) :
    (a :: b :: t).getLastD d = (b :: t).getLastD d := by
  simp

theorem steppedB_append_closing (dt : Int) : ∀ (l : List Int), l ≠ [] → steppedB dt l = true →
    steppedB dt (l ++ [l.getLastD 0 + dt]) = true
  | [], h, _ => absurd rfl h
  | [a], _, _ => by
    simp only [List.getLastD_cons, List.getLastD_nil, List.cons_append, List.nil_append, steppedB,
      Bool.and_true, beq_iff_eq]
    omega
  | a :: b :: t, _, hs => by
    simp only [steppedB, Bool.and_eq_true] at hs
    have ih := steppedB_append_closing dt (b :: t) (List.cons_ne_nil _ _) hs.2
    rw [getLastD_cons_cons]
    simp only [List.cons_append, steppedB, Bool.and_eq_true]
    exact ⟨hs.1, ih⟩

theorem increasingB_of_steppedB (dt : Int) (hdt : 0 < dt) : ∀ (l : List Int),
    steppedB dt l = true → increasingB l = true
  | [], _ => rfl
  | [_], _ => rfl
  | a :: b :: t, hs => by
    simp only [steppedB, Bool.and_eq_true, beq_iff_eq] at hs
    simp only [increasingB, Bool.and_eq_true, decide_eq_true_eq]
    exact ⟨by omega, increasingB_of_steppedB dt hdt (b :: t) hs.2⟩

theorem increasingB_iff_pairwise : ∀ (l : List Int), increasingB l = true ↔ l.Pairwise (· < ·)
  | [] => by simp [increasingB]
  | [_] => by simp [increasingB]
  | a :: b :: t => by
    have ih := increasingB_iff_pairwise (b :: t)
    simp only [increasingB, Bool.and_eq_true, decide_eq_true_eq, ih]
    constructor
    · rintro ⟨hab, hp⟩
      refine List.pairwise_cons.mpr ⟨?_, hp⟩
      intro x hx
      rcases List.mem_cons.mp hx with rfl | hx'
      · exact hab
      · exact Int.lt_trans hab ((List.pairwise_cons.mp hp).1 x hx')
    · intro hp
      have := List.pairwise_cons.mp hp
      exact ⟨this.1 b List.mem_cons_self, this.2⟩

/-- Filtering a stepped, increasing list by a predicate that is convex on it keeps it stepped. -/
theorem steppedB_filter_convex (dt : Int) (P : Int → Bool) : ∀ (L : List Int),
    steppedB dt L = true → L.Pairwise (· < ·) →
    (∀ x ∈ L, ∀ y ∈ L, ∀ z ∈ L, x < y → y < z → P x = true → P z = true → P y = true) →
    steppedB dt (L.filter P) = true
  | [], _, _, _ => rfl
  | [a], _, _, _ => by
    cases h : P a <;> simp [List.filter, h, steppedB]
  | a :: b :: t, hs, hp, hc => by
    have hp' := List.pairwise_cons.mp hp
    have hs' : (b - a == dt) = true ∧ steppedB dt (b :: t) = true := by
      simpa only [steppedB, Bool.and_eq_true] using hs
    have ih := steppedB_filter_convex dt P (b :: t) hs'.2 hp'.2
      (fun x hx y hy z hz => hc x (List.mem_cons_of_mem _ hx) y (List.mem_cons_of_mem _ hy) z
        (List.mem_cons_of_mem _ hz))
    cases ha : P a with
    | false => rw [List.filter_cons_of_neg (by simp [ha])]; exact ih
    | true =>
      rw [List.filter_cons_of_pos ha]
      cases hb : P b with
      | true =>
        rw [List.filter_cons_of_pos hb] at ih ⊢
        simp only [steppedB, Bool.and_eq_true]
        exact ⟨hs'.1, ih⟩
      | false =>
        have : t.filter P = [] := by
          rw [List.filter_eq_nil_iff]
          intro z hz hPz
          have hbz := (List.pairwise_cons.mp hp'.2).1 z hz
          have hab := hp'.1 b List.mem_cons_self
          have := hc a List.mem_cons_self b (List.mem_cons_of_mem _ List.mem_cons_self) z
            (List.mem_cons_of_mem _ (List.mem_cons_of_mem _ hz)) hab hbz ha hPz
          rw [hb] at this
          cases this
        rw [List.filter_cons_of_neg (by simp [hb]), this]
        rfl

/-! ### unfolding `load` -/

/-- every grid instant (closing one included) has an ET source row -/
def etCheck (f : Files α) (dt : Int) : Bool :=
  (gridCore f.rain f.level ++ [(gridCore f.rain f.level).getLastD 0 + dt]).all
    (fun g => f.et.any (fun r => r.1 == g))

def dupCheck (f : Files α) : Bool :=
  hasDup (f.rain.map (·.1)) || hasDup (f.et.map (·.1)) || hasDup (f.level.map (·.1))

/-- the copy of a source table onto the grid steps -/
def copyRows (core : List Int) (dt : Int) (src : List (Int × α)) : List (Int × Int × α) :=
  core.filterMap (fun e => (src.find? (fun r => r.1 == e)).map (fun r => (e, e + dt, r.2)))

/-- the valid intervals computed by `load` -/
def loadIvs (f : Files α) (dt : Int) : List (Int × Int × Nat) :=
  validIntervals ((gridCore f.rain f.level).headD 0) ((gridCore f.rain f.level).getLastD 0 + dt)
    (gapsOf ((sortRows f.level).map (·.1)))

/-- the record produced by an accepted `load` with step `dt` -/
def loadResult [Num α] (f : Files α) (dt : Int) : Loaded α :=
  let core := gridCore f.rain f.level
  { step := dt
    grid := (core ++ [core.getLastD 0 + dt]).map (fun g => (g, labelOf (loadIvs f dt) g))
    rain := copyRows core dt f.rain
    et := copyRows core dt f.et
    level := core.filterMap (fun g =>
      match labelOf (loadIvs f dt) g, interp (sortRows f.level) g with
      | some _, some v => some (g, v)
      | _, _ => none) }

theorem load_unfold [Num α] (f : Files α) (pop : Bool) :
    load f pop =
      if pop then .error .populated
      else if dupCheck f then .error .duplicate
      else match stepOf (gridCore f.rain f.level) with
        | none => .error .nonuniform
        | some dt => if !(etCheck f dt) then .error .noET else .ok (loadResult f dt) := rfl

theorem load_ok_inv [Num α] {f : Files α} {pop : Bool} {d : Loaded α} (h : load f pop = .ok d) :
    pop = false ∧ dupCheck f = false ∧ stepOf (gridCore f.rain f.level) = some d.step ∧
      etCheck f d.step = true ∧ d = loadResult f d.step := by
  rw [load_unfold] at h
  cases pop with
  | true => simp at h
  | false =>
    cases hd : dupCheck f with
    | true => simp [hd] at h
    | false =>
      simp only [Bool.false_eq_true, ↓reduceIte, hd] at h
      cases hs : stepOf (gridCore f.rain f.level) with
      | none => simp [hs] at h
      | some dt =>
        simp only [hs] at h
        cases he : etCheck f dt with
        | false => simp [he] at h
        | true =>
          simp only [he, Bool.not_true, Bool.false_eq_true, ↓reduceIte, Except.ok.injEq] at h
          subst h
          exact ⟨rfl, rfl, rfl, he, rfl⟩

theorem dupCheck_eq_false_iff (f : Files α) :
    dupCheck f = false ↔ (f.rain.map (·.1)).Nodup ∧ (f.et.map (·.1)).Nodup ∧ (f.level.map (·.1)).Nodup := by
  simp only [dupCheck, Bool.or_eq_false_iff, hasDup_eq_false_iff, and_assoc]

theorem etCheck_iff (f : Files α) (dt : Int) :
    etCheck f dt = true ↔
      ∀ g ∈ gridCore f.rain f.level ++ [(gridCore f.rain f.level).getLastD 0 + dt],
        ∃ v, (g, v) ∈ f.et := by
  simp only [etCheck, List.all_eq_true, List.any_eq_true, beq_iff_eq]
  constructor
  · intro h g hg
    obtain ⟨r, hr, hr'⟩ := h g hg
    exact ⟨r.2, by rw [← hr']; exact hr⟩
  · intro h g hg
    obtain ⟨v, hv⟩ := h g hg
    exact ⟨(g, v), hv, rfl⟩

theorem loadResult_grid_fst [Num α] (f : Files α) (dt : Int) :
    (loadResult f dt).grid.map (·.1) =
      gridCore f.rain f.level ++ [(gridCore f.rain f.level).getLastD 0 + dt] := by
  simp only [loadResult, List.map_map]
  exact List.map_id' _

theorem load_ok_grid_fst [Num α] {f : Files α} {pop : Bool} {d : Loaded α} (h : load f pop = .ok d) :
    d.grid.map (·.1) =
      gridCore f.rain f.level ++ [(gridCore f.rain f.level).getLastD 0 + d.step] := by
  have h5 := (load_ok_inv h).2.2.2.2
  have := congrArg (fun x : Loaded α => x.grid.map (·.1)) h5
  simp only [loadResult_grid_fst] at this
  exact this

theorem stepOf_pos {core : List Int} {dt : Int} (hs : stepOf core = some dt)
    (hp : core.Pairwise (· < ·)) : 0 < dt := by
  obtain ⟨a, b, t, rfl, hd, _⟩ := stepOf_eq_some_iff.mp hs
  have := (List.pairwise_cons.mp hp).1 b List.mem_cons_self
  omega

theorem stepOf_length {core : List Int} {dt : Int} (hs : stepOf core = some dt) :
    2 ≤ core.length := by
  obtain ⟨a, b, t, rfl, _, _⟩ := stepOf_eq_some_iff.mp hs
  simp

theorem stepOf_stepped {core : List Int} {dt : Int} (hs : stepOf core = some dt) :
    steppedB dt core = true := by
  obtain ⟨a, b, t, _, _, h⟩ := stepOf_eq_some_iff.mp hs
  exact h

/-- the grid of an accepted load: positive step, stepped, increasing -/
theorem grid_facts (f : Files α) (dt : Int) (hn : (f.rain.map (·.1)).Nodup)
    (hs : stepOf (gridCore f.rain f.level) = some dt) :
    0 < dt ∧
    steppedB dt (gridCore f.rain f.level ++ [(gridCore f.rain f.level).getLastD 0 + dt]) = true ∧
    increasingB (gridCore f.rain f.level ++ [(gridCore f.rain f.level).getLastD 0 + dt]) = true := by
  have hpos := stepOf_pos hs (gridCore_strict f.rain f.level hn)
  have hne : gridCore f.rain f.level ≠ [] := by
    intro h
    have := stepOf_length hs
    rw [h] at this
    simp at this
  have hst := steppedB_append_closing dt _ hne (stepOf_stepped hs)
  exact ⟨hpos, hst, increasingB_of_steppedB dt hpos _ hst⟩

/-! ### copies -/

theorem mem_copyRows {core : List Int} {dt : Int} {src : List (Int × α)}
    (hn : (src.map (·.1)).Nodup) {a b : Int} {v : α} :
    (a, b, v) ∈ copyRows core dt src ↔ a ∈ core ∧ b = a + dt ∧ (a, v) ∈ src := by
  unfold copyRows
  rw [List.mem_filterMap]
  constructor
  · rintro ⟨e, he, h⟩
    obtain ⟨r, hr, hr'⟩ := Option.map_eq_some_iff.mp h
    obtain ⟨h1, h2⟩ := (find?_key_eq_some_iff hn).mp hr
    simp only [Prod.mk.injEq] at hr'
    obtain ⟨rfl, rfl, rfl⟩ := hr'
    refine ⟨he, rfl, ?_⟩
    rw [← h2]
    exact h1
  · rintro ⟨h1, rfl, h3⟩
    refine ⟨a, h1, ?_⟩
    rw [(find?_key_eq_some_iff hn).mpr ⟨h3, rfl⟩]
    rfl

/-! ### invariance under permutation of the rows -/

theorem dupCheck_perm {f f' : Files α} (hr : f.rain.Perm f'.rain) (he : f.et.Perm f'.et)
    (hz : f.level.Perm f'.level) : dupCheck f = dupCheck f' := by
  unfold dupCheck
  rw [hasDup_perm (hr.map _), hasDup_perm (he.map _), hasDup_perm (hz.map _)]

theorem copyRows_perm {src src' : List (Int × α)} (h : src.Perm src') (hn : (src.map (·.1)).Nodup)
    (core : List Int) (dt : Int) : copyRows core dt src = copyRows core dt src' := by
  unfold copyRows
  congr 1
  funext e
  rw [find?_key_perm h hn e]

theorem etCheck_perm {f f' : Files α} (hr : f.rain.Perm f'.rain) (he : f.et.Perm f'.et)
    (hz : f.level.Perm f'.level) (hn : (f.rain.map (·.1)).Nodup) (dt : Int) :
    etCheck f dt = etCheck f' dt := by
  unfold etCheck
  rw [gridCore_perm hr hn hz]
  congr 1
  funext g
  exact he.any_eq

theorem loadResult_perm [Num α] {f f' : Files α} (hr : f.rain.Perm f'.rain) (he : f.et.Perm f'.et)
    (hz : f.level.Perm f'.level) (hnr : (f.rain.map (·.1)).Nodup) (hne : (f.et.map (·.1)).Nodup)
    (hnz : (f.level.map (·.1)).Nodup) (dt : Int) : loadResult f dt = loadResult f' dt := by
  have hI : loadIvs f dt = loadIvs f' dt := by
    unfold loadIvs
    rw [gridCore_perm hr hnr hz, sortRows_eq_of_perm hz hnz]
  unfold loadResult
  simp only [hI]
  rw [gridCore_perm hr hnr hz, sortRows_eq_of_perm hz hnz, copyRows_perm hr hnr, copyRows_perm he hne]

theorem load_perm [Num α] (f f' : Files α) (pop : Bool)
    (hr : f.rain.Perm f'.rain) (he : f.et.Perm f'.et) (hz : f.level.Perm f'.level) :
    load f pop = load f' pop := by
  rw [load_unfold, load_unfold, ← dupCheck_perm hr he hz]
  cases pop with
  | true => rfl
  | false =>
    cases hd : dupCheck f with
    | true => rfl
    | false =>
      obtain ⟨hnr, hne, hnz⟩ := (dupCheck_eq_false_iff f).mp hd
      rw [← gridCore_perm hr hnr hz]
      cases stepOf (gridCore f.rain f.level) with
      | none => rfl
      | some dt =>
        simp only [← etCheck_perm hr he hz hnr dt, ← loadResult_perm hr he hz hnr hne hnz dt]

end Spowtd
