import SpowtdModel.Lemmas.GS
/-
  Invariants of the deferred-acceptance loop, termination measure, and stability of
  final states.  Everything is over `Reach`, i.e. valid for every schedule.
-/
namespace Spowtd.GS

/-! ## `Before` on lists -/

theorem before_nil (a b : Nat) : ¬ Before [] a b := by
  rintro ⟨pre, mid, post, h⟩
  cases pre <;> simp at h

theorem before_cons {x : Nat} {l : List Nat} {a b : Nat} :
    Before (x :: l) a b ↔ (x = a ∧ b ∈ l) ∨ Before l a b := by
  constructor
  · rintro ⟨pre, mid, post, h⟩
    cases pre with
    | nil =>
      simp only [List.nil_append, List.cons.injEq] at h
      exact Or.inl ⟨h.1, by rw [h.2]; simp⟩
    | cons y pre =>
      simp only [List.cons_append, List.cons.injEq] at h
      exact Or.inr ⟨pre, mid, post, h.2⟩
  · rintro (⟨rfl, hb⟩ | ⟨pre, mid, post, h⟩)
    · obtain ⟨mid, post, rfl⟩ := List.append_of_mem hb
      exact ⟨[], mid, post, rfl⟩
    · exact ⟨x :: pre, mid, post, by rw [h]; rfl⟩

theorem Before.mem_left {l : List Nat} {a b : Nat} (h : Before l a b) : a ∈ l := by
  obtain ⟨pre, mid, post, rfl⟩ := h
  simp

theorem Before.mem_right {l : List Nat} {a b : Nat} (h : Before l a b) : b ∈ l := by
  obtain ⟨pre, mid, post, rfl⟩ := h
  simp

/-- On a duplicate-free list `Before` is asymmetric. -/
theorem Before.asymm {l : List Nat} {a b : Nat} (hl : l.Nodup) (h : Before l a b) : ¬ Before l b a := by
  induction l with
  | nil => exact absurd h (before_nil a b)
  | cons x l ih =>
    obtain ⟨hx, hl'⟩ := List.nodup_cons.mp hl
    intro h'
    rcases before_cons.mp h with ⟨rfl, hb⟩ | h1
    · rcases before_cons.mp h' with ⟨rfl, _⟩ | h2
      · exact hx hb
      · exact hx h2.mem_right
    · rcases before_cons.mp h' with ⟨rfl, _⟩ | h2
      · exact hx h1.mem_right
      · exact ih hl' h1 h2

theorem Before.ne {l : List Nat} {a b : Nat} (hl : l.Nodup) (h : Before l a b) : a ≠ b := by
  rintro rfl
  exact h.asymm hl h

/-- Two distinct members of a list are ordered one way or the other. -/
theorem before_total {l : List Nat} {a b : Nat} (ha : a ∈ l) (hb : b ∈ l) (hab : a ≠ b) :
    Before l a b ∨ Before l b a := by
  induction l with
  | nil => cases ha
  | cons x l ih =>
    rcases List.mem_cons.mp ha with rfl | ha'
    · rcases List.mem_cons.mp hb with rfl | hb'
      · exact absurd rfl hab
      · exact Or.inl (before_cons.mpr (Or.inl ⟨rfl, hb'⟩))
    · rcases List.mem_cons.mp hb with rfl | hb'
      · exact Or.inr (before_cons.mpr (Or.inl ⟨rfl, ha'⟩))
      · rcases ih ha' hb' with h | h
        · exact Or.inl (before_cons.mpr (Or.inr h))
        · exact Or.inr (before_cons.mpr (Or.inr h))

theorem before_of_split {l pre suf : List Nat} {a b : Nat} (h : l = pre ++ a :: suf) (hb : b ∈ suf) :
    Before l a b := by
  obtain ⟨mid, post, rfl⟩ := List.append_of_mem hb
  exact ⟨pre, mid, post, h⟩

theorem before_of_split_left {l pre suf : List Nat} {a b : Nat} (h : l = pre ++ a :: suf) (hb : b ∈ pre) :
    Before l b a := by
  obtain ⟨p1, p2, rfl⟩ := List.append_of_mem hb
  exact ⟨p1, p2, suf, by rw [h]; simp⟩

/-! ## `upd`, `choose`, `step` -/

theorem upd_same {β : Type} (f : Nat → β) (k : Nat) (v : β) : upd f k v k = v := by
  simp [upd]

theorem upd_ne {β : Type} (f : Nat → β) {k x : Nat} (v : β) (h : x ≠ k) : upd f k v x = f x := by
  simp [upd, h]

theorem choose_mem (pick : List Nat → Nat) {free : List Nat} (h : free ≠ []) : choose pick free ∈ free := by
  have hpos : 0 < free.length := List.length_pos_iff.mpr h
  have hlt : pick free % free.length < free.length := Nat.mod_lt _ hpos
  unfold choose
  rw [List.getD_eq_getElem?_getD, List.getElem?_eq_getElem hlt]
  exact List.getElem_mem hlt

theorem step_accept {P : Problem} {st : State} {s r : Nat} {rs : List Nat}
    (hr : st.rest s = r :: rs) (hh : st.held r = none) :
    step P st s =
      { free := st.free.erase s, rest := upd st.rest s rs, held := upd st.held r (some s) } := by
  simp only [step, hr, hh]

theorem step_displace {P : Problem} {st : State} {s r t : Nat} {rs : List Nat}
    (hr : st.rest s = r :: rs) (hh : st.held r = some t) (hlt : P.score r t < P.score r s) :
    step P st s =
      { free := if (upd st.rest s rs t).isEmpty then st.free.erase s else t :: st.free.erase s
        rest := upd st.rest s rs, held := upd st.held r (some s) } := by
  simp only [step, hr, hh, hlt, if_true]

theorem step_reject {P : Problem} {st : State} {s r t : Nat} {rs : List Nat}
    (hr : st.rest s = r :: rs) (hh : st.held r = some t) (hlt : ¬ P.score r t < P.score r s) :
    step P st s =
      { free := if rs.isEmpty then st.free.erase s else s :: st.free.erase s
        rest := upd st.rest s rs, held := st.held } := by
  simp only [step, hr, hh, hlt, if_false]

theorem step_rest {P : Problem} {st : State} {s r : Nat} {rs : List Nat}
    (hr : st.rest s = r :: rs) : (step P st s).rest = upd st.rest s rs := by
  cases hh : st.held r with
  | none => rw [step_accept hr hh]
  | some t =>
    by_cases hlt : P.score r t < P.score r s
    · rw [step_displace hr hh hlt]
    · rw [step_reject hr hh hlt]

theorem mem_ite_cons {c : Prop} [Decidable c] {a x : Nat} {l : List Nat} :
    x ∈ (if c then l else a :: l) ↔ (¬ c ∧ x = a) ∨ x ∈ l := by
  by_cases h : c <;> simp [h]

/-! ## The invariant -/

/-- Everything that holds of every reachable state (ties allowed). -/
structure Inv (P : Problem) (st : State) : Prop where
  /-- the pool has no duplicates -/
  free_nodup : st.free.Nodup
  /-- the pool contains storms only -/
  free_sub : ∀ s, s ∈ st.free → s ∈ P.storms
  /-- a storm in the pool has candidates left -/
  free_rest : ∀ s, s ∈ st.free → st.rest s ≠ []
  /-- the remaining candidates are a suffix of the preference list -/
  suffix : ∀ s, ∃ pre, P.prefs s = pre ++ st.rest s
  /-- a holder is a storm outside the pool and the rise it holds is the last one it proposed to -/
  held_spec : ∀ r s, st.held r = some s →
    s ∈ P.storms ∧ s ∉ st.free ∧ ∃ pre, P.prefs s = pre ++ r :: st.rest s
  /-- a storm neither in the pool nor holding a rise has exhausted its list -/
  idle : ∀ s, s ∈ P.storms → s ∉ st.free → (∀ r, st.held r ≠ some s) → st.rest s = []
  /-- rises trade up: a rise that `s` proposed to and does not hold is held by someone at least as good -/
  tradeup : ∀ s r, r ∈ P.prefs s → r ∉ st.rest s → st.held r ≠ some s →
    ∃ t, st.held r = some t ∧ P.score r s ≤ P.score r t

theorem inv_init {P : Problem} (hP : WF P) : Inv P (init P) := by
  refine ⟨?_, ?_, ?_, ?_, ?_, ?_, ?_⟩
  · exact List.Nodup.sublist List.filter_sublist hP.storms_nodup
  · intro s hs
    exact (List.mem_filter.mp hs).1
  · intro s hs
    have h := (List.mem_filter.mp hs).2
    show P.prefs s ≠ []
    intro h0
    rw [h0] at h
    simp at h
  · intro s
    exact ⟨[], rfl⟩
  · intro r s h
    simp [init] at h
  · intro s hs hnf _
    show P.prefs s = []
    cases hp : P.prefs s with
    | nil => rfl
    | cons a l =>
      exfalso
      apply hnf
      show s ∈ P.storms.filter _
      rw [List.mem_filter]
      exact ⟨hs, by rw [hp]; rfl⟩
  · intro s r hr hnr _
    exact absurd hr hnr

theorem held_inj {P : Problem} {st : State} (hI : Inv P st) {r r' s : Nat}
    (h : st.held r = some s) (h' : st.held r' = some s) : r = r' := by
  obtain ⟨_, _, pre, hp⟩ := hI.held_spec r s h
  obtain ⟨_, _, pre', hp'⟩ := hI.held_spec r' s h'
  rw [hp] at hp'
  have := (List.append_inj' hp' rfl).2
  exact (List.cons.inj this).1

theorem held_mem_prefs {P : Problem} {st : State} (hI : Inv P st) {r s : Nat}
    (h : st.held r = some s) : s ∈ P.storms ∧ r ∈ P.prefs s := by
  obtain ⟨hs, _, pre, hp⟩ := hI.held_spec r s h
  exact ⟨hs, by rw [hp]; simp⟩

theorem inv_step {P : Problem} {st : State} {s : Nat} (hI : Inv P st) (hs : s ∈ st.free) :
    Inv P (step P st s) := by
  have hs_st : s ∈ P.storms := hI.free_sub s hs
  have hs_nh : ∀ x, st.held x ≠ some s := fun x h => (hI.held_spec x s h).2.1 hs
  obtain ⟨r, rs, hr⟩ : ∃ r rs, st.rest s = r :: rs := by
    cases h : st.rest s with
    | nil => exact absurd h (hI.free_rest s hs)
    | cons r rs => exact ⟨r, rs, rfl⟩
  obtain ⟨pre, hpre⟩ := hI.suffix s
  rw [hr] at hpre
  have herase : ∀ x, x ∈ st.free.erase s ↔ x ≠ s ∧ x ∈ st.free :=
    fun x => hI.free_nodup.mem_erase_iff
  have hnd : (st.free.erase s).Nodup := hI.free_nodup.erase s
  have hrest_s : upd st.rest s rs s = rs := upd_same _ _ _
  have hrest_ne : ∀ x, x ≠ s → upd st.rest s rs x = st.rest x := fun x h => upd_ne _ _ h
  -- suffix: the same in the three cases
  have hsuffix : ∀ x, ∃ pre, P.prefs x = pre ++ upd st.rest s rs x := by
    intro x
    by_cases hx : x = s
    · rw [hx, hrest_s, hpre]
      exact ⟨pre ++ [r], by simp⟩
    · rw [hrest_ne x hx]
      exact hI.suffix x
  -- an old holder is not the proposer
  have hholder_ne : ∀ x u, st.held x = some u → u ≠ s := by
    intro x u h hus
    exact hs_nh x (hus ▸ h)
  -- `held_spec` for the proposer when it is accepted
  have hspec_s : ∃ pre, P.prefs s = pre ++ r :: upd st.rest s rs s := ⟨pre, by rw [hrest_s, hpre]⟩
  -- `held_spec` for an old holder, pool part aside
  have hspec_old : ∀ x u, st.held x = some u →
      u ∈ P.storms ∧ u ∉ st.free ∧ ∃ pre, P.prefs u = pre ++ x :: upd st.rest s rs u := by
    intro x u h
    obtain ⟨h1, h2, h3⟩ := hI.held_spec x u h
    rw [hrest_ne u (hholder_ne x u h)]
    exact ⟨h1, h2, h3⟩
  -- trade-up when the proposer is accepted
  have htrade_new : (st.held r = none ∨ ∃ t, st.held r = some t ∧ P.score r t < P.score r s) →
      ∀ u x, x ∈ P.prefs u → x ∉ upd st.rest s rs u → upd st.held r (some s) x ≠ some u →
        ∃ t, upd st.held r (some s) x = some t ∧ P.score x u ≤ P.score x t := by
    intro hc u x hx hnr hnh
    by_cases hxr : x = r
    · rw [hxr] at hx hnh hnr ⊢
      rw [upd_same] at hnh ⊢
      have hus : u ≠ s := fun h => hnh (by rw [h])
      rw [hrest_ne u hus] at hnr
      refine ⟨s, rfl, ?_⟩
      rcases hc with hnone | ⟨t, ht, hlt⟩
      · obtain ⟨t', ht', _⟩ := hI.tradeup u r hx hnr (by rw [hnone]; simp)
        rw [hnone] at ht'
        cases ht'
      · by_cases hut : u = t
        · rw [hut]; omega
        · obtain ⟨t', ht', hle⟩ := hI.tradeup u r hx hnr
            (by rw [ht]; intro h; exact hut (Option.some.inj h).symm)
          rw [ht] at ht'
          cases ht'
          omega
    · rw [upd_ne _ _ hxr] at hnh ⊢
      by_cases hus : u = s
      · rw [hus] at hx hnr hnh ⊢
        rw [hrest_s] at hnr
        exact hI.tradeup s x hx (by rw [hr]; simp [hxr, hnr]) hnh
      · rw [hrest_ne u hus] at hnr
        exact hI.tradeup u x hx hnr hnh
  cases hh : st.held r with
  | none =>
    rw [step_accept hr hh]
    refine ⟨hnd, ?_, ?_, hsuffix, ?_, ?_, htrade_new (Or.inl hh)⟩
    · intro x hx
      exact hI.free_sub x ((herase x).mp hx).2
    · intro x hx
      obtain ⟨hne, hx'⟩ := (herase x).mp hx
      show upd st.rest s rs x ≠ []
      rw [hrest_ne x hne]
      exact hI.free_rest x hx'
    · intro x u hxu
      show u ∈ P.storms ∧ u ∉ st.free.erase s ∧ ∃ pre, P.prefs u = pre ++ x :: upd st.rest s rs u
      have hxu' : upd st.held r (some s) x = some u := hxu
      by_cases hxr : x = r
      · rw [hxr, upd_same] at hxu'
        cases hxu'
        rw [hxr]
        exact ⟨hs_st, fun h => ((herase s).mp h).1 rfl, hspec_s⟩
      · rw [upd_ne _ _ hxr] at hxu'
        obtain ⟨h1, h2, h3⟩ := hspec_old x u hxu'
        exact ⟨h1, fun h => h2 ((herase u).mp h).2, h3⟩
    · intro u hu hnf hnh
      show upd st.rest s rs u = []
      have hnh' : ∀ x, upd st.held r (some s) x ≠ some u := hnh
      have hnf' : u ∉ st.free.erase s := hnf
      by_cases hus : u = s
      · exact absurd (by rw [hus, upd_same]) (hnh' r)
      · rw [hrest_ne u hus]
        refine hI.idle u hu (fun h => hnf' ((herase u).mpr ⟨hus, h⟩)) ?_
        intro x hx
        by_cases hxr : x = r
        · rw [hxr, hh] at hx
          cases hx
        · exact hnh' x (by rw [upd_ne _ _ hxr]; exact hx)
  | some t =>
    have ht_spec := hI.held_spec r t hh
    have hts : t ≠ s := hholder_ne r t hh
    by_cases hlt : P.score r t < P.score r s
    · rw [step_displace hr hh hlt]
      rw [hrest_ne t hts]
      refine ⟨?_, ?_, ?_, hsuffix, ?_, ?_, htrade_new (Or.inr ⟨t, hh, hlt⟩)⟩
      · show (if (st.rest t).isEmpty then st.free.erase s else t :: st.free.erase s).Nodup
        split
        · exact hnd
        · exact List.nodup_cons.mpr ⟨fun h => ht_spec.2.1 ((herase t).mp h).2, hnd⟩
      · intro x hx
        rcases mem_ite_cons.mp hx with ⟨_, rfl⟩ | hx
        · exact ht_spec.1
        · exact hI.free_sub x ((herase x).mp hx).2
      · intro x hx
        show upd st.rest s rs x ≠ []
        rcases mem_ite_cons.mp hx with ⟨hne, rfl⟩ | hx
        · rw [hrest_ne x hts]
          intro h0
          exact hne (by rw [h0]; rfl)
        · obtain ⟨hne, hx'⟩ := (herase x).mp hx
          rw [hrest_ne x hne]
          exact hI.free_rest x hx'
      · intro x u hxu
        show u ∈ P.storms ∧ u ∉ (if (st.rest t).isEmpty then st.free.erase s else t :: st.free.erase s) ∧
          ∃ pre, P.prefs u = pre ++ x :: upd st.rest s rs u
        have hxu' : upd st.held r (some s) x = some u := hxu
        by_cases hxr : x = r
        · rw [hxr, upd_same] at hxu'
          cases hxu'
          rw [hxr]
          refine ⟨hs_st, ?_, hspec_s⟩
          intro h
          rcases mem_ite_cons.mp h with ⟨_, hst⟩ | h
          · exact hts hst.symm
          · exact ((herase s).mp h).1 rfl
        · rw [upd_ne _ _ hxr] at hxu'
          obtain ⟨h1, h2, h3⟩ := hspec_old x u hxu'
          refine ⟨h1, ?_, h3⟩
          intro h
          rcases mem_ite_cons.mp h with ⟨_, hut⟩ | h
          · rw [hut] at hxu'
            exact hxr (held_inj hI hxu' hh)
          · exact h2 ((herase u).mp h).2
      · intro u hu hnf hnh
        show upd st.rest s rs u = []
        have hnh' : ∀ x, upd st.held r (some s) x ≠ some u := hnh
        have hnf' : u ∉ (if (st.rest t).isEmpty then st.free.erase s else t :: st.free.erase s) := hnf
        by_cases hus : u = s
        · exact absurd (by rw [hus, upd_same]) (hnh' r)
        · rw [hrest_ne u hus]
          by_cases hut : u = t
          · rw [hut] at hnf' ⊢
            cases hrt : st.rest t with
            | nil => rfl
            | cons a l =>
              exfalso
              apply hnf'
              rw [hrt]
              simp
          · refine hI.idle u hu (fun h => hnf' (mem_ite_cons.mpr (Or.inr ((herase u).mpr ⟨hus, h⟩)))) ?_
            intro x hx
            by_cases hxr : x = r
            · rw [hxr, hh] at hx
              exact hut (Option.some.inj hx).symm
            · exact hnh' x (by rw [upd_ne _ _ hxr]; exact hx)
    · rw [step_reject hr hh hlt]
      refine ⟨?_, ?_, ?_, hsuffix, ?_, ?_, ?_⟩
      · show (if rs.isEmpty then st.free.erase s else s :: st.free.erase s).Nodup
        split
        · exact hnd
        · exact List.nodup_cons.mpr ⟨fun h => ((herase s).mp h).1 rfl, hnd⟩
      · intro x hx
        rcases mem_ite_cons.mp hx with ⟨_, rfl⟩ | hx
        · exact hs_st
        · exact hI.free_sub x ((herase x).mp hx).2
      · intro x hx
        show upd st.rest s rs x ≠ []
        rcases mem_ite_cons.mp hx with ⟨hne, rfl⟩ | hx
        · rw [hrest_s]
          intro h0
          exact hne (by rw [h0]; rfl)
        · obtain ⟨hne, hx'⟩ := (herase x).mp hx
          rw [hrest_ne x hne]
          exact hI.free_rest x hx'
      · intro x u hxu
        show u ∈ P.storms ∧ u ∉ (if rs.isEmpty then st.free.erase s else s :: st.free.erase s) ∧
          ∃ pre, P.prefs u = pre ++ x :: upd st.rest s rs u
        have hxu' : st.held x = some u := hxu
        obtain ⟨h1, h2, h3⟩ := hspec_old x u hxu'
        refine ⟨h1, ?_, h3⟩
        intro h
        rcases mem_ite_cons.mp h with ⟨_, hus⟩ | h
        · exact hholder_ne x u hxu' hus
        · exact h2 ((herase u).mp h).2
      · intro u hu hnf hnh
        show upd st.rest s rs u = []
        have hnh' : ∀ x, st.held x ≠ some u := hnh
        have hnf' : u ∉ (if rs.isEmpty then st.free.erase s else s :: st.free.erase s) := hnf
        by_cases hus : u = s
        · rw [hus, hrest_s]
          rw [hus] at hnf'
          cases hrs : rs with
          | nil => rfl
          | cons a l =>
            exfalso
            apply hnf'
            rw [hrs]
            simp
        · rw [hrest_ne u hus]
          exact hI.idle u hu (fun h => hnf' (mem_ite_cons.mpr (Or.inr ((herase u).mpr ⟨hus, h⟩)))) hnh'
      · intro u x hx hnr hnh
        show ∃ t, st.held x = some t ∧ P.score x u ≤ P.score x t
        have hnr' : x ∉ upd st.rest s rs u := hnr
        have hnh' : st.held x ≠ some u := hnh
        by_cases hus : u = s
        · rw [hus] at hx hnr' hnh' ⊢
          rw [hrest_s] at hnr'
          by_cases hxr : x = r
          · rw [hxr]
            exact ⟨t, hh, by omega⟩
          · exact hI.tradeup s x hx (by rw [hr]; simp [hxr, hnr']) hnh'
        · rw [hrest_ne u hus] at hnr'
          exact hI.tradeup u x hx hnr' hnh'

theorem inv_reach {P : Problem} (hP : WF P) {st : State} (h : Reach P st) : Inv P st := by
  induction h with
  | init => exact inv_init hP
  | step _ hs ih => exact inv_step ih hs

/-! ## Runs of the executable loop -/

theorem run_reach' (P : Problem) (pick : List Nat → Nat) (n : Nat) (st : State) (h : Reach P st) :
    Reach P (run P pick n st) := by
  induction n generalizing st with
  | zero => exact h
  | succ n ih =>
    cases hf : st.free with
    | nil =>
      have : run P pick (n + 1) st = st := by simp only [run, hf]
      rw [this]; exact h
    | cons a l =>
      have : run P pick (n + 1) st = run P pick n (step P st (choose pick st.free)) := by
        simp only [run, hf]
      rw [this]
      exact ih _ (Reach.step h (choose_mem pick (by rw [hf]; simp)))

/-- Termination measure: candidates not yet proposed to, summed over storms. -/
def remaining (P : Problem) (st : State) : Nat := (P.storms.map (fun s => (st.rest s).length)).sum

theorem sum_map_lt {l : List Nat} {f g : Nat → Nat} {s : Nat} (hle : ∀ x, x ∈ l → g x ≤ f x)
    (hs : s ∈ l) (hlt : g s < f s) : (l.map g).sum < (l.map f).sum := by
  induction l with
  | nil => cases hs
  | cons a l ih =>
    simp only [List.map_cons, List.sum_cons]
    have ha : g a ≤ f a := hle a (by simp)
    have hle' : ∀ x, x ∈ l → g x ≤ f x := fun x hx => hle x (by simp [hx])
    have hall : (l.map g).sum ≤ (l.map f).sum := by
      clear ih hs
      induction l with
      | nil => simp
      | cons b l ih2 =>
        simp only [List.map_cons, List.sum_cons]
        have := hle' b (by simp)
        have := ih2 (fun x hx => hle x (by simp at hx ⊢; rcases hx with h | h <;> simp [h]))
          (fun x hx => hle' x (by simp [hx]))
        omega
    rcases List.mem_cons.mp hs with rfl | hs'
    · omega
    · have := ih hle' hs'
      omega

theorem remaining_step {P : Problem} {st : State} {s : Nat} (hI : Inv P st) (hs : s ∈ st.free) :
    remaining P (step P st s) < remaining P st := by
  obtain ⟨r, rs, hr⟩ : ∃ r rs, st.rest s = r :: rs := by
    cases h : st.rest s with
    | nil => exact absurd h (hI.free_rest s hs)
    | cons r rs => exact ⟨r, rs, rfl⟩
  unfold remaining
  rw [step_rest hr]
  apply sum_map_lt (s := s)
  · intro x _
    by_cases hx : x = s
    · rw [hx, upd_same, hr]; simp
    · rw [upd_ne _ _ hx]; exact Nat.le_refl _
  · exact hI.free_sub s hs
  · rw [upd_same, hr]; simp

theorem run_free_nil {P : Problem} (hP : WF P) (pick : List Nat → Nat) (n : Nat) (st : State)
    (h : Reach P st) (hn : remaining P st < n) : (run P pick n st).free = [] := by
  induction n generalizing st with
  | zero => omega
  | succ n ih =>
    cases hf : st.free with
    | nil =>
      have : run P pick (n + 1) st = st := by simp only [run, hf]
      rw [this]; exact hf
    | cons a l =>
      have : run P pick (n + 1) st = run P pick n (step P st (choose pick st.free)) := by
        simp only [run, hf]
      rw [this]
      have hmem : choose pick st.free ∈ st.free := choose_mem pick (by rw [hf]; simp)
      have := remaining_step (inv_reach hP h) hmem
      exact ih _ (Reach.step h hmem) (by omega)

theorem run_terminates' {P : Problem} (hP : WF P) (pick : List Nat → Nat) :
    (run P pick (fuel P) (init P)).free = [] := by
  apply run_free_nil hP pick _ _ Reach.init
  show (P.storms.map (fun s => (P.prefs s).length)).sum < (P.storms.map (fun s => (P.prefs s).length)).sum + 1
  omega

/-! ## Stability of final states -/

/-- storm ↦ rise map obtained by inverting `held` over the list of rises -/
def invHeld (rises : List Nat) (held : Nat → Option Nat) : Nat → Option Nat :=
  fun s => rises.find? (fun r => held r == some s)

theorem invHeld_iff {P : Problem} (hP : WF P) {st : State} (hI : Inv P st) (s r : Nat) :
    invHeld P.rises st.held s = some r ↔ st.held r = some s := by
  unfold invHeld
  constructor
  · intro h
    have := List.find?_some h
    simpa using this
  · intro h
    have hr : r ∈ P.rises := hP.prefs_rises s r (held_mem_prefs hI h).2
    cases hf : P.rises.find? (fun r => st.held r == some s) with
    | none =>
      have := List.find?_eq_none.mp hf r hr
      simp [h] at this
    | some r0 =>
      have h0 : st.held r0 = some s := by
        have := List.find?_some hf
        simpa using this
      rw [held_inj hI h0 h]

/-- A state with empty pool is a stable matching, for any presentation `μ` of the inverse of `held`. -/
theorem stable_of_final {P : Problem} (hP : WF P) {st : State} (hI : Inv P st) (hfin : st.free = [])
    (μ : Nat → Option Nat) (hμ : ∀ s r, μ s = some r ↔ st.held r = some s) : Stable P μ := by
  refine ⟨⟨?_, ?_⟩, ?_⟩
  · intro s r h
    exact held_mem_prefs hI ((hμ s r).mp h)
  · intro s s' r h h'
    have h1 := (hμ s r).mp h
    have h2 := (hμ s' r).mp h'
    rw [h1] at h2
    exact Option.some.inj h2
  · rintro s r ⟨hs, hr, hne, hstorm, hrise⟩
    have hne' : st.held r ≠ some s := fun h => hne ((hμ s r).mpr h)
    by_cases hmem : r ∈ st.rest s
    · -- `s` has not proposed to `r` yet: it holds something it lists earlier
      have hex : ∃ r0, st.held r0 = some s := by
        apply Classical.byContradiction
        intro hno
        have := hI.idle s hs (by rw [hfin]; simp) (fun x hx => hno ⟨x, hx⟩)
        rw [this] at hmem
        cases hmem
      obtain ⟨r0, h0⟩ := hex
      obtain ⟨_, _, pre, hp⟩ := hI.held_spec r0 s h0
      have hb : Before (P.prefs s) r0 r := before_of_split hp hmem
      rcases hstorm with hnone | ⟨r', hr', hbef⟩
      · rw [(hμ s r0).mpr h0] at hnone
        cases hnone
      · rw [(hμ s r0).mpr h0] at hr'
        cases hr'
        exact hb.asymm (hP.prefs_nodup s) hbef
    · -- `s` has proposed to `r`: `r` holds someone at least as good
      obtain ⟨t, ht, hle⟩ := hI.tradeup s r hr hmem hne'
      rcases hrise with hfree | ⟨s', hs', hlt⟩
      · exact hfree t ((hμ t r).mpr ht)
      · have := (hμ s' r).mp hs'
        rw [ht] at this
        cases this
        omega

end Spowtd.GS
