import SpowtdModel.Model.Runs
/-
  Helper lemmas about `trueRunsAux` / `mysteryAux` (generalised over the running index and
  the loop state).  Property theorems are in Props/C03.lean and Props/C04.lean.
-/
namespace Spowtd

/-! ### `trueRunsAux` : membership -/

/-- Facts about a suffix `x :: v'` of `u` starting at absolute index `i`. -/
theorem drop_cons_facts {u : List Bool} {i : Nat} {x : Bool} {v' : List Bool}
    (h : x :: v' = u.drop i) : u[i]? = some x ∧ v' = u.drop (i + 1) ∧ i < u.length := by
  have h0 : (u.drop i)[0]? = some x := by rw [← h]; rfl
  rw [List.getElem?_drop] at h0
  refine ⟨by simpa using h0, ?_, ?_⟩
  · have : (x :: v').tail = (u.drop i).tail := by rw [h]
    simpa [List.tail_drop] using this
  · have : (u.drop i).length = v'.length + 1 := by rw [← h]; rfl
    rw [List.length_drop] at this
    omega

/-- Generalised membership characterisation, in absolute indices of the whole vector `u`, of the
    scan started at index `i` (on the suffix `u.drop i`) with open-run state `o`. -/
theorem mem_trueRunsAux (u : List Bool) (a b : Nat) :
    ∀ (v : List Bool) (i : Nat) (o : Option Nat), v = u.drop i → i ≤ u.length →
      ((a, b) ∈ trueRunsAux v i o ↔
        (o = some a ∧ i ≤ b ∧ b ≤ u.length ∧ (∀ k, i ≤ k → k < b → u[k]? = some true) ∧
          (b = u.length ∨ u[b]? = some false)) ∨
        (i ≤ a ∧ a < b ∧ b ≤ u.length ∧ (∀ k, a ≤ k → k < b → u[k]? = some true) ∧
          ((a = i ∧ o = none) ∨ (i < a ∧ u[a - 1]? = some false)) ∧
          (b = u.length ∨ u[b]? = some false))) := by
  intro v
  induction v with
  | nil =>
    intro i o hv hi
    have hlen : u.length ≤ i := by
      have : (u.drop i).length = 0 := by rw [← hv]; rfl
      rw [List.length_drop] at this; omega
    cases o with
    | none =>
      simp only [trueRunsAux, List.not_mem_nil, false_iff]
      rintro (⟨h, _⟩ | ⟨h1, h2, h3, _⟩)
      · cases h
      · omega
    | some a0 =>
      simp only [trueRunsAux, List.mem_singleton, Prod.mk.injEq, Option.some.injEq]
      constructor
      · rintro ⟨rfl, rfl⟩
        exact Or.inl ⟨rfl, Nat.le_refl _, hi, fun k h1 h2 => by omega, Or.inl (by omega)⟩
      · rintro (⟨h, h1, h2, _⟩ | ⟨h1, h2, h3, _⟩)
        · exact ⟨h.symm, by omega⟩
        · omega
  | cons x v' ih =>
    intro i o hv hi
    obtain ⟨hx, hv', hlt⟩ := drop_cons_facts hv
    have IH := fun o' => ih (i + 1) o' hv' hlt
    clear ih hv hv'
    cases x with
    | false =>
      cases o with
      | none =>
        simp only [trueRunsAux]
        rw [IH none]
        clear IH
        grind
      | some a0 =>
        simp only [trueRunsAux, List.mem_cons, Prod.mk.injEq]
        rw [IH none]
        clear IH
        grind (splits := 25)
    | true =>
      cases o with
      | none =>
        simp only [trueRunsAux]
        rw [IH (some i)]
        grind
      | some a0 =>
        simp only [trueRunsAux]
        rw [IH (some a0)]
        grind

/-- Top-level membership characterisation of `trueRuns`. -/
theorem mem_trueRuns (v : List Bool) (a b : Nat) :
    (a, b) ∈ trueRuns v ↔
      a < b ∧ b ≤ v.length ∧ (∀ i, a ≤ i → i < b → v[i]? = some true) ∧
      (a = 0 ∨ v[a - 1]? = some false) ∧ (b = v.length ∨ v[b]? = some false) := by
  unfold trueRuns
  rw [mem_trueRunsAux v a b v 0 none (by simp) (Nat.zero_le _)]
  constructor
  · rintro (⟨h, _⟩ | ⟨_, h1, h2, h3, h4, h5⟩)
    · cases h
    · refine ⟨h1, h2, h3, ?_, h5⟩
      rcases h4 with ⟨h, _⟩ | ⟨_, h⟩
      · exact Or.inl h
      · exact Or.inr h
  · rintro ⟨h1, h2, h3, h4, h5⟩
    refine Or.inr ⟨Nat.zero_le _, h1, h2, h3, ?_, h5⟩
    rcases h4 with h | h
    · exact Or.inl ⟨h, rfl⟩
    · by_cases ha : a = 0
      · exact Or.inl ⟨ha, rfl⟩
      · exact Or.inr ⟨by omega, h⟩

/-! ### `trueRunsAux` : order -/

/-- Every reported run starts at the open start, or at/after the current index. -/
theorem trueRunsAux_start (v : List Bool) :
    ∀ (i : Nat) (o : Option Nat) (r : Nat × Nat), r ∈ trueRunsAux v i o → o = some r.1 ∨ i ≤ r.1 := by
  induction v with
  | nil =>
    intro i o r h
    cases o with
    | none => simp [trueRunsAux] at h
    | some a0 =>
      simp only [trueRunsAux, List.mem_singleton] at h
      subst h; exact Or.inl rfl
  | cons x v' ih =>
    intro i o r h
    cases x <;> cases o <;> simp only [trueRunsAux, List.mem_cons] at h
    · rcases ih _ _ _ h with h | h
      · cases h
      · right; omega
    · rcases h with rfl | h
      · exact Or.inl rfl
      · rcases ih _ _ _ h with h | h
        · cases h
        · right; omega
    · rcases ih _ _ _ h with h | h
      · right; cases h; exact Nat.le_refl _
      · right; omega
    · rcases ih _ _ _ h with h | h
      · exact Or.inl h
      · right; omega

theorem trueRunsAux_pairwise (v : List Bool) :
    ∀ (i : Nat) (o : Option Nat), (trueRunsAux v i o).Pairwise (fun r r' => r.2 < r'.1) := by
  induction v with
  | nil =>
    intro i o
    cases o <;> simp [trueRunsAux]
  | cons x v' ih =>
    intro i o
    cases x <;> cases o <;> simp only [trueRunsAux, List.pairwise_cons]
    · exact ih _ _
    · refine ⟨fun r' hr' => ?_, ih _ _⟩
      rcases trueRunsAux_start _ _ _ _ hr' with h | h
      · cases h
      · exact h
    · exact ih _ _
    · exact ih _ _

theorem trueRuns_pairwise (v : List Bool) :
    (trueRuns v).Pairwise (fun r r' => r.2 < r'.1) :=
  trueRunsAux_pairwise v 0 none

theorem trueRuns_lt (v : List Bool) (r : Nat × Nat) (h : r ∈ trueRuns v) : r.1 < r.2 :=
  ((mem_trueRuns v r.1 r.2).1 h).1

theorem trueRuns_nodup' (v : List Bool) : (trueRuns v).Nodup := by
  refine (trueRuns_pairwise v).imp_of_mem ?_
  intro r r' hr _ hlt heq
  have := trueRuns_lt v r hr
  subst heq
  omega

theorem trueRuns_start_inj' (v : List Bool) (r r' : Nat × Nat)
    (h : r ∈ trueRuns v) (h' : r' ∈ trueRuns v) (e : r.1 = r'.1) : r = r' := by
  obtain ⟨a, b⟩ := r
  obtain ⟨a', b'⟩ := r'
  simp only at e
  subst e
  obtain ⟨h1, h2, h3, _, h5⟩ := (mem_trueRuns v a b).1 h
  obtain ⟨h1', h2', h3', _, h5'⟩ := (mem_trueRuns v a b').1 h'
  have : b = b' := by
    rcases Nat.lt_trichotomy b b' with hlt | heq | hgt
    · have := h3' b (by omega) hlt
      rcases h5 with h5 | h5
      · omega
      · rw [this] at h5; cases h5
    · exact heq
    · have := h3 b' (by omega) hgt
      rcases h5' with h5' | h5'
      · omega
      · rw [this] at h5'; cases h5'
  rw [this]

/-! ### `mysteryAux` -/

theorem mysteryAux_length (J : List Bool) :
    ∀ (st : Bool) (W : List Bool), (mysteryAux st J W).length = min J.length W.length := by
  induction J with
  | nil => intro st W; simp [mysteryAux]
  | cons j js ih =>
    intro st W
    cases W with
    | nil => simp [mysteryAux]
    | cons w ws =>
      simp only [mysteryAux, List.length_cons, ih]
      omega

/-- Generalised (over the loop state) characterisation of the "explained" samples. -/
theorem mysteryAux_false_iff (J : List Bool) :
    ∀ (st : Bool) (W : List Bool) (k : Nat),
      ((mysteryAux st J W)[k]? = some false ↔
        k < min J.length W.length ∧
        ((st = false ∧ ∀ i, i ≤ k → (W[i]? = some true ∨ J[i]? = some false)) ∨
          ∃ m, m ≤ k ∧ W[m]? = some true ∧
            ∀ i, m < i → i ≤ k → (W[i]? = some true ∨ J[i]? = some false))) := by
  induction J with
  | nil => intro st W k; simp [mysteryAux]
  | cons j js ih =>
    intro st W k
    cases W with
    | nil => simp [mysteryAux]
    | cons w ws =>
      cases k with
      | zero =>
        cases st <;> cases j <;> cases w <;> simp [mysteryAux] <;> (intros; omega)
      | succ k =>
        simp only [mysteryAux, List.getElem?_cons_succ, ih, List.length_cons]
        clear ih
        constructor
        · rintro ⟨hl, h⟩
          refine ⟨by omega, ?_⟩
          rcases h with ⟨hst, hX⟩ | ⟨m, hm, hwm, hY⟩
          · cases w with
            | true =>
              refine Or.inr ⟨0, Nat.zero_le _, rfl, fun i h1 h2 => ?_⟩
              cases i with
              | zero => omega
              | succ i =>
                simp only [List.getElem?_cons_succ]
                exact hX i (by omega)
            | false =>
              have hj : j = false := by cases j <;> simp_all
              have hs : st = false := by cases j <;> simp_all
              refine Or.inl ⟨hs, fun i h1 => ?_⟩
              cases i with
              | zero => right; rw [hj]; rfl
              | succ i =>
                simp only [List.getElem?_cons_succ]
                exact hX i (by omega)
          · refine Or.inr ⟨m + 1, by omega, by simpa using hwm, fun i h1 h2 => ?_⟩
            cases i with
            | zero => omega
            | succ i =>
              simp only [List.getElem?_cons_succ]
              exact hY i (by omega) (by omega)
        · rintro ⟨hl, h⟩
          refine ⟨by omega, ?_⟩
          rcases h with ⟨hst, hX⟩ | ⟨m, hm, hwm, hY⟩
          · have h0 := hX 0 (Nat.zero_le _)
            refine Or.inl ⟨?_, fun i hi => ?_⟩
            · cases w <;> cases j <;> simp_all
            · simpa only [List.getElem?_cons_succ] using hX (i + 1) (by omega)
          · cases m with
            | zero =>
              have hw : w = true := by simpa using hwm
              refine Or.inl ⟨by simp [hw], fun i hi => ?_⟩
              simpa only [List.getElem?_cons_succ] using hY (i + 1) (by omega) (by omega)
            | succ m =>
              refine Or.inr ⟨m, by omega, by simpa using hwm, fun i h1 h2 => ?_⟩
              simpa only [List.getElem?_cons_succ] using hY (i + 1) (by omega) (by omega)

theorem mysteryMask_length' (J W : List Bool) :
    (mysteryMask J W).length = min J.length W.length :=
  mysteryAux_length J true W

/-- Specialisation of `mysteryAux_false_iff` to the initial ("unexplained") state. -/
theorem mysteryMask_false_iff (J W : List Bool) (k : Nat) :
    (mysteryMask J W)[k]? = some false ↔
      k < min J.length W.length ∧
        ∃ m, m ≤ k ∧ W[m]? = some true ∧
          ∀ i, m < i → i ≤ k → (W[i]? = some true ∨ J[i]? = some false) := by
  unfold mysteryMask
  rw [mysteryAux_false_iff]
  constructor
  · rintro ⟨h1, ⟨h, _⟩ | h⟩
    · cases h
    · exact ⟨h1, h⟩
  · rintro ⟨h1, h⟩
    exact ⟨h1, Or.inr h⟩

/-- The last index `≤ k` satisfying a decidable-or-not predicate. -/
theorem exists_last_le (p : Nat → Prop) :
    ∀ k, (∃ m, m ≤ k ∧ p m) → ∃ m, m ≤ k ∧ p m ∧ ∀ i, m < i → i ≤ k → ¬ p i := by
  intro k
  induction k with
  | zero =>
    rintro ⟨m, hm, hp⟩
    exact ⟨m, hm, hp, fun i h1 h2 => by omega⟩
  | succ k ih =>
    rintro ⟨m, hm, hp⟩
    by_cases hk : p (k + 1)
    · exact ⟨k + 1, Nat.le_refl _, hk, fun i h1 h2 => by omega⟩
    · have hmk : m ≤ k := by
        rcases Nat.lt_or_ge k m with h | h
        · have : m = k + 1 := by omega
          subst this; exact absurd hp hk
        · exact h
      obtain ⟨m', hm', hp', hlast⟩ := ih ⟨m, hmk, hp⟩
      refine ⟨m', by omega, hp', fun i h1 h2 => ?_⟩
      rcases Nat.lt_or_ge k i with h | h
      · have : i = k + 1 := by omega
        subst this; exact hk
      · exact hlast i h1 h

theorem getElem?_bool_of_lt {l : List Bool} {k : Nat} (h : k < l.length) (hne : l[k]? ≠ some true) :
    l[k]? = some false := by
  rw [List.getElem?_eq_getElem h] at hne ⊢
  cases hb : l[k] with
  | false => rfl
  | true => rw [hb] at hne; exact absurd rfl hne

theorem interstormFlag_length (J W : List Bool) :
    (interstormFlag J W).length = min J.length W.length := by
  unfold interstormFlag
  rw [List.length_zipWith, mysteryMask_length']
  omega

theorem interstormFlag_true_iff (J W : List Bool) (k : Nat) :
    (interstormFlag J W)[k]? = some true ↔
      (mysteryMask J W)[k]? = some false ∧ W[k]? = some false := by
  unfold interstormFlag
  rw [List.getElem?_zipWith]
  cases h1 : (mysteryMask J W)[k]? with
  | none => simp
  | some m =>
    cases h2 : W[k]? with
    | none => simp
    | some w => cases m <;> cases w <;> simp

theorem interstormFlag_true_iff_last (J W : List Bool) (k : Nat) (hk : k < min J.length W.length) :
    (interstormFlag J W)[k]? = some true ↔
      W[k]? = some false ∧
      ∃ m, m < k ∧ W[m]? = some true ∧
        ∀ i, m < i → i ≤ k → (W[i]? = some false ∧ J[i]? = some false) := by
  rw [interstormFlag_true_iff, mysteryMask_false_iff]
  constructor
  · rintro ⟨⟨_, m, hm, hwm, hP⟩, hwk⟩
    refine ⟨hwk, ?_⟩
    obtain ⟨m', hm', hwm', hlast⟩ :=
      exists_last_le (fun i => W[i]? = some true) k ⟨m, hm, hwm⟩
    have hmm' : m ≤ m' := by
      rcases Nat.lt_or_ge m' m with h | h
      · exact absurd hwm (hlast m h hm)
      · exact h
    have hm'k : m' < k := by
      rcases Nat.lt_or_ge m' k with h | h
      · exact h
      · have : m' = k := by omega
        subst this
        rw [hwk] at hwm'; cases hwm'
    refine ⟨m', hm'k, hwm', fun i h1 h2 => ?_⟩
    have hn := hlast i h1 h2
    refine ⟨getElem?_bool_of_lt (by omega) hn, ?_⟩
    rcases hP i (by omega) h2 with h | h
    · exact absurd h hn
    · exact h
  · rintro ⟨hwk, m, hm, hwm, hP⟩
    exact ⟨⟨hk, m, by omega, hwm, fun i h1 h2 => Or.inr (hP i h1 h2).2⟩, hwk⟩

/-- The two assertions at the end of `get_mystery_jump_mask`. -/
theorem mysteryMask_asserts (J W : List Bool) (k : Nat) :
    (W[k]? = some true → J[k]? ≠ none → (mysteryMask J W)[k]? = some false) ∧
    (W[k]? = some false → J[k]? = some true → (mysteryMask J W)[k]? = some true) := by
  constructor
  · intro hw hj
    rw [mysteryMask_false_iff]
    have h1 : k < W.length := by
      rcases Nat.lt_or_ge k W.length with h | h
      · exact h
      · rw [List.getElem?_eq_none h] at hw; cases hw
    have h2 : k < J.length := by
      rcases Nat.lt_or_ge k J.length with h | h
      · exact h
      · exact absurd (List.getElem?_eq_none h) hj
    exact ⟨by omega, k, Nat.le_refl _, hw, fun i h1 h2 => by omega⟩
  · intro hw hj
    have h1 : k < W.length := by
      rcases Nat.lt_or_ge k W.length with h | h
      · exact h
      · rw [List.getElem?_eq_none h] at hw; cases hw
    have h2 : k < J.length := by
      rcases Nat.lt_or_ge k J.length with h | h
      · exact h
      · rw [List.getElem?_eq_none h] at hj; cases hj
    have hlen : k < (mysteryMask J W).length := by rw [mysteryMask_length']; omega
    have hnf : (mysteryMask J W)[k]? ≠ some false := by
      intro hf
      obtain ⟨_, m, hm, hwm, hP⟩ := (mysteryMask_false_iff J W k).1 hf
      rcases Nat.lt_or_ge m k with h | h
      · rcases hP k h (Nat.le_refl _) with h' | h'
        · rw [hw] at h'; cases h'
        · rw [hj] at h'; cases h'
      · have : m = k := by omega
        subst this
        rw [hw] at hwm; cases hwm
    rw [List.getElem?_eq_getElem hlen] at hnf ⊢
    cases hb : (mysteryMask J W)[k] with
    | true => rfl
    | false => rw [hb] at hnf; exact absurd rfl hnf

theorem mem_interstormRuns (J W : List Bool) (a b : Nat) :
    (a, b) ∈ interstormRuns J W ↔
      a + 2 ≤ b ∧ b ≤ (interstormFlag J W).length ∧
      (∀ i, a ≤ i → i < b → (interstormFlag J W)[i]? = some true) ∧
      (a = 0 ∨ (interstormFlag J W)[a - 1]? = some false) ∧
      (b = (interstormFlag J W).length ∨ (interstormFlag J W)[b]? = some false) := by
  unfold interstormRuns
  rw [List.mem_filter, mem_trueRuns]
  simp only [decide_eq_true_eq]
  constructor
  · rintro ⟨⟨_, h2, h3, h4, h5⟩, h6⟩
    exact ⟨h6, h2, h3, h4, h5⟩
  · rintro ⟨h6, h2, h3, h4, h5⟩
    exact ⟨⟨by omega, h2, h3, h4, h5⟩, h6⟩

theorem interstormRuns_nodup (J W : List Bool) : (interstormRuns J W).Nodup :=
  (trueRuns_nodup' _).sublist List.filter_sublist

theorem interstormRuns_pairwise (J W : List Bool) :
    (interstormRuns J W).Pairwise (fun r r' => r.2 < r'.1) :=
  (trueRuns_pairwise _).sublist List.filter_sublist

end Spowtd
