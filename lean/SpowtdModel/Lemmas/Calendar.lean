import SpowtdModel.Model.Calendar
/-
  Helper lemmas for Props/C11Calendar.lean.

  Both algorithms are "linear in the era" (a 400-year block of 146097 days) plus a function of
  the day of era `doe ∈ [0, 146096]` (resp. of the year of era `yoe ∈ [0, 399]`, the March-based
  month `mp ∈ [0, 11]` and the day).  The era step is plain floor division; the era-local step
  is linear integer arithmetic once the century (`doe / 36524`, `yoe / 100`) and the position in
  the four-year cycle (`yoe % 4`) are fixed, so `omega` closes each of the finitely many cases.
-/
namespace Spowtd
namespace Cal

/-! ### The two definitions with every intermediate quantity named -/

theorem civilFromDays_eq (n z era doe yoe doy mp : Int) (hz : z = n + 719468)
    (hera : era = z / 146097) (hdoe : doe = z - era * 146097)
    (hyoe : yoe = (doe - doe / 1460 + doe / 36524 - doe / 146096) / 365)
    (hdoy : doy = doe - (365 * yoe + yoe / 4 - yoe / 100)) (hmp : mp = (5 * doy + 2) / 153) :
    civilFromDays n =
      (if (if mp < 10 then mp + 3 else mp - 9) ≤ 2 then yoe + era * 400 + 1 else yoe + era * 400,
       if mp < 10 then mp + 3 else mp - 9, doy - (153 * mp + 2) / 5 + 1) := by
  subst hmp hdoy hyoe hdoe hera hz
  rfl

theorem daysFromCivil_eq (y m d y' era yoe mp : Int) (hy' : y' = if m ≤ 2 then y - 1 else y)
    (hera : era = y' / 400) (hyoe : yoe = y' - era * 400) (hmp : mp = (m + 9) % 12) :
    daysFromCivil y m d =
      era * 146097 + (yoe * 365 + yoe / 4 - yoe / 100 + ((153 * mp + 2) / 5 + d - 1)) - 719468 := by
  subst hmp hyoe hera hy'
  rfl

theorem validDate_iff (y m d : Int) : validDate y m d = true ↔
    1 ≤ y ∧ y ≤ 9999 ∧ 1 ≤ m ∧ m ≤ 12 ∧ 1 ≤ d ∧
    d ≤ (if m = 2 then (if (y % 4 = 0 ∧ y % 100 ≠ 0) ∨ y % 400 = 0 then 29 else 28)
         else if m = 4 ∨ m = 6 ∨ m = 9 ∨ m = 11 then 30 else 31) := by
  simp [validDate, daysInMonth, isLeap, and_assoc, or_assoc]

/-! ### Year of era from day of era, and back -/

/-- the century of the day of era agrees with the century of the computed year of era -/
theorem century (doe yoe : Int) (h0 : 0 ≤ doe) (h1 : doe < 146097)
    (hy : yoe = (doe - doe / 1460 + doe / 36524 - doe / 146096) / 365) :
    (doe / 36524 = 0 ∧ yoe / 100 = 0) ∨ (doe / 36524 = 1 ∧ yoe / 100 = 1) ∨
    (doe / 36524 = 2 ∧ yoe / 100 = 2) ∨ (doe / 36524 = 3 ∧ yoe / 100 = 3) ∨
    (doe = 146096 ∧ yoe = 399) := by
  have hd : doe / 36524 = 0 ∨ doe / 36524 = 1 ∨ doe / 36524 = 2 ∨ doe / 36524 = 3 ∨
      doe / 36524 = 4 := by omega
  have hg : yoe / 100 = 0 ∨ yoe / 100 = 1 ∨ yoe / 100 = 2 ∨ yoe / 100 = 3 := by omega
  rcases hd with hd | hd | hd | hd | hd <;> rcases hg with hg | hg | hg | hg <;> omega

/-- The computed year of era `yoe` is in `[0, 399]`, its first day is not after `doe`, and `doe`
    is at most 364 days later — 365 exactly when the March-based year `yoe` ends in a leap
    February (that of year `yoe + 1`). -/
theorem yoe_of_doe (doe yoe : Int) (h0 : 0 ≤ doe) (h1 : doe < 146097)
    (hy : yoe = (doe - doe / 1460 + doe / 36524 - doe / 146096) / 365) :
    0 ≤ yoe ∧ yoe ≤ 399 ∧ 0 ≤ doe - (365 * yoe + yoe / 4 - yoe / 100) ∧
    (doe - (365 * yoe + yoe / 4 - yoe / 100) ≤ 364 ∨
      (doe - (365 * yoe + yoe / 4 - yoe / 100) = 365 ∧ (yoe + 1) % 4 = 0 ∧
        ((yoe + 1) % 100 ≠ 0 ∨ (yoe + 1) % 400 = 0))) := by
  have hr : yoe % 4 = 0 ∨ yoe % 4 = 1 ∨ yoe % 4 = 2 ∨ yoe % 4 = 3 := by omega
  rcases century doe yoe h0 h1 hy with ⟨hd, hg⟩ | ⟨hd, hg⟩ | ⟨hd, hg⟩ | ⟨hd, hg⟩ | ⟨hd, hg⟩ <;>
    rcases hr with hr | hr | hr | hr <;> omega

/-- first day of the March-based year `y` of the era (with the 400-year term, so that it is
    also right for `y = 400`), is monotone -/
theorem yearStart_mono (a b : Int) (hab : a + 1 ≤ b) :
    365 * (a + 1) + (a + 1) / 4 - (a + 1) / 100 + (a + 1) / 400 ≤
      365 * b + b / 4 - b / 100 + b / 400 := by
  omega

theorem yearStart_step (y : Int) :
    365 * (y + 1) + (y + 1) / 4 - (y + 1) / 100 + (y + 1) / 400 =
      365 * y + y / 4 - y / 100 + y / 400 + 365 + (if (y + 1) % 4 = 0 then 1 else 0)
        - (if (y + 1) % 100 = 0 then 1 else 0) + (if (y + 1) % 400 = 0 then 1 else 0) := by
  omega

/-- a day of the March-based year `y` lies before the start of year `y + 1` -/
theorem yearStart_lt (y d : Int)
    (h3 : d ≤ 364 ∨ (d = 365 ∧ (y + 1) % 4 = 0 ∧ ((y + 1) % 100 ≠ 0 ∨ (y + 1) % 400 = 0))) :
    365 * y + y / 4 - y / 100 + y / 400 + d <
      365 * (y + 1) + (y + 1) / 4 - (y + 1) / 100 + (y + 1) / 400 := by
  have := yearStart_step y
  omega

/-- Conversely: the day `doy` of the March-based year `yoe` of the era is a day of the era, and
    the year-of-era formula recovers `yoe` from it. -/
theorem doe_of_yoe (yoe doy doe : Int) (h0 : 0 ≤ yoe) (h1 : yoe ≤ 399) (h2 : 0 ≤ doy)
    (h3 : doy ≤ 364 ∨ (doy = 365 ∧ (yoe + 1) % 4 = 0 ∧
      ((yoe + 1) % 100 ≠ 0 ∨ (yoe + 1) % 400 = 0)))
    (hd : doe = yoe * 365 + yoe / 4 - yoe / 100 + doy) :
    0 ≤ doe ∧ doe < 146097 ∧ (doe - doe / 1460 + doe / 36524 - doe / 146096) / 365 = yoe := by
  have hb : 0 ≤ doe ∧ doe < 146097 := by omega
  refine ⟨hb.1, hb.2, ?_⟩
  obtain ⟨y2, hy2⟩ : ∃ y2, y2 = (doe - doe / 1460 + doe / 36524 - doe / 146096) / 365 := ⟨_, rfl⟩
  rw [← hy2]
  have hA := yoe_of_doe doe y2 hb.1 hb.2 hy2
  clear hy2
  have lo : 365 * yoe + yoe / 4 - yoe / 100 + yoe / 400 ≤ doe := by omega
  have hi : doe < 365 * (yoe + 1) + (yoe + 1) / 4 - (yoe + 1) / 100 + (yoe + 1) / 400 := by
    have := yearStart_lt yoe doy h3
    omega
  have lo2 : 365 * y2 + y2 / 4 - y2 / 100 + y2 / 400 ≤ doe := by omega
  have hi2 : doe < 365 * (y2 + 1) + (y2 + 1) / 4 - (y2 + 1) / 100 + (y2 + 1) / 400 := by
    have := yearStart_lt y2 (doe - (365 * y2 + y2 / 4 - y2 / 100)) hA.2.2.2
    omega
  rcases (by omega : y2 + 1 ≤ yoe ∨ y2 = yoe ∨ yoe + 1 ≤ y2) with h | h | h
  · have := yearStart_mono y2 yoe h
    omega
  · exact h
  · have := yearStart_mono yoe y2 h
    omega

/-! ### Month and day from day of year, and back -/

/-- day of the March-based year → month index and day of month, with the month lengths -/
theorem md_of_doy (doy mp d : Int) (h0 : 0 ≤ doy) (h1 : doy ≤ 365)
    (hmp : mp = (5 * doy + 2) / 153) (hd : d = doy - (153 * mp + 2) / 5 + 1) :
    0 ≤ mp ∧ mp ≤ 11 ∧ 1 ≤ d ∧
    d ≤ (if mp = 11 then doy - 336
         else if mp = 1 ∨ mp = 3 ∨ mp = 6 ∨ mp = 8 then 30 else 31) := by
  have hb : 0 ≤ mp ∧ mp ≤ 11 := by omega
  have hc : mp = 0 ∨ mp = 1 ∨ mp = 2 ∨ mp = 3 ∨ mp = 4 ∨ mp = 5 ∨ mp = 6 ∨ mp = 7 ∨ mp = 8 ∨
      mp = 9 ∨ mp = 10 ∨ mp = 11 := by omega
  rcases hc with h | h | h | h | h | h | h | h | h | h | h | h <;> subst h <;> omega

/-- month index and day of month → day of the March-based year, and the month formula
    recovers the month index -/
theorem doy_of_md (mp d doy : Int) (h0 : 0 ≤ mp) (h1 : mp ≤ 11) (hd1 : 1 ≤ d)
    (hd2 : d ≤ (if mp = 11 then 29
                else if mp = 1 ∨ mp = 3 ∨ mp = 6 ∨ mp = 8 then 30 else 31))
    (hdoy : doy = (153 * mp + 2) / 5 + d - 1) :
    0 ≤ doy ∧ doy ≤ 365 ∧ (5 * doy + 2) / 153 = mp ∧ (mp = 11 → doy = 336 + d) := by
  have hc : mp = 0 ∨ mp = 1 ∨ mp = 2 ∨ mp = 3 ∨ mp = 4 ∨ mp = 5 ∨ mp = 6 ∨ mp = 7 ∨ mp = 8 ∨
      mp = 9 ∨ mp = 10 ∨ mp = 11 := by omega
  rcases hc with h | h | h | h | h | h | h | h | h | h | h | h <;> subst h <;> omega

end Cal
end Spowtd
