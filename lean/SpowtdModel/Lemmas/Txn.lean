import SpowtdModel.Model.Txn
/- Helper lemmas for Props/C20.lean. -/
namespace Spowtd.Txn
variable {S W : Type}

/-! ### connection traces -/

theorem applyAll_nil (apply : S → W → S) (s : S) : applyAll apply s [] = s := rfl

theorem applyAll_cons (apply : S → W → S) (s : S) (w : W) (ws : List W) :
    applyAll apply s (w :: ws) = applyAll apply (apply s w) ws := rfl

theorem applyAll_append (apply : S → W → S) (s : S) (ws₁ ws₂ : List W) :
    applyAll apply s (ws₁ ++ ws₂) = applyAll apply (applyAll apply s ws₁) ws₂ := by
  unfold applyAll
  exact List.foldl_append

/-- writes inside an open transaction only move the pending content -/
theorem foldl_writes_pending (apply : S → W → S) (c p : S) (ws : List W) :
    (ws.map Ev.write).foldl (exec apply) { committed := c, pending := some p } =
      { committed := c, pending := some (applyAll apply p ws) } := by
  induction ws generalizing p with
  | nil => rfl
  | cons w ws ih =>
    rw [List.map_cons, List.foldl_cons, applyAll_cons]
    exact ih (apply p w)

/-- any prefix of the writes of an open transaction keeps the committed content -/
theorem foldl_take_writes_pending (apply : S → W → S) (c p : S) (ws : List W) (j : Nat) :
    ((ws.map Ev.write).take j).foldl (exec apply) { committed := c, pending := some p } =
      { committed := c, pending := some (applyAll apply p (ws.take j)) } := by
  rw [← List.map_take]
  exact foldl_writes_pending apply c p (ws.take j)

theorem run_nil (apply : S → W → S) (s : S) :
    run apply s ([] : List (Ev W)) = { committed := s, pending := none } := rfl

theorem run_append (apply : S → W → S) (s : S) (l₁ l₂ : List (Ev W)) :
    run apply s (l₁ ++ l₂) = l₂.foldl (exec apply) (run apply s l₁) := by
  unfold run
  exact List.foldl_append

/-- after a closed prefix the rest runs as from a fresh connection -/
theorem run_append_of_closed (apply : S → W → S) (s c : S) (l₁ l₂ : List (Ev W))
    (h : run apply s l₁ = { committed := c, pending := none }) :
    run apply s (l₁ ++ l₂) = run apply c l₂ := by
  rw [run_append, h]
  rfl

/-- `BEGIN`, writes, one closing event: the state after `j + 1` events -/
theorem run_take_txn (apply : S → W → S) (s : S) (ws : List W) (last : Ev W) (j : Nat) :
    run apply s ((Ev.begin :: (ws.map Ev.write ++ [last])).take (j + 1)) =
      ([last].take (j - ws.length)).foldl (exec apply)
        { committed := s, pending := some (applyAll apply s (ws.take j)) } := by
  unfold run
  rw [List.take_succ_cons, List.foldl_cons, List.take_append, List.foldl_append, List.length_map]
  have h0 : exec apply ({ committed := s, pending := none } : Conn S) (Ev.begin : Ev W) =
      { committed := s, pending := some s } := rfl
  rw [h0, foldl_take_writes_pending]

theorem run_txn (apply : S → W → S) (s : S) (ws : List W) (last : Ev W) :
    run apply s (Ev.begin :: (ws.map Ev.write ++ [last])) =
      exec apply { committed := s, pending := some (applyAll apply s ws) } last := by
  unfold run
  rw [List.foldl_cons, List.foldl_append]
  have h0 : exec apply ({ committed := s, pending := none } : Conn S) (Ev.begin : Ev W) =
      { committed := s, pending := some s } := rfl
  rw [h0, foldl_writes_pending]
  rfl

theorem run_single (apply : S → W → S) (s : S) (ws : List W) :
    run apply s (Ev.begin :: (ws.map Ev.write ++ [Ev.commit])) =
      { committed := applyAll apply s ws, pending := none } := by
  rw [run_txn]; rfl

theorem run_failed (apply : S → W → S) (s : S) (ws : List W) :
    run apply s (Ev.begin :: (ws.map Ev.write ++ [Ev.rollback])) =
      { committed := s, pending := none } := by
  rw [run_txn]; rfl

/-- failed transactions leave a fresh connection on the same content -/
theorem run_flatten_failed (apply : S → W → S) (s : S) (fails : List (List (Ev W)))
    (hf : ∀ tr ∈ fails, FailedTxn tr) :
    run apply s fails.flatten = { committed := s, pending := none } := by
  induction fails with
  | nil => rfl
  | cons tr fails ih =>
    obtain ⟨ws, hws⟩ := hf tr (List.mem_cons_self)
    rw [List.flatten_cons, run_append_of_closed apply s s tr fails.flatten (by rw [hws, run_failed])]
    exact ih (fun tr' h' => hf tr' (List.mem_cons_of_mem _ h'))

/-- crash points of `BEGIN`, writes, closing event: before the closing event nothing is visible -/
theorem crashAfter_txn_lt (apply : S → W → S) (s : S) (ws : List W) (last : Ev W) (k : Nat)
    (hk : k < ws.length + 2) :
    crashAfter apply s (Ev.begin :: (ws.map Ev.write ++ [last])) k = s := by
  unfold crashAfter
  cases k with
  | zero => rfl
  | succ j =>
    rw [run_take_txn]
    have hj : j - ws.length = 0 := by omega
    rw [hj]
    rfl

theorem crashAfter_txn_ge (apply : S → W → S) (s : S) (ws : List W) (last : Ev W) (k : Nat)
    (hk : ws.length + 2 ≤ k) :
    crashAfter apply s (Ev.begin :: (ws.map Ev.write ++ [last])) k =
      (exec apply { committed := s, pending := some (applyAll apply s ws) } last).committed := by
  unfold crashAfter
  rw [List.take_of_length_le (by simp; omega), run_txn]

theorem length_txn (ws : List W) (last : Ev W) :
    (Ev.begin :: (ws.map Ev.write ++ [last])).length = ws.length + 2 := by
  simp

/-! ### `writesOf`, `singleTxnB` -/

theorem writesOf_map_write_append (ws : List W) (l : List (Ev W)) :
    writesOf (ws.map Ev.write ++ l) = ws ++ writesOf l := by
  induction ws with
  | nil => rfl
  | cons w ws ih =>
    rw [List.map_cons, List.cons_append, List.cons_append]
    show w :: writesOf (ws.map Ev.write ++ l) = w :: (ws ++ writesOf l)
    rw [ih]

theorem writesOf_txn (ws : List W) :
    writesOf (Ev.begin :: (ws.map Ev.write ++ [Ev.commit])) = ws := by
  show writesOf (ws.map Ev.write ++ [Ev.commit]) = ws
  rw [writesOf_map_write_append]
  show ws ++ [] = ws
  exact List.append_nil ws

theorem eq_begin_of_isBegin (e : Ev W) (h : isBegin e = true) : e = Ev.begin := by
  cases e <;> first | rfl | exact absurd h Bool.false_ne_true

theorem eq_commit_of_isCommit (e : Ev W) (h : isCommit e = true) : e = Ev.commit := by
  cases e <;> first | rfl | exact absurd h Bool.false_ne_true

theorem eq_map_write_of_all_isWrite (l : List (Ev W)) (h : l.all isWrite = true) :
    l = (writesOf l).map Ev.write := by
  induction l with
  | nil => rfl
  | cons e l ih =>
    rw [List.all_cons, Bool.and_eq_true] at h
    cases e with
    | write w =>
      show Ev.write w :: l = Ev.write w :: (writesOf l).map Ev.write
      rw [← ih h.2]
    | «begin» => exact absurd h.1 Bool.false_ne_true
    | commit => exact absurd h.1 Bool.false_ne_true
    | rollback => exact absurd h.1 Bool.false_ne_true

theorem all_isWrite_map_write (ws : List W) : (ws.map Ev.write).all isWrite = true := by
  induction ws with
  | nil => rfl
  | cons w ws ih =>
    rw [List.map_cons, List.all_cons, ih]
    rfl

theorem singleTxnB_txn (ws : List W) :
    singleTxnB (Ev.begin :: (ws.map Ev.write ++ [Ev.commit])) = true := by
  unfold singleTxnB
  simp only [List.getLast?_append, List.getLast?_singleton, Option.some_or, List.dropLast_concat,
    all_isWrite_map_write, isBegin, isCommit, Bool.and_self]

theorem singleTxn_of_singleTxnB (tr : List (Ev W)) (h : singleTxnB tr = true) : SingleTxn tr := by
  cases tr with
  | nil => exact absurd h Bool.false_ne_true
  | cons e rest =>
    unfold singleTxnB at h
    simp only [Bool.and_eq_true] at h
    obtain ⟨⟨hb, hl⟩, hw⟩ := h
    cases hlast : rest.getLast? with
    | none => rw [hlast] at hl; exact absurd hl Bool.false_ne_true
    | some l =>
      rw [hlast] at hl
      have hl' : l = Ev.commit := eq_commit_of_isCommit l hl
      have he : e = Ev.begin := eq_begin_of_isBegin e hb
      obtain ⟨ys, hys⟩ := List.getLast?_eq_some_iff.mp hlast
      rw [hys, List.dropLast_concat] at hw
      refine ⟨writesOf ys, ?_⟩
      rw [he, ← eq_map_write_of_all_isWrite ys hw, ← hl', hys]

/-! ### footprints -/
variable {R : Type}

theorem disjointT_iff (a b : List Table) : disjointT a b = true ↔ ∀ x ∈ a, x ∉ b := by
  unfold disjointT
  simp only [List.all_eq_true, Bool.not_eq_true', List.contains_eq_mem, decide_eq_false_iff_not]

/-- a step whose write set misses the footprint of `a` does not disturb `a` -/
theorem indep_pre_eff (a b : Step R) (fa fb : Footprint) (ha : Respects a fa) (hb : Respects b fb)
    (hd : disjointT fb.writes (fa.reads ++ fa.writes) = true) (s : Table → R) :
    a.pre (b.eff s) = a.pre s ∧ ∀ t, t ∈ fa.writes → a.eff (b.eff s) t = a.eff s t := by
  rw [disjointT_iff] at hd
  apply ha.2 (b.eff s) s
  intro t ht
  apply hb.1 s t
  intro hmem
  exact hd t hmem (List.mem_append.mpr ht)

theorem runHistory_nil (s : Table → R) : runHistory [] s = s := rfl

theorem runHistory_cons (a : Step R) (l : List (Step R)) (s : Table → R) :
    runHistory (a :: l) s = runHistory l (attempt a s) := rfl

theorem runHistory_append (l₁ l₂ : List (Step R)) (s : Table → R) :
    runHistory (l₁ ++ l₂) s = runHistory l₂ (runHistory l₁ s) := by
  unfold runHistory
  exact List.foldl_append

theorem attempt_of_pre_false (f : Step R) (s : Table → R) (h : f.pre s = false) :
    attempt f s = s := by
  unfold attempt
  rw [h]
  rfl

theorem attempt_of_pre_true (f : Step R) (s : Table → R) (h : f.pre s = true) :
    attempt f s = f.eff s := by
  unfold attempt
  rw [h]
  rfl

end Spowtd.Txn
