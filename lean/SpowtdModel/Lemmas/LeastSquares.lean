import SpowtdModel.Model.Offsets
import SpowtdModel.Model.Curves
import Mathlib.Logic.Relation
import Mathlib.Data.List.Forall2
/-
  Definitions used to state the least-squares properties (C05, C06, C08).
-/
namespace Spowtd

/-- two series share a level of `m` -/
def Shares (m : Mapping Rat) (s t : Nat) : Prop :=
  ∃ hl ∈ m, s ∈ seriesAt hl.2 ∧ t ∈ seriesAt hl.2

/-- every two series of `m` are linked by a chain of shared levels -/
def Connected (m : Mapping Rat) : Prop :=
  ∀ s ∈ seriesOf m, ∀ t ∈ seriesOf m, Relation.ReflTransGen (Shares m) s t

def Stationary (m : Mapping Rat) (x : Nat → Rat) : Prop := ∀ s, residualSum m x s = 0

/-- no series is listed twice at one level, and no level is empty -/
def ProperMapping (m : Mapping Rat) : Prop :=
  ∀ hl ∈ m, hl.2 ≠ [] ∧ (seriesAt hl.2).Nodup

/-- shift the crossing values of every series `s` by `c s` (a constant added to that
    interval's own time or depth axis) -/
def shiftAxes (m : Mapping Rat) (c : Nat → Rat) : Mapping Rat :=
  m.map (fun hl => (hl.1, hl.2.map (fun st => (st.1, st.2 + c st.1))))

end Spowtd
