import SpowtdModel.Lemmas.TransReal
/- Helper lemmas for Props/C15: continuity and integrals of the log-linear conductivity. -/
namespace Spowtd
namespace TR
open Classical intervalIntegral

/-! ### continuity of `pwl` -/

theorem pwl_cons_cons' (a b : ℝ × ℝ) (rest : List (ℝ × ℝ)) (x : ℝ) :
    pwl (a :: b :: rest) x =
      if x ≤ a.1 then a.2
      else if b.1 ≤ x then pwl (b :: rest) x
      else a.2 + (b.2 - a.2) / (b.1 - a.1) * (x - a.1) := by
  rw [pwl_cons_cons]
  by_cases h1 : x ≤ a.1
  · rw [if_pos h1, if_pos h1]
  · rw [if_neg h1, if_neg h1]
    by_cases h2 : x < b.1
    · rw [if_pos h2, if_neg (not_le.2 h2)]
    · rw [if_neg h2, if_pos (not_lt.1 h2)]

theorem pwl_continuous (knots : List (ℝ × ℝ)) (hs : (knots.map (·.1)).Pairwise (· < ·)) :
    Continuous (pwl knots) := by
  induction knots with
  | nil => exact continuous_const
  | cons a rest ih =>
    cases rest with
    | nil => exact continuous_const
    | cons b rest =>
      have hab := sorted_head_lt hs
      have ih' := ih (sorted_tail hs)
      have hfun : pwl (a :: b :: rest) = fun x =>
          if x ≤ a.1 then a.2
          else if b.1 ≤ x then pwl (b :: rest) x
          else a.2 + (b.2 - a.2) / (b.1 - a.1) * (x - a.1) := by
        funext x; exact pwl_cons_cons' a b rest x
      rw [hfun]
      have hlin : Continuous fun x : ℝ => a.2 + (b.2 - a.2) / (b.1 - a.1) * (x - a.1) := by
        fun_prop
      have hinner : Continuous fun x : ℝ =>
          if b.1 ≤ x then pwl (b :: rest) x else a.2 + (b.2 - a.2) / (b.1 - a.1) * (x - a.1) := by
        refine Continuous.if_le ih' hlin continuous_const continuous_id ?_
        intro x hx
        have hx' : b.1 = x := hx
        rw [← hx', pwl_le_first _ _ _ le_rfl]
        have : b.1 - a.1 ≠ 0 := by linarith
        field_simp
        ring
      refine Continuous.if_le continuous_const hinner continuous_id continuous_const ?_
      intro x hx
      have hx' : x = a.1 := hx
      rw [hx', if_neg (not_le.2 hab)]
      ring

/-! ### `logLinK` -/

theorem logLinK_eq (knots : List (ℝ × ℝ)) (x : ℝ) :
    logLinK knots x = Real.exp (pwl (knots.map (fun k => (k.1, Real.log k.2))) x) := rfl

theorem map_log_sorted (knots : List (ℝ × ℝ)) (hs : (knots.map (·.1)).Pairwise (· < ·)) :
    ((knots.map (fun k : ℝ × ℝ => (k.1, Real.log k.2))).map (·.1)).Pairwise (· < ·) := by
  rw [List.map_map]
  exact hs

theorem logLinK_continuous (knots : List (ℝ × ℝ)) (hs : (knots.map (·.1)).Pairwise (· < ·)) :
    Continuous (logLinK knots) := by
  have : logLinK knots = fun x => Real.exp (pwl (knots.map (fun k => (k.1, Real.log k.2))) x) := by
    funext x; exact logLinK_eq knots x
  rw [this]
  exact Real.continuous_exp.comp (pwl_continuous _ (map_log_sorted knots hs))

theorem logLinK_pos (knots : List (ℝ × ℝ)) (x : ℝ) : 0 < logLinK knots x := by
  rw [logLinK_eq]; exact Real.exp_pos _

theorem logLinK_intervalIntegrable (knots : List (ℝ × ℝ)) (hs : (knots.map (·.1)).Pairwise (· < ·))
    (u v : ℝ) : IntervalIntegrable (logLinK knots) MeasureTheory.volume u v :=
  (logLinK_continuous knots hs).intervalIntegrable u v

theorem logLinK_segment (knots : List (ℝ × ℝ)) (hs : (knots.map (·.1)).Pairwise (· < ·)) (i : Nat)
    (a b : ℝ × ℝ) (ha : knots[i]? = some a) (hb : knots[i + 1]? = some b) (x : ℝ)
    (hx : a.1 ≤ x ∧ x ≤ b.1) :
    logLinK knots x =
      Real.exp (Real.log a.2 + (Real.log b.2 - Real.log a.2) / (b.1 - a.1) * (x - a.1)) := by
  rw [logLinK_eq]
  rw [pwl_linear_between _ (map_log_sorted knots hs) i (a.1, Real.log a.2) (b.1, Real.log b.2)
    (by rw [List.getElem?_map, ha]; rfl) (by rw [List.getElem?_map, hb]; rfl) x hx]

theorem logLinK_ge_second (a b : ℝ × ℝ) (rest : List (ℝ × ℝ)) (x : ℝ) (hab : a.1 < b.1)
    (hx : b.1 ≤ x) : logLinK (a :: b :: rest) x = logLinK (b :: rest) x := by
  rw [logLinK_eq, logLinK_eq]
  simp only [List.map_cons]
  rw [pwl_ge_second (a.1, Real.log a.2) (b.1, Real.log b.2) _ x hab hx]

/-! ### `segInt` -/

theorem segInt_eq (z0 K0 z1 K1 z : ℝ) :
    segInt z0 K0 z1 K1 z =
      if (Real.log K1 - Real.log K0) / (z1 - z0) = 0 then K0 * (z - z0)
      else (Real.exp (Real.log K0 + (Real.log K1 - Real.log K0) / (z1 - z0) * (z - z0)) - K0) /
        ((Real.log K1 - Real.log K0) / (z1 - z0)) := by
  simp only [segInt, beq_iff, ofInt_eq, Int.cast_zero, add_eq, sub_eq, mul_eq, div_eq,
    exp_eq, log_eq]

theorem segInt_eq_integral (z0 K0 z1 K1 z : ℝ) (h0 : 0 < K0) :
    segInt z0 K0 z1 K1 z =
      ∫ x in z0..z, Real.exp (Real.log K0 + (Real.log K1 - Real.log K0) / (z1 - z0) * (x - z0)) := by
  rw [segInt_eq]
  generalize (Real.log K1 - Real.log K0) / (z1 - z0) = q
  by_cases hq : q = 0
  · rw [if_pos hq, hq]
    simp only [zero_mul, add_zero, Real.exp_log h0, intervalIntegral.integral_const, smul_eq_mul]
    ring
  · rw [if_neg hq]
    have hderiv : ∀ x ∈ Set.uIcc z0 z,
        HasDerivAt (fun x => Real.exp (Real.log K0 + q * (x - z0)) / q)
          (Real.exp (Real.log K0 + q * (x - z0))) x := by
      intro x _
      have h1 : HasDerivAt (fun x : ℝ => Real.log K0 + q * (x - z0)) q x := by
        have := (((hasDerivAt_id x).sub_const z0).const_mul q).const_add (Real.log K0)
        simpa using this
      have h2 := (h1.exp).div_const q
      have e : Real.exp (Real.log K0 + q * (x - z0)) * q / q = Real.exp (Real.log K0 + q * (x - z0)) := by
        field_simp
      rw [e] at h2
      exact h2
    have hcont : Continuous fun x : ℝ => Real.exp (Real.log K0 + q * (x - z0)) := by fun_prop
    rw [intervalIntegral.integral_eq_sub_of_hasDerivAt hderiv (hcont.intervalIntegrable _ _)]
    simp only [sub_self, mul_zero, add_zero, Real.exp_log h0]
    ring

/-! ### `tSplineClosed` -/

theorem tSpline_cons_cons (a b : ℝ × ℝ) (rest : List (ℝ × ℝ)) (tmin z : ℝ) :
    tSplineClosed (a :: b :: rest) tmin z =
      if z ≤ a.1 then tmin
      else if z ≤ b.1 then tmin + segInt a.1 a.2 b.1 b.2 z
      else tSplineClosed (b :: rest) (tmin + segInt a.1 a.2 b.1 b.2 b.1) z := by
  simp only [tSplineClosed, le_iff, add_eq]

theorem tSpline_below (a : ℝ × ℝ) (rest : List (ℝ × ℝ)) (tmin z : ℝ) (hz : z ≤ a.1) :
    tSplineClosed (a :: rest) tmin z = tmin := by
  cases rest with
  | nil => rfl
  | cons b rest => rw [tSpline_cons_cons, if_pos hz]

theorem segInt_eq_integral_logLinK (a b : ℝ × ℝ) (rest : List (ℝ × ℝ)) (hab : a.1 < b.1)
    (ha : 0 < a.2) (z : ℝ) (h1 : a.1 ≤ z) (h2 : z ≤ b.1) :
    segInt a.1 a.2 b.1 b.2 z = ∫ x in a.1..z, logLinK (a :: b :: rest) x := by
  rw [segInt_eq_integral _ _ _ _ _ ha]
  apply intervalIntegral.integral_congr
  intro x hx
  rw [Set.uIcc_of_le h1] at hx
  simp only
  rw [logLinK_eq]
  simp only [List.map_cons]
  rw [pwl_head_segment (a.1, Real.log a.2) (b.1, Real.log b.2) _ x hab hx.1 (le_trans hx.2 h2)]

theorem tSpline_eq_integral (rest : List (ℝ × ℝ)) :
    ∀ (a : ℝ × ℝ) (tmin z : ℝ), (((a :: rest).map (·.1)).Pairwise (· < ·)) →
      (∀ k ∈ a :: rest, 0 < k.2) → ∀ b, (a :: rest).getLast? = some b → a.1 ≤ z → z ≤ b.1 →
      tSplineClosed (a :: rest) tmin z = tmin + ∫ x in a.1..z, logLinK (a :: rest) x := by
  induction rest with
  | nil =>
    intro a tmin z _ _ b hb h1 h2
    simp only [List.getLast?_singleton, Option.some.injEq] at hb
    subst hb
    have : z = a.1 := le_antisymm h2 h1
    rw [this, intervalIntegral.integral_same, add_zero]
    rfl
  | cons c rest ih =>
    intro a tmin z hs hpos b hb h1 h2
    have hac := sorted_head_lt hs
    have ha : 0 < a.2 := hpos a (by simp)
    rw [tSpline_cons_cons]
    by_cases hza : z ≤ a.1
    · have : z = a.1 := le_antisymm hza h1
      rw [if_pos hza, this, intervalIntegral.integral_same, add_zero]
    · rw [if_neg hza]
      by_cases hzc : z ≤ c.1
      · rw [if_pos hzc, segInt_eq_integral_logLinK a c rest hac ha z h1 hzc]
      · rw [if_neg hzc]
        have hzc' : c.1 ≤ z := (not_le.1 hzc).le
        rw [List.getLast?_cons_cons] at hb
        rw [ih c _ z (sorted_tail hs) (fun k hk => hpos k (List.mem_cons_of_mem _ hk)) b hb hzc' h2]
        rw [segInt_eq_integral_logLinK a c rest hac ha c.1 hac.le le_rfl]
        have hcongr : ∫ x in c.1..z, logLinK (c :: rest) x = ∫ x in c.1..z, logLinK (a :: c :: rest) x := by
          apply intervalIntegral.integral_congr
          intro x hx
          rw [Set.uIcc_of_le hzc'] at hx
          exact (logLinK_ge_second a c rest x hac hx.1).symm
        rw [hcongr, add_assoc,
          intervalIntegral.integral_add_adjacent_intervals
            (logLinK_intervalIntegrable _ hs _ _) (logLinK_intervalIntegrable _ hs _ _)]

/-- for every level up to the highest knot: minimum + ∫ from the lowest knot to `max z a.1` -/
theorem tSpline_eq_integral_max (a : ℝ × ℝ) (rest : List (ℝ × ℝ)) (tmin z : ℝ)
    (hs : ((a :: rest).map (·.1)).Pairwise (· < ·)) (hpos : ∀ k ∈ a :: rest, 0 < k.2) (b : ℝ × ℝ)
    (hb : (a :: rest).getLast? = some b) (hz : z ≤ b.1) :
    tSplineClosed (a :: rest) tmin z = tmin + ∫ x in a.1..(max z a.1), logLinK (a :: rest) x := by
  by_cases h : z ≤ a.1
  · rw [tSpline_below _ _ _ _ h, max_eq_right h, intervalIntegral.integral_same, add_zero]
  · have h' : a.1 ≤ z := (not_le.1 h).le
    rw [max_eq_left h']
    exact tSpline_eq_integral rest a tmin z hs hpos b hb h' hz

theorem tSpline_monotone (knots : List (ℝ × ℝ)) (hs : (knots.map (·.1)).Pairwise (· < ·))
    (hpos : ∀ k ∈ knots, 0 < k.2) (tmin z z' : ℝ) (b : ℝ × ℝ)
    (hb : knots.getLast? = some b) (hzz : z ≤ z') (hz : z' ≤ b.1) :
    tSplineClosed knots tmin z ≤ tSplineClosed knots tmin z' := by
  cases knots with
  | nil => simp at hb
  | cons a rest =>
    rw [tSpline_eq_integral_max a rest tmin z hs hpos b hb (le_trans hzz hz),
      tSpline_eq_integral_max a rest tmin z' hs hpos b hb hz]
    have hsub := intervalIntegral.integral_interval_sub_left
      (logLinK_intervalIntegrable (a :: rest) hs a.1 (max z' a.1))
      (logLinK_intervalIntegrable (a :: rest) hs a.1 (max z a.1))
    have hnn : 0 ≤ ∫ x in (max z a.1)..(max z' a.1), logLinK (a :: rest) x :=
      intervalIntegral.integral_nonneg (max_le_max hzz le_rfl) (fun x _ => (logLinK_pos _ x).le)
    linarith

theorem tSpline_continuousOn (knots : List (ℝ × ℝ)) (hs : (knots.map (·.1)).Pairwise (· < ·))
    (hpos : ∀ k ∈ knots, 0 < k.2) (tmin : ℝ) (b : ℝ × ℝ) (hb : knots.getLast? = some b) :
    ContinuousOn (tSplineClosed knots tmin) (Set.Iic b.1) := by
  cases knots with
  | nil => simp at hb
  | cons a rest =>
    have hprim : Continuous fun u => ∫ x in a.1..u, logLinK (a :: rest) x :=
      intervalIntegral.continuous_primitive (logLinK_intervalIntegrable (a :: rest) hs) a.1
    have hcont : Continuous fun z : ℝ => tmin + ∫ x in a.1..(max z a.1), logLinK (a :: rest) x :=
      continuous_const.add (hprim.comp (continuous_id.max continuous_const))
    refine hcont.continuousOn.congr ?_
    intro z hz
    exact tSpline_eq_integral_max a rest tmin z hs hpos b hb hz

end TR
end Spowtd
