import SpowtdModel.Lemmas.LeastSquaresSums
/-
  Helper lemmas for Props/C05, C06, C08 (part 2): the objective and the residual sums as list
  sums over `Rat`, the exact expansion of the objective, consequences.
-/
namespace Spowtd
namespace LS

/-- objective of one level -/
def lobj (x : Nat → Rat) (l : List (Nat × Rat)) : Rat :=
  (l.map (fun st => (x st.1 + st.2 - levelMean x l) * (x st.1 + st.2 - levelMean x l))).sum

/-- residual sum of series `s` at one level -/
def lres (x : Nat → Rat) (l : List (Nat × Rat)) (s : Nat) : Rat :=
  ((l.filter (fun st => st.1 == s)).map (fun st => x st.1 + st.2 - levelMean x l)).sum

theorem levelMean_eq (x : Nat → Rat) (l : List (Nat × Rat)) :
    levelMean x l = (l.map (fun st => x st.1 + st.2)).sum / (l.length : Rat) := by
  simp only [levelMean, mean_eq, num_add, List.length_map]

theorem objective_eq (m : Mapping Rat) (x : Nat → Rat) :
    objective m x = (m.map (fun hl => lobj x hl.2)).sum := by
  simp only [objective, num_sum, num_sub, num_add, num_mul, lobj]

theorem residualSum_eq (m : Mapping Rat) (x : Nat → Rat) (s : Nat) :
    residualSum m x s = (m.map (fun hl => lres x hl.2 s)).sum := by
  simp only [residualSum, num_sum, num_sub, num_add, lres]

/-- the residuals of a level sum to zero -/
theorem level_res_sum (x : Nat → Rat) (l : List (Nat × Rat)) :
    (l.map (fun st => x st.1 + st.2 - levelMean x l)).sum = 0 := by
  rw [sum_map_sub_const, levelMean_eq]
  by_cases h : l = []
  · subst h; simp
  · have hn : (l.length : Rat) ≠ 0 := by
      have : l.length ≠ 0 := fun h' => h (List.length_eq_zero_iff.1 h')
      exact_mod_cast this
    field_simp
    ring

theorem lobj_nonneg (x : Nat → Rat) (l : List (Nat × Rat)) : 0 ≤ lobj x l :=
  sum_map_nonneg _ _ (fun _ _ => mul_self_nonneg _)

theorem objective_nonneg (m : Mapping Rat) (x : Nat → Rat) : 0 ≤ objective m x := by
  rw [objective_eq]
  exact sum_map_nonneg _ _ (fun _ _ => lobj_nonneg _ _)

/-- the level list with all crossing values set to zero -/
def zeroed (l : List (Nat × Rat)) : List (Nat × Rat) := l.map (fun st => (st.1, (0 : Rat)))

def zeroedM (m : Mapping Rat) : Mapping Rat := m.map (fun hl => (hl.1, zeroed hl.2))

theorem levelMean_zeroed (d : Nat → Rat) (l : List (Nat × Rat)) :
    levelMean d (zeroed l) = (l.map (fun st => d st.1)).sum / (l.length : Rat) := by
  simp only [levelMean_eq, zeroed, List.map_map, List.length_map, Function.comp_def, add_zero]

theorem lobj_zeroed (d : Nat → Rat) (l : List (Nat × Rat)) :
    lobj d (zeroed l) = (l.map (fun st => (d st.1 - levelMean d (zeroed l)) *
      (d st.1 - levelMean d (zeroed l)))).sum := by
  unfold lobj
  generalize levelMean d (zeroed l) = μ
  simp only [zeroed, List.map_map, Function.comp_def, add_zero]

theorem levelMean_add (x y : Nat → Rat) (l : List (Nat × Rat)) :
    levelMean y l = levelMean x l + levelMean (fun s => y s - x s) (zeroed l) := by
  rw [levelMean_zeroed, levelMean_eq, levelMean_eq, ← add_div, ← sum_map_add']
  congr 2
  apply List.map_congr_left
  intro st _
  ring

/-- expansion of the objective of one level -/
theorem lobj_expand (x y : Nat → Rat) (l : List (Nat × Rat)) :
    lobj y l = lobj x l
      + 2 * (l.map (fun st => (x st.1 + st.2 - levelMean x l) * (y st.1 - x st.1))).sum
      + lobj (fun s => y s - x s) (zeroed l) := by
  have hr := level_res_sum x l
  rw [lobj_zeroed]
  unfold lobj
  rw [levelMean_add x y l]
  generalize levelMean x l = μ at *
  generalize levelMean (fun s => y s - x s) (zeroed l) = δ at *
  have h : ∀ st : Nat × Rat,
      (y st.1 + st.2 - (μ + δ)) * (y st.1 + st.2 - (μ + δ)) =
        ((x st.1 + st.2 - μ) * (x st.1 + st.2 - μ)
          + 2 * ((x st.1 + st.2 - μ) * (y st.1 - x st.1)))
        + ((y st.1 - x st.1 - δ) * (y st.1 - x st.1 - δ) + (-2 * δ) * (x st.1 + st.2 - μ)) := by
    intro st; ring
  rw [List.map_congr_left (fun st _ => h st), sum_map_add', sum_map_add', sum_map_add',
    sum_map_mul_left', sum_map_mul_left', hr]
  ring

/-- regrouping of the cross term by series -/
theorem cross_regroup (m : Mapping Rat) (x d : Nat → Rat) :
    (m.map (fun hl => (hl.2.map (fun st =>
      (x st.1 + st.2 - levelMean x hl.2) * d st.1)).sum)).sum =
    ((seriesOf m).map (fun s => d s * residualSum m x s)).sum := by
  have h1 : ∀ hl ∈ m, (hl.2.map (fun st => (x st.1 + st.2 - levelMean x hl.2) * d st.1)).sum
      = ((seriesOf m).map (fun s => d s * lres x hl.2 s)).sum := by
    intro hl hmem
    exact regroup (seriesOf m) (nodup_seriesOf m) d
      (fun st => x st.1 + st.2 - levelMean x hl.2) hl.2
      (fun st hst => mem_seriesOf_of_mem m hl hmem st hst)
  rw [List.map_congr_left h1, sum_swap]
  apply sum_map_congr
  intro s _
  rw [residualSum_eq]

theorem objective_zeroed (m : Mapping Rat) (d : Nat → Rat) :
    objective (m.map (fun hl => (hl.1, hl.2.map (fun st => (st.1, (0 : Rat)))))) d =
      (m.map (fun hl => lobj d (zeroed hl.2))).sum := by
  rw [objective_eq, List.map_map]
  rfl

theorem objective_expand' (m : Mapping Rat) (x y : Nat → Rat) :
    objective m y = objective m x
      + 2 * ((seriesOf m).map (fun s => (y s - x s) * residualSum m x s)).sum
      + (m.map (fun hl => lobj (fun s => y s - x s) (zeroed hl.2))).sum := by
  rw [← cross_regroup m x (fun s => y s - x s), objective_eq, objective_eq,
    List.map_congr_left (fun hl _ => lobj_expand x y hl.2), sum_map_add', sum_map_add',
    sum_map_mul_left']

/-- the third term of the expansion -/
def spread (m : Mapping Rat) (d : Nat → Rat) : Rat :=
  (m.map (fun hl => lobj d (zeroed hl.2))).sum

theorem spread_nonneg (m : Mapping Rat) (d : Nat → Rat) : 0 ≤ spread m d :=
  sum_map_nonneg _ _ (fun _ _ => lobj_nonneg _ _)

theorem objective_expand_spread (m : Mapping Rat) (x y : Nat → Rat) :
    objective m y = objective m x
      + 2 * ((seriesOf m).map (fun s => (y s - x s) * residualSum m x s)).sum
      + spread m (fun s => y s - x s) := objective_expand' m x y

theorem stationary_le (m : Mapping Rat) (x : Nat → Rat) (h : Stationary m x) (y : Nat → Rat) :
    objective m x ≤ objective m y := by
  rw [objective_expand_spread m x y]
  have hc : ((seriesOf m).map (fun s => (y s - x s) * residualSum m x s)).sum = 0 := by
    refine (sum_map_congr _ _ (fun _ => (0 : Rat)) ?_).trans (sum_map_zero _)
    intro s _
    rw [h s, mul_zero]
  have := spread_nonneg m (fun s => y s - x s)
  rw [hc]; linarith

/-! ### a series that does not occur has an empty residual sum -/

theorem lres_not_mem (x : Nat → Rat) (l : List (Nat × Rat)) (s : Nat) (h : s ∉ seriesAt l) :
    lres x l s = 0 := by
  unfold lres
  have : l.filter (fun st => st.1 == s) = [] := by
    rw [List.filter_eq_nil_iff]
    intro st hst hb
    have : st.1 = s := by simpa using hb
    exact h (List.mem_map.2 ⟨st, hst, this⟩)
  rw [this]; rfl

theorem residualSum_not_mem (m : Mapping Rat) (x : Nat → Rat) (s : Nat) (h : s ∉ seriesOf m) :
    residualSum m x s = 0 := by
  rw [residualSum_eq]
  refine (sum_map_congr _ _ (fun _ => (0 : Rat)) ?_).trans (sum_map_zero _)
  intro hl hmem
  apply lres_not_mem
  intro hs
  exact h ((mem_seriesOf m s).2 ⟨hl, hmem, hs⟩)

/-! ### scaling of the spread, and the converse: a minimiser is stationary -/

theorem levelMean_zeroed_smul (e : Rat) (d : Nat → Rat) (l : List (Nat × Rat)) :
    levelMean (fun s => e * d s) (zeroed l) = e * levelMean d (zeroed l) := by
  rw [levelMean_zeroed, levelMean_zeroed, sum_map_mul_left', mul_div_assoc]

theorem lobj_zeroed_smul (e : Rat) (d : Nat → Rat) (l : List (Nat × Rat)) :
    lobj (fun s => e * d s) (zeroed l) = e * e * lobj d (zeroed l) := by
  rw [lobj_zeroed, lobj_zeroed, levelMean_zeroed_smul, ← sum_map_mul_left']
  apply sum_map_congr
  intro st _
  ring

theorem spread_smul (m : Mapping Rat) (e : Rat) (d : Nat → Rat) :
    spread m (fun s => e * d s) = e * e * spread m d := by
  unfold spread
  rw [← sum_map_mul_left']
  apply sum_map_congr
  intro hl _
  exact lobj_zeroed_smul e d hl.2

theorem minimiser_stationary (m : Mapping Rat) (x : Nat → Rat)
    (h : ∀ y, objective m x ≤ objective m y) : Stationary m x := by
  intro s
  by_cases hs : s ∈ seriesOf m
  · by_contra hR
    -- perturb along the indicator of `s`
    let ind : Nat → Rat := fun t => if s = t then 1 else 0
    have key : ∀ e : Rat, 0 ≤ 2 * (e * residualSum m x s) + e * e * spread m ind := by
      intro e
      have h1 := h (fun t => x t + e * ind t)
      rw [objective_expand_spread m x (fun t => x t + e * ind t)] at h1
      have h2 : (fun t => x t + e * ind t - x t) = fun t => e * ind t := by
        funext t; ring
      rw [h2, spread_smul] at h1
      have h3 : ((seriesOf m).map (fun t => (x t + e * ind t - x t) * residualSum m x t)).sum
          = e * residualSum m x s := by
        have : ∀ t ∈ seriesOf m, (x t + e * ind t - x t) * residualSum m x t
            = if s = t then (fun t => e * residualSum m x t) t else 0 := by
          intro t _
          by_cases hst : s = t
          · simp only [ind, hst, if_true]; ring
          · simp only [ind, hst, if_false]; ring
        rw [sum_map_congr _ _ _ this, sum_indicator _ (nodup_seriesOf m) s hs]
      rw [h3] at h1
      linarith
    set R := residualSum m x s with hRdef
    set Q := spread m ind with hQdef
    have hQ : 0 ≤ Q := spread_nonneg m ind
    have hu : 0 < Q + 1 := by linarith
    have hk := key (-R / (Q + 1))
    have hpos : 0 < R * R := by
      rcases lt_or_gt_of_ne hR with h' | h'
      · exact mul_pos_of_neg_of_neg h' h'
      · exact mul_pos h' h'
    have e1 : (2 * (-R / (Q + 1) * R) + -R / (Q + 1) * (-R / (Q + 1)) * Q) * ((Q + 1) * (Q + 1))
        = -(R * R) * (Q + 2) := by
      field_simp
      ring
    have e2 : 0 ≤ (2 * (-R / (Q + 1) * R) + -R / (Q + 1) * (-R / (Q + 1)) * Q)
        * ((Q + 1) * (Q + 1)) := mul_nonneg hk (le_of_lt (mul_pos hu hu))
    rw [e1] at e2
    have : 0 < R * R * (Q + 2) := mul_pos hpos (by linarith)
    linarith
  · exact residualSum_not_mem m x s hs

/-! ### uniqueness up to a common shift -/

/-- zero spread ⇒ the difference is constant on every level -/
theorem spread_zero_const (m : Mapping Rat) (d : Nat → Rat) (h : spread m d = 0)
    (hl : Int × List (Nat × Rat)) (hmem : hl ∈ m) (st : Nat × Rat) (hst : st ∈ hl.2) :
    d st.1 = levelMean d (zeroed hl.2) := by
  have h1 := sum_map_eq_zero_all m _ (fun _ _ => lobj_nonneg _ _) h hl hmem
  rw [lobj_zeroed] at h1
  have h2 := sum_map_eq_zero_all hl.2 _ (fun _ _ => mul_self_nonneg _) h1 st hst
  have h3 := mul_self_eq_zero.1 h2
  linarith

theorem shares_const (m : Mapping Rat) (d : Nat → Rat) (h : spread m d = 0) (s t : Nat)
    (hst : Shares m s t) : d s = d t := by
  obtain ⟨hl, hmem, hs, ht⟩ := hst
  obtain ⟨a, ha, rfl⟩ := List.mem_map.1 hs
  obtain ⟨b, hb, rfl⟩ := List.mem_map.1 ht
  rw [spread_zero_const m d h hl hmem a ha, spread_zero_const m d h hl hmem b hb]

theorem chain_const (m : Mapping Rat) (d : Nat → Rat) (h : spread m d = 0) (s t : Nat)
    (hst : Relation.ReflTransGen (Shares m) s t) : d s = d t := by
  induction hst with
  | refl => rfl
  | tail _ hbc ih => exact ih.trans (shares_const m d h _ _ hbc)

theorem unique_mod_shift (m : Mapping Rat) (hc : Connected m)
    (x y : Nat → Rat) (hx : Stationary m x) (hy : Stationary m y) :
    ∃ c, ∀ s ∈ seriesOf m, y s = x s + c := by
  have h1 := stationary_le m x hx y
  have h2 := stationary_le m y hy x
  have h3 := objective_expand_spread m x y
  have hcz : ((seriesOf m).map (fun s => (y s - x s) * residualSum m x s)).sum = 0 := by
    refine (sum_map_congr _ _ (fun _ => (0 : Rat)) ?_).trans (sum_map_zero _)
    intro s _
    rw [hx s, mul_zero]
  rw [hcz] at h3
  have hsp : spread m (fun s => y s - x s) = 0 := by linarith
  cases hS : seriesOf m with
  | nil => exact ⟨0, fun s hs => by cases hs⟩
  | cons s0 S =>
    refine ⟨y s0 - x s0, ?_⟩
    intro s hs
    have hs0 : s0 ∈ seriesOf m := by rw [hS]; exact List.mem_cons_self ..
    have hs' : s ∈ seriesOf m := by rw [hS]; exact hs
    have : y s - x s = y s0 - x s0 :=
      chain_const m (fun s => y s - x s) hsp s s0 (hc s hs' s0 hs0)
    linarith

end LS
end Spowtd
