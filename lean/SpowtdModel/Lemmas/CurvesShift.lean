import SpowtdModel.Model.Pipeline
import SpowtdModel.Lemmas.Curves
import SpowtdModel.Lemmas.CurvesRat
/- Helper lemmas for Props/C07Curves.lean: a common shift of every timestamp of a dataset goes
   through series extraction, the sorts, the re-basing and the curve tables.  Over `Rat`. -/
namespace Spowtd
namespace CS

/-! ### `minBy`, `rebase` -/

theorem foldl_min_shift (xs : List Rat) (x c : Rat) :
    (xs.map (fun y => y + c)).foldl (fun m y => if Num.lt y m then y else m) (x + c) =
      xs.foldl (fun m y => if Num.lt y m then y else m) x + c := by
  induction xs generalizing x with
  | nil => rfl
  | cons y ys ih =>
    rw [List.map_cons, List.foldl_cons, List.foldl_cons]
    have hlt : (Num.lt (y + c) (x + c) : Bool) = Num.lt y x := by
      show decide (y + c < x + c) = decide (y < x)
      exact decide_eq_decide.mpr (by constructor <;> intro h <;> linarith)
    rw [hlt]
    by_cases h : Num.lt y x = true
    · rw [if_pos h, if_pos h]; exact ih y
    · rw [if_neg h, if_neg h]; exact ih x

theorem minBy_shift (l : List Rat) (c : Rat) :
    minBy (l.map (fun y => y + c)) = (minBy l).map (fun y => y + c) := by
  cases l with
  | nil => rfl
  | cons x xs =>
    show some _ = some _
    rw [foldl_min_shift]

theorem rebase_shift (pts : List (Rat × Rat)) (c : Rat) :
    rebase (pts.map (fun p => (p.1 + c, p.2))) = rebase pts := by
  unfold rebase
  have h1 : (pts.map (fun p => (p.1 + c, p.2))).map (·.1) = (pts.map (·.1)).map (fun y => y + c) := by
    rw [List.map_map, List.map_map]; rfl
  rw [h1, minBy_shift]
  cases hm : minBy (pts.map (·.1)) with
  | none =>
    cases pts with
    | nil => rfl
    | cons p ps => exact absurd hm (by simp [minBy])
  | some m =>
    show (pts.map (fun p => (p.1 + c, p.2))).map (fun p => (Num.sub p.1 (m + c), p.2)) =
      pts.map (fun p => (Num.sub p.1 m, p.2))
    rw [List.map_map]
    apply List.map_congr_left
    intro p _
    show (p.1 + c - (m + c), p.2) = (p.1 - m, p.2)
    congr 1
    ring

/-! ### `alignSeries`, `assemble` only see the re-based series -/

theorem zipIdx_rebase (L : List (List (Rat × Rat))) :
    L.zipIdx.map (fun p => (p.2, rebase p.1)) = (L.map rebase).zipIdx.map (fun p => (p.2, p.1)) := by
  rw [List.zipIdx_map, List.map_map]
  rfl

theorem alignSeries_congr (step : Rat) {L L' : List (List (Rat × Rat))}
    (h : L'.map rebase = L.map rebase) : alignSeries step L' = alignSeries step L := by
  have hlen : L'.length = L.length := by
    have := congrArg List.length h
    simpa using this
  have h1 : L'.isEmpty = L.isEmpty := by
    cases L' <;> cases L <;> simp_all
  have h2 : L'.zipIdx.map (fun p => (p.2, rebase p.1)) = L.zipIdx.map (fun p => (p.2, rebase p.1)) := by
    rw [zipIdx_rebase, zipIdx_rebase, h]
  unfold alignSeries
  rw [h1, h2]

theorem assemble_congr (step : Rat) (ref : Option Rat) {L L' : List (List (Rat × Rat))}
    (h : L'.map rebase = L.map rebase) : assemble step L' ref = assemble step L ref := by
  unfold assemble
  rw [alignSeries_congr step h]

theorem map_rebase_zipWith (series : List (List (Rat × Rat))) (cs : List Rat)
    (h : cs.length = series.length) :
    (List.zipWith (fun s c => s.map (fun p => (p.1 + c, p.2))) series cs).map rebase =
      series.map rebase := by
  induction series generalizing cs with
  | nil => simp
  | cons s ss ih =>
    cases cs with
    | nil => simp at h
    | cons c cs' =>
      rw [List.zipWith_cons_cons, List.map_cons, List.map_cons, rebase_shift, ih cs' (by simpa using h)]

theorem map_rebase_map (L : List (List (Rat × Rat))) (c : Rat) :
    (L.map (fun s => s.map (fun p => (p.1 + c, p.2)))).map rebase = L.map rebase := by
  rw [List.map_map]
  apply List.map_congr_left
  intro s _
  exact rebase_shift s c

theorem map_rebase_keyed (series : List (Int × List (Rat × Rat))) (k : Int) (c : Rat) :
    ((series.map (fun s => (s.1 + k, s.2.map (fun p => (p.1 + c, p.2))))).map (·.2)).map rebase =
      (series.map (·.2)).map rebase := by
  rw [List.map_map, List.map_map, List.map_map]
  apply List.map_congr_left
  intro s _
  exact rebase_shift s.2 c

/-! ### the sorts commute with the shift -/

def shiftq (k : Int) (q : Int × Int) : Int × Int := (q.1 + k, q.2 + k)
def shiftp (k : Int) (p : (Int × Int) × (Int × Int)) : (Int × Int) × (Int × Int) :=
  ((p.1.1 + k, p.1.2 + k), (p.2.1 + k, p.2.2 + k))

theorem sortInter_step_shift (k : Int) (acc : List (Int × Int)) (p : Int × Int) :
    ((acc.map (shiftq k)).filter (fun q => decide (q.1 ≤ (shiftq k p).1))) ++ [shiftq k p] ++
        ((acc.map (shiftq k)).filter (fun q => decide ((shiftq k p).1 < q.1))) =
      ((acc.filter (fun q => decide (q.1 ≤ p.1))) ++ [p] ++
        (acc.filter (fun q => decide (p.1 < q.1)))).map (shiftq k) := by
  rw [List.map_append, List.map_append, List.filter_map, List.filter_map]
  have e1 : ((fun q : Int × Int => decide (q.1 ≤ (shiftq k p).1)) ∘ shiftq k) =
      (fun q => decide (q.1 ≤ p.1)) := by
    funext q
    show decide (q.1 + k ≤ p.1 + k) = decide (q.1 ≤ p.1)
    exact decide_eq_decide.mpr (by omega)
  have e2 : ((fun q : Int × Int => decide ((shiftq k p).1 < q.1)) ∘ shiftq k) =
      (fun q => decide (p.1 < q.1)) := by
    funext q
    show decide (p.1 + k < q.1 + k) = decide (p.1 < q.1)
    exact decide_eq_decide.mpr (by omega)
  rw [e1, e2]
  rfl

theorem sortInter_shift (k : Int) (l : List (Int × Int)) :
    sortInter (l.map (shiftq k)) = (sortInter l).map (shiftq k) := by
  unfold sortInter
  suffices h : ∀ acc : List (Int × Int),
      (l.map (shiftq k)).foldl (fun acc p =>
        (acc.filter (fun q => decide (q.1 ≤ p.1))) ++ [p] ++
          (acc.filter (fun q => decide (p.1 < q.1)))) (acc.map (shiftq k)) =
      (l.foldl (fun acc p =>
        (acc.filter (fun q => decide (q.1 ≤ p.1))) ++ [p] ++
          (acc.filter (fun q => decide (p.1 < q.1)))) acc).map (shiftq k) from h []
  induction l with
  | nil => intro acc; rfl
  | cons p ps ih =>
    intro acc
    rw [List.map_cons, List.foldl_cons, List.foldl_cons, sortInter_step_shift, ih]

theorem sortPairs_step_shift (k : Int) (acc : List ((Int × Int) × (Int × Int)))
    (p : (Int × Int) × (Int × Int)) :
    ((acc.map (shiftp k)).filter (fun q => decide (q.1.1 ≤ (shiftp k p).1.1))) ++ [shiftp k p] ++
        ((acc.map (shiftp k)).filter (fun q => decide ((shiftp k p).1.1 < q.1.1))) =
      ((acc.filter (fun q => decide (q.1.1 ≤ p.1.1))) ++ [p] ++
        (acc.filter (fun q => decide (p.1.1 < q.1.1)))).map (shiftp k) := by
  rw [List.map_append, List.map_append, List.filter_map, List.filter_map]
  have e1 : ((fun q : (Int × Int) × (Int × Int) => decide (q.1.1 ≤ (shiftp k p).1.1)) ∘ shiftp k) =
      (fun q => decide (q.1.1 ≤ p.1.1)) := by
    funext q
    show decide (q.1.1 + k ≤ p.1.1 + k) = decide (q.1.1 ≤ p.1.1)
    exact decide_eq_decide.mpr (by omega)
  have e2 : ((fun q : (Int × Int) × (Int × Int) => decide ((shiftp k p).1.1 < q.1.1)) ∘ shiftp k) =
      (fun q => decide (p.1.1 < q.1.1)) := by
    funext q
    show decide (p.1.1 + k < q.1.1 + k) = decide (p.1.1 < q.1.1)
    exact decide_eq_decide.mpr (by omega)
  rw [e1, e2]
  rfl

theorem sortPairs_shift (k : Int) (l : List ((Int × Int) × (Int × Int))) :
    sortPairs (l.map (shiftp k)) = (sortPairs l).map (shiftp k) := by
  unfold sortPairs
  suffices h : ∀ acc : List ((Int × Int) × (Int × Int)),
      (l.map (shiftp k)).foldl (fun acc p =>
        (acc.filter (fun q => decide (q.1.1 ≤ p.1.1))) ++ [p] ++
          (acc.filter (fun q => decide (p.1.1 < q.1.1)))) (acc.map (shiftp k)) =
      (l.foldl (fun acc p =>
        (acc.filter (fun q => decide (q.1.1 ≤ p.1.1))) ++ [p] ++
          (acc.filter (fun q => decide (p.1.1 < q.1.1)))) acc).map (shiftp k) from h []
  induction l with
  | nil => intro acc; rfl
  | cons p ps ih =>
    intro acc
    rw [List.map_cons, List.foldl_cons, List.foldl_cons, sortPairs_step_shift, ih]

/-! ### the extracted series -/

theorem recessionSeries_shift (db : Loaded Rat) (k : Int) (l : List (Int × Int)) :
    recessionSeries (db.shift k) (l.map (shiftq k)) =
      (recessionSeries db l).map (fun s => (s.1 + k, s.2.map (fun p => (p.1 + (k : Rat), p.2)))) := by
  unfold recessionSeries
  rw [List.map_map, List.map_map]
  apply List.map_congr_left
  intro q _
  show ((q.1 + k),
      (((db.level.map (fun z => (z.1 + k, z.2))).filter
        (fun z => decide (q.1 + k ≤ z.1) && decide (z.1 ≤ q.2 + k))).map
          (fun z => ((Num.ofInt z.1 : Rat), z.2)))) =
    (q.1 + k, ((db.level.filter (fun z => decide (q.1 ≤ z.1) && decide (z.1 ≤ q.2))).map
      (fun z => ((Num.ofInt z.1 : Rat), z.2))).map (fun p => (p.1 + (k : Rat), p.2)))
  congr 1
  rw [List.filter_map, List.map_map, List.map_map]
  have e1 : ((fun z : Int × Rat => decide (q.1 + k ≤ z.1) && decide (z.1 ≤ q.2 + k)) ∘
      (fun z : Int × Rat => (z.1 + k, z.2))) =
      (fun z => decide (q.1 ≤ z.1) && decide (z.1 ≤ q.2)) := by
    funext z
    show (decide (q.1 + k ≤ z.1 + k) && decide (z.1 + k ≤ q.2 + k)) =
      (decide (q.1 ≤ z.1) && decide (z.1 ≤ q.2))
    have a1 : decide (q.1 + k ≤ z.1 + k) = decide (q.1 ≤ z.1) := decide_eq_decide.mpr (by omega)
    have a2 : decide (z.1 + k ≤ q.2 + k) = decide (z.1 ≤ q.2) := decide_eq_decide.mpr (by omega)
    rw [a1, a2]
  rw [e1]
  apply List.map_congr_left
  intro z _
  show (((z.1 + k : Int) : Rat), z.2) = ((z.1 : Rat) + (k : Rat), z.2)
  rw [Int.cast_add]

theorem levelAt_shift (db : Loaded Rat) (k e : Int) :
    levelAt (db.shift k) (e + k) = levelAt db e := by
  unfold levelAt
  show (((db.level.map (fun z => (z.1 + k, z.2))).find? (fun z => z.1 == e + k)).map (·.2)) = _
  rw [List.find?_map, Option.map_map]
  have e1 : ((fun z : Int × Rat => z.1 == e + k) ∘ (fun z : Int × Rat => (z.1 + k, z.2))) =
      (fun z => z.1 == e) := by
    funext z
    show (z.1 + k == e + k) = (z.1 == e)
    rw [Bool.eq_iff_iff, beq_iff_eq, beq_iff_eq]
    omega
  rw [e1]
  rfl

theorem totalRainDepth_shift (db : Loaded Rat) (k : Int) (st : Int × Int) :
    totalRainDepth (db.shift k) (st.1 + k, st.2 + k) = totalRainDepth db st := by
  unfold totalRainDepth
  show Num.sum (((db.rain.map (fun r => (r.1 + k, r.2.1 + k, r.2.2))).filter
      (fun r => decide (st.1 + k ≤ r.1) && decide (r.2.1 ≤ st.2 + k))).map
        (fun r => Num.div (Num.mul r.2.2 (Num.ofInt (r.2.1 - r.1))) (Num.ofInt 3600))) = _
  rw [List.filter_map, List.map_map]
  have e1 : ((fun r : Int × Int × Rat => decide (st.1 + k ≤ r.1) && decide (r.2.1 ≤ st.2 + k)) ∘
      (fun r : Int × Int × Rat => (r.1 + k, r.2.1 + k, r.2.2))) =
      (fun r => decide (st.1 ≤ r.1) && decide (r.2.1 ≤ st.2)) := by
    funext r
    show (decide (st.1 + k ≤ r.1 + k) && decide (r.2.1 + k ≤ st.2 + k)) =
      (decide (st.1 ≤ r.1) && decide (r.2.1 ≤ st.2))
    have a1 : decide (st.1 + k ≤ r.1 + k) = decide (st.1 ≤ r.1) := decide_eq_decide.mpr (by omega)
    have a2 : decide (r.2.1 + k ≤ st.2 + k) = decide (r.2.1 ≤ st.2) := decide_eq_decide.mpr (by omega)
    rw [a1, a2]
  have e2 : ((fun r : Int × Int × Rat =>
        (Num.div (Num.mul r.2.2 (Num.ofInt (r.2.1 - r.1))) (Num.ofInt 3600) : Rat)) ∘
      (fun r : Int × Int × Rat => (r.1 + k, r.2.1 + k, r.2.2))) =
      (fun r => Num.div (Num.mul r.2.2 (Num.ofInt (r.2.1 - r.1))) (Num.ofInt 3600)) := by
    funext r
    show (Num.div (Num.mul r.2.2 (Num.ofInt (r.2.1 + k - (r.1 + k)))) (Num.ofInt 3600) : Rat) = _
    have : r.2.1 + k - (r.1 + k) = r.2.1 - r.1 := by omega
    rw [this]
  rw [e1, e2]

theorem riseSeries_shift (db : Loaded Rat) (k : Int) (l : List ((Int × Int) × (Int × Int))) :
    riseSeries (db.shift k) (l.map (shiftp k)) =
      (riseSeries db l).map (fun s => (s.1 + k, s.2)) := by
  unfold riseSeries
  rw [List.filterMap_map, List.map_filterMap]
  apply List.filterMap_congr
  intro p _
  simp only [Function.comp_apply, shiftp]
  rw [levelAt_shift, levelAt_shift, totalRainDepth_shift]
  cases levelAt db p.2.1 <;> cases levelAt db p.2.2 <;> rfl

/-! ### the tables: only the keys move -/

theorem getD_map_shift (keys : List Int) (k : Int) (i : Nat) (h : i < keys.length) :
    (keys.map (fun e => e + k)).getD i 0 = keys.getD i 0 + k := by
  rw [List.getD_eq_getElem?_getD, List.getD_eq_getElem?_getD, List.getElem?_map,
    List.getElem?_eq_getElem h]
  rfl

theorem tablesOf_shift {step : Rat} {S : List (List (Rat × Rat))} {a : Aligned Rat}
    (ht : Traced step S a) (keys : List Int) (hlen : keys.length = S.length) (k : Int) :
    tablesOf (keys.map (fun e => e + k)) a =
      { intervals := (tablesOf keys a).intervals.map (fun r => (r.1 + k, r.2))
        crossings := (tablesOf keys a).crossings.map (fun c => (c.1 + k, c.2))
        master := (tablesOf keys a).master } := by
  unfold tablesOf
  simp only []
  have hidx : ∀ hl ∈ a.mapping, ∀ st ∈ hl.2, st.1 < keys.length := by
    intro hl hhl st hst
    obtain ⟨_, _, _, hoff⟩ := ht.entries hl hhl st hst
    rw [hlen]
    exact ht.offs _ hoff
  congr 1
  · rw [List.map_map]
    apply List.map_congr_left
    intro p hp
    have hlt : p.1 < keys.length := by
      rw [hlen]; exact ht.offs p.1 (List.mem_map_of_mem hp)
    show ((keys.map (fun e => e + k)).getD p.1 0, p.2) = (keys.getD p.1 0 + k, p.2)
    rw [getD_map_shift keys k p.1 hlt]
  · rw [List.map_flatMap]
    rw [List.flatMap_def, List.flatMap_def]
    congr 1
    apply List.map_congr_left
    intro hl hhl
    rw [List.map_map]
    apply List.map_congr_left
    intro st hst
    show ((keys.map (fun e => e + k)).getD st.1 0, hl.1, st.2) = (keys.getD st.1 0 + k, hl.1, st.2)
    rw [getD_map_shift keys k st.1 (hidx hl hhl st hst)]

theorem curveOf_shift (step : Rat) (ref : Option Rat) (series series' : List (Int × List (Rat × Rat)))
    (k : Int) (hkeys : series'.map (·.1) = (series.map (·.1)).map (fun e => e + k))
    (hasm : assemble step (series'.map (·.2)) ref = assemble step (series.map (·.2)) ref) :
    curveOf step ref series' =
      (curveOf step ref series).map (fun t =>
        { intervals := t.intervals.map (fun r => (r.1 + k, r.2))
          crossings := t.crossings.map (fun c => (c.1 + k, c.2))
          master := t.master }) := by
  unfold curveOf
  rw [hasm, hkeys]
  cases h : assemble step (series.map (·.2)) ref with
  | error e => rfl
  | ok a =>
    have ht := assemble_traced h
    show Except.ok (tablesOf ((series.map (·.1)).map (fun e => e + k)) a) = Except.ok _
    rw [tablesOf_shift ht (series.map (·.1)) (by simp) k]

end CS
end Spowtd
