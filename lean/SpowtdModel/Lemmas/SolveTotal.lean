import SpowtdModel.Lemmas.LeastSquaresProofs
import SpowtdModel.Lemmas.GaussJordan
import Mathlib.Data.List.Perm.Basic
/-
  Completeness of `solveOffsets` (Props/C05Total): on a proper, connected, non-empty mapping the
  stationarity equations with the last series pinned to 0 have only the zero homogeneous solution,
  so the elimination finds every pivot (Lemmas/GaussJordan) and the final check passes.
-/
namespace Spowtd
namespace LS

/-! ### the rows of `equationOf` -/

/-- number of entries of series `u` at a level -/
def cnt (l : List (Nat × Rat)) (u : Nat) : Rat := ((l.filter (fun st => st.1 == u)).length : Rat)

/-- contribution of one level to the coefficient of `u` in the equation of `s` -/
def lcoef (l : List (Nat × Rat)) (s u : Nat) : Rat :=
  if (seriesAt l).contains s then
    (if u == s then cnt l s else 0) - cnt l s * cnt l u / (l.length : Rat)
  else 0

def coefOf (m : Mapping Rat) (s u : Nat) : Rat := (m.map (fun hl => lcoef hl.2 s u)).sum

theorem equationOf_fst (m : Mapping Rat) (us : List Nat) (s : Nat) :
    (equationOf m us s).1 = us.map (coefOf m s) := by
  simp only [equationOf, num_sum, num_sub, num_div, num_mul, num_ofInt,
    Int.cast_natCast, Int.cast_zero]
  rfl

theorem equationOf_snd (m : Mapping Rat) (us : List Nat) (s : Nat) :
    (equationOf m us s).2 = - residualSum m (fun _ => 0) s := by
  rw [residualSum_eq]
  have h1 : (equationOf m us s).2 = (m.map (fun hl => (-1 : Rat) * lres (fun _ => 0) hl.2 s)).sum := by
    simp only [equationOf, num_sum, num_sub]
    apply sum_map_congr
    intro hl _
    unfold lres
    rw [← sum_map_mul_left']
    apply sum_map_congr
    intro st _
    have : levelMean (fun _ => (0 : Rat)) hl.2 = mean (hl.2.map (·.2)) := by
      simp only [levelMean, num_add, zero_add]
    rw [this]; ring
  rw [h1, sum_map_mul_left']; ring

theorem seriesAt_zeroed (l : List (Nat × Rat)) : seriesAt (zeroed l) = seriesAt l := by
  simp [seriesAt, zeroed, List.map_map, Function.comp_def]

theorem filter_fst (l : List (Nat × Rat)) (s : Nat) (st : Nat × Rat)
    (h : st ∈ l.filter (fun st => st.1 == s)) : st.1 = s := by
  have := (List.mem_filter.1 h).2
  simpa using this

theorem lres_zeroed (y : Nat → Rat) (l : List (Nat × Rat)) (s : Nat) :
    lres y (zeroed l) s = cnt l s * (y s - levelMean y (zeroed l)) := by
  unfold lres
  generalize levelMean y (zeroed l) = μ
  unfold zeroed cnt
  rw [List.filter_map, List.map_map, ← sum_map_const]
  apply sum_map_congr
  intro st hst
  have : st.1 = s := filter_fst l s st hst
  simp only [Function.comp_def, this]; ring

/-- the residual sum splits into its part linear in `y` and its value at 0 -/
theorem lres_split (y : Nat → Rat) (l : List (Nat × Rat)) (s : Nat) :
    lres y l s = lres y (zeroed l) s + lres (fun _ => 0) l s := by
  rw [lres_zeroed]
  unfold lres cnt
  have hm := levelMean_add (fun _ => 0) y l
  have : (fun s => y s - (fun _ => (0 : Rat)) s) = y := by funext t; simp
  rw [this] at hm
  rw [hm]
  generalize levelMean (fun _ => (0 : Rat)) l = μ
  generalize levelMean y (zeroed l) = δ
  rw [← sum_map_const, ← sum_map_add']
  apply sum_map_congr
  intro st hst
  have : st.1 = s := filter_fst l s st hst
  rw [this]; ring

theorem residualSum_zeroedM (m : Mapping Rat) (y : Nat → Rat) (s : Nat) :
    residualSum (zeroedM m) y s = (m.map (fun hl => lres y (zeroed hl.2) s)).sum := by
  rw [residualSum_eq, zeroedM, List.map_map]
  rfl

theorem residualSum_split (m : Mapping Rat) (y : Nat → Rat) (s : Nat) :
    residualSum m y s = residualSum (zeroedM m) y s + residualSum m (fun _ => 0) s := by
  rw [residualSum_zeroedM, residualSum_eq, residualSum_eq, ← sum_map_add']
  apply sum_map_congr
  intro hl _
  exact lres_split y hl.2 s

/-- a sum over the entries of a level, regrouped by series -/
theorem count_sum (S : List Nat) (hS : S.Nodup) (y : Nat → Rat) (l : List (Nat × Rat))
    (hl : ∀ st ∈ l, st.1 ∈ S) :
    (l.map (fun st => y st.1)).sum = (S.map (fun u => y u * cnt l u)).sum := by
  have := regroup S hS y (fun _ => 1) l hl
  simp only [one_mul] at this
  rw [this]
  apply sum_map_congr
  intro u _
  rw [sum_map_const]; unfold cnt; ring

theorem lcoef_sum (us : List Nat) (ref : Nat) (hS : (us ++ [ref]).Nodup) (y : Nat → Rat)
    (href : y ref = 0) (l : List (Nat × Rat)) (hl : ∀ st ∈ l, st.1 ∈ us ++ [ref])
    (s : Nat) (hs : s ∈ us) :
    (us.map (fun u => y u * lcoef l s u)).sum = lres y (zeroed l) s := by
  by_cases hin : s ∈ seriesAt l
  · have hc : (seriesAt l).contains s = true := by simpa using hin
    have hus : us.Nodup := (List.nodup_append.1 hS).1
    have hT : (us.map (fun u => y u * cnt l u)).sum = (l.map (fun st => y st.1)).sum := by
      rw [count_sum (us ++ [ref]) hS y l hl, List.map_append, List.sum_append]
      simp [href]
    have h1 : ∀ u ∈ us, y u * lcoef l s u =
        (if s = u then (fun u => cnt l s * y u) u else 0)
          + (- cnt l s / (l.length : Rat)) * (y u * cnt l u) := by
      intro u _
      unfold lcoef
      rw [if_pos hc]
      by_cases hsu : s = u
      · subst hsu; simp; ring
      · have : (u == s) = false := by simpa using (fun h : u = s => hsu h.symm)
        simp [hsu, this]; ring
    rw [sum_map_congr _ _ _ h1, sum_map_add', sum_indicator us hus s hs, sum_map_mul_left', hT,
      lres_zeroed, levelMean_zeroed]
    ring
  · have hc : ¬ (seriesAt l).contains s = true := by simpa using hin
    rw [lres_not_mem y (zeroed l) s (by rw [seriesAt_zeroed]; exact hin)]
    refine (sum_map_congr _ _ (fun _ => (0 : Rat)) ?_).trans (sum_map_zero _)
    intro u _
    unfold lcoef
    rw [if_neg hc, mul_zero]

/-- the left-hand side of the equation of `s` at `y` is the residual sum with the crossing
    values set to 0 -/
theorem coef_sum (m : Mapping Rat) (us : List Nat) (ref : Nat) (hS : (us ++ [ref]).Nodup)
    (hall : ∀ hl ∈ m, ∀ st ∈ hl.2, st.1 ∈ us ++ [ref]) (y : Nat → Rat) (href : y ref = 0)
    (s : Nat) (hs : s ∈ us) :
    (us.map (fun u => coefOf m s u * y u)).sum = residualSum (zeroedM m) y s := by
  rw [residualSum_zeroedM]
  have h1 : ∀ u ∈ us, coefOf m s u * y u = y u * (m.map (fun hl => lcoef hl.2 s u)).sum := by
    intro u _; unfold coefOf; ring
  rw [sum_map_congr _ _ _ h1, ← sum_swap m us (fun hl u => lcoef hl.2 s u) y]
  apply sum_map_congr
  intro hl hmem
  exact lcoef_sum us ref hS y href hl.2 (hall hl hmem) s hs

/-! ### the residual sums add up to zero -/

theorem residualSum_total (m : Mapping Rat) (x : Nat → Rat) :
    ((seriesOf m).map (fun s => residualSum m x s)).sum = 0 := by
  have h := cross_regroup m x (fun _ => 1)
  simp only [mul_one, one_mul] at h
  rw [← h]
  refine (sum_map_congr _ _ (fun _ => (0 : Rat)) ?_).trans (sum_map_zero _)
  intro hl _
  exact level_res_sum x hl.2

theorem seriesOf_zeroedM (m : Mapping Rat) : seriesOf (zeroedM m) = seriesOf m := by
  unfold seriesOf zeroedM
  rw [List.foldl_map]
  simp only [seriesAt_zeroed]

/-- if the residual sums of all series but one vanish, so does the last one -/
theorem stationary_of_unknowns (m : Mapping Rat) (us : List Nat) (ref : Nat)
    (hS : (us ++ [ref]).Nodup) (hmem : ∀ s, s ∈ us ++ [ref] ↔ s ∈ seriesOf m)
    (y : Nat → Rat) (h : ∀ s ∈ us, residualSum m y s = 0) : Stationary m y := by
  have hperm : (seriesOf m).Perm (us ++ [ref]) :=
    (List.perm_ext_iff_of_nodup (nodup_seriesOf m) hS).2 (fun a => (hmem a).symm)
  have htot := residualSum_total m y
  rw [(hperm.map _).sum_eq, List.map_append, List.sum_append] at htot
  have h0 : (us.map (fun s => residualSum m y s)).sum = 0 := by
    refine (sum_map_congr _ _ (fun _ => (0 : Rat)) ?_).trans (sum_map_zero _)
    intro s hs
    exact h s hs
  rw [h0] at htot
  simp only [List.map_cons, List.map_nil, List.sum_cons, List.sum_nil, zero_add, add_zero] at htot
  intro s
  by_cases hs : s ∈ seriesOf m
  · rcases List.mem_append.1 ((hmem s).2 hs) with h' | h'
    · exact h s h'
    · rw [List.mem_singleton.1 h']; exact htot
  · exact residualSum_not_mem m y s hs

/-! ### the homogeneous equations have only the zero solution -/

theorem objective_zeroedM_zero (m : Mapping Rat) : objective (zeroedM m) (fun _ => 0) = 0 := by
  rw [objective_eq, zeroedM, List.map_map]
  refine (sum_map_congr _ _ (fun _ => (0 : Rat)) ?_).trans (sum_map_zero _)
  intro hl _
  simp only [Function.comp_def]
  rw [lobj_zeroed]
  have : levelMean (fun _ => (0 : Rat)) (zeroed hl.2) = 0 := by
    rw [levelMean_zeroed, sum_map_zero, zero_div]
  rw [this]
  refine (sum_map_congr _ _ (fun _ => (0 : Rat)) ?_).trans (sum_map_zero _)
  intro st _
  ring

theorem const_of_stationary_zeroed (m : Mapping Rat) (hc : Connected m) (y : Nat → Rat)
    (h : Stationary (zeroedM m) y) : ∀ s ∈ seriesOf m, ∀ t ∈ seriesOf m, y s = y t := by
  have h1 := stationary_le (zeroedM m) y h (fun _ => 0)
  rw [objective_zeroedM_zero] at h1
  have h2 := objective_nonneg (zeroedM m) y
  have h3 : objective (zeroedM m) y = spread m y := objective_zeroed m y
  have hsp : spread m y = 0 := by rw [← h3]; linarith
  intro s hs t ht
  exact chain_const m y hsp s t (hc s hs t ht)

/-! ### reading the solution column back as offsets -/

theorem lookup_zip (us : List Nat) (hnd : us.Nodup) (rest : List (Nat × Rat)) :
    ∀ (xs : List Rat), xs.length = us.length → ∀ j (hj : j < us.length),
      lookup (List.zip us xs ++ rest) us[j] = xs.getD j 0 := by
  induction us with
  | nil => intro xs _ j hj; cases hj
  | cons u us ih =>
    intro xs hl j hj
    cases xs with
    | nil => simp at hl
    | cons x xs =>
      have hu : u ∉ us := (List.nodup_cons.1 hnd).1
      cases j with
      | zero => simp [lookup]
      | succ j =>
        have hj' : j < us.length := by simpa using hj
        have hne : (u == us[j]) = false := by
          have : u ≠ us[j] := fun h => hu (h ▸ List.getElem_mem hj')
          simpa using this
        have := ih (List.nodup_cons.1 hnd).2 xs (by simpa using hl) j hj'
        unfold lookup at this ⊢
        simp only [List.zip_cons_cons, List.cons_append, List.getElem_cons_succ, List.find?_cons, hne,
          List.getD_cons_succ]
        exact this

/-! ### the solver -/

/-- the core of the statement, with `us ++ [ref]` a duplicate-free listing of the series -/
theorem solve_core (m : Mapping Rat) (hc : Connected m) (us : List Nat) (ref : Nat)
    (hS : (us ++ [ref]).Nodup) (hmem : ∀ s, s ∈ us ++ [ref] ↔ s ∈ seriesOf m) :
    ∃ xs, gaussJordan us.length [] (us.map (equationOf m us)) = some xs ∧
      Stationary m (lookup (List.zip us xs ++ [(ref, (Num.ofInt 0 : Rat))])) := by
  have hall : ∀ hl ∈ m, ∀ st ∈ hl.2, st.1 ∈ us ++ [ref] :=
    fun hl h st hst => (hmem _).2 (mem_seriesOf_of_mem m hl h st hst)
  have hrefnot : ref ∉ us := by
    intro hin
    exact (List.nodup_append.1 hS).2.2 ref hin ref (List.mem_singleton.2 rfl) rfl
  have hmemZ : ∀ s, s ∈ us ++ [ref] ↔ s ∈ seriesOf (zeroedM m) := by
    rw [seriesOf_zeroedM]; exact hmem
  have hrefS : ref ∈ seriesOf m := (hmem ref).1 (by simp)
  have hrows : ∀ r ∈ us.map (equationOf m us), r.1.length = us.length := by
    intro r hr
    obtain ⟨s, _, rfl⟩ := List.mem_map.1 hr
    rw [equationOf_fst, List.length_map]
  have hker : ∀ x : Nat → Rat, (∀ r ∈ us.map (equationOf m us), GJ.dot us.length r.1 x = 0) →
      ∀ j < us.length, x j = 0 := by
    intro x hx j hj
    have hyref := lookup_pinned us ((List.range us.length).map x) ref hrefnot
    have hy : ∀ j (hj : j < us.length),
        x j = lookup (List.zip us ((List.range us.length).map x) ++ [(ref, (Num.ofInt 0 : Rat))]) us[j] := by
      intro j hj
      rw [lookup_zip us (List.nodup_append.1 hS).1 _ _ (by simp) j hj,
        GJ.getD_lt _ _ _ (by simpa using hj)]
      simp
    generalize lookup (List.zip us ((List.range us.length).map x) ++ [(ref, (Num.ofInt 0 : Rat))]) = y
      at hyref hy
    have hres : ∀ s ∈ us, residualSum (zeroedM m) y s = 0 := by
      intro s hs
      have := hx (equationOf m us s) (List.mem_map.2 ⟨s, hs, rfl⟩)
      rw [equationOf_fst, GJ.dot_map us (coefOf m s) y x hy, coef_sum m us ref hS hall y hyref s hs] at this
      exact this
    have hst := stationary_of_unknowns (zeroedM m) us ref hS hmemZ y hres
    have hconst := const_of_stationary_zeroed m hc y hst
    rw [hy j hj, hconst us[j] ((hmem _).1 (List.mem_append_left _ (List.getElem_mem hj))) ref hrefS, hyref]
  obtain ⟨xs, hgj, hlen, hsat⟩ :=
    GJ.gaussJordan_complete us.length (us.map (equationOf m us)) (by simp) hrows hker
  refine ⟨xs, hgj, ?_⟩
  have hyref := lookup_pinned us xs ref hrefnot
  have hy : ∀ j (hj : j < us.length),
      (fun j => xs.getD j 0) j = lookup (List.zip us xs ++ [(ref, (Num.ofInt 0 : Rat))]) us[j] := by
    intro j hj
    rw [lookup_zip us (List.nodup_append.1 hS).1 _ xs hlen j hj]
  generalize lookup (List.zip us xs ++ [(ref, (Num.ofInt 0 : Rat))]) = y at hyref hy ⊢
  apply stationary_of_unknowns m us ref hS hmem y
  intro s hs
  have := hsat (equationOf m us s) (List.mem_map.2 ⟨s, hs, rfl⟩)
  rw [equationOf_fst, GJ.dot_map us (coefOf m s) y _ hy, coef_sum m us ref hS hall y hyref s hs,
    equationOf_snd] at this
  rw [residualSum_split, this]; ring

theorem seriesOf_ne_nil (m : Mapping Rat) (hm : ProperMapping m) (hne : m ≠ []) : seriesOf m ≠ [] := by
  cases m with
  | nil => exact absurd rfl hne
  | cons hl m =>
    have h1 := (hm hl (List.mem_cons_self ..)).1
    cases hl2 : hl.2 with
    | nil => exact absurd hl2 h1
    | cons st l =>
      have : st.1 ∈ seriesOf (hl :: m) :=
        mem_seriesOf_of_mem (hl :: m) hl (List.mem_cons_self ..) st (by rw [hl2]; exact List.mem_cons_self ..)
      intro h0
      rw [h0] at this
      cases this

theorem solveOffsets_total (m : Mapping Rat) (hm : ProperMapping m) (hne : m ≠ []) (hc : Connected m) :
    ∃ sol, solveOffsets m = .ok sol := by
  unfold solveOffsets
  dsimp only
  generalize hI : List.foldl _ [] (seriesOf m) = ids
  have hI' : (seriesOf m).foldl insStep [] = ids := hI
  have hmem : ∀ x, x ∈ ids ↔ x ∈ seriesOf m := by
    intro x; rw [← hI', mem_insFold]; simp
  have hnd : ids.Nodup := by
    rw [← hI']
    exact nodup_insFold _ _ List.nodup_nil (nodup_seriesOf m) (fun _ _ h => by cases h)
  clear hI hI'
  have hidsne : ids ≠ [] := by
    intro h0
    apply seriesOf_ne_nil m hm hne
    cases hs : seriesOf m with
    | nil => rfl
    | cons a l =>
      have : a ∈ ids := (hmem a).2 (by rw [hs]; exact List.mem_cons_self ..)
      rw [h0] at this
      cases this
  cases hlast : ids.getLast? with
  | none => exact absurd (List.getLast?_eq_none_iff.1 hlast) hidsne
  | some ref =>
    dsimp only
    have hsplit : ids.dropLast ++ [ref] = ids :=
      List.dropLast_append_getLast? ref (by rw [hlast]; rfl)
    obtain ⟨xs, hgj, hst⟩ := solve_core m hc ids.dropLast ref (by rw [hsplit]; exact hnd)
      (by rw [hsplit]; exact hmem)
    rw [hgj]
    dsimp only
    have hall : ids.all (fun s => isZero (residualSum m
        (lookup (List.zip ids.dropLast xs ++ [(ref, (Num.ofInt 0 : Rat))])) s)) = true := by
      rw [List.all_eq_true]
      intro s _
      exact (isZero_iff _).2 (hst s)
    rw [if_pos hall]
    exact ⟨_, rfl⟩

end LS
end Spowtd
