import SpowtdModel.Model.Load
/-
  Helper lemmas for Props/C10.lean and Props/C11.lean:
  duplicates, insertion sort by epoch, minimum, lookup by epoch, and their invariance under
  permutation of the rows.
-/
namespace Spowtd
variable {α : Type}

/-! ### duplicates -/

theorem hasDup_eq_false_iff (l : List Int) : hasDup l = false ↔ l.Nodup := by
  induction l with
  | nil => simp [hasDup]
  | cons x xs ih =>
    simp only [hasDup, Bool.or_eq_false_iff, ih, List.nodup_cons]
    constructor
    · rintro ⟨h1, h2⟩
      exact ⟨by simpa using h1, h2⟩
    · rintro ⟨h1, h2⟩
      exact ⟨by simpa using h1, h2⟩

theorem hasDup_perm {l l' : List Int} (h : l.Perm l') : hasDup l = hasDup l' := by
  have h1 := hasDup_eq_false_iff l
  have h2 := hasDup_eq_false_iff l'
  have h3 := h.nodup_iff
  cases e : hasDup l <;> cases e' : hasDup l' <;> simp_all

/-- rows with distinct epochs are determined by their epoch -/
theorem eq_of_key_eq {l : List (Int × α)} (hn : (l.map (·.1)).Nodup) {a b : Int × α}
    (ha : a ∈ l) (hb : b ∈ l) (hab : a.1 = b.1) : a = b := by
  induction l with
  | nil => cases ha
  | cons x xs ih =>
    simp only [List.map_cons, List.nodup_cons, List.mem_map, not_exists, not_and] at hn
    rcases List.mem_cons.mp ha with rfl | ha'
    · rcases List.mem_cons.mp hb with rfl | hb'
      · rfl
      · exact absurd hab.symm (hn.1 b hb')
    · rcases List.mem_cons.mp hb with rfl | hb'
      · exact absurd hab (hn.1 a ha')
      · exact ih hn.2 ha' hb'

/-! ### insertion sort -/

theorem insertRow_perm (x : Int × α) (l : List (Int × α)) : (insertRow x l).Perm (x :: l) := by
  induction l with
  | nil => exact List.Perm.refl _
  | cons y ys ih =>
    simp only [insertRow]
    split
    · exact List.Perm.refl _
    · exact ((List.Perm.cons y ih).trans (List.Perm.swap x y ys))

theorem sortRows_perm (l : List (Int × α)) : (sortRows l).Perm l := by
  induction l with
  | nil => exact List.Perm.refl _
  | cons x xs ih =>
    show (insertRow x (sortRows xs)).Perm (x :: xs)
    exact (insertRow_perm x _).trans (List.Perm.cons x ih)

theorem mem_sortRows {l : List (Int × α)} {r : Int × α} : r ∈ sortRows l ↔ r ∈ l :=
  (sortRows_perm l).mem_iff

theorem insertRow_sorted (x : Int × α) (l : List (Int × α))
    (h : l.Pairwise (fun a b => a.1 ≤ b.1)) : (insertRow x l).Pairwise (fun a b => a.1 ≤ b.1) := by
  induction l with
  | nil => simp [insertRow]
  | cons y ys ih =>
    have hy := List.pairwise_cons.mp h
    simp only [insertRow]
    split
    · rename_i hxy
      refine List.pairwise_cons.mpr ⟨?_, h⟩
      intro b hb
      rcases List.mem_cons.mp hb with rfl | hb'
      · exact hxy
      · exact Int.le_trans hxy (hy.1 b hb')
    · rename_i hxy
      refine List.pairwise_cons.mpr ⟨?_, ih hy.2⟩
      intro b hb
      rcases List.mem_cons.mp ((insertRow_perm x ys).mem_iff.mp hb) with rfl | hb'
      · omega
      · exact hy.1 b hb'

theorem sortRows_sorted (l : List (Int × α)) : (sortRows l).Pairwise (fun a b => a.1 ≤ b.1) := by
  induction l with
  | nil => exact List.Pairwise.nil
  | cons x xs ih => exact insertRow_sorted x _ ih

theorem sortRows_keys_perm (l : List (Int × α)) : ((sortRows l).map (·.1)).Perm (l.map (·.1)) :=
  (sortRows_perm l).map _

theorem sortRows_keys_sorted (l : List (Int × α)) :
    ((sortRows l).map (·.1)).Pairwise (· ≤ ·) :=
  List.pairwise_map.mpr (sortRows_sorted l)

theorem sortRows_keys_strict (l : List (Int × α)) (hn : (l.map (·.1)).Nodup) :
    ((sortRows l).map (·.1)).Pairwise (· < ·) := by
  have h1 := sortRows_keys_sorted l
  have h2 : ((sortRows l).map (·.1)).Pairwise (· ≠ ·) :=
    List.nodup_iff_pairwise_ne.mp ((sortRows_keys_perm l).nodup_iff.mpr hn)
  exact (h1.and h2).imp (fun {a b} h => by omega)

theorem sortRows_eq_of_perm {l l' : List (Int × α)} (h : l.Perm l') (hn : (l.map (·.1)).Nodup) :
    sortRows l = sortRows l' := by
  refine List.Perm.eq_of_pairwise (le := fun a b => a.1 ≤ b.1) ?_ (sortRows_sorted l)
    (sortRows_sorted l') (((sortRows_perm l).trans h).trans (sortRows_perm l').symm)
  intro a b ha hb h1 h2
  exact eq_of_key_eq hn (mem_sortRows.mp ha) (h.mem_iff.mpr (mem_sortRows.mp hb)) (by omega)

/-! ### minimum -/

theorem foldl_min_spec (xs : List Int) (x : Int) :
    let r := xs.foldl (fun m y => if y < m then y else m) x
    (r = x ∨ r ∈ xs) ∧ r ≤ x ∧ ∀ y ∈ xs, r ≤ y := by
  induction xs generalizing x with
  | nil => simp
  | cons y ys ih =>
    simp only [List.foldl_cons]
    by_cases hyx : y < x
    · simp only [hyx, ↓reduceIte]
      obtain ⟨h1, h2, h3⟩ := ih y
      refine ⟨?_, by omega, ?_⟩
      · right
        rcases h1 with h1 | h1
        · rw [h1]; exact List.mem_cons_self
        · exact List.mem_cons_of_mem _ h1
      · intro z hz
        rcases List.mem_cons.mp hz with rfl | hz'
        · exact h2
        · exact h3 z hz'
    · simp only [hyx, ↓reduceIte]
      obtain ⟨h1, h2, h3⟩ := ih x
      refine ⟨?_, h2, ?_⟩
      · rcases h1 with h1 | h1
        · left; exact h1
        · right; exact List.mem_cons_of_mem _ h1
      · intro z hz
        rcases List.mem_cons.mp hz with rfl | hz'
        · omega
        · exact h3 z hz'

theorem minOf_eq_none_iff (l : List Int) : minOf l = none ↔ l = [] := by
  cases l <;> simp [minOf]

theorem minOf_spec {l : List Int} {m : Int} (h : minOf l = some m) : m ∈ l ∧ ∀ x ∈ l, m ≤ x := by
  cases l with
  | nil => simp [minOf] at h
  | cons x xs =>
    simp only [minOf, Option.some.injEq] at h
    have := foldl_min_spec xs x
    simp only [h] at this
    obtain ⟨h1, h2, h3⟩ := this
    refine ⟨?_, ?_⟩
    · rcases h1 with h1 | h1
      · rw [h1]; exact List.mem_cons_self
      · exact List.mem_cons_of_mem _ h1
    · intro y hy
      rcases List.mem_cons.mp hy with rfl | hy'
      · exact h2
      · exact h3 y hy'

theorem minOf_eq_some_iff {l : List Int} {m : Int} :
    minOf l = some m ↔ m ∈ l ∧ ∀ x ∈ l, m ≤ x := by
  constructor
  · exact minOf_spec
  · rintro ⟨h1, h2⟩
    cases e : minOf l with
    | none => rw [(minOf_eq_none_iff l).mp e] at h1; cases h1
    | some m' =>
      have := minOf_spec e
      have a := this.2 m h1
      have b := h2 m' this.1
      have : m' = m := by omega
      rw [this]

theorem minOf_perm {l l' : List Int} (h : l.Perm l') : minOf l = minOf l' := by
  cases e : minOf l' with
  | none =>
    have := (minOf_eq_none_iff l').mp e
    subst this
    rw [h.eq_nil]; rfl
  | some m =>
    have := minOf_spec e
    exact minOf_eq_some_iff.mpr ⟨h.mem_iff.mpr this.1, fun x hx => this.2 x (h.mem_iff.mp hx)⟩

/-! ### lookup by epoch -/

theorem find?_key {l : List (Int × α)} (hn : (l.map (·.1)).Nodup) {r : Int × α} (hr : r ∈ l) :
    l.find? (fun x => x.1 == r.1) = some r := by
  cases e : l.find? (fun x => x.1 == r.1) with
  | none =>
    have := List.find?_eq_none.mp e r hr
    simp at this
  | some r' =>
    have h1 := List.mem_of_find?_eq_some e
    have h2 := List.find?_some e
    simp only [beq_iff_eq] at h2
    rw [eq_of_key_eq hn h1 hr h2]

theorem find?_key_eq_some_iff {l : List (Int × α)} (hn : (l.map (·.1)).Nodup) {e : Int}
    {r : Int × α} : l.find? (fun x => x.1 == e) = some r ↔ r ∈ l ∧ r.1 = e := by
  constructor
  · intro h
    have h2 := List.find?_some h
    simp only [beq_iff_eq] at h2
    exact ⟨List.mem_of_find?_eq_some h, h2⟩
  · rintro ⟨h1, rfl⟩
    exact find?_key hn h1

theorem find?_key_perm {l l' : List (Int × α)} (h : l.Perm l') (hn : (l.map (·.1)).Nodup)
    (e : Int) : l.find? (fun x => x.1 == e) = l'.find? (fun x => x.1 == e) := by
  have hn' : (l'.map (·.1)).Nodup := (h.map _).nodup_iff.mp hn
  cases e1 : l.find? (fun x => x.1 == e) with
  | none =>
    symm
    rw [List.find?_eq_none] at e1 ⊢
    intro x hx
    exact e1 x (h.mem_iff.mpr hx)
  | some r =>
    have := (find?_key_eq_some_iff hn).mp e1
    exact ((find?_key_eq_some_iff hn').mpr ⟨h.mem_iff.mp this.1, this.2⟩).symm

end Spowtd
