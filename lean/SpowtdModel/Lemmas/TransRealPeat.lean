import SpowtdModel.Lemmas.TransReal
/- Helper lemmas for Props/C16: PEATCLSM tables over `ℝ`. -/
namespace Spowtd
namespace TR
open Classical

/-! ### `tPeatclsm` -/

theorem tPeatclsm_eq (K0 alpha zmax z : ℝ) :
    tPeatclsm K0 alpha zmax z =
      if zmax < z / 10 then .error .aboveMax
      else .ok (K0 * (zmax - z / 10) ^ (1 - alpha) / (100 * (alpha - 1))) := by
  simp only [tPeatclsm, lt_iff, ofInt_eq, sub_eq, mul_eq, div_eq, pow_eq]
  norm_num

/-! ### `campbell` -/

theorem campbell_eq (Fs z zlu thetaS psiS b : ℝ) :
    campbell Fs z zlu thetaS psiS b =
      (1 - Fs) * (if psiS * 100 ≤ (zlu - z) * 100 then thetaS
        else thetaS * ((zlu - z) * 100 / (psiS * 100)) ^ (-1 / b)) := by
  simp only [campbell, le_iff, ofInt_eq, sub_eq, mul_eq, div_eq, neg_eq, pow_eq]
  norm_num

theorem campbell_bounds (Fs z zlu thetaS psiS b : ℝ) (hF : 0 ≤ Fs ∧ Fs ≤ 1) (ht : 0 ≤ thetaS)
    (hp : psiS < 0) (hb : 0 < b) :
    0 ≤ campbell Fs z zlu thetaS psiS b ∧ campbell Fs z zlu thetaS psiS b ≤ (1 - Fs) * thetaS := by
  rw [campbell_eq]
  have hF' : 0 ≤ 1 - Fs := by linarith [hF.2]
  by_cases h : psiS * 100 ≤ (zlu - z) * 100
  · rw [if_pos h]
    exact ⟨mul_nonneg hF' ht, le_rfl⟩
  · rw [if_neg h]
    have hs : psiS * 100 < 0 := by linarith
    have hh : (zlu - z) * 100 < psiS * 100 := not_le.1 h
    have hratio : 1 ≤ (zlu - z) * 100 / (psiS * 100) := by
      rw [le_div_iff_of_neg hs]; linarith
    have hexp : -1 / b ≤ 0 := by
      apply div_nonpos_of_nonpos_of_nonneg <;> linarith
    have hle : ((zlu - z) * 100 / (psiS * 100)) ^ (-1 / b) ≤ 1 :=
      Real.rpow_le_one_of_one_le_of_nonpos hratio hexp
    have hpos : 0 < ((zlu - z) * 100 / (psiS * 100)) ^ (-1 / b) :=
      Real.rpow_pos_of_pos (by linarith) _
    constructor
    · exact mul_nonneg hF' (mul_nonneg ht hpos.le)
    · apply mul_le_mul_of_nonneg_left _ hF'
      calc thetaS * ((zlu - z) * 100 / (psiS * 100)) ^ (-1 / b) ≤ thetaS * 1 :=
            mul_le_mul_of_nonneg_left hle ht
        _ = thetaS := mul_one _

/-! ### `linspace` -/

theorem linspace_length (s e : ℝ) (n : Nat) : (linspace s e n).length = n := by
  simp [linspace]

theorem linspace_getElem? (s e : ℝ) (n i : Nat) (hi : i < n) :
    (linspace s e n)[i]? =
      some (if i + 1 = n then e else (i : ℝ) * ((e - s) / ((n - 1 : Nat) : ℝ)) + s) := by
  simp only [linspace, List.getElem?_map, List.getElem?_range hi, Option.map_some, beq_iff_eq,
    ofInt_eq, add_eq, sub_eq, mul_eq, div_eq, Int.cast_natCast]

theorem sySoil_length (zl zu Fs : List ℝ) (thetaS psiS b : ℝ) (n : Nat) :
    (sySoil zl zu Fs thetaS psiS b n).length = min zl.length zu.length := by
  simp [sySoil]

theorem peatclsmKnots_fst (cdf : List ℝ) (thetaS psiS b : ℝ) (ncell i : Nat)
    (hc : cdf.length = 201) (hi : i < 201) :
    ((peatclsmKnots cdf thetaS psiS b ncell).map (·.1))[i]? = some (-995 + 10 * (i : ℝ)) := by
  unfold peatclsmKnots
  simp only []
  rw [show (fun x : ℝ × ℝ => x.1) = Prod.fst from rfl, List.map_fst_zip]
  · rw [List.getElem?_zipWith, linspace_getElem? _ _ _ _ hi, linspace_getElem? _ _ _ _ hi]
    simp only [ofInt_eq, add_eq, mul_eq, div_eq, neg_eq]
    have h200 : ((201 - 1 : ℕ) : ℝ) = 200 := by norm_num
    rw [h200]
    by_cases h : i + 1 = 201
    · have hi' : i = 200 := by omega
      subst hi'
      norm_num
    · rw [if_neg h, if_neg h]
      congr 1
      push_cast
      ring
  · simp only [List.length_zipWith, linspace_length, sySoil_length, hc]
    simp

/-! ### `sySoil`: one more cell -/

theorem sySoil_getD_succ (zl zu Fs : List ℝ) (thetaS psiS b : ℝ) (N n i : Nat)
    (h1 : zl.length = N) (h2 : zu.length = N) (h3 : Fs.length = N) (hi : i < N) (hn : n < N) :
    (sySoil zl zu Fs thetaS psiS b (n + 1)).getD i 0 - (sySoil zl zu Fs thetaS psiS b n).getD i 0 =
      1 / (1 * (zu.getD i 0 - zl.getD i 0)) *
        ((zu.getD n 0 - zl.getD n 0) *
          (campbell (Fs.getD n 0) (1 / 2 * (zl.getD n 0 + zu.getD n 0)) (zu.getD i 0) thetaS psiS b -
           campbell (Fs.getD n 0) (1 / 2 * (zl.getD n 0 + zu.getD n 0)) (zl.getD i 0) thetaS psiS b)) := by
  have eli : zl[i]? = some (zl[i]'(by omega)) := List.getElem?_eq_getElem _
  have eui : zu[i]? = some (zu[i]'(by omega)) := List.getElem?_eq_getElem _
  have eln : zl[n]? = some (zl[n]'(by omega)) := List.getElem?_eq_getElem _
  have eun : zu[n]? = some (zu[n]'(by omega)) := List.getElem?_eq_getElem _
  have efn : Fs[n]? = some (Fs[n]'(by omega)) := List.getElem?_eq_getElem _
  generalize zl[i]'(by omega) = li at eli
  generalize zu[i]'(by omega) = ui at eui
  generalize zl[n]'(by omega) = ln at eln
  generalize zu[n]'(by omega) = un at eun
  generalize Fs[n]'(by omega) = fn at efn
  simp only [sySoil, List.getD_eq_getElem?_getD, List.getElem?_map, List.zip_eq_zipWith,
    List.getElem?_zipWith, List.take_add_one, eli, eui, eln, eun, efn, Option.map_some,
    Option.getD_some, Option.toList_some, List.foldl_append, List.foldl_cons, List.foldl_nil,
    ofInt_eq, add_eq, sub_eq, mul_eq, div_eq]
  push_cast
  ring

end TR
end Spowtd
