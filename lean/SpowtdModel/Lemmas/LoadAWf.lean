import SpowtdModel.Lemmas.LoadAIvs
import SpowtdModel.Lemmas.LoadAZone
/-
  Helper lemmas for Props/C10.lean: the record produced by an accepted `load` is well formed.
-/
namespace Spowtd
variable {α : Type}

theorem filterMap_ite_eq_filter {β : Type} (Q : β → Bool) (L : List β) :
    L.filterMap (fun g => if Q g = true then some g else none) = L.filter Q := by
  induction L with
  | nil => rfl
  | cons x xs ih =>
    cases h : Q x
    · rw [List.filterMap_cons_none (by simp [h]), List.filter_cons_of_neg (by simp [h]), ih]
    · rw [List.filterMap_cons_some (b := x) (by simp [h]), List.filter_cons_of_pos h, ih]

theorem loadIvs_sep (f : Files α) (dt : Int) (hn : (f.level.map (·.1)).Nodup) :
    (loadIvs f dt).Pairwise (fun a b => a.2.1 < b.1) := by
  obtain ⟨h1, h2⟩ := gapsOf_props _ (sortRows_keys_strict f.level hn)
  exact validIntervals_sep _ _ _ h1 h2

theorem loadIvs_nodup (f : Files α) (dt : Int) : ((loadIvs f dt).map (·.2.2)).Nodup :=
  validIntervals_labels_nodup _ _ _

variable [Num α]

theorem loadResult_grid (f : Files α) (dt : Int) :
    (loadResult f dt).grid =
      (gridCore f.rain f.level ++ [(gridCore f.rain f.level).getLastD 0 + dt]).map
        (fun g => (g, labelOf (loadIvs f dt) g)) := rfl

theorem loadResult_level_key_iff (f : Files α) (dt : Int) (g : Int) :
    (∃ z ∈ (loadResult f dt).level, z.1 = g) ↔
      g ∈ gridCore f.rain f.level ∧ (labelOf (loadIvs f dt) g).isSome = true ∧
        (interp (sortRows f.level) g).isSome = true := by
  have hl : (loadResult f dt).level = (gridCore f.rain f.level).filterMap (fun g =>
      match labelOf (loadIvs f dt) g, interp (sortRows f.level) g with
      | some _, some v => some (g, v)
      | _, _ => none) := rfl
  rw [hl]
  constructor
  · rintro ⟨z, hz, rfl⟩
    obtain ⟨e, he, h⟩ := List.mem_filterMap.mp hz
    split at h
    · rename_i l v h1 h2
      simp only [Option.some.injEq] at h
      subst h
      exact ⟨he, by rw [h1]; rfl, by rw [h2]; rfl⟩
    · cases h
  · rintro ⟨h1, h2, h3⟩
    obtain ⟨l, hl'⟩ := Option.isSome_iff_exists.mp h2
    obtain ⟨v, hv⟩ := Option.isSome_iff_exists.mp h3
    refine ⟨(g, v), List.mem_filterMap.mpr ⟨g, h1, ?_⟩, rfl⟩
    rw [hl', hv]

theorem loadResult_rain_key_iff (f : Files α) (dt : Int) (hn : (f.rain.map (·.1)).Nodup) (g : Int) :
    (∃ r ∈ (loadResult f dt).rain, r.1 = g) ↔ g ∈ gridCore f.rain f.level := by
  have hr : (loadResult f dt).rain = copyRows (gridCore f.rain f.level) dt f.rain := rfl
  rw [hr]
  constructor
  · rintro ⟨⟨a, b, v⟩, hr, rfl⟩
    exact ((mem_copyRows hn).mp hr).1
  · intro hg
    obtain ⟨v, hv⟩ := ((gridCore_mem_iff _ _ g).mp hg).1
    exact ⟨(g, g + dt, v), (mem_copyRows hn).mpr ⟨hg, rfl, hv⟩, rfl⟩

theorem samplesOf_loadResult_fst (f : Files α) (dt : Int) (l : Nat) :
    (samplesOf (loadResult f dt) l).map (·.1) =
      (gridCore f.rain f.level ++ [(gridCore f.rain f.level).getLastD 0 + dt]).filter (fun g =>
        (labelOf (loadIvs f dt) g == some l) &&
        ((loadResult f dt).rain.find? (fun r => r.1 == g)).isSome &&
        ((loadResult f dt).level.find? (fun z => z.1 == g)).isSome) := by
  rw [← filterMap_ite_eq_filter]
  unfold samplesOf
  rw [List.map_filterMap, loadResult_grid, List.filterMap_map]
  congr 1
  funext g
  simp only [Function.comp_apply]
  cases hlab : (labelOf (loadIvs f dt) g == some l)
  · simp
  · cases (loadResult f dt).rain.find? (fun r => r.1 == g) <;>
      cases (loadResult f dt).level.find? (fun z => z.1 == g) <;> simp

theorem loadResult_wf (f : Files α) (dt : Int) (hnr : (f.rain.map (·.1)).Nodup)
    (hnz : (f.level.map (·.1)).Nodup) (hs : stepOf (gridCore f.rain f.level) = some dt)
    (hne : (loadResult f dt).level ≠ []) : wellFormedLoadedB (loadResult f dt) = true := by
  obtain ⟨hpos, hstep, hinc⟩ := grid_facts f dt hnr hs
  have hsep := loadIvs_sep f dt hnz
  have hnd := loadIvs_nodup f dt
  have hpw := (increasingB_iff_pairwise _).mp hinc
  have hclosing : ∀ g ∈ gridCore f.rain f.level,
      g < (gridCore f.rain f.level).getLastD 0 + dt := fun g hg =>
    (List.pairwise_append.mp hpw).2.2 g hg _ (List.mem_singleton.mpr rfl)
  unfold wellFormedLoadedB
  simp only [Bool.and_eq_true]
  refine ⟨⟨⟨⟨?_, ?_⟩, ?_⟩, ?_⟩, ?_⟩
  · exact decide_eq_true hpos
  · rw [loadResult_grid_fst]; exact hinc
  · -- some labelled instant carries a level
    obtain ⟨z, hz⟩ := List.exists_mem_of_ne_nil _ hne
    obtain ⟨h1, h2, _⟩ := (loadResult_level_key_iff f dt z.1).mp ⟨z, hz, rfl⟩
    obtain ⟨l, hl⟩ := Option.isSome_iff_exists.mp h2
    have hmem : l ∈ labelsOf (loadResult f dt) := by
      unfold labelsOf
      rw [mem_dedupFold]
      right
      refine List.mem_filterMap.mpr ⟨(z.1, some l), ?_, ?_⟩
      · rw [loadResult_grid]
        exact List.mem_map.mpr ⟨z.1, List.mem_append_left _ h1, by rw [hl]⟩
      · have : (loadResult f dt).level.any (fun z' => z'.1 == z.1) = true :=
          List.any_eq_true.mpr ⟨z, hz, by simp⟩
        rw [if_pos this]
    cases hL : labelsOf (loadResult f dt) with
    | nil => rw [hL] at hmem; cases hmem
    | cons _ _ => rfl
  · -- every instant with a level has a rain step
    rw [List.all_eq_true]
    intro row _
    cases hlev : (loadResult f dt).level.any (fun z => z.1 == row.1) with
    | false => rfl
    | true =>
      obtain ⟨z, hz, hz'⟩ := List.any_eq_true.mp hlev
      simp only [beq_iff_eq] at hz'
      have hcore := ((loadResult_level_key_iff f dt row.1).mp ⟨z, hz, hz'⟩).1
      obtain ⟨r, hr, hr'⟩ := (loadResult_rain_key_iff f dt hnr row.1).mpr hcore
      have : (loadResult f dt).rain.any (fun r => r.1 == row.1) = true :=
        List.any_eq_true.mpr ⟨r, hr, by simp [hr']⟩
      rw [this]
      rfl
  · -- the samples of every stretch are one step apart
    rw [List.all_eq_true]
    intro l _
    rw [samplesOf_loadResult_fst]
    refine steppedB_filter_convex dt _ _ hstep hpw ?_
    intro x _ y hy z _ hxy hyz hQx hQz
    simp only [Bool.and_eq_true, beq_iff_eq] at hQx hQz ⊢
    obtain ⟨r, hr, hr'⟩ := List.find?_isSome.mp hQz.1.2
    simp only [beq_iff_eq] at hr'
    have hzc : z ∈ gridCore f.rain f.level := (loadResult_rain_key_iff f dt hnr z).mp ⟨r, hr, hr'⟩
    have hyc : y ∈ gridCore f.rain f.level := by
      rcases List.mem_append.mp hy with h | h
      · exact h
      · have := hclosing z hzc
        rw [List.mem_singleton.mp h] at hyz
        omega
    have hlab : labelOf (loadIvs f dt) y = some l :=
      labelOf_convex hsep hnd (Int.le_of_lt hxy) (Int.le_of_lt hyz) hQx.1.1 hQz.1.1
    have hym := (gridCore_mem_iff _ _ y).mp hyc
    refine ⟨⟨hlab, ?_⟩, ?_⟩
    · obtain ⟨r', hr1, hr2⟩ := (loadResult_rain_key_iff f dt hnr y).mpr hyc
      exact List.find?_isSome.mpr ⟨r', hr1, by simp [hr2]⟩
    · obtain ⟨z', hz1, hz2⟩ := (loadResult_level_key_iff f dt y).mpr
        ⟨hyc, by rw [hlab]; rfl, interp_sortRows_isSome f.level y hym.2.1 hym.2.2⟩
      exact List.find?_isSome.mpr ⟨z', hz1, by simp [hz2]⟩

theorem load_wf {f : Files α} {d : Loaded α} (h : load f false = .ok d) (hne : d.level ≠ []) :
    wellFormedLoadedB d = true := by
  obtain ⟨_, h2, h3, _, h5⟩ := load_ok_inv h
  obtain ⟨hnr, _, hnz⟩ := (dupCheck_eq_false_iff f).mp h2
  have hne' : (loadResult f d.step).level ≠ [] := by rw [← h5]; exact hne
  have key := loadResult_wf f d.step hnr hnz h3 hne'
  rw [← h5] at key
  exact key

end Spowtd
