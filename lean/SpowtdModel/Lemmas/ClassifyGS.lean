import SpowtdModel.Lemmas.ClassifyBasic
import SpowtdModel.Props.C02
/-
  Index-level facts about the storm/rise pairing of one stretch: the arbitration problem built
  from two run lists is well formed, and the recorded pairs are read off a final reachable
  state of the deferred-acceptance loop.
-/
namespace Spowtd
open GS

/-! ### the problem built from two run lists -/

theorem mem_problemOf_storms (storms rises : List (Nat × Nat)) (s : Nat) :
    s ∈ (problemOf storms rises).storms ↔
      ∃ st ∈ storms, (∃ ri ∈ rises, overlaps st ri = true) ∧ st.1 = s := by
  show s ∈ (storms.filter (fun st => rises.any (fun ri => overlaps st ri))).map (·.1) ↔ _
  simp only [List.mem_map, List.mem_filter, List.any_eq_true]
  constructor
  · rintro ⟨st, ⟨h1, h2⟩, h3⟩; exact ⟨st, h1, h2, h3⟩
  · rintro ⟨st, h1, h2, h3⟩; exact ⟨st, ⟨h1, h2⟩, h3⟩

theorem mem_problemOf_rises (storms rises : List (Nat × Nat)) (r : Nat) :
    r ∈ (problemOf storms rises).rises ↔
      ∃ ri ∈ rises, (∃ st ∈ storms, overlaps st ri = true) ∧ ri.1 = r := by
  show r ∈ (rises.filter (fun ri => storms.any (fun st => overlaps st ri))).map (·.1) ↔ _
  simp only [List.mem_map, List.mem_filter, List.any_eq_true]
  constructor
  · rintro ⟨st, ⟨h1, h2⟩, h3⟩; exact ⟨st, h1, h2, h3⟩
  · rintro ⟨st, h1, h2, h3⟩; exact ⟨st, ⟨h1, h2⟩, h3⟩

theorem problemOf_prefs_eq (storms rises : List (Nat × Nat)) (a : Nat) :
    (problemOf storms rises).prefs a =
      (sortByKey (fun c => stormScore (runWithStart storms a) (runWithStart rises c))
        ((rises.filter (fun ri => overlaps (runWithStart storms a) ri)).map (·.1))).reverse := rfl

theorem problemOf_score_eq (storms rises : List (Nat × Nat)) (c a : Nat) :
    (problemOf storms rises).score c a =
      riseScore (runWithStart rises c) (runWithStart storms a) := rfl

theorem mem_problemOf_prefs (storms rises : List (Nat × Nat)) (a r : Nat) :
    r ∈ (problemOf storms rises).prefs a ↔
      ∃ ri ∈ rises, overlaps (runWithStart storms a) ri = true ∧ ri.1 = r := by
  rw [problemOf_prefs_eq, List.mem_reverse, (sortByKey_perm _ _).mem_iff]
  simp only [List.mem_map, List.mem_filter]
  constructor
  · rintro ⟨ri, ⟨h1, h2⟩, h3⟩; exact ⟨ri, h1, h2, h3⟩
  · rintro ⟨ri, h1, h2, h3⟩; exact ⟨ri, ⟨h1, h2⟩, h3⟩

theorem problemOf_sorted' (storms rises : List (Nat × Nat)) (a r r' : Nat)
    (h : GS.Before ((problemOf storms rises).prefs a) r r') :
    stormScore (runWithStart storms a) (runWithStart rises r') ≤
      stormScore (runWithStart storms a) (runWithStart rises r) := by
  obtain ⟨pre, mid, post, h⟩ := h
  rw [problemOf_prefs_eq] at h
  exact sortByKey_reverse_before
    (fun c => stormScore (runWithStart storms a) (runWithStart rises c)) _ h

theorem starts_nodup_of_sublist (v : List Bool) (l : List (Nat × Nat))
    (h : l.Sublist (trueRuns v)) : (l.map (·.1)).Nodup := by
  have h0 : (trueRuns v).Pairwise (fun a b => a.1 ≠ b.1) :=
    (trueRuns_nodup' v).imp_of_mem (fun ha hb hne e => hne (trueRuns_start_inj' v _ _ ha hb e))
  exact List.pairwise_map.2 (h0.sublist h)

theorem candidates_iff_overlap' (v w : List Bool) (st ri : Nat × Nat)
    (hs : st ∈ trueRuns v) (hr : ri ∈ trueRuns w) :
    ri.1 ∈ (problemOf (trueRuns v) (trueRuns w)).prefs st.1 ↔ overlaps st ri = true := by
  rw [mem_problemOf_prefs, runWithStart_trueRuns v st hs]
  constructor
  · rintro ⟨ri', h1, h2, h3⟩
    rw [← trueRuns_start_inj' w ri' ri h1 hr h3]
    exact h2
  · intro h
    exact ⟨ri, hr, h, rfl⟩

theorem problemOf_wf' (v w : List Bool) : GS.WF (problemOf (trueRuns v) (trueRuns w)) where
  storms_nodup := starts_nodup_of_sublist v _ List.filter_sublist
  rises_nodup := starts_nodup_of_sublist w _ List.filter_sublist
  prefs_nodup := by
    intro a
    rw [problemOf_prefs_eq, (List.reverse_perm _).nodup_iff, (sortByKey_perm _ _).nodup_iff]
    exact starts_nodup_of_sublist w _ List.filter_sublist
  prefs_rises := by
    intro a r hr
    obtain ⟨ri, h1, h2, h3⟩ := (mem_problemOf_prefs _ _ a r).1 hr
    refine (mem_problemOf_rises _ _ r).2 ⟨ri, h1, ⟨runWithStart (trueRuns v) a, ?_, h2⟩, h3⟩
    apply runWithStart_mem
    apply Classical.byContradiction
    intro hne
    have : runWithStart (trueRuns v) a = (a, a) :=
      runWithStart_default _ _ (fun r hr e => hne ⟨r, hr, e⟩)
    rw [this, overlaps_default] at h2
    cases h2

/-! ### reading the matching off a state -/

theorem mem_matchingOf (P : Problem) (st : State) (r s : Nat) :
    (r, s) ∈ matchingOf P st ↔ r ∈ P.rises ∧ st.held r = some s := by
  unfold matchingOf
  rw [List.mem_filterMap]
  constructor
  · rintro ⟨a, ha, h⟩
    cases hh : st.held a with
    | none => rw [hh] at h; cases h
    | some s' =>
      rw [hh] at h
      simp only [Option.map_some, Option.some.injEq, Prod.mk.injEq] at h
      obtain ⟨rfl, rfl⟩ := h
      exact ⟨ha, hh⟩
  · rintro ⟨h1, h2⟩
    exact ⟨r, h1, by rw [h2]; rfl⟩

theorem matchingOf_pairwise (P : Problem) (hP : WF P) {st : State} (h : Reach P st) :
    (matchingOf P st).Pairwise (fun p q => p.1 ≠ q.1 ∧ p.2 ≠ q.2) := by
  unfold matchingOf
  refine List.Pairwise.filterMap _ ?_ hP.rises_nodup
  intro a a' hne b hb b' hb'
  cases hh : st.held a with
  | none => rw [hh] at hb; cases hb
  | some s =>
    cases hh' : st.held a' with
    | none => rw [hh'] at hb'; cases hb'
    | some s' =>
      rw [hh] at hb; rw [hh'] at hb'
      simp only [Option.map_some, Option.some.injEq] at hb hb'
      subst hb; subst hb'
      refine ⟨hne, ?_⟩
      intro e
      simp only at e
      subst e
      exact hne ((gs_matching P hP h).2 a a' s hh hh')

/-- the state in which the loop stops -/
def finalState (P : Problem) (pick : List Nat → Nat) : State := run P pick (fuel P) (init P)

theorem finalState_reach (P : Problem) (pick : List Nat → Nat) : Reach P (finalState P pick) :=
  run_reach P pick _ _ Reach.init

theorem finalState_free (P : Problem) (hP : WF P) (pick : List Nat → Nat) :
    (finalState P pick).free = [] := run_terminates P hP pick

/-! ### the recorded pairs of one stretch -/

/-- the `pairs` field of `classifyIdx`, for arbitrary boolean vectors -/
def idxPairs (pick : List Nat → Nat) (v w : List Bool) : List ((Nat × Nat) × (Nat × Nat)) :=
  (galeShapley (problemOf (trueRuns v) (trueRuns w)) pick).map
    (fun p => (runWithStart (trueRuns v) p.2, runWithStart (trueRuns w) p.1))

theorem classifyIdx_pairs {α : Type} [Num α] (pick : List Nat → Nat) (s j : α) (dt : Int)
    (zeta rain : List α) :
    (classifyIdx pick s j dt zeta rain).pairs = idxPairs pick (heavy s rain) (jumps j dt zeta) := rfl

theorem mem_idxPairs (pick : List Nat → Nat) (v w : List Bool) (p : (Nat × Nat) × (Nat × Nat)) :
    p ∈ idxPairs pick v w ↔
      ∃ r s, r ∈ (problemOf (trueRuns v) (trueRuns w)).rises ∧
        (finalState (problemOf (trueRuns v) (trueRuns w)) pick).held r = some s ∧
        p = (runWithStart (trueRuns v) s, runWithStart (trueRuns w) r) := by
  unfold idxPairs
  rw [List.mem_map]
  constructor
  · rintro ⟨⟨r, s⟩, hm, rfl⟩
    have := (mem_matchingOf _ _ r s).1 hm
    exact ⟨r, s, this.1, this.2, rfl⟩
  · rintro ⟨r, s, h1, h2, rfl⟩
    exact ⟨(r, s), (mem_matchingOf _ _ r s).2 ⟨h1, h2⟩, rfl⟩

theorem idxPairs_sound (pick : List Nat → Nat) (v w : List Bool) (p : (Nat × Nat) × (Nat × Nat))
    (hp : p ∈ idxPairs pick v w) :
    p.1 ∈ trueRuns v ∧ p.2 ∈ trueRuns w ∧ overlaps p.1 p.2 = true := by
  obtain ⟨r, s, hr, hh, rfl⟩ := (mem_idxPairs pick v w p).1 hp
  have hP := problemOf_wf' v w
  obtain ⟨hs, hpref⟩ := (gs_matching _ hP (finalState_reach _ pick)).1 r s hh
  obtain ⟨st, hst, _, rfl⟩ := (mem_problemOf_storms _ _ s).1 hs
  obtain ⟨ri, hri, _, rfl⟩ := (mem_problemOf_rises _ _ r).1 hr
  simp only [runWithStart_trueRuns v st hst, runWithStart_trueRuns w ri hri]
  exact ⟨hst, hri, (candidates_iff_overlap' v w st ri hst hri).1 hpref⟩

theorem mem_idxPairs_iff_held (pick : List Nat → Nat) (v w : List Bool) (st ri : Nat × Nat)
    (hs : st ∈ trueRuns v) (hr : ri ∈ trueRuns w) :
    (st, ri) ∈ idxPairs pick v w ↔
      (finalState (problemOf (trueRuns v) (trueRuns w)) pick).held ri.1 = some st.1 := by
  rw [mem_idxPairs]
  constructor
  · rintro ⟨r, s, _, hh, e⟩
    simp only [Prod.mk.injEq] at e
    have h1 : st.1 = s := by rw [e.1]; exact runWithStart_fst _ _
    have h2 : ri.1 = r := by rw [e.2]; exact runWithStart_fst _ _
    rw [h1, h2]; exact hh
  · intro hh
    have hP := problemOf_wf' v w
    obtain ⟨_, hpref⟩ := (gs_matching _ hP (finalState_reach _ pick)).1 _ _ hh
    exact ⟨ri.1, st.1, hP.prefs_rises _ _ hpref, hh,
      by rw [runWithStart_trueRuns v st hs, runWithStart_trueRuns w ri hr]⟩

theorem runWithStart_inj (runs : List (Nat × Nat)) (a b : Nat)
    (e : runWithStart runs a = runWithStart runs b) : a = b := by
  rw [← runWithStart_fst runs a, e, runWithStart_fst]

theorem idxPairs_nodup (pick : List Nat → Nat) (v w : List Bool) :
    ((idxPairs pick v w).map (·.1)).Nodup ∧ ((idxPairs pick v w).map (·.2)).Nodup := by
  have hP := problemOf_wf' v w
  have hpw := matchingOf_pairwise _ hP (finalState_reach (problemOf (trueRuns v) (trueRuns w)) pick)
  unfold idxPairs
  rw [List.map_map, List.map_map]
  constructor
  · refine List.pairwise_map.2 (hpw.imp ?_)
    intro p q h e
    exact h.2 (runWithStart_inj _ _ _ e)
  · refine List.pairwise_map.2 (hpw.imp ?_)
    intro p q h e
    exact h.1 (runWithStart_inj _ _ _ e)

theorem idxPairs_stable (pick : List Nat → Nat) (v w : List Bool) :
    ¬ ∃ st ∈ trueRuns v, ∃ ri ∈ trueRuns w,
      overlaps st ri = true ∧ (st, ri) ∉ idxPairs pick v w ∧
      ((∀ ri', (st, ri') ∉ idxPairs pick v w) ∨
        ∃ ri', (st, ri') ∈ idxPairs pick v w ∧ stormScore st ri' < stormScore st ri) ∧
      ((∀ st', (st', ri) ∉ idxPairs pick v w) ∨
        ∃ st', (st', ri) ∈ idxPairs pick v w ∧ riseScore ri st' < riseScore ri st) := by
  rintro ⟨st, hst, ri, hri, hov, hnot, hstorm, hrise⟩
  have hP := problemOf_wf' v w
  have hreach := finalState_reach (problemOf (trueRuns v) (trueRuns w)) pick
  have hfin := finalState_free _ hP pick
  have hmu := fun s r => muOf_iff _ hP hreach s r
  -- membership of a pair of genuine runs, in terms of `muOf`
  have hmem : ∀ st' ri', st' ∈ trueRuns v → ri' ∈ trueRuns w →
      ((st', ri') ∈ idxPairs pick v w ↔
        muOf (problemOf (trueRuns v) (trueRuns w)) (finalState (problemOf (trueRuns v) (trueRuns w)) pick) st'.1 = some ri'.1) := by
    intro st' ri' h1 h2
    rw [hmu]; exact mem_idxPairs_iff_held pick v w st' ri' h1 h2
  -- a matched storm start / rise start names a genuine run
  have hgen : ∀ s r, muOf (problemOf (trueRuns v) (trueRuns w)) (finalState (problemOf (trueRuns v) (trueRuns w)) pick) s = some r →
      (∃ st' ∈ trueRuns v, st'.1 = s) ∧ (∃ ri' ∈ trueRuns w, ri'.1 = r) := by
    intro s r h
    obtain ⟨h1, h2⟩ := (gs_matching _ hP hreach).1 r s ((hmu s r).1 h)
    obtain ⟨st', hst', _, e⟩ := (mem_problemOf_storms _ _ s).1 h1
    obtain ⟨ri', hri', _, e'⟩ := (mem_problemOf_rises _ _ r).1 (hP.prefs_rises _ _ h2)
    exact ⟨⟨st', hst', e⟩, ⟨ri', hri', e'⟩⟩
  refine gs_stable_scores _ hP
    (fun a c => stormScore (runWithStart (trueRuns v) a) (runWithStart (trueRuns w) c))
    (fun a r r' h => problemOf_sorted' _ _ a r r' h) hreach hfin
    ⟨st.1, ri.1, ?_, ?_, ?_, ?_, ?_⟩
  · exact (mem_problemOf_storms _ _ _).2 ⟨st, hst, ⟨ri, hri, hov⟩, rfl⟩
  · exact (candidates_iff_overlap' v w st ri hst hri).2 hov
  · intro h
    exact hnot ((hmem st ri hst hri).2 h)
  · rcases hstorm with hnone | ⟨ri', hin, hlt⟩
    · left
      cases hm : muOf (problemOf (trueRuns v) (trueRuns w)) (finalState (problemOf (trueRuns v) (trueRuns w)) pick) st.1 with
      | none => rfl
      | some r' =>
        obtain ⟨_, ri', hri', rfl⟩ := hgen _ _ hm
        exact absurd ((hmem st ri' hst hri').2 hm) (hnone ri')
    · right
      have hri' := (idxPairs_sound pick v w _ hin).2.1
      refine ⟨ri'.1, (hmem st ri' hst hri').1 hin, ?_⟩
      simp only [runWithStart_trueRuns v st hst, runWithStart_trueRuns w ri hri,
        runWithStart_trueRuns w ri' hri']
      exact hlt
  · rcases hrise with hnone | ⟨st', hin, hlt⟩
    · left
      intro s' hm
      obtain ⟨⟨st', hst', rfl⟩, _⟩ := hgen _ _ hm
      exact hnone st' ((hmem st' ri hst' hri).2 hm)
    · right
      have hst' := (idxPairs_sound pick v w _ hin).1
      refine ⟨st'.1, (hmem st' ri hst' hri).1 hin, ?_⟩
      simp only [problemOf_score_eq, runWithStart_trueRuns v st hst, runWithStart_trueRuns w ri hri,
        runWithStart_trueRuns v st' hst']
      exact hlt

/-- everything but `pairs` is independent of the schedule; `pairs` is under strictness -/
theorem classifyIdx_schedule_independent {α : Type} [Num α] (pick₁ pick₂ : List Nat → Nat)
    (s j : α) (dt : Int) (zeta rain : List α)
    (h : (classifyIdx pick₁ s j dt zeta rain).strict = true) :
    classifyIdx pick₁ s j dt zeta rain = classifyIdx pick₂ s j dt zeta rain := by
  have hP := problemOf_wf' (heavy s rain) (jumps j dt zeta)
  have hs : RiseStrict (problemOf (trueRuns (heavy s rain)) (trueRuns (jumps j dt zeta))) :=
    (riseStrictB_iff _ hP).1 h
  have := gs_order_independent _ hP hs pick₁ pick₂
  unfold classifyIdx
  simp only [this]

end Spowtd
